import AdeptModel.Generated.Engines
/-!
Special matrices (`adept::SpecialMatrix<Type,Engine,IsActive>`), property C17.

Hand-written on top of `AdeptModel/Generated/Engines.lean` (the engine policy structs, regenerated from
`include/adept/SpecialMatrix.h` by `translate/engines.py` on every run).  Transcribed here, from the class
`SpecialMatrix` in the same header and from `Array::assign_expression_` (include/adept/Array.h):

  resize, data_range, is_contiguous, operator()(i,j) const / non-const, T(), submatrix_on_diagonal,
  diag_vector, set_location_ / value_at_location_ / advance_location_ (how a special matrix is read when it
  is an operand of an expression), assign_expression_ / assign_inactive_scalar (how it is written when it
  is the target of a statement), and the row loop of `Array<2>::operator=(expression)`;
  data_range / is_aliased_ and the two paths of `operator=(Expression)` (temporary copy when the right-hand
  side is reported as aliased, in-place element-by-element traversal otherwise) for right-hand sides that
  read the target's own Storage object (`AExpr`, `SM.assignExpr`); the rank-1 counterpart of `Array.h` for
  `diag_vector` views (`VExpr`, `Vec.assignExpr`; correspondence only).
  the eight compound operators `operator+= -= *= /=` (expression and scalar right-hand sides:
  `*this = noalias(*this) OP rhs`; `AExpr.noalias`, `AExpr.bin`, `AExpr.binc`, `AExpr.dense`, `SM.compound`,
  `SM.compoundScalar`), and for ACTIVE matrices the statements recorded by `operator=(const Active<PType>&)`
  (`SM.assignActiveScalar`), `assign_inactive_scalar<true>` (`SM.recPassiveScalar`, `Stack::push_lhs_range`) and the
  active `assign_expression_` (`SM.recExpr`, `AExpr.grads` = `calc_gradient` / `Engine::push_rhs`).

Raw storage is a function `Int → Int` (element k of the `Storage` object) wrapped in a one-field structure (a bare
function type makes the compiled driver re-run a whole statement for every element read); `base` is
`data_ - storage start`.
Core Lean only (linked into the `adept_model` driver).
-/
namespace Adept.Special
open Adept.Engines

/-- raw storage: value of element k -/
structure Raw where
  get : Int → Int

instance : CoeFun Raw (fun _ => Int → Int) := ⟨Raw.get⟩

def Raw.set (d : Raw) (k v : Int) : Raw := ⟨fun x => if x = k then v else d x⟩

@[simp] theorem Raw.set_apply (d : Raw) (k v x : Int) : (d.set k v) x = if x = k then v else d x := rfl

/-- the members of a `SpecialMatrix` object -/
structure SM where
  e : Engine
  dim : Int        -- dimension_
  offset : Int     -- offset_
  base : Int := 0  -- data_ (relative to the start of the storage)
deriving Repr

namespace SM

/-- `SpecialMatrix(n)` / `resize(n)`: packed storage -/
def packed (e : Engine) (n : Int) : SM := { e := e, dim := n, offset := e.pack_offset n, base := 0 }

/-- length of `data_range` = `Engine::data_size(dimension_, offset_)` -/
def rawSize (m : SM) : Int := m.e.data_size m.dim m.offset

/-- `is_contiguous()` -/
def isContiguous (m : SM) : Bool := m.offset == m.e.pack_offset m.dim

/-- `operator()(i,j) const` -> `Engine::get_scalar<false>` -/
def get (m : SM) (d : Raw) (i j : Int) : Int :=
  match m.e.get_scalar i j m.dim m.offset with
  | some k => d (m.base + k)
  | none => 0

/-- `operator()(i,j)` (lvalue) -> `Engine::get_reference<IsActive>`: the raw element referred to,
    `none` = `index_out_of_bounds` -/
def ref (m : SM) (active : Bool) (i j : Int) : Option Int :=
  match (if active then m.e.get_reference_active i j m.dim m.offset else m.e.get_reference i j m.dim m.offset) with
  | some k => some (m.base + k)
  | none => none

/-- `T()`: same data, dimension and offset, `Engine::transpose_engine` -/
def T (m : SM) : SM := { m with e := m.e.transpose }

/-- `submatrix_on_diagonal(istart, iend)`; `none` = `index_out_of_bounds` -/
def sub (m : SM) (istart iend : Int) : Option SM :=
  if istart < 0 ∨ istart > iend ∨ iend ≥ m.dim then none
  else some { m with base := m.base + (m.offset + 1) * istart, dim := iend - istart + 1 }

/-- a rank-1 view: first element, length, stride -/
structure Vec where
  base : Int
  len : Int
  stride : Int
deriving Repr

/-- `diag_vector(offdiag)`; `none` = `index_out_of_bounds` from `check_upper_diag` / `check_lower_diag` -/
def diag (m : SM) (offdiag : Int) : Option Vec :=
  if offdiag ≥ 0 then
    if m.e.check_upper_diag offdiag then none
    else some { base := m.base + m.e.upper_offset m.dim m.offset offdiag, len := m.dim - offdiag, stride := m.offset + 1 }
  else
    if m.e.check_lower_diag offdiag then none
    else some { base := m.base + m.e.lower_offset m.dim m.offset offdiag, len := m.dim + offdiag, stride := m.offset + 1 }

/-! #### a special matrix as operand of an expression -/

/-- the slots of `ExpressionSize<NArrays>` owned by one special matrix: memory index + up to two extras -/
structure Loc where
  l0 : Int
  l1 : Int
  l2 : Int
deriving Repr

/-- `set_location_` : `index[MyArrayNum] = Engine::index(i,j,offset_)`, then `Engine::set_extras` -/
def setLocation (m : SM) (i j : Int) : Loc :=
  { l0 := m.e.index i j m.offset, l1 := m.e.set_extras_1 i m.offset, l2 := m.e.set_extras_2 i m.offset }

/-- `value_at_location_` -/
def valueAt (m : SM) (d : Raw) (l : Loc) : Int :=
  match m.e.value_at_location l.l0 l.l1 l.l2 with
  | some k => d (m.base + k)
  | none => 0

/-- `advance_location_` : `loc[MyArrayNum] += Engine::row_offset(offset_, loc)` -/
def advance (m : SM) (l : Loc) : Loc := { l with l0 := l.l0 + m.e.row_offset m.offset l.l0 l.l1 l.l2 }

/-- `n` successive `next_value` calls starting from location `l` -/
def rowFrom (m : SM) (d : Raw) (l : Loc) : Nat → List Int
  | 0 => []
  | n + 1 => m.valueAt d l :: m.rowFrom d (m.advance l) n

end SM

/-- the element-wise operations of the compound assignment operators (`Add`, `Subtract`, `Multiply`, `Divide` of
    include/adept/BinaryOperation.h) -/
inductive BinOp where
  | add | sub | mul | div
deriving Repr, DecidableEq

/-- values are integers: `div` is the C++ quotient wherever that quotient is an integer (the correspondence runs
    compare values of `/=` only there); every theorem about the compound operators holds for an arbitrary
    operation, so nothing depends on this choice -/
def BinOp.apply : BinOp → Int → Int → Int
  | .add, a, b => a + b
  | .sub, a, b => a - b
  | .mul, a, b => a * b
  | .div, a, b => a / b

/-- right-hand sides used by the correspondence runs: special matrices (with their storage), a dense
    `Matrix` given by its elements, multiplication by a scalar, element-wise sum, element-wise binary operation
    of two arrays (`bin`) and of an array and a scalar (`binc`) -/
inductive RExpr where
  | sm (m : SM) (d : Raw)
  | dense (f : Int → Int → Int)
  | scale (a : RExpr) (c : Int)
  | add (a b : RExpr)
  | bin (o : BinOp) (a b : RExpr)
  | binc (o : BinOp) (a : RExpr) (c : Int)

/-- `rhs.set_location((i,j0), ind)` followed by `n` calls of `rhs.next_value(ind)`.  Every leaf keeps its own
    slots of `ind`, so the lock-step traversal of the tree is the element-wise combination of the leaves' rows. -/
def RExpr.row : RExpr → Int → Int → Nat → List Int
  | .sm m d, i, j0, n => m.rowFrom d (m.setLocation i j0) n
  | .dense f, i, j0, n => (List.range n).map (fun (t : Nat) => f i (j0 + (t : Int)))
  | .scale a c, i, j0, n => (a.row i j0 n).map (· * c)
  | .add a b, i, j0, n => List.zipWith (· + ·) (a.row i j0 n) (b.row i j0 n)
  | .bin o a b, i, j0, n => List.zipWith o.apply (a.row i j0 n) (b.row i j0 n)
  | .binc o a c, i, j0, n => (a.row i j0 n).map (fun x => o.apply x c)

/-- `Matrix D(rhs)` / `D = rhs` for an n x n right-hand side: `Array::assign_expression_`, one
    `set_location((i,0))` per row and `n` `next_value`s; result row by row -/
def RExpr.toDense (r : RExpr) (n : Nat) : List Int :=
  (List.range n).flatMap (fun (i : Nat) => r.row (i : Int) 0 n)

namespace SM

/-- inner loop of `assign_expression_`: `data_[index] = rhs.next_value(ind); index += index_stride` -/
def assignRow (m : SM) : List Int → Int → Int → Raw → Raw
  | [], _, _, d => d
  | v :: vs, idx, stride, d => m.assignRow vs (idx + stride) stride (d.set (m.base + idx) v)

/-- body of the row loop of `assign_expression_<false,false>` for row `i` -/
def assignRowOf (m : SM) (rhs : RExpr) (d : Raw) (i : Nat) : Raw :=
  let i : Int := i
  let js := m.e.get_row_range_j_start i m.dim m.offset
  let je := m.e.get_row_range_j_end_plus_1 i m.dim m.offset
  m.assignRow (rhs.row i js (je - js).toNat) (m.e.get_row_range_index_start i m.dim m.offset)
    (m.e.get_row_range_index_stride i m.dim m.offset) d

/-- `SpecialMatrix::operator=(expression)` without aliasing (`assign_expression_<false,false>`);
    `operator=(scalar)` (`assign_inactive_scalar`) is the same loop with a constant right-hand side -/
def assign (m : SM) (rhs : RExpr) (d : Raw) : Raw :=
  (List.range m.dim.toNat).foldl (m.assignRowOf rhs) d

/-- dense view through `operator() const`, row by row -/
def view (m : SM) (d : Raw) : List Int :=
  (List.range m.dim.toNat).flatMap (fun (i : Nat) => (List.range m.dim.toNat).map (fun (j : Nat) => m.get d (i : Int) (j : Int)))

end SM

/-! #### right-hand sides that read the target's own storage (self-referential statements) -/

namespace SM

/-- `data_range(data_begin, data_end)`: `data_begin = data_` -/
def dataBegin (m : SM) : Int := m.base

/-- `data_range`: `data_end = data_ + Engine::data_size(dimension_, offset_) - 1` — a pointer AT the last
    element, not one past it -/
def dataEnd (m : SM) : Int := m.base + m.e.data_size m.dim m.offset - 1

/-- `SpecialMatrix::is_aliased_(mem1, mem2)`: `ptr_begin <= mem2 && ptr_end >= mem1` with
    `(ptr_begin, ptr_end) = data_range` (comparisons literal) -/
def isAliased (m : SM) (mem1 mem2 : Int) : Bool := decide (m.dataBegin ≤ mem2 ∧ m.dataEnd ≥ mem1)

end SM

/-- an expression whose special-matrix leaves are linked to the SAME Storage object as the target of the
    statement (they see every store of the running assignment).  A leaf carries its slots of the
    `ExpressionSize<NArrays> ind` cursor array. -/
inductive AExpr where
  | sm (m : SM) (l : SM.Loc)
  | scale (a : AExpr) (c : Int)
  | add (a b : AExpr)
  /-- a dense `Matrix` operand held in ANOTHER Storage object (never written by the statement), element (i,j) = `f i j`;
      its cursor is kept as (i,j) -/
  | dense (f : Int → Int → Int) (i j : Int)
  /-- `noalias(a)` (include/adept/noalias.h): `is_aliased` answers false, everything else is forwarded -/
  | noalias (a : AExpr)
  /-- `BinaryOperation<…,Op,…>` of two arrays -/
  | bin (o : BinOp) (a b : AExpr)
  /-- `BinaryOpWithScalar<…,Op,…>`: array `Op` scalar -/
  | binc (o : BinOp) (a : AExpr) (c : Int)

namespace AExpr

/-- `ExpressionSize<n_arrays> ind(0)` -/
def leaf (m : SM) : AExpr := .sm m { l0 := 0, l1 := 0, l2 := 0 }

/-- `Expression::is_aliased(mem1, mem2)`: `BinaryOperation` = `left || right`, `BinaryOpWithScalar` = the array
    operand, leaf = `SpecialMatrix::is_aliased_` -/
def isAliased : AExpr → Int → Int → Bool
  | .sm m _, mem1, mem2 => m.isAliased mem1 mem2
  | .scale a _, mem1, mem2 => a.isAliased mem1 mem2
  | .add a b, mem1, mem2 => a.isAliased mem1 mem2 || b.isAliased mem1 mem2
  | .dense _ _ _, _, _ => false     -- `Array::is_aliased_` of an array in another allocation
  | .noalias _, _, _ => false       -- `NoAlias::is_aliased_` returns false without asking its argument
  | .bin _ a b, mem1, mem2 => a.isAliased mem1 mem2 || b.isAliased mem1 mem2
  | .binc _ a _, mem1, mem2 => a.isAliased mem1 mem2

/-- `rhs.set_location(i, ind)` -/
def setLocation : AExpr → Int → Int → AExpr
  | .sm m _, i, j => .sm m (m.setLocation i j)
  | .scale a c, i, j => .scale (a.setLocation i j) c
  | .add a b, i, j => .add (a.setLocation i j) (b.setLocation i j)
  | .dense f _ _, i, j => .dense f i j
  | .noalias a, i, j => .noalias (a.setLocation i j)
  | .bin o a b, i, j => .bin o (a.setLocation i j) (b.setLocation i j)
  | .binc o a c, i, j => .binc o (a.setLocation i j) c

/-- the value part of `rhs.next_value(ind)` (`value_at_location_`), read from the storage as it is NOW -/
def value : AExpr → Raw → Int
  | .sm m l, d => m.valueAt d l
  | .scale a c, d => a.value d * c
  | .add a b, d => a.value d + b.value d
  | .dense f i j, _ => f i j
  | .noalias a, d => a.value d
  | .bin o a b, d => o.apply (a.value d) (b.value d)
  | .binc o a c, d => o.apply (a.value d) c

/-- the cursor part of `rhs.next_value(ind)` (`advance_location_`) -/
def advance : AExpr → AExpr
  | .sm m l => .sm m (m.advance l)
  | .scale a c => .scale a.advance c
  | .add a b => .add a.advance b.advance
  | .dense f i j => .dense f i (j + 1)
  | .noalias a => .noalias a.advance
  | .bin o a b => .bin o a.advance b.advance
  | .binc o a c => .binc o a.advance c

/-- the same expression evaluated over a fixed snapshot `d` of the storage -/
def bind : AExpr → Raw → RExpr
  | .sm m _, d => .sm m d
  | .scale a c, d => .scale (a.bind d) c
  | .add a b, d => .add (a.bind d) (b.bind d)
  | .dense f _ _, _ => .dense f
  | .noalias a, d => a.bind d
  | .bin o a b, d => .bin o (a.bind d) (b.bind d)
  | .binc o a c, d => .binc o (a.bind d) c

/-- the operations `rhs.next_value_and_gradient(stack, ind)` pushes at the current location when every special-matrix
    leaf is ACTIVE: `calc_gradient(stack, loc, multiplier)` — a leaf pushes `(multiplier, gradient_index() + loc)`
    exactly where `value_at_location` reads a stored element (`Engine::push_rhs` makes the same test), a sum
    forwards the multiplier to the left and then to the right operand, a product with a scalar multiplies it.
    Gradient indices are written as addresses: element k of a Storage object has gradient index
    `(gradient index of element 0) + k`, and the model identifies the two. -/
def grads : AExpr → Int → List (Int × Int)
  | .sm m l, mult =>
    match m.e.value_at_location l.l0 l.l1 l.l2 with
    | some k => [(mult, m.base + k)]
    | none => []
  | .scale a c, mult => a.grads (mult * c)
  | .add a b, mult => a.grads mult ++ b.grads mult
  | .dense _ _ _, _ => []
  | .noalias a, mult => a.grads mult
  | .bin .add a b, mult => a.grads mult ++ b.grads mult
  | .bin .sub a b, mult => a.grads mult ++ b.grads (-mult)
  | .bin _ _ _, _ => []          -- products and quotients of active arrays are not used in the correspondence runs
  | .binc .mul a c, mult => a.grads (mult * c)
  | .binc .div _ _, _ => []      -- not used
  | .binc _ a _, mult => a.grads mult

end AExpr

namespace SM

/-- inner loop of `assign_expression_` when the right-hand side reads the storage being written:
    `data_[index] = rhs.next_value(ind); index += index_stride`, `n` times -/
def assignRowIP (m : SM) : Nat → AExpr → Int → Int → Raw → Raw
  | 0, _, _, _, d => d
  | n + 1, rhs, idx, stride, d =>
    m.assignRowIP n rhs.advance (idx + stride) stride (d.set (m.base + idx) (rhs.value d))

/-- body of the row loop of `assign_expression_<false,false>` for row `i`: `get_row_range`, `rhs.set_location`,
    inner loop -/
def assignRowOfIP (m : SM) (rhs : AExpr) (d : Raw) (i : Nat) : Raw :=
  let i : Int := i
  let js := m.e.get_row_range_j_start i m.dim m.offset
  let je := m.e.get_row_range_j_end_plus_1 i m.dim m.offset
  m.assignRowIP (je - js).toNat (rhs.setLocation i js) (m.e.get_row_range_index_start i m.dim m.offset)
    (m.e.get_row_range_index_stride i m.dim m.offset) d

/-- `assign_expression_<false,false>(rhs)` in place -/
def assignInPlace (m : SM) (rhs : AExpr) (d : Raw) : Raw :=
  (List.range m.dim.toNat).foldl (m.assignRowOfIP rhs) d

/-- `SpecialMatrix::operator=(const Expression&)` (ADEPT_NO_ALIAS_CHECKING not defined):
    `data_range(ptr_begin, ptr_end); if (rhs.is_aliased(ptr_begin, ptr_end)) { SpecialMatrix copy; copy = rhs;
    assign_expression_(copy); } else assign_expression_(rhs);`
    `copy` is an empty matrix of the target's type: `copy = rhs` resizes it to packed storage in a fresh Storage
    object (so this inner statement is never aliased and nothing it writes is read back by `rhs`), then the target
    is assigned from `copy`. -/
def assignExpr (m : SM) (rhs : AExpr) (d : Raw) : Raw :=
  if rhs.isAliased m.dataBegin m.dataEnd then
    let c := SM.packed m.e m.dim
    let dc := c.assign (rhs.bind d) ⟨fun _ => 0⟩
    m.assign (.sm c dc) d
  else
    m.assignInPlace rhs d

/-- the compound operators with an expression on the right: `operator+=`, `-=`, `*=`, `/=`
    (`return *this = (noalias(*this) OP rhs);`) -/
def compound (m : SM) (o : BinOp) (rhs : AExpr) (d : Raw) : Raw :=
  m.assignExpr (.bin o (.noalias (.leaf m)) rhs) d

/-- the compound operators with a passive scalar on the right (`return *this = (noalias(*this) OP rhs);`) -/
def compoundScalar (m : SM) (o : BinOp) (c : Int) (d : Raw) : Raw :=
  m.assignExpr (.binc o (.noalias (.leaf m)) c) d

/-! #### active special matrices: the statements recorded by an assignment -/

/-- one recorded statement: gradient index of the left-hand side and the operations (multiplier, gradient index);
    gradient indices are written as addresses (see `AExpr.grads`) -/
structure Stmt where
  lhs : Int
  ops : List (Int × Int)
deriving Repr

/-- inner loop of `operator=(const Active<PType>&)`: `data_[index] = val; push_rhs(1.0, rhs.gradient_index());
    push_lhs(gradient_index()+index); index += index_stride` -/
def activeScalarRow (m : SM) (val gx : Int) : Nat → Int → Int → Raw × List Stmt → Raw × List Stmt
  | 0, _, _, s => s
  | n + 1, idx, stride, (d, tape) =>
    m.activeScalarRow val gx n (idx + stride) stride (d.set (m.base + idx) val, tape ++ [⟨m.base + idx, [(1, gx)]⟩])

/-- `SpecialMatrix<…,true>::operator=(const Active<PType>&)` while recording: row loop over `get_row_range` -/
def activeScalarRowOf (m : SM) (val gx : Int) (s : Raw × List Stmt) (i : Nat) : Raw × List Stmt :=
  let i : Int := i
  let js := m.e.get_row_range_j_start i m.dim m.offset
  let je := m.e.get_row_range_j_end_plus_1 i m.dim m.offset
  m.activeScalarRow val gx (je - js).toNat (m.e.get_row_range_index_start i m.dim m.offset)
    (m.e.get_row_range_index_stride i m.dim m.offset) s

def assignActiveScalar (m : SM) (val gx : Int) (d : Raw) : Raw × List Stmt :=
  (List.range m.dim.toNat).foldl (m.activeScalarRowOf val gx) (d, [])

/-- `Stack::push_lhs_range(first, n, stride)`: n statements without operations -/
def lhsRange : Int → Nat → Int → List Stmt
  | _, 0, _ => []
  | first, n + 1, stride => ⟨first, []⟩ :: lhsRange (first + stride) n stride

/-- the statements of `assign_inactive_scalar<true>` (a passive scalar assigned to an active matrix): one
    `push_lhs_range(gradient_index()+index, j_end_plus_1-j_start, index_stride)` per row; the values are stored by the
    same loop as for a passive matrix (`SM.assign` with a constant right-hand side) -/
def recPassiveScalar (m : SM) : List Stmt :=
  (List.range m.dim.toNat).flatMap (fun (i : Nat) =>
    let i : Int := i
    let js := m.e.get_row_range_j_start i m.dim m.offset
    let je := m.e.get_row_range_j_end_plus_1 i m.dim m.offset
    lhsRange (m.base + m.e.get_row_range_index_start i m.dim m.offset) (je - js).toNat
      (m.e.get_row_range_index_stride i m.dim m.offset))

/-- inner loop of the active `assign_expression_`: `data_[index] = rhs.next_value_and_gradient(stack, ind);
    push_lhs(gradient_index()+index)` — the recorded part (the stored values are those of `assignRowIP`) -/
def recRow (m : SM) : Nat → AExpr → Int → Int → List Stmt
  | 0, _, _, _ => []
  | n + 1, rhs, idx, stride => ⟨m.base + idx, rhs.grads 1⟩ :: m.recRow n rhs.advance (idx + stride) stride

def recRowOf (m : SM) (rhs : AExpr) (i : Nat) : List Stmt :=
  let i : Int := i
  let js := m.e.get_row_range_j_start i m.dim m.offset
  let je := m.e.get_row_range_j_end_plus_1 i m.dim m.offset
  m.recRow (je - js).toNat (rhs.setLocation i js) (m.e.get_row_range_index_start i m.dim m.offset)
    (m.e.get_row_range_index_stride i m.dim m.offset)

/-- the statements recorded by `A = rhs` (`assign_expression_<true,true>`, right-hand side not aliased) -/
def recExpr (m : SM) (rhs : AExpr) : List Stmt :=
  (List.range m.dim.toNat).flatMap (m.recRowOf rhs)

end SM

/-! #### `diag_vector` views on both sides of a statement (rank-1 `Array`, include/adept/Array.h) -/

/-- element-wise expressions over rank-1 views of the target's Storage object -/
inductive VExpr where
  | vec (v : SM.Vec)
  | scale (a : VExpr) (c : Int)
  | add (a b : VExpr)

namespace SM.Vec

/-- `Array<1>::data_range`: `data_end += (dimensions_[0]-1)*offset_[0]` for a non-negative stride, otherwise
    `data_begin += (dimensions_[0]-1)*offset_[0]` -/
def dataBegin (v : Vec) : Int := if v.stride ≥ 0 then v.base else v.base + (v.len - 1) * v.stride
def dataEnd (v : Vec) : Int := if v.stride ≥ 0 then v.base + (v.len - 1) * v.stride else v.base

/-- `Array::is_aliased_` -/
def isAliased (v : Vec) (mem1 mem2 : Int) : Bool := decide (v.dataBegin ≤ mem2 ∧ v.dataEnd ≥ mem1)

/-- `v(stride(len-1, 0, -1))`: the same elements in reverse order -/
def rev (v : Vec) : Vec := { base := v.base + (v.len - 1) * v.stride, len := v.len, stride := -v.stride }

end SM.Vec

namespace VExpr

def isAliased : VExpr → Int → Int → Bool
  | .vec v, mem1, mem2 => v.isAliased mem1 mem2
  | .scale a _, mem1, mem2 => a.isAliased mem1 mem2
  | .add a b, mem1, mem2 => a.isAliased mem1 mem2 || b.isAliased mem1 mem2

/-- element `t` of the expression, read from the storage as it is now -/
def value : VExpr → Raw → Int → Int
  | .vec v, d, t => d (v.base + t * v.stride)
  | .scale a c, d, t => a.value d t * c
  | .add a b, d, t => a.value d t + b.value d t

end VExpr

namespace SM.Vec

/-- loop of `Array<1>::assign_expression_`: `data_[index] = rhs.next_value(ind)` for element `t`, `t+1`, … -/
def assignFrom (v : Vec) (rhs : VExpr) : Nat → Int → Raw → Raw
  | 0, _, d => d
  | n + 1, t, d => v.assignFrom rhs n (t + 1) (d.set (v.base + t * v.stride) (rhs.value d t))

/-- storing the elements of the temporary `copy` -/
def store (v : Vec) : List Int → Int → Raw → Raw
  | [], _, d => d
  | x :: xs, t, d => v.store xs (t + 1) (d.set (v.base + t * v.stride) x)

/-- `Array<1>::operator=(const Expression&)`: `if (rhs.is_aliased(ptr_begin, ptr_end)) { Array copy; copy = rhs;
    assign_expression_(copy); } else assign_expression_(rhs);` -/
def assignExpr (v : Vec) (rhs : VExpr) (d : Raw) : Raw :=
  if rhs.isAliased v.dataBegin v.dataEnd then
    v.store ((List.range v.len.toNat).map (fun (t : Nat) => rhs.value d (t : Int))) 0 d
  else
    v.assignFrom rhs v.len.toNat 0 d

end SM.Vec

end Adept.Special
