import AdeptModel.GradAlloc
import AdeptModel.Tape
/-
M7 — the protocol state of `adept::Stack` over exact integer tapes: allocator (M3), recorded
tape (M1), scalar statement forms of `Active<Real>` restricted to the ring operations
(`+ - *`, unary minus, copies, compound assignment, construction), `add/append_derivative_dependence`,
seeding, the two sweeps, the Jacobian front ends (M8), `new_recording`, `clear_*`, pause/continue.

Transcribed from include/adept/Active.h, include/adept/Stack.h, adept/Stack.cpp, adept/jacobian.cpp,
include/adept/BinaryOperation.h (policies Add, Subtract, Multiply), include/adept/UnaryOperation.h
(UnaryMinus).  Core Lean only.
-/
namespace Adept.StackProto
open Adept.GradAlloc Adept.Tape

/-- rank-0 expressions over the ring operations; `v h` is the active scalar with handle `h` -/
inductive RNode
  | v (h : Nat)
  | c (x : Int)
  | add (a b : RNode)
  | sub (a b : RNode)
  | mul (a b : RNode)
  | neg (a : RNode)
deriving Repr, DecidableEq

structure Var where
  idx : Nat
  val : Int
deriving Repr, DecidableEq

inductive Exc
  | gradients_not_initialized | gradient_out_of_range | dependents_or_independents_not_identified
  | wrong_gradient | size_mismatch | unknown_handle | malformed
  | stack_already_active
deriving Repr, DecidableEq

def Exc.name : Exc → String
  | .gradients_not_initialized => "gradients_not_initialized"
  | .gradient_out_of_range => "gradient_out_of_range"
  | .dependents_or_independents_not_identified => "dependents_or_independents_not_identified"
  | .wrong_gradient => "wrong_gradient"
  | .size_mismatch => "size_mismatch"
  | .unknown_handle => "unknown_handle"
  | .malformed => "malformed"
  | .stack_already_active => "stack_already_active"

structure Cfg where
  W : Nat := 4             -- MULTIPASS_SIZE of the build
  pausable : Bool := false -- built with ADEPT_RECORDING_PAUSABLE
  haveOmp : Bool := true
deriving Repr

structure St where
  cfg : Cfg := {}
  ga : GA := stackInit
  tape : List (Stmt Int) := []     -- statements 1 … n_statements_-1
  pend : List (Int × Nat) := []    -- operations pushed since the last push_lhs
  vars : List (Nat × Var) := []    -- handle ↦ live active scalar
  gradInit : Bool := false         -- gradients_initialized_
  grad : List Int := []            -- gradient_[0 … n_allocated_gradients_)
  indep : List Nat := []
  dep : List Nat := []
  recording : Bool := true         -- is_recording_
  ompDisabled : Bool := false      -- openmp_manually_disabled_
  maxThreads : Nat := 1            -- omp_get_max_threads()

def St.var? (s : St) (h : Nat) : Option Var := (s.vars.find? (·.1 = h)).map (·.2)
def St.setVar (s : St) (h : Nat) (v : Var) : St :=
  { s with vars := (h, v) :: s.vars.filter (·.1 ≠ h) }
def St.isRecording (s : St) : Bool := !s.cfg.pausable || s.recording

def St.nOps (s : St) : Nat := (s.tape.map (·.ops.length)).sum + s.pend.length
def St.nStmts (s : St) : Nat := s.tape.length + 1   -- + the null statement

/-! ### expressions -/

def RNode.eval (s : St) : RNode → Option Int
  | .v h => (s.var? h).map (·.val)
  | .c x => some x
  | .add a b => do let x ← a.eval s; let y ← b.eval s; pure (x + y)
  | .sub a b => do let x ← a.eval s; let y ← b.eval s; pure (x - y)
  | .mul a b => do let x ← a.eval s; let y ← b.eval s; pure (x * y)
  | .neg a => do let x ← a.eval s; pure (-x)

def RNode.isActive : RNode → Bool
  | .v _ => true
  | .c _ => false
  | .add a b | .sub a b | .mul a b => a.isActive || b.isActive
  | .neg a => a.isActive

/-- `E::n_active` -/
def RNode.nActive : RNode → Nat
  | .v _ => 1
  | .c _ => 0
  | .add a b | .sub a b | .mul a b => a.nActive + b.nActive
  | .neg a => a.nActive

/-- `calc_gradient_` without (`none`) or with (`some m`) an incoming multiplier: the list of
    `push_rhs(multiplier, index)` calls, in order.  Inactive operands push nothing
    (`calc_left_/calc_right_` are empty for them). -/
def RNode.grad (s : St) : RNode → Option Int → List (Int × Nat)
  | .v h, m => match s.var? h with
    | some x => [(m.getD 1, x.idx)]
    | none => []
  | .c _, _ => []
  | .add a b, m => a.grad s m ++ b.grad s m
  | .sub a b, m => a.grad s m ++ b.grad s (some (match m with | none => -1 | some w => -w))
  | .mul a b, m =>
    let va := (a.eval s).getD 0
    let vb := (b.eval s).getD 0
    (if a.isActive then a.grad s (some (match m with | none => vb | some w => w * vb)) else []) ++
    (if b.isActive then b.grad s (some (match m with | none => va | some w => w * va)) else [])
  | .neg a, m => a.grad s (some (match m with | none => -1 | some w => w * (-1)))

/-! ### recording primitives -/

def St.pushRhs (s : St) (ops : List (Int × Nat)) : St := { s with pend := s.pend ++ ops }
/-- `push_lhs(idx)`: closes the pending operations into a statement -/
def St.pushLhs (s : St) (idx : Nat) : St := { s with tape := s.tape ++ [⟨idx, s.pend⟩], pend := [] }

/-- `x = expr` (`Active::operator=(const Expression&)`, copy assignment, construction from an expression) -/
def St.assign (s : St) (h : Nat) (x : Var) (e : RNode) : Option (St × Int) := do
  let v ← e.eval s
  if s.isRecording then
    let s1 := (s.pushRhs (e.grad s none)).pushLhs x.idx
    pure (s1.setVar h { x with val := v }, v)
  else
    pure (s.setVar h { x with val := v }, v)

/-! ### gradients -/

/-- `Stack::initialize_gradients()`: the working vector is (re)allocated to exactly
    `max_gradient_` entries and zeroed -/
def St.initGradients (s : St) : St :=
  let g := if s.grad.length ≠ s.ga.maxGrad then List.replicate s.ga.maxGrad 0 else s.grad
  let g := (List.range s.ga.maxGrad).foldl (fun g i => g.set i 0) g
  { s with grad := g, gradInit := true }

/-- `set_gradients(idx, idx+1, &v)`: initialises first, then range-checks against the length
    that was initialised; the state change of the initialisation survives the exception -/
def St.seed (s : St) (idx : Nat) (v : Int) : St × Option Exc :=
  let s := if s.gradInit then s else s.initGradients
  if idx + 1 > s.grad.length then (s, some .gradient_out_of_range)
  else ({ s with grad := s.grad.set idx v }, none)

def St.getGrad (s : St) (idx : Nat) : Except Exc Int :=
  if !s.gradInit then .error .gradients_not_initialized
  else if idx + 1 > s.grad.length then .error .gradient_out_of_range
  else .ok (s.grad.getD idx 0)

/-- one past the last gradient index touched by a range of `n` elements that starts at `start` and advances by `ss`:
    the `end_plus_one` argument of the range forms of `get_gradients` / `set_gradients` (what `Array::get_gradient`
    passes for a view with element separation `ss`) -/
def rangeEnd (start n ss : Nat) : Nat := if n = 0 then start else start + (n - 1) * ss + 1

/-- `Stack::get_gradients(start, end_plus_one, out, src_stride, 1)` (and the contiguous form, `ss = 1`): the whole SPAN
    must lie inside the vector that was initialised, not just the number of elements -/
def St.getRange (s : St) (start n ss : Nat) : Except Exc (List Int) :=
  if !s.gradInit then .error .gradients_not_initialized
  else if rangeEnd start n ss > s.grad.length then .error .gradient_out_of_range
  else .ok ((List.range n).map fun j => s.grad.getD (start + j * ss) 0)

/-- `for (i = start, j = 0; i < end_plus_one; i++, j++) gradient_[i] = gradient[j]` -/
def writeFrom : List Int → Nat → List Int → List Int
  | g, _, [] => g
  | g, i, v :: vs => writeFrom (g.set i v) (i + 1) vs

/-- `Stack::set_gradients(start, start + n, values)`: initialises first, like the single-element form -/
def St.setRange (s : St) (start : Nat) (vs : List Int) : St × Option Exc :=
  let s := if s.gradInit then s else s.initGradients
  if start + vs.length > s.grad.length then (s, some .gradient_out_of_range)
  else ({ s with grad := writeFrom s.grad start vs }, none)

/-- `Stack::compute_tangent_linear()`: objects registered since the working vector was initialised may have
    statements whose indices lie beyond it, so the sweep is refused (`gradient_out_of_range`) as soon as
    `max_gradient_` exceeds the initialised length -/
def St.forward (s : St) : Except Exc St :=
  if s.gradInit then
    if s.ga.maxGrad > s.grad.length then .error .gradient_out_of_range
    else .ok { s with grad := fwd s.tape s.grad }
  else .error .gradients_not_initialized
/-- `Stack::compute_adjoint()`, same two tests -/
def St.reverse (s : St) : Except Exc St :=
  if s.gradInit then
    if s.ga.maxGrad > s.grad.length then .error .gradient_out_of_range
    else .ok { s with grad := rev s.tape s.grad }
  else .error .gradients_not_initialized

/-! ### Jacobian front ends -/

inductive JMode | auto | fwd | rev
deriving Repr, DecidableEq

/-- raw-pointer form: returns the `ncells` cells of the caller's buffer (pre-filled with `fill`) -/
def St.jacPtr (s : St) (mode : JMode) (depOff indepOff : Int) (ncells : Nat) (fill : Int) : Except Exc (List Int) :=
  if s.indep.isEmpty || s.dep.isEmpty then .error .dependents_or_independents_not_identified else
  let n := s.indep.length
  let m := s.dep.length
  let dO : Nat := if depOff ≤ 0 then n else depOff.toNat
  let iO : Nat := if indepOff ≤ 0 then m else indepOff.toNat
  let c : JacCfg := { W := s.cfg.W, maxGrad := s.ga.maxGrad, depOff := dO, indepOff := iO }
  let out := List.replicate ncells fill
  let forward := match mode with | .auto => chooseForward n m | .fwd => true | .rev => false
  if forward then
    if useOmp s.cfg.haveOmp s.ompDisabled n s.cfg.W s.maxThreads then
      .ok (jacFwdOmp s.tape c s.indep s.dep (List.range ((n + s.cfg.W - 1) / s.cfg.W)) out)
    else .ok (jacFwdSerial s.tape c s.indep s.dep out)
  else
    if useOmp s.cfg.haveOmp s.ompDisabled m s.cfg.W s.maxThreads then
      .ok (jacRevOmp s.tape c s.indep s.dep (List.range ((m + s.cfg.W - 1) / s.cfg.W)) out)
    else .ok (jacRevSerial s.tape c s.indep s.dep out)

/-- Matrix forms: a `rows × cols` target (returned matrices have `rows = m`, `cols = n`);
    the result is the logical matrix read in index order, i.e. entry (i,j) is the cell the
    target view maps (i,j) to.  Modelled through a packed row-major image (`jac.offset(0) = cols`,
    `jac.offset(1) = 1`): by `layout_matrix` the logical content does not depend on the strides. -/
def St.jacMat (s : St) (mode : JMode) (rows cols : Nat) : Except Exc (List Int) :=
  if rows ≠ s.dep.length || cols ≠ s.indep.length then .error .size_mismatch
  else s.jacPtr mode cols 1 (rows * cols) 0

/-! ### recording control and user-supplied dependences -/

/-- `Stack::new_recording()` -/
def newRec (s : St) : St :=
  { s with tape := [], pend := [], indep := [], dep := [], gradInit := false, ga := newRecording s.ga }

/-- the statement `add_derivative_dependence(x, m)` describes: `d[lhs] = m·d[x]`; a zero multiplier pushes no operation -/
def addDep (lhs x : Nat) (m : Int) : Stmt Int := ⟨lhs, if m ≠ 0 then [(m, x)] else []⟩

/-- the statement after `append_derivative_dependence(x, m)` -/
def appendDep (st : Stmt Int) (x : Nat) (m : Int) : Stmt Int :=
  { st with ops := st.ops ++ (if m ≠ 0 then [(m, x)] else []) }

/-- `Stack::add_derivative_dependence(lhs, x, m)` -/
def St.addDependence (s : St) (lhs x : Nat) (m : Int) : St :=
  if !s.isRecording then s
  else ((if m ≠ 0 then s.pushRhs [(m, x)] else s)).pushLhs lhs

/-- `Stack::append_derivative_dependence(lhs, x, m)`: the left-hand side is tested first, so a
    failed call (`wrong_gradient`) leaves the recording untouched -/
def St.appendDependence (s : St) (lhs x : Nat) (m : Int) : Except Exc St :=
  if !s.isRecording then .ok s
  else match s.tape.getLast? with
    | some last =>
      if last.lhs ≠ lhs then .error .wrong_gradient
      else .ok { s with tape := s.tape.dropLast ++ [appendDep last x m] }
    | none => .error .wrong_gradient     -- only the null statement (index -1) is on the stack

/-! ### array forms `y.add_derivative_dependence(x, dy_dx, n, multiplier_stride)` / `append_…`
(Active.h, ActiveReference.h, ActiveConstReference.h): `n` right-hand sides given as (gradient index, multiplier) pairs — the
multiplier of term `j` is read at `multiplier[j*multiplier_stride]`, the stride does not enter the meaning — of which the
zero multipliers push no operation. -/

/-- the operations the loop `for i<n: if (mult != 0) push_rhs(mult, rhs[i].gradient_index())` pushes -/
def depOps (ts : List (Nat × Int)) : List (Int × Nat) := (ts.filter fun t => t.2 ≠ 0).map fun t => (t.2, t.1)

/-- the statement the array form of `add_derivative_dependence` describes: `d[lhs] = Σ mⱼ·d[xⱼ]` -/
def addDepN (lhs : Nat) (ts : List (Nat × Int)) : Stmt Int := ⟨lhs, depOps ts⟩

/-- the statement after the array form of `append_derivative_dependence` -/
def appendDepN (st : Stmt Int) (ts : List (Nat × Int)) : Stmt Int := { st with ops := st.ops ++ depOps ts }

/-- array form of `add_derivative_dependence`: the pushes, then `push_lhs` -/
def St.addDependenceN (s : St) (lhs : Nat) (ts : List (Nat × Int)) : St :=
  if !s.isRecording then s else (s.pushRhs (depOps ts)).pushLhs lhs

/-- array form of `append_derivative_dependence`: the left-hand side is tested once, before anything is pushed -/
def St.appendDependenceN (s : St) (lhs : Nat) (ts : List (Nat × Int)) : Except Exc St :=
  if !s.isRecording then .ok s
  else match s.tape.getLast? with
    | some last =>
      if last.lhs ≠ lhs then .error .wrong_gradient
      else .ok { s with tape := s.tape.dropLast ++ [appendDepN last ts] }
    | none => .error .wrong_gradient

/-- several `set_gradient` calls in a row -/
def seedAll (s : St) (seeds : List (Nat × Int)) : St := seeds.foldl (fun s p => (s.seed p.1 p.2).1) s

/-! ### array forms (pointer and count) of the variable lists and of seeding / reading gradients -/

/-- `Stack::independent(const A* x, n)` (Stack.h): `x[i].push_gradient_indices(independent_index_)` for i = 0..n-1 -/
def St.independentN (s : St) (idxs : List Nat) : St := { s with indep := s.indep ++ idxs }

/-- `Stack::dependent(const A* x, n)` -/
def St.dependentN (s : St) (idxs : List Nat) : St := { s with dep := s.dep ++ idxs }

/-- free function `set_gradients(Active* a, n, data)` (Active.h): `a[i].set_gradient(data[i])` in order; the first element
    that raises ends the loop, the elements before it stay seeded (and the initialisation survives) -/
def St.seedN (s : St) : List (Nat × Int) → St × Option Exc
  | [] => (s, none)
  | p :: rest => match s.seed p.1 p.2 with
    | (s', none) => s'.seedN rest
    | (s', some e) => (s', some e)

/-- free function `get_gradients(const Active* a, n, data)`: `a[i].get_gradient(data[i])` in order; reads change nothing -/
def St.getGradN (s : St) : List Nat → Except Exc (List Int)
  | [] => .ok []
  | i :: rest => match s.getGrad i with
    | .error e => .error e
    | .ok g => match s.getGradN rest with
      | .error e => .error e
      | .ok gs => .ok (g :: gs)

/-- free function `set_values(Active* a, n, data)`: `a[i].set_value(data[i])` — the value changes, nothing is recorded -/
def St.setValuesN (s : St) (hs : List (Nat × Int)) : St :=
  hs.foldl (fun s p => match s.var? p.1 with
    | some x => s.setVar p.1 { x with val := p.2 }
    | none => s) s

end Adept.StackProto
