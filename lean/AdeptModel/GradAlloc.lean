/-
M3 — gradient-slot allocator of `adept::Stack`.

Transcribed from
  include/adept/Stack.h   register_gradient, register_gradients, unregister_gradient, new_recording
  adept/Stack.cpp         do_register_gradients, unregister_gradient_not_top, unregister_gradients

`gap_list_` (a `std::list<Gap>`) is a `List (Nat × Nat)` of inclusive intervals;
`most_recent_gap_` (a list iterator) is the *position* of the element it points to,
`none` standing for `gap_list_.end()`.  `uIndex` is a signed `int` in the C++; every
comparison of the form `g == start - n` is written `g + n = start`, which is the same
predicate over the integers and avoids truncated subtraction.
`n_gradients_registered_` is an `Int` on purpose (the C++ counter can go negative in
a pausable build, finding F-09).

Core Lean only (this file is linked into the `adept_model` driver).
-/
namespace Adept.GradAlloc

abbrev Gap := Nat × Nat        -- (start, end), inclusive

structure GA where
  iGrad   : Nat := 0            -- i_gradient_
  maxGrad : Nat := 0            -- max_gradient_
  nReg    : Int := 0            -- n_gradients_registered_
  gaps    : List Gap := []      -- gap_list_
  recent  : Option Nat := none  -- most_recent_gap_ (position), none = end()
deriving Repr, DecidableEq

def init : GA := {}

/-- iterator bookkeeping after `erase` of the element at position `p`
    (the caller resets the cursor itself when it pointed at `p`) -/
def cursorAfterErase (p : Nat) : Option Nat → Option Nat
  | none => none
  | some r => if r = p then none else if p < r then some (r - 1) else some r

/-- `Stack::register_gradient()` (Stack.h) -/
def reg1 (s : GA) : GA × Nat :=
  let s := { s with nReg := s.nReg + 1 }
  match s.gaps with
  | [] =>
    let i := s.iGrad + 1
    ({ s with iGrad := i, maxGrad := if i > s.maxGrad then i else s.maxGrad }, i - 1)
  | (a, b) :: gs =>
    if a + 1 > b then
      -- gap has closed: pop_front, cursor reset if it was begin()
      ({ s with gaps := gs, recent := cursorAfterErase 0 s.recent }, a)
    else
      ({ s with gaps := (a + 1, b) :: gs }, a)

/-- the `for` loop of `do_register_gradients`: first gap with `len ≥ n`.
    Returns the new list, the returned index and the position erased (if any). -/
def regScan (n : Nat) : List Gap → Nat → Option (List Gap × Nat × Option Nat)
  | [], _ => none
  | (a, b) :: gs, pos =>
    let len := b + 1 - a
    if len > n then some ((a + n, b) :: gs, a, none)
    else if len = n then some (gs, a, some pos)
    else match regScan n gs (pos + 1) with
      | none => none
      | some (gs', i, e) => some ((a, b) :: gs', i, e)

/-- `Stack::do_register_gradients(n)` (Stack.cpp); `register_gradients` forwards to it -/
def regN (n : Nat) (s : GA) : GA × Nat :=
  let s := { s with nReg := s.nReg + n }
  match regScan n s.gaps 0 with
  | some (gs', i, e) =>
    ({ s with gaps := gs',
              recent := match e with
                        | none => s.recent
                        | some p => cursorAfterErase p s.recent }, i)
  | none =>
    let i := s.iGrad + n
    ({ s with iGrad := i, maxGrad := if i > s.maxGrad then i else s.maxGrad }, i - n)

/-- position of the first gap with `idx ≤ end + 1` (the scan of `unregister_gradients`) -/
def findPos (idx : Nat) : List Gap → Nat → Option Nat
  | [], _ => none
  | (_, b) :: gs, pos => if idx ≤ b + 1 then some pos else findPos idx gs (pos + 1)

/-- What `unregister_gradients` does to the gap at position `r` (if any), the merge
    test included.  `insert = false` is the `most_recent_gap_` fast path (returns
    `none` when the block touches neither end of that gap); `insert = true` is the
    body of the scan loop, whose third branch inserts a new gap *before* `r`.
    Returns the new list and the new cursor position. -/
def applyAt (idx n : Nat) (gs : List Gap) (r : Nat) (insert : Bool) : Option (List Gap × Nat) :=
  match gs.drop r with
  | [] => none
  | (a, b) :: post =>
    let pre := gs.take r
    if idx + n = a then
      -- ADDED_AT_BASE; merge with the previous gap if `prev.end == start - 1`
      match pre.getLast? with
      | some p =>
        if p.2 + 1 = idx then some (pre.dropLast ++ (p.1, b) :: post, r - 1)
        else some (pre ++ (idx, b) :: post, r)
      | none => some (pre ++ (idx, b) :: post, r)
    else if idx = b + 1 then
      -- ADDED_AT_TOP; merge with the next gap if `next.start == end + 1`
      match post with
      | (c, d) :: post' =>
        if c = b + n + 1 then some (pre ++ (a, d) :: post', r)
        else some (pre ++ (a, b + n) :: post, r)
      | [] => some (pre ++ [(a, b + n)], r)
    else if insert then
      -- NEW_GAP, inserted before `r`; the cursor points at the new element
      some (pre ++ (idx, idx + n - 1) :: (a, b) :: post, r)
    else none

/-- the not-at-top branch of `unregister_gradients` / `unregister_gradient_not_top` -/
def unregNotTop (idx n : Nat) (s : GA) : GA :=
  let fast : Option (List Gap × Nat) :=
    match s.recent with
    | none => none
    | some r => applyAt idx n s.gaps r false
  match fast with
  | some (gs', r') => { s with gaps := gs', recent := some r' }
  | none =>
    match findPos idx s.gaps 0 with
    | some p =>
      match applyAt idx n s.gaps p true with
      | some (gs', r') => { s with gaps := gs', recent := some r' }
      | none => s      -- unreachable: `findPos` returns a valid position
    | none =>
      -- push_back; cursor = last element
      { s with gaps := s.gaps ++ [(idx, idx + n - 1)], recent := some s.gaps.length }

/-- `Stack::unregister_gradients(idx, n)` (Stack.cpp);
    `unregister_gradient(idx)` is the same code with `n = 1` -/
def unregN (idx n : Nat) (s : GA) : GA :=
  let s := { s with nReg := s.nReg - n }
  if idx + n = s.iGrad then
    let i := s.iGrad - n
    match s.gaps.getLast? with
    | some (a, b) =>
      if i = b + 1 then
        { s with iGrad := a, gaps := s.gaps.dropLast,
                 recent := if s.recent = some (s.gaps.length - 1) then none else s.recent }
      else { s with iGrad := i }
    | none => { s with iGrad := i }
  else unregNotTop idx n s

def unreg1 (idx : Nat) (s : GA) : GA := unregN idx 1 s

/-- the allocator part of `Stack::new_recording()` -/
def newRecording (s : GA) : GA := { s with maxGrad := s.iGrad + 1 }

/-- state after `Stack::Stack()`, whose body calls `new_recording()` -/
def stackInit : GA := newRecording init

/-! ### Events and histories -/

inductive Op
  | reg1
  | regN (n : Nat)
  | unreg1 (idx : Nat)
  | unregN (idx n : Nat)
  | newRec
deriving Repr, DecidableEq

/-- one step; the second component is the index returned by a registration -/
def step (s : GA) : Op → GA × Option Nat
  | .reg1 => let r := reg1 s; (r.1, some r.2)
  | .regN n => let r := regN n s; (r.1, some r.2)
  | .unreg1 i => (unreg1 i s, none)
  | .unregN i n => (unregN i n s, none)
  | .newRec => (newRecording s, none)

def gapsToString (gs : List Gap) : String :=
  String.intercalate "," (gs.map fun g => s!"{g.1}-{g.2}")

/-- canonical observation line shared with the C++ harness -/
def observe (s : GA) (ret : Option Nat) : String :=
  let r := match ret with | some i => toString i | none => "-"
  let c := match s.recent with | some p => toString p | none => "e"
  s!"{r} ig={s.iGrad} mg={s.maxGrad} nr={s.nReg} gaps=[{gapsToString s.gaps}] cur={c}"

end Adept.GradAlloc
