/-
The small numeric class the generated derivative tables (AdeptModel/Generated/UnaryTable.lean,
BinaryTable.lean) and the expression model (AdeptModel/Expr.lean) are generic over, and its executable
instance for `Float` (binary64).  Core Lean only.  The proof layer adds a noncomputable instance for ℝ
(AdeptProofs/Lemmas/ExprReal.lean).

`CFun` names the C library functions / built-in operators that the policies of
include/adept/UnaryOperation.h call (`std::log`, …, unary `+ - !`); the translator maps RAWFUNC to it.
-/
namespace Adept

/-- C library functions (by name) and the three built-in unary operators -/
inductive CFun
  | log | log10 | sin | cos | tan | asin | acos | atan | sinh | cosh | abs | fabs | sqrt | tanh
  | fastexp | exp | ceil | floor | log2 | expm1 | exp2 | log1p | asinh | acosh | atanh | erf | erfc
  | cbrt | round | trunc | rint | nearbyint
  | pos | neg | lnot
deriving Repr, DecidableEq

/-- mathematical constants the translators recognise behind a decimal literal (translate/cexpr.py
    `known_consts`): the Float layer uses the literal's bits, the proof layer the exact constant -/
inductive KConst
  | invLn10 | invLn2 | ln2 | ln10 | twoInvSqrtPi | pi
deriving Repr, DecidableEq

class Num (α : Type) extends Add α, Sub α, Mul α, Div α, Neg α where
  /-- a C++ floating literal: bit pattern of the double it denotes, exact decimal value `num/den` -/
  lit : UInt64 → Nat → Nat → α
  /-- a literal the translator recognised as a mathematical constant (bits of the literal's double) -/
  kconst : KConst → UInt64 → α
  /-- conversion of a C++ `int`/`bool` value -/
  ofInt : Int → α
  cfun : CFun → α → α
  pow : α → α → α
  atan2 : α → α → α
  fmax : α → α → α
  fmin : α → α → α
  lt : α → α → Bool
  le : α → α → Bool

/-- C++ `bool → int` -/
def Num.b2i (b : Bool) : Int := if b then 1 else 0

/-! ### `Float` -/

/-- C `trunc` -/
def ftrunc (x : Float) : Float := if x < 0 then Float.ceil x else Float.floor x

/-- C `rint` / `nearbyint` in the default rounding mode (to nearest, ties to even).
    `Float.round` is C `round` (ties away from zero); the two differ exactly at `n + 1/2`, where the
    even neighbour is `2 * round (x/2)`.  `x - floor x` is exact, so the test is exact. -/
def frint (x : Float) : Float :=
  if x - Float.floor x == 0.5 then 2 * Float.round (x / 2) else Float.round x

/-- library functions the `Float` layer cannot reproduce with core Lean (no binding to the C function and no
    exact reformulation): programs using them are compared with the model on structure only and are judged
    numerically by the independent oracle alone -/
def CFun.floatSupported : CFun → Bool
  | .fastexp | .expm1 | .log1p | .erf | .erfc => false
  | _ => true

def floatCfun : CFun → Float → Float
  | .log => Float.log | .log10 => Float.log10 | .sin => Float.sin | .cos => Float.cos | .tan => Float.tan
  | .asin => Float.asin | .acos => Float.acos | .atan => Float.atan | .sinh => Float.sinh | .cosh => Float.cosh
  | .abs => Float.abs | .fabs => Float.abs | .sqrt => Float.sqrt | .tanh => Float.tanh
  | .exp => Float.exp | .ceil => Float.ceil | .floor => Float.floor | .log2 => Float.log2 | .exp2 => Float.exp2
  | .asinh => Float.asinh | .acosh => Float.acosh | .atanh => Float.atanh | .cbrt => Float.cbrt
  | .round => Float.round | .trunc => ftrunc | .rint => frint | .nearbyint => frint
  | .pos => fun x => x | .neg => fun x => -x
  | .lnot => fun x => if x == 0 then 1 else 0
  | .fastexp | .expm1 | .log1p | .erf | .erfc => fun _ => 0.0 / 0.0     -- unsupported: NaN

instance : Num Float where
  lit bits _ _ := Float.ofBits bits
  kconst _ bits := Float.ofBits bits
  ofInt := Float.ofInt
  cfun := floatCfun
  pow := Float.pow
  atan2 := Float.atan2
  -- std::fmax / std::fmin on finite doubles (NaN operands are outside the property's domain)
  fmax a b := if a < b then b else a
  fmin a b := if b < a then b else a
  lt a b := decide (a < b)
  le a b := decide (a ≤ b)

end Adept
