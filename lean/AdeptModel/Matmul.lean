import AdeptModel.Blas
/-
M9 (second half) — how `matmul` / `**` marshal their operands to BLAS.

Transcribed from
  include/adept/matmul.h   check_inner_dimensions(_sqr), blas_vector_start, matmul_ (matrix·vector,
                           matrix·matrix, vector·matrix), matmul_symmetric (vector / matrix right-hand side),
                           matmul_band (vector / matrix right-hand side), the swap-and-transpose overloads,
                           and the recording loops that follow the BLAS calls (one statement per result element:
                           `gemvRecord`, `gemmRecord`, `bandVRecord`; with the copies of doubly strided operands:
                           `matmulMMTape`, `matmulMVTape`, `matmulVMTape`, `matmulBandVTape`, `matmulVBandTape`)
  include/adept/Stack.h    push_derivative_dependence (`pushDep`, `pushDependence`)
  include/adept/Array.h    is_row_contiguous, is_column_contiguous, pack_row_major_, T()
  adept/cppblas.cpp        cppblas_gemm / gemv / symm / symv / gbmv  (row-major → column-major rewriting)
  include/adept/SpecialMatrix.h   SymmEngine::index, BandEngine::index, get_scalar (zero test)

The model follows the tree WITH the repairs F-13, F-14 and F-26 (fixes/F-13-14.patch, fixes/F-26.patch):
  * F-13: a vector operand with a negative stride is handed to BLAS through `blasVectorStart`
    (pointer to the element lowest in memory).  Old code: always `right.const_data()`, so BLAS read
    `(n-1)·|inc|` cells beyond the operand.
  * F-14: `isColContig` also requires `offset[1] ≥ dimension[0]`.  Old code: `offset[0] == 1` only, so
    `A(stride(2,0,-1),__).T()` was passed with a negative leading dimension.
  * F-26: the start pointer for ?GBMV is `ptr − LDiags` for a row-major band matrix and `ptr − UDiags`
    for a column-major one.  Old code had the two the other way round.

A dense operand is a view (`base`, extents, strides in cells) of a buffer `mem : Int → α`; element `[i,k]`
is the cell `addr v i k = base + i·o0 + k·o1`.  `buf` names the allocation a pointer belongs to (left
parent, right parent, a temporary created inside matmul, the result) and only serves the call log.
Memory that the C++ leaves uninitialised reads as `0` here; `reads_within` (AdeptProofs/Props/C15.lean)
shows such cells are never read.

Core Lean only (linked into the `adept_model` driver).
-/
namespace Adept.Matmul
open Adept.Blas

inductive Err
  | emptyArray | innerDimensionMismatch | invalidOperation
deriving Repr, DecidableEq

inductive Buf
  | L | R | T | C
deriving Repr, DecidableEq

structure Ptr where
  buf : Buf
  off : Int
deriving Repr, DecidableEq

structure View2 where
  base : Int
  d0 : Nat
  d1 : Nat
  o0 : Int
  o1 : Int
deriving Repr, DecidableEq

structure View1 where
  base : Int
  d : Nat
  o : Int
deriving Repr, DecidableEq

def View2.addr (v : View2) (i k : Nat) : Int := v.base + (i : Int) * v.o0 + (k : Int) * v.o1
def View1.addr (v : View1) (i : Nat) : Int := v.base + (i : Int) * v.o

/-- `Array::T()` -/
def View2.T (v : View2) : View2 := { base := v.base, d0 := v.d1, d1 := v.d0, o0 := v.o1, o1 := v.o0 }

/-- `Array::is_row_contiguous()` for Rank = 2 -/
def isRowContig (v : View2) : Bool := decide (v.o1 = 1) && decide (v.o0 ≥ (v.d1 : Int))

/-- `Array::is_column_contiguous()` (with the repair of F-14; the old test was `offset_[0] == 1` alone) -/
def isColContig (v : View2) : Bool := decide (v.o0 = 1) && decide (v.o1 ≥ (v.d0 : Int))

/-- `!is_row_contiguous() && !is_column_contiguous()`: strided in both directions, must be copied -/
def needsCopy (v : View2) : Bool := !isRowContig v && !isColContig v

/-- `Array::pack_row_major_()` for a fresh `d0 × d1` array; `pw` = `Packet<Type>::size` -/
def packRowMajor (pw : Nat) (d0 d1 : Nat) : View2 :=
  { base := 0, d0 := d0, d1 := d1, o1 := 1,
    o0 := if d1 ≥ pw * 2 then (((d1 + pw - 1) / pw * pw : Nat) : Int) else (d1 : Int) }

/-- `Array::pack_column_major_()` -/
def packColMajor (d0 d1 : Nat) : View2 := { base := 0, d0 := d0, d1 := d1, o0 := 1, o1 := (d0 : Int) }

variable {α : Type}

structure Mat (α : Type) where
  v : View2
  mem : Int → α
  buf : Buf

structure Vec (α : Type) where
  v : View1
  mem : Int → α
  buf : Buf

def Mat.get (A : Mat α) (i k : Nat) : α := A.mem (A.v.addr i k)
def Vec.get (x : Vec α) (i : Nat) : α := x.mem (x.v.addr i)
/-- the buffer as BLAS sees it through `const_data()` -/
def Mat.rel (A : Mat α) : Int → α := fun p => A.mem (A.v.base + p)
def Mat.ptr (A : Mat α) : Ptr := ⟨A.buf, A.v.base⟩
def Mat.T (A : Mat α) : Mat α := { A with v := A.v.T }

variable [Add α] [Mul α] [Zero α]

/-- a fresh row-major array holding the logical values `get i k` (`Array<2> left_; left_ = left;` and the
    conversion of expressions / special matrices by `promote_array`); other cells are uninitialised -/
def freshMat (pw : Nat) (d0 d1 : Nat) (get : Nat → Nat → α) : Mat α :=
  let v := packRowMajor pw d0 d1
  { v := v, buf := .T,
    mem := fun p => if 0 ≤ p ∧ p % v.o0 < (d1 : Int) ∧ p / v.o0 < (d0 : Int) then get (p / v.o0).toNat (p % v.o0).toNat else 0 }

def copyMat (pw : Nat) (A : Mat α) : Mat α := freshMat pw A.v.d0 A.v.d1 A.get

/-- the operand actually handed on after the `!row && !col ⇒ copy` test -/
def prep (pw : Nat) (A : Mat α) : Mat α := if needsCopy A.v then copyMat pw A else A

/-! ### issued calls -/

structure GemmCall (α : Type) where
  args : GemmArgs
  a : Int → α
  b : Int → α
  pa : Ptr
  pb : Ptr

structure GemvCall (α : Type) where
  args : GemvArgs
  a : Int → α
  x : Int → α
  pa : Ptr
  px : Ptr
  py : Ptr := ⟨.C, 0⟩

structure SymmCall (α : Type) where
  args : SymmArgs
  a : Int → α
  b : Int → α
  pa : Ptr
  pb : Ptr

structure SymvCall (α : Type) where
  args : SymvArgs
  a : Int → α
  x : Int → α
  pa : Ptr
  px : Ptr

structure GbmvCall (α : Type) where
  args : GbmvArgs
  a : Int → α
  x : Int → α
  pa : Ptr
  px : Ptr
  py : Ptr := ⟨.C, 0⟩

/-- `cppblas_gemm`: row-major is rewritten as the column-major product of the transposes, operands swapped -/
def cppblasGemm (rowMajor ta tb : Bool) (M N K : Nat) (a : Int → α) (pa : Ptr) (lda : Int)
    (b : Int → α) (pb : Ptr) (ldb ldc : Int) : GemmCall α :=
  if !rowMajor then
    { args := { ta := ta, tb := tb, m := M, n := N, k := K, lda := lda, ldb := ldb, ldc := ldc }, a := a, b := b, pa := pa, pb := pb }
  else
    { args := { ta := tb, tb := ta, m := N, n := M, k := K, lda := ldb, ldb := lda, ldc := ldc }, a := b, b := a, pa := pb, pb := pa }

/-- `cppblas_gemv`: row-major ⇒ transpose flag flipped, M and N exchanged -/
def cppblasGemv (rowMajor trans : Bool) (M N : Nat) (a : Int → α) (pa : Ptr) (lda : Int)
    (x : Int → α) (px : Ptr) (incx incy : Int) : GemvCall α :=
  if !rowMajor then
    { args := { trans := trans, m := M, n := N, lda := lda, incx := incx, incy := incy }, a := a, x := x, pa := pa, px := px }
  else
    { args := { trans := !trans, m := N, n := M, lda := lda, incx := incx, incy := incy }, a := a, x := x, pa := pa, px := px }

/-- `cppblas_symm`: row-major ⇒ side and triangle flipped, M and N exchanged -/
def cppblasSymm (rowMajor left upper : Bool) (M N : Nat) (a : Int → α) (pa : Ptr) (lda : Int)
    (b : Int → α) (pb : Ptr) (ldb ldc : Int) : SymmCall α :=
  if !rowMajor then
    { args := { left := left, upper := upper, m := M, n := N, lda := lda, ldb := ldb, ldc := ldc }, a := a, b := b, pa := pa, pb := pb }
  else
    { args := { left := !left, upper := !upper, m := N, n := M, lda := lda, ldb := ldb, ldc := ldc }, a := a, b := b, pa := pa, pb := pb }

/-- `cppblas_symv`: row-major ⇒ triangle flipped -/
def cppblasSymv (rowMajor upper : Bool) (N : Nat) (a : Int → α) (pa : Ptr) (lda : Int)
    (x : Int → α) (px : Ptr) (incx incy : Int) : SymvCall α :=
  { args := { upper := if rowMajor then !upper else upper, n := N, lda := lda, incx := incx, incy := incy },
    a := a, x := x, pa := pa, px := px }

/-- `cppblas_gbmv`: row-major ⇒ transpose flag flipped, M↔N, KL↔KU -/
def cppblasGbmv (rowMajor trans : Bool) (M N KL KU : Nat) (a : Int → α) (pa : Ptr) (lda : Int)
    (x : Int → α) (px : Ptr) (incx : Int) (py : Ptr) (incy : Int) : GbmvCall α :=
  if !rowMajor then
    { args := { trans := trans, m := M, n := N, kl := KL, ku := KU, lda := lda, incx := incx, incy := incy },
      a := a, x := x, pa := pa, px := px, py := py }
  else
    { args := { trans := !trans, m := N, n := M, kl := KU, ku := KL, lda := lda, incx := incx, incy := incy },
      a := a, x := x, pa := pa, px := px, py := py }

/-- `blas_vector_start` (repair of F-13): BLAS wants the lowest address when the increment is negative -/
def blasVectorStart (base : Int) (n : Nat) (inc : Int) : Int :=
  if inc < 0 then base + ((n : Int) - 1) * inc else base

/-! ### dense matrix · matrix -/

structure MMOut (α : Type) where
  call : GemmCall α
  l : Mat α          -- operands as handed to BLAS (after any copy)
  r : Mat α
  ans : Mat α

/-- the final `else` branch of `matmul_(Array<2>, Array<2>)`: both operands row- or column-contiguous -/
def gemmDense (pw : Nat) (L R : Mat α) : MMOut α :=
  let ansV := packRowMajor pw L.v.d0 R.v.d1                       -- Array<2> ans(left.dimension(0), right.dimension(1))
  let rowMajor := isRowContig ansV
  let ansStride := if rowMajor then ansV.o0 else ansV.o1
  let lt := if isRowContig L.v then !rowMajor else rowMajor        -- true = BlasTrans
  let ls := if isRowContig L.v then L.v.o0 else L.v.o1
  let rt := if isRowContig R.v then !rowMajor else rowMajor
  let rs := if isRowContig R.v then R.v.o0 else R.v.o1
  let call := cppblasGemm rowMajor lt rt L.v.d0 R.v.d1 L.v.d1 L.rel L.ptr ls R.rel R.ptr rs ansStride
  { call := call, l := L, r := R,
    ans := { v := ansV, buf := .C, mem := gemmC call.args call.a call.b (fun _ => 0) } }

/-- `matmul_(const Array<2>&, const Array<2>&)` -/
def matmulMM (pw : Nat) (L R : Mat α) : Except Err (MMOut α) :=
  if L.v.d0 = 0 ∨ R.v.d0 = 0 then .error .emptyArray               -- check_inner_dimensions
  else if L.v.d1 ≠ R.v.d0 then .error .innerDimensionMismatch
  else .ok (gemmDense pw (prep pw L) (prep pw R))

/-! ### dense matrix · vector and vector · matrix -/

structure MVOut (α : Type) where
  call : GemvCall α
  l : Mat α
  ans : Vec α

def gemvDense (L : Mat α) (x : Vec α) : MVOut α :=
  let rowMajor := isRowContig L.v
  let stride := if rowMajor then L.v.o0 else L.v.o1
  let xs := blasVectorStart x.v.base x.v.d x.v.o
  let call := cppblasGemv rowMajor false L.v.d0 L.v.d1 L.rel L.ptr stride (fun p => x.mem (xs + p)) ⟨x.buf, xs⟩ x.v.o 1
  { call := call, l := L,
    ans := { v := { base := 0, d := L.v.d0, o := 1 }, buf := .C, mem := gemvY call.args call.a call.x (fun _ => 0) } }

/-- `matmul_(const Array<2>&, const Array<1>&)` -/
def matmulMV (pw : Nat) (L : Mat α) (x : Vec α) : Except Err (MVOut α) :=
  if L.v.d0 = 0 ∨ x.v.d = 0 then .error .emptyArray
  else if L.v.d1 ≠ x.v.d then .error .innerDimensionMismatch
  else .ok (gemvDense (prep pw L) x)

/-- `matmul_(const Array<1>& left, const Array<2>& right) = matmul_(right.T(), left)` -/
def matmulVM (pw : Nat) (x : Vec α) (R : Mat α) : Except Err (MVOut α) := matmulMV pw R.T x

/-! ### symmetric matrices -/

/-- a `SpecialMatrix<T,SymmEngine<Orient>>`: `lower` = ROW_LOWER_COL_UPPER -/
structure Symm (α : Type) where
  base : Int
  lower : Bool
  dim : Nat
  off : Int
  mem : Int → α
  buf : Buf

/-- `SymmEngine<Orient>::index(i,j,offset)` relative to the parent buffer -/
def Symm.cell (s : Symm α) (i j : Nat) : Int :=
  s.base + (if s.lower then (if j ≤ i then (i : Int) * s.off + (j : Int) else (i : Int) + (j : Int) * s.off)
            else (if i ≤ j then (i : Int) * s.off + (j : Int) else (i : Int) + (j : Int) * s.off))
def Symm.get (s : Symm α) (i j : Nat) : α := s.mem (s.cell i j)
def Symm.rel (s : Symm α) : Int → α := fun p => s.mem (s.base + p)

structure SymvOut (α : Type) where
  call : SymvCall α
  ans : Vec α

/-- the call of `matmul_symmetric(…, const Array<1>& right)` once the checks have passed -/
def symvCore (s : Symm α) (x : Vec α) : SymvOut α :=
  let upper := !s.lower                                              -- ROW_LOWER_COL_UPPER ⇒ BlasLower
  let xs := blasVectorStart x.v.base x.v.d x.v.o
  let call := cppblasSymv true upper x.v.d s.rel ⟨s.buf, s.base⟩ s.off (fun p => x.mem (xs + p)) ⟨x.buf, xs⟩ x.v.o 1
  { call := call,
    ans := { v := { base := 0, d := x.v.d, o := 1 }, buf := .C, mem := symvY call.args call.a call.x (fun _ => 0) } }

/-- `matmul_symmetric(…, const Array<1>& right)` -/
def matmulSymV (lAct rAct : Bool) (s : Symm α) (x : Vec α) : Except Err (SymvOut α) :=
  if s.dim = 0 ∨ x.v.d = 0 then .error .emptyArray                  -- check_inner_dimensions_sqr
  else if s.dim ≠ x.v.d then .error .innerDimensionMismatch
  else if lAct ∨ rAct then .error .invalidOperation
  else .ok (symvCore s x)

structure SymmOut (α : Type) where
  call : SymmCall α
  r : Mat α
  ans : Mat α

/-- the call of `matmul_symmetric(…, const Array<2>& right)` for a row- or column-contiguous `right` -/
def symmCore (pw : Nat) (s : Symm α) (R' : Mat α) : SymmOut α :=
  let rowMajor := isRowContig R'.v
  let upper := if rowMajor then !s.lower else s.lower
  let rs := if rowMajor then R'.v.o0 else R'.v.o1
  let ansV := if rowMajor then packRowMajor pw R'.v.d0 R'.v.d1 else packColMajor R'.v.d0 R'.v.d1
  let as := if rowMajor then ansV.o0 else ansV.o1
  let call := cppblasSymm rowMajor true upper R'.v.d0 R'.v.d1 s.rel ⟨s.buf, s.base⟩ s.off R'.rel R'.ptr rs as
  { call := call, r := R',
    ans := { v := ansV, buf := .C, mem := symmC call.args call.a call.b (fun _ => 0) } }

/-- `matmul_symmetric(…, const Array<2>& right)` -/
def matmulSymM (pw : Nat) (lAct rAct : Bool) (s : Symm α) (R : Mat α) : Except Err (SymmOut α) :=
  if s.dim = 0 ∨ R.v.d0 = 0 then .error .emptyArray
  else if s.dim ≠ R.v.d0 then .error .innerDimensionMismatch
  else if lAct ∨ rAct then .error .invalidOperation
  else .ok (symmCore pw s (prep pw R))

/-- vector · symmetric: `matmul_symmetric<RIsActive>(right…, left)` -/
def matmulVSym (lAct rAct : Bool) (x : Vec α) (s : Symm α) : Except Err (SymvOut α) := matmulSymV rAct lAct s x

/-- matrix · symmetric: `matmul_symmetric<RIsActive>(right…, left.T()).T()` -/
def matmulMSym (pw : Nat) (lAct rAct : Bool) (L : Mat α) (s : Symm α) : Except Err (SymmOut α) :=
  match matmulSymM pw rAct lAct s L.T with
  | .error e => .error e
  | .ok o => .ok { o with ans := o.ans.T }

/-! ### band matrices -/

/-- a `SpecialMatrix<T,BandEngine<Order,LDiags,UDiags>>`: `kl` = LDiags, `ku` = UDiags -/
structure Band (α : Type) where
  base : Int
  rowMajor : Bool
  kl : Nat
  ku : Nat
  dim : Nat
  off : Int
  mem : Int → α
  buf : Buf

/-- `BandEngine<Order,…>::index(i,j,offset)` relative to the parent buffer -/
def Band.cell (b : Band α) (i j : Nat) : Int :=
  b.base + (if b.rowMajor then (i : Int) * b.off + (j : Int) else (i : Int) + (j : Int) * b.off)
/-- `get_scalar`: zero outside the band -/
def Band.get (b : Band α) (i j : Nat) : α := if j > i + b.ku ∨ i > j + b.kl then 0 else b.mem (b.cell i j)
/-- the transposed band matrix as the swap-and-transpose overloads describe it:
    `new_r_order`, `UDiags`, `LDiags` exchanged, same memory -/
def Band.T (b : Band α) : Band α := { b with rowMajor := !b.rowMajor, kl := b.ku, ku := b.kl }

/-- the start pointer and the `cppblas_gbmv` call common to both `matmul_band` overloads -/
def bandCall (b : Band α) (xmem : Int → α) (xbuf : Buf) (xbase : Int) (xn : Nat) (xinc : Int) (py : Ptr) (incy : Int) : GbmvCall α :=
  let start := if b.rowMajor then b.base - (b.kl : Int) else b.base - (b.ku : Int)     -- repair of F-26
  let xs := blasVectorStart xbase xn xinc
  cppblasGbmv b.rowMajor false b.dim b.dim b.kl b.ku (fun p => b.mem (start + p)) ⟨b.buf, start⟩ (b.off + 1)
    (fun p => xmem (xs + p)) ⟨xbuf, xs⟩ xinc py incy

structure BandVOut (α : Type) where
  call : GbmvCall α
  ans : Vec α

/-- the call of `matmul_band(…, const Array<1>& right)` once the checks have passed -/
def bandVCore (b : Band α) (x : Vec α) : BandVOut α :=
  let call := bandCall b x.mem x.buf x.v.base x.v.d x.v.o ⟨.C, 0⟩ 1
  { call := call,
    ans := { v := { base := 0, d := x.v.d, o := 1 }, buf := .C, mem := gbmvY call.args call.a call.x (fun _ => 0) } }

/-- `matmul_band(…, const Array<1>& right)` -/
def matmulBandV (lAct : Bool) (b : Band α) (x : Vec α) : Except Err (BandVOut α) :=
  if b.dim = 0 ∨ x.v.d = 0 then .error .emptyArray
  else if b.dim ≠ x.v.d then .error .innerDimensionMismatch
  else if lAct then .error .invalidOperation
  else .ok (bandVCore b x)

structure BandMOut (α : Type) where
  calls : List (GbmvCall α)
  ans : Mat α

/-- memory of the result after one more ?GBMV call: the call writes relative to its own `y` pointer -/
def bandMStep (m : Int → α) (c : GbmvCall α) : Int → α := fun p =>
  gbmvY c.args c.a c.x (fun q => m (c.py.off + q)) (p - c.py.off)

/-- the calls of `matmul_band(…, const Array<2>& right)` once the checks have passed: one ?GBMV per column `i` of
    `right`, reading `right.const_data()+i*right.offset(1)` with increment `right.offset(0)` and writing
    `ans.data()+i*ans.offset(1)` with increment `ans.offset(0)` -/
def bandMCore (pw : Nat) (b : Band α) (R : Mat α) : BandMOut α :=
  let ansV := packRowMajor pw R.v.d0 R.v.d1
  let calls := (List.range R.v.d1).map (fun (i : Nat) =>
    bandCall b R.mem R.buf (R.v.base + (i : Int) * R.v.o1) R.v.d0 R.v.o0 ⟨.C, (i : Int) * ansV.o1⟩ ansV.o0)
  { calls := calls, ans := { v := ansV, buf := .C, mem := calls.foldl bandMStep (fun _ => 0) } }

/-- `matmul_band(…, const Array<2>& right)` -/
def matmulBandM (pw : Nat) (lAct rAct : Bool) (b : Band α) (R : Mat α) : Except Err (BandMOut α) :=
  if b.dim = 0 ∨ R.v.d0 = 0 then .error .emptyArray
  else if b.dim ≠ R.v.d0 then .error .innerDimensionMismatch
  else if lAct ∨ rAct then .error .invalidOperation
  else .ok (bandMCore pw b R)

/-- vector · band: `matmul_band<RIsActive>(right…, new_r_order, UDiags, LDiags, …, left)` -/
def matmulVBand (rAct : Bool) (x : Vec α) (b : Band α) : Except Err (BandVOut α) := matmulBandV rAct b.T x

/-- matrix · band: `matmul_band<RIsActive>(right… transposed …, left.T()).T()` -/
def matmulMBand (pw : Nat) (lAct rAct : Bool) (L : Mat α) (b : Band α) : Except Err (BandMOut α) :=
  match matmulBandM pw rAct lAct b.T L.T with
  | .error e => .error e
  | .ok o => .ok { o with ans := o.ans.T }

/-! ### derivative statements of the dense products

`push_derivative_dependence(idx, mult, n, index_stride, multiplier_stride)` pushes, for `l < n`, the operation
`(mult[l·multiplier_stride], idx + l·index_stride)`; then `push_lhs` closes the statement of one result element.
Operations are `(multiplier, gradient cell)`, the cell being the offset from the operand's parent. -/

def pushDep (idx : Int) (mult : Int → α) (m0 : Int) (n : Nat) (indexStride multStride : Int) : List (α × Int) :=
  (List.range n).map (fun (l : Nat) => (mult (m0 + (l : Int) * multStride), idx + (l : Int) * indexStride))

/-- statement pushed for element `i` of `matmul_(Array<2>, Array<1>)` -/
def gemvOps (lAct rAct : Bool) (L : Mat α) (x : Vec α) (i : Nat) : List (α × Buf × Int) :=
  (if lAct then (pushDep (L.v.base + (i : Int) * L.v.o0) x.mem x.v.base x.v.d L.v.o1 x.v.o).map (fun p => (p.1, L.buf, p.2)) else []) ++
  (if rAct then (pushDep x.v.base L.mem (L.v.base + (i : Int) * L.v.o0) x.v.d x.v.o L.v.o1).map (fun p => (p.1, x.buf, p.2)) else [])

/-- statement pushed for element `(i,j)` of `matmul_(Array<2>, Array<2>)` -/
def gemmOps (lAct rAct : Bool) (L R : Mat α) (i j : Nat) : List (α × Buf × Int) :=
  (if lAct then (pushDep (L.v.base + (i : Int) * L.v.o0) R.mem (R.v.base + (j : Int) * R.v.o1) R.v.d0 L.v.o1 R.v.o0).map
      (fun p => (p.1, L.buf, p.2)) else []) ++
  (if rAct then (pushDep (R.v.base + (j : Int) * R.v.o1) L.mem (L.v.base + (i : Int) * L.v.o0) R.v.d0 R.v.o0 L.v.o1).map
      (fun p => (p.1, R.buf, p.2)) else [])

/-! ### the statements an active product records

After the BLAS call `matmul_` records one statement per result element (`push_derivative_dependence` per active
operand, then `push_lhs`).  Gradient indices are kept symbolically as `Ptr`s: the gradient *block* and the offset in it.
  * `L` / `R`: the block registered for the storage of the left / right operand's parent array; since
    `gradient_index()` of a view is the index of its `data()` pointer, the offset of an element is its storage cell;
  * `T`: the indices registered after the operands were built, i.e. by the arrays created inside `matmul`
    (`promote_array`'s conversions, the copies of doubly strided operands, a result array abandoned for the recursive
    call), in allocation order (`Stack::do_register_gradients` with an empty gap list hands out consecutive blocks);
  * `C`: the block of the result array that is returned, offset = its storage cell. -/

structure Stmt (α : Type) where
  lhs : Ptr
  ops : List (α × Ptr)

/-- the gradient side of a dense operand: whether it is active, and the gradient index of cell 0 of its buffer -/
structure Grad where
  act : Bool
  blk : Buf
  g0 : Int := 0
deriving Repr, DecidableEq

/-- gradient index of the storage cell `cell` of the operand's buffer -/
def Grad.idx (g : Grad) (cell : Int) : Ptr := ⟨g.blk, g.g0 + cell⟩

/-- `Stack::push_derivative_dependence(rhs_index, multiplier, n, index_stride, multiplier_stride)` with the gradient
    index in block `blk`; `mult`/`m0`: the memory the multiplier pointer points into and its cell -/
def pushDependence (blk : Buf) (rhsIndex : Int) (mult : Int → α) (m0 : Int) (n : Nat) (indexStride multStride : Int) :
    List (α × Ptr) :=
  (pushDep rhsIndex mult m0 n indexStride multStride).map (fun p => (p.1, (⟨blk, p.2⟩ : Ptr)))

/-- the value of a statement's right-hand side for an assignment `d` of differentials to gradient indices -/
def Stmt.diff (s : Stmt α) (d : Ptr → α) : α := s.ops.foldr (fun p acc => p.1 * d p.2 + acc) 0

/-- one step of the tangent-linear (forward-mode) sweep `Stack::compute_tangent_linear` performs over the recorded
    statements: `gradient[lhs] = Σ multiplier·gradient[index]` -/
def fwdStep (d : Ptr → α) (s : Stmt α) : Ptr → α := fun p => if p = s.lhs then s.diff d else d p

/-- the tangent-linear sweep over a list of statements, starting from the differentials `d` -/
def fwd (stmts : List (Stmt α)) (d : Ptr → α) : Ptr → α := stmts.foldl fwdStep d

/-- the recording loop of `matmul_(const Array<2>&, const Array<1>&)` (matmul.h:102-126):
    `left_index = left.gradient_index()`, `right_index = right.gradient_index()`, `n = right.dimension(0)`;
    per row `i` of `ans`: `push_derivative_dependence(left_index+i*left_offset[0], right.const_data(), n, left_offset[1],
    right_offset[0])` if the left operand is active, `push_derivative_dependence(right_index, left.const_data()+
    i*left_offset[0], n, right_offset[0], left_offset[1])` if the right one is, `push_lhs(ans_index + i*ans.offset(0))` -/
def gemvRecord (gl gr : Grad) (L : Mat α) (x : Vec α) (ans : View1) : List (Stmt α) :=
  if gl.act || gr.act then
    (List.range ans.d).map (fun (i : Nat) =>
      { ops :=
          (if gl.act then pushDependence gl.blk (gl.g0 + L.v.base + (i : Int) * L.v.o0) x.mem x.v.base x.v.d L.v.o1 x.v.o else []) ++
          (if gr.act then pushDependence gr.blk (gr.g0 + x.v.base) L.mem (L.v.base + (i : Int) * L.v.o0) x.v.d x.v.o L.v.o1 else []),
        lhs := ⟨.C, ans.base + (i : Int) * ans.o⟩ })
  else []

/-- the recording loop of `matmul_(const Array<2>&, const Array<2>&)` (matmul.h:193-221), `n = right.dimension(0)`;
    per `(i,j)`: `push_derivative_dependence(left_index+i*left_offset[0], right.const_data()+j*right_offset[1], n,
    left_offset[1], right_offset[0])`, `push_derivative_dependence(right_index+j*right_offset[1], left.const_data()+
    i*left_offset[0], n, right_offset[0], left_offset[1])`, `push_lhs(ans_index + i*ans.offset(0) + j*ans.offset(1))` -/
def gemmRecord (gl gr : Grad) (L R : Mat α) (ans : View2) : List (Stmt α) :=
  if gl.act || gr.act then
    pairs ans.d0 ans.d1 (fun (i j : Nat) =>
      { ops :=
          (if gl.act then pushDependence gl.blk (gl.g0 + L.v.base + (i : Int) * L.v.o0) R.mem (R.v.base + (j : Int) * R.v.o1)
              R.v.d0 L.v.o1 R.v.o0 else []) ++
          (if gr.act then pushDependence gr.blk (gr.g0 + R.v.base + (j : Int) * R.v.o1) L.mem (L.v.base + (i : Int) * L.v.o0)
              R.v.d0 R.v.o0 L.v.o1 else []),
        lhs := ⟨.C, ans.base + (i : Int) * ans.o0 + (j : Int) * ans.o1⟩ })
  else []

/-- `BandEngine::get_row_range` as `matmul_band` restates it: `j_start = i<LDiags ? 0 : i-LDiags` -/
def bandJStart (kl i : Nat) : Nat := if i < kl then 0 else i - kl
/-- `j_end_plus_1 = i+UDiags+1>left_dim ? left_dim : i+UDiags+1` -/
def bandJEnd (ku dim i : Nat) : Nat := if i + ku + 1 > dim then dim else i + ku + 1

/-- the recording loops of `matmul_band(…, const Array<1,T,RIsActive>& right)` (matmul.h:338-372) for an active vector:
    per row `i` the in-band columns `j_start … j_end_plus_1-1`, `n = j_end_plus_1 - j_start`,
    `index_start = i*left_offset + j_start`, `index_stride = 1` (ROW_MAJOR) or `i + j_start*left_offset`, `left_offset`
    (COL_MAJOR): `push_derivative_dependence(right_index + j_start*right.offset(0), left_ptr+index_start, n,
    right.offset(0), index_stride)`, `push_lhs(ans_index + i*ans.offset(0))` -/
def bandVRecord (b : Band α) (gr : Grad) (x : Vec α) (ans : View1) : List (Stmt α) :=
  if gr.act then
    (List.range ans.d).map (fun (i : Nat) =>
      let jStart := bandJStart b.kl i
      let n := bandJEnd b.ku b.dim i - jStart
      let indexStart : Int := if b.rowMajor then (i : Int) * b.off + (jStart : Int) else (i : Int) + (jStart : Int) * b.off
      let indexStride : Int := if b.rowMajor then 1 else b.off
      { ops := pushDependence gr.blk (gr.g0 + x.v.base + (jStart : Int) * x.v.o) b.mem (b.base + indexStart) n x.v.o indexStride,
        lhs := ⟨.C, ans.base + (i : Int) * ans.o⟩ })
  else []

/-- element-wise evaluation of an ACTIVE operand that is not an array (`promote_array`: `Array<2,T,true>(expression)`,
    `Array<2,T,true>(special matrix)`) or of a doubly strided array into the fresh row-major `d0 × d1` array with view
    `c` whose gradient block starts at `T+t`: one statement per element in row-major order, `src i k` its operations
    (`[(2, gidx A[i,k])]` for `2.0*A`, `[(1,·),(1,·)]` for `A+A`, `[(1,·)]` for a copy, `[]` for a structural zero) -/
def convRecord (c : View2) (t : Int) (d0 d1 : Nat) (src : Nat → Nat → List (α × Ptr)) : List (Stmt α) :=
  pairs d0 d1 (fun (i k : Nat) => { lhs := ⟨.T, t + c.addr i k⟩, ops := src i k })

/-- the same for a vector (`Array<1,T,true>(expression)`): contiguous, `d` gradient indices from `T+t` -/
def convRecord1 (t : Int) (d : Nat) (src : Nat → List (α × Ptr)) : List (Stmt α) :=
  (List.range d).map (fun (i : Nat) => { lhs := ⟨.T, t + (i : Int)⟩, ops := src i })

section Copies
variable [One α]

/-- `Array<2,T,A> left_; left_ = left;` for an active operand: one statement per element, in row-major order of the
    logical elements, `left_[i,k] = 1·left[i,k]`; `c` is the fresh array's view, `t` the offset of its gradient block in `T` -/
def copyRecord (g : Grad) (A : Mat α) (c : View2) (t : Int) : List (Stmt α) :=
  if g.act then convRecord c t A.v.d0 A.v.d1 (fun (i k : Nat) => [((1 : α), g.idx (A.v.addr i k))])
  else []

/-- the gradient side of `prep`: gradient description of the operand handed on, statements of the copy, next free `T` offset.
    (`Storage<Type>(data_vol, IsActive)` registers `data_vol = offset(0)*dimension(0)` indices for an active array only) -/
def prepRecord (pw : Nat) (g : Grad) (A : Mat α) (t : Int) : Grad × List (Stmt α) × Int :=
  if needsCopy A.v then
    let c := (copyMat pw A).v
    ({ act := g.act, blk := .T, g0 := t }, copyRecord g A c t, if g.act then t + c.o0 * (c.d0 : Int) else t)
  else (g, [], t)

/-- everything `matmul_(const Array<2>&, const Array<2>&)` records when the checks pass; `t` = next free `T` offset on entry -/
def matmulMMTape (pw : Nat) (gl gr : Grad) (t : Int) (L R : Mat α) : List (Stmt α) :=
  let pl := prepRecord pw gl L t
  let pr := prepRecord pw gr R pl.2.2
  let o := gemmDense pw (prep pw L) (prep pw R)
  pl.2.1 ++ pr.2.1 ++ gemmRecord pl.1 pr.1 o.l o.r o.ans.v

/-- everything `matmul_(const Array<2>&, const Array<1>&)` records.  `Array<1,T,is_active> ans(left.dimension(0))` is
    constructed BEFORE the contiguity test, so when the left operand is copied the abandoned outer `ans` holds
    `left.dimension(0)` gradient indices while `matmul_(left_, right)` runs -/
def matmulMVTape (pw : Nat) (gl gr : Grad) (t : Int) (L : Mat α) (x : Vec α) : List (Stmt α) :=
  let t1 := if needsCopy L.v && (gl.act || gr.act) then t + (L.v.d0 : Int) else t
  let pl := prepRecord pw gl L t1
  let o := gemvDense (prep pw L) x
  pl.2.1 ++ gemvRecord pl.1 gr o.l x o.ans.v

/-- `matmul_(const Array<1>& left, const Array<2>& right) = matmul_(right.T(), left)` -/
def matmulVMTape (pw : Nat) (gl gr : Grad) (t : Int) (x : Vec α) (R : Mat α) : List (Stmt α) :=
  matmulMVTape pw gr gl t R.T x

end Copies

/-- what `matmul_band(…, const Array<1>& right)` records (passive band matrix) -/
def matmulBandVTape (b : Band α) (gr : Grad) (x : Vec α) : List (Stmt α) := bandVRecord b gr x (bandVCore b x).ans.v

/-- vector · band: `matmul_band<RIsActive>(right…, new_r_order, UDiags, LDiags, …, left)` -/
def matmulVBandTape (gl : Grad) (x : Vec α) (b : Band α) : List (Stmt α) := matmulBandVTape b.T gl x

end Adept.Matmul
