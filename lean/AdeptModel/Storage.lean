/-
M6 — storage life cycle of `adept::Array` (rank 1 and 2, passive and active) and `adept::SpecialMatrix` (symmetric,
tridiagonal, diagonal; passive and active), including the CROSS-CLASS views (`Array::diag_matrix()`, `inactive_link()` /
`value()`, `diag_vector` of special matrices), over reference-counted `adept::Storage`.

Transcribed from
  include/adept/Storage.h   Storage(Index,bool) 71-84 (registers `n` gradients when active), ~Storage 90-102
                            (unregisters them), add_link 143-144, remove_link 149-157, n_links 164-165,
                            n_storage_objects 216-218
  include/adept/Array.h     Array() 154, Array(Index...) 166-168, Array(Type*,Storage*,dims,offset) 181-203 (the VIEW
                            constructor: negative extents are rejected BEFORE `storage_->add_link()`),
                            Array(const Type*,Index,dims,offset,Index) 208-219 (soft_link, FixedArray slices),
                            Array(Type*,dims) 225-237, Array(Array&) / Array(const Array&) / link_ 246-274,
                            Array(const Expression&) 283-293, ~Array 355-356, operator=(const Array&) 366-371,
                            operator=(Array&&) 374-405, swap 407-420, operator=(const Expression&),
                            operator()(range) 1045-1073 and update_index 1080-1103 (rank 2), operator[] 1509-1522,
                            diag_vector 1546-1569, submatrix_on_diagonal 1571-1590, link 1791-1812, empty 1888,
                            clear 1937-1946, resize(const Index*) 1949-1990, resize(Index,...) 2025-2037,
                            in_place_transpose/T 2397-2446, permute 2454-2500, reshape 2505-2522, soft_link 2546-2551
  include/adept/SpecialMatrix.h  SymmEngine 519-575 / SquareEngine 60-165 (pack_offset, data_size, upper/lower_offset),
                            BandEngine 255-370, SpecialMatrix() 961, SpecialMatrix(Index) 968,
                            SpecialMatrix(Type*,Storage*,dim,offset) 973-985 (its view constructor has no extent test),
                            copy constructors 1010-1027, ~SpecialMatrix 1046, operator= 1057-1100 (NO move assignment),
                            diag_vector 1325-1343, submatrix_on_diagonal 1346-1354, soft_link 1370, link 1383-1403,
                            clear 1505-1514, resize(Index) 1517-1543, resize(Index,Index) 1546-1552
  include/adept/FixedArray.h operator()(range) 754-763 (a slice of a FixedArray is an `Array` with storage_ == 0)

The model transcribes the tree WITH the repairs fixes/F-01.patch, fixes/F-24.patch and F-74 (commit f93fa0f: a resize
whose allocation fails leaves the array empty):
  * F-01: `operator=(Array&&)` steals the source's data only if the source owns an unshared Storage
    (`rhs.storage() && rhs.storage()->n_links() == 1`).  The pinned code read `!rhs.storage() || …`, i.e. it also
    swapped with a source that has NO storage (external memory, FixedArray slice, soft link), leaving the target
    aliased to memory it does not own; `assignMoveAtPinned` below keeps that rule for reference.
  * F-24: `resize` validates the requested extents before it releases the old Storage (the pinned code released
    first, so a caught `invalid_dimension` left `data_` dangling).

Objects live in a pool (a list; an object is addressed by its position, new objects are appended, temporaries are
ordinary pool objects with a short life).  An object has a KIND (which C++ class it is: the ownership theorems do
not depend on it), `data_`, `storage_`, its extents and its element strides; `data_` is kept as (allocation, element
offset from the start of that allocation), where an allocation is a `Storage` (library-owned) or an external block
(user memory, a `FixedArray`, the stack).  Values live in the allocations (`smem` per storage, `exts` per external
block), not in the objects.

An operation the library REJECTS (it throws and the caller catches) answers `.error e` with the exception class and
no state: the history continues from the state before the call (`stepOrStay`).  Every `throw` of the transcribed
code precedes the first mutation — in particular the view constructor tests the extents before it takes its link.

Core Lean only (this file is linked into the `adept_model` driver).
-/
namespace Adept.Storage

inductive Err
  | emptyArray | sizeMismatch | invalidDimension   -- the documented exceptions
  | invalidOperation                                -- diag_vector / submatrix_on_diagonal of a non-square matrix
  | indexOutOfBounds                                -- submatrix_on_diagonal / band diag_vector out of range
  | linkUnderflow  -- `Storage::remove_link()` with no link left (C++: invalid_operation); unreachable, see C07
  | fault        -- modelled fault: a Storage object was touched after `delete this` (never an exception in C++)
  | badAccess    -- modelled fault: data read or written through a null, stale or out-of-range pointer
  | badOp        -- not an operation of the protocol (unknown position, slice outside the array, ...)
deriving Repr, DecidableEq

/-- which C++ class an object is -/
inductive Kind
  | vec    -- Array<1,int,false>
  | mat    -- Array<2,int,false>
  | avec   -- Array<1,double,true>: its Storage registers gradients
  | symm   -- SpecialMatrix<int,SymmEngine<ROW_LOWER_COL_UPPER>,false>
  | tri    -- SpecialMatrix<int,BandEngine<ROW_MAJOR,1,1>,false>
  | diag   -- SpecialMatrix<int,BandEngine<ROW_MAJOR,0,0>,false> (DiagMatrix): what `intVector::diag_matrix()` returns
  | adiag  -- SpecialMatrix<double,BandEngine<ROW_MAJOR,0,0>,true>: what `aVector::diag_matrix()` returns
  | asymm  -- SpecialMatrix<double,SymmEngine<ROW_LOWER_COL_UPPER>,true>: an ACTIVE special matrix
  | dvec   -- Array<1,double,false>: what `value()` / `inactive_link()` of an active vector returns
deriving Repr, DecidableEq

/-- `IsActive` -/
def Kind.active : Kind → Bool
  | .avec | .adiag | .asymm => true
  | _ => false

/-- an `Array` (as opposed to a `SpecialMatrix`) -/
def Kind.isArray : Kind → Bool
  | .vec | .mat | .avec | .dvec => true
  | _ => false

/-- a rank-1 `Array` -/
def Kind.isVec : Kind → Bool
  | .vec | .avec | .dvec => true
  | _ => false

/-- a symmetric `SpecialMatrix` -/
def Kind.isSymm : Kind → Bool
  | .symm | .asymm => true
  | _ => false

/-- number of sub- and super-diagonals of a band `SpecialMatrix` (`LDiags = UDiags`) -/
def Kind.band : Kind → Option Nat
  | .tri => some 1
  | .diag | .adiag => some 0
  | _ => none

/-- class of the vector a `diag_vector` of this matrix is: `Array<1,Type,IsActive>` -/
def Kind.diagVec (k : Kind) : Kind := if k.active then .avec else .vec

/-- which allocation `data_` points into -/
inductive Region
  | null                -- data_ == 0
  | sto (σ : Nat)       -- data block of Storage number σ
  | ext (x : Nat)       -- external block number x
deriving Repr, DecidableEq

/-- a `Storage<Type>` object: `n_links_`, whether `delete this` has run, `n_`, whether it registered gradients -/
structure Sto where
  nLinks : Nat
  freed  : Bool
  size   : Nat
  active : Bool := false
deriving Repr, DecidableEq

/-- an external block; `live = false` once the environment has ended it -/
structure Ext where
  live : Bool
  vals : List Int
deriving Repr, DecidableEq

/-- an array object.  `len`/`stride` are `dimensions_[0]`/`offset_[0]` (`dimension_`/`offset_` of a
    SpecialMatrix); `len1`/`stride1` are `dimensions_[1]`/`offset_[1]` of a rank-2 Array and 0 otherwise -/
structure Obj where
  kind    : Kind := .vec
  region  : Region := .null     -- allocation `data_` points into
  off     : Nat := 0            -- `data_` minus the start of that allocation
  storage : Option Nat := none  -- `storage_`
  len     : Nat := 0
  stride  : Nat := 0
  len1    : Nat := 0
  stride1 : Nat := 0
deriving Repr, DecidableEq

/-- the default-constructed / cleared object of a kind -/
def blank (k : Kind) : Obj := { kind := k }

structure St where
  heap    : List Sto := []          -- every Storage ever created, by creation number
  smem    : List (List Int) := []   -- data block of each Storage
  exts    : List Ext := []
  pool    : List Obj := []          -- the live array objects
  created : Nat := 0                -- internal::n_storage_objects_created_
  deleted : Nat := 0                -- internal::n_storage_objects_deleted_
  gradReg : Nat := 0                -- Stack::n_gradients_registered()
  failIn  : Nat := 0                -- fault schedule: the failIn-th next data allocation throws std::bad_alloc (0: none)
  thrown  : Bool := false           -- the operation just run ended by throwing std::bad_alloc; the state is what it left
deriving Repr

def init : St := {}

/-- `adept::n_storage_objects()` -/
def nStorageObjects (s : St) : Int := (s.created : Int) - s.deleted

def iota (n : Nat) (v0 : Int) : List Int := (List.range n).map (fun (i : Nat) => v0 + Int.ofNat i)

/-! ## geometry of an object -/

/-- number of elements from `data_` to one past the last element the object can address
    (SpecialMatrix: `Engine::data_size(dimension_, offset_)`) -/
def extentOf (o : Obj) : Nat :=
  match o.kind with
  | .vec | .avec | .dvec => if o.len = 0 then 0 else (o.len - 1) * o.stride + 1
  | .mat => if o.len = 0 ∨ o.len1 = 0 then 0 else (o.len - 1) * o.stride + (o.len1 - 1) * o.stride1 + 1
  | .symm | .asymm => if o.len = 0 then 0 else (o.len - 1) * o.stride + o.len
  | .tri | .diag | .adiag => if o.len = 0 then 0 else (o.len - 1) * (o.stride + 1) + 1

/-- memory index (from the start of the allocation) of every element the object addresses, in canonical order:
    vector by index, matrix row by row, symmetric matrix the stored (lower) triangle row by row
    (`SymmEngine::index`, i ≥ j: `i*offset + j`), band matrix (tridiagonal, diagonal) the band row by row
    (`BandEngine::index`: `i*offset + j`) -/
def cells (o : Obj) : List Nat :=
  match o.kind with
  | .vec | .avec | .dvec => (List.range o.len).map (fun k => o.off + k * o.stride)
  | .mat => (List.range o.len).flatMap (fun i => (List.range o.len1).map (fun j => o.off + i * o.stride + j * o.stride1))
  | .symm | .asymm => (List.range o.len).flatMap (fun i => (List.range (i + 1)).map (fun j => o.off + i * o.stride + j))
  | .tri => (List.range o.len).flatMap (fun i =>
      ((List.range o.len).filter (fun j => decide (i ≤ j + 1 ∧ j ≤ i + 1))).map (fun j => o.off + i * o.stride + j))
  | .diag | .adiag => (List.range o.len).map (fun i => o.off + i * (o.stride + 1))

/-- `pack_()` (Array: row-major, `Packet<int>::size == 1` so rows are not padded) / `Engine::pack_offset`:
    the object a fresh allocation gives, `data_ = storage_->data()` -/
def ownerOf (k : Kind) (σ n0 n1 : Nat) : Obj :=
  match k with
  | .vec | .avec | .dvec => { kind := k, region := .sto σ, off := 0, storage := some σ, len := n0, stride := 1 }
  | .mat => { kind := k, region := .sto σ, off := 0, storage := some σ, len := n0, stride := n1, len1 := n1, stride1 := 1 }
  | .symm | .asymm => { kind := k, region := .sto σ, off := 0, storage := some σ, len := n0, stride := n0 }
  | .tri => { kind := k, region := .sto σ, off := 0, storage := some σ, len := n0, stride := 2 }
  | .diag | .adiag => { kind := k, region := .sto σ, off := 0, storage := some σ, len := n0, stride := 0 }

/-- elements allocated by `resize`: `offset_[0]*dimensions_[0]` (Array, row-major) / `Engine::data_size` -/
def dataVolume (k : Kind) (n0 n1 : Nat) : Nat :=
  match k with
  | .vec | .avec | .dvec => n0
  | .mat => n0 * n1
  | .symm | .asymm => (n0 - 1) * n0 + n0
  | .tri => (n0 - 1) * 3 + 1
  | .diag | .adiag => (n0 - 1) * 1 + 1

/-! ## Storage.h -/

/-- `new Storage<Type>(n, IsActive)`: `n_links_(1)`, `++n_storage_objects_created_`, an active Storage registers `n`
    gradients; the data are uninitialised in C++ (zero here), the harness fills the addressed elements right after -/
def newStorage (s : St) (n : Nat) (act : Bool) : St × Nat :=
  ({ s with heap := s.heap ++ [{ nLinks := 1, freed := false, size := n, active := act }],
            smem := s.smem ++ [List.replicate n 0],
            created := s.created + 1,
            gradReg := if act then s.gradReg + n else s.gradReg }, s.heap.length)

/-- `internal::alloc_aligned` consults the fault schedule: the scheduled allocation throws `std::bad_alloc` out of the
    `Storage` constructor (the half-built Storage object is freed by the `new` expression: no counter has moved, no
    gradient is registered) -/
def allocTick (s : St) : St × Bool :=
  if s.failIn = 1 then ({ s with failIn := 0, thrown := true }, true)
  else ({ s with failIn := s.failIn - 1 }, false)

/-- `Storage::add_link()` : `n_links_++` -/
def addLink (s : St) (σ : Nat) : Except Err St :=
  match s.heap[σ]? with
  | none => .error .fault
  | some r =>
    if r.freed then .error .fault
    else .ok { s with heap := s.heap.set σ { r with nLinks := r.nLinks + 1 } }

/-- `Storage::remove_link()`: throws at 0; `--n_links_ == 0` → `delete this`
    (`~Storage`: `free_aligned(data_)`, gradients unregistered, `++n_storage_objects_deleted_`) -/
def removeLink (s : St) (σ : Nat) : Except Err St :=
  match s.heap[σ]? with
  | none => .error .fault
  | some r =>
    if r.freed then .error .fault
    else if r.nLinks = 0 then .error .linkUnderflow
    else if r.nLinks - 1 = 0 then
      .ok { s with heap := s.heap.set σ { r with nLinks := 0, freed := true }, deleted := s.deleted + 1,
                   gradReg := if r.active then s.gradReg - r.size else s.gradReg }
    else .ok { s with heap := s.heap.set σ { r with nLinks := r.nLinks - 1 } }

/-- `storage_->n_links()` -/
def nLinksOf (s : St) (σ : Nat) : Except Err Nat :=
  match s.heap[σ]? with
  | none => .error .fault
  | some r => if r.freed then .error .fault else .ok r.nLinks

/-! ## memory cells -/

def readCell (s : St) (r : Region) (c : Nat) : Except Err Int :=
  match r with
  | .null => .error .badAccess
  | .sto σ =>
    match s.heap[σ]?, s.smem[σ]? with
    | some h, some m => if h.freed then .error .badAccess else
        match m[c]? with
        | some v => .ok v
        | none => .error .badAccess
    | _, _ => .error .badAccess
  | .ext x =>
    match s.exts[x]? with
    | some e => match e.vals[c]? with
      | some v => .ok v
      | none => .error .badAccess
    | none => .error .badAccess

def writeCell (s : St) (r : Region) (c : Nat) (v : Int) : Except Err St :=
  match r with
  | .null => .error .badAccess
  | .sto σ =>
    match s.heap[σ]?, s.smem[σ]? with
    | some h, some m =>
      if h.freed then .error .badAccess
      else if c < m.length then .ok { s with smem := s.smem.set σ (m.set c v) }
      else .error .badAccess
    | _, _ => .error .badAccess
  | .ext x =>
    match s.exts[x]? with
    | some e =>
      if c < e.vals.length then .ok { s with exts := s.exts.set x { e with vals := e.vals.set c v } }
      else .error .badAccess
    | none => .error .badAccess

/-- the values at the memory indices `cs` of allocation `r` -/
def readCells (s : St) (r : Region) : List Nat → Except Err (List Int)
  | [] => .ok []
  | c :: cs =>
    match readCell s r c with
    | .error e => .error e
    | .ok v => match readCells s r cs with
      | .error e => .error e
      | .ok vs => .ok (v :: vs)

/-- the values an object reads, in canonical order -/
def readView (s : St) (o : Obj) : Except Err (List Int) := readCells s o.region (cells o)

/-- store `vs` at the memory indices `cs` of allocation `r` (as many as both lists have) -/
def writeCells (s : St) (r : Region) : List Nat → List Int → Except Err St
  | [], _ => .ok s
  | _, [] => .ok s
  | c :: cs, v :: vs =>
    match writeCell s r c v with
    | .error e => .error e
    | .ok s' => writeCells s' r cs vs

/-! ## the pool -/

def getObj (s : St) (i : Nat) : Except Err Obj :=
  match s.pool[i]? with
  | some o => .ok o
  | none => .error .badOp

def setObj (s : St) (i : Nat) (o : Obj) : St := { s with pool := s.pool.set i o }

def push (s : St) (o : Obj) : St := { s with pool := s.pool ++ [o] }

/-! ## Array.h / SpecialMatrix.h -/

/-- `if (storage_) { storage_->remove_link(); storage_ = 0; }` (clear, resize) -/
def releaseAt (s : St) (i : Nat) : Except Err St :=
  match getObj s i with
  | .error e => .error e
  | .ok a =>
    match a.storage with
    | none => .ok s
    | some σ =>
      match removeLink s σ with
      | .error e => .error e
      | .ok s1 => .ok (setObj s1 i { a with storage := none })

/-- `clear()`: release, then `data_ = 0`, dimensions and offsets zero -/
def clearAt (s : St) (i : Nat) : Except Err St :=
  match getObj s i with
  | .error e => .error e
  | .ok a =>
    match releaseAt s i with
    | .error e => .error e
    | .ok s1 => .ok (setObj s1 i (blank a.kind))

/-- the tests `resize` makes before it touches anything.  `none`: an extent is zero, the array is cleared.
    Array<1>: `resize(const Index*)`; `strict` is the overload `resize(Index m0, Index m1, …)`, which first rejects
    every negative extent.  Array<2> `resize(const Index*)` walks the extents in order, so `(0,-1)` clears and
    `(-1,0)` throws.  SpecialMatrix: `strict` is `resize(Index dim)`, otherwise `resize(Index dim0, Index dim1)`
    (not square → invalid_dimension). -/
def resizeCheck (k : Kind) (strict : Bool) (n0 n1 : Int) : Except Err (Option (Nat × Nat)) :=
  match k with
  | .vec | .avec | .dvec =>
    if n0 < 0 then .error .invalidDimension
    else if n0 = 0 then .ok none
    else .ok (some (n0.toNat, 0))
  | .mat =>
    if strict ∧ (n0 < 0 ∨ n1 < 0) then .error .invalidDimension
    else if n0 < 0 then .error .invalidDimension
    else if n0 = 0 then .ok none
    else if n1 < 0 then .error .invalidDimension
    else if n1 = 0 then .ok none
    else .ok (some (n0.toNat, n1.toNat))
  | .symm | .tri | .diag | .adiag | .asymm =>
    if ¬ strict ∧ n0 ≠ n1 then .error .invalidDimension
    else if n0 < 0 then .error .invalidDimension
    else if n0 = 0 then .ok none
    else .ok (some (n0.toNat, n0.toNat))

/-- the harness fills the elements of a fresh owner with `v0, v0+1, …` in canonical order (raw memory) -/
def fillOwner (s : St) (o : Obj) (v0 : Int) : St :=
  match o.storage with
  | none => s
  | some σ =>
    match s.smem[σ]? with
    | none => s
    | some m =>
      let cs := cells o
      let m' := (cs.zip (iota cs.length v0)).foldl (fun (acc : List Int) (p : Nat × Int) => acc.set p.1 p.2) m
      { s with smem := s.smem.set σ m' }

/-- `resize`, WITH the F-24 repair (extents validated before the release) and the F-74 repair: the old link is
    released and the new extents are stored BEFORE `new Storage<Type>(…)`; if that allocation throws `std::bad_alloc`
    the `catch (...)` block resets `data_`, extents, strides and gradient index and rethrows — the object is left
    EMPTY (the operation answers `.ok` with `thrown` set).  The pinned code left `data_` pointing at the data it had
    just released, with the new extents (Refute/MoveFromExternal.lean, `pinned_failed_resize_dangles`). -/
def resizeAt (s : St) (i : Nat) (strict : Bool) (n0 n1 : Int) (v0 : Int) : Except Err St :=
  match getObj s i with
  | .error e => .error e
  | .ok a =>
    match resizeCheck a.kind strict n0 n1 with
    | .error e => .error e
    | .ok none => clearAt s i
    | .ok (some (m0, m1)) =>
      match releaseAt s i with
      | .error e => .error e
      | .ok s1 =>
        if (allocTick s1).2 then .ok (setObj (allocTick s1).1 i (blank a.kind))
        else
          let (s2, σ) := newStorage (allocTick s1).1 (dataVolume a.kind m0 m1) a.kind.active
          .ok (fillOwner (setObj s2 i (ownerOf a.kind σ m0 m1)) (ownerOf a.kind σ m0 m1) v0)

/-- the destructor: `if (storage_) storage_->remove_link();` and the object is gone -/
def destroyAt (s : St) (i : Nat) : Except Err St :=
  match releaseAt s i with
  | .error e => .error e
  | .ok s1 => .ok { s1 with pool := s1.pool.eraseIdx i }

/-- `Array(Index m0[, Index m1]) : storage_(0) { resize_<Rank>(m0[,m1]); }` (`resize_` calls `resize(const Index*)`) /
    `SpecialMatrix(Index m0) : storage_(0) { resize(m0); }` — the new object is appended to the pool.
    A constructor that throws leaves no object. -/
def newAt (s : St) (k : Kind) (n0 n1 : Int) (v0 : Int) : Except Err St :=
  match resizeAt (push s (blank k)) s.pool.length (!k.isArray) n0 n1 v0 with
  | .error e => .error e
  | .ok s1 =>
    if s1.thrown then .ok { s1 with pool := s1.pool.eraseIdx s.pool.length }   -- bad_alloc out of the constructor: no object
    else .ok s1

/-- the default constructor -/
def newEmptyAt (s : St) (k : Kind) : Except Err St := .ok (push s (blank k))

/-- `Array(Type* data, const ExpressionSize<1>& dims)`: `storage_(0)`, a negative extent throws, `pack_contiguous_()`;
    with `dm`: `FixedArray::diag_matrix()`, a DiagMatrix over the FixedArray's own memory (`storage_ = 0`, offset 0) -/
def newExternalAt (s : St) (x off : Nat) (n : Int) (dm : Bool := false) : Except Err St :=
  match s.exts[x]? with
  | none => .error .badOp
  | some e =>
    if n < 0 then .error .invalidDimension
    else if off + n.toNat ≤ e.vals.length then
      .ok (push s { kind := if dm then .diag else .vec, region := .ext x, off := off, storage := none, len := n.toNat,
                    stride := if dm then 0 else 1 })
    else .error .badOp

/-- shared tail of the linking constructors: `if (storage_) storage_->add_link();` -/
def linkNew (s : St) (o : Obj) : Except Err St :=
  match o.storage with
  | none => .ok (push s o)
  | some σ =>
    match addLink s σ with
    | .error e => .error e
    | .ok s1 => .ok (push s1 o)

/-- the copy constructors `X(X& rhs)` / `X(const X& rhs)`: shallow copy -/
def copyCtorAt (s : St) (j : Nat) : Except Err St :=
  match getObj s j with
  | .error e => .error e
  | .ok b => linkNew s b

/-! ### member functions that return a view -/

inductive ViewFn
  | slice (lo hi st : Int)                      -- Array<1>::operator()(stride(lo,hi,st))
  | row (i lo hi st : Int)                      -- Array<2>::operator()(i, stride(lo,hi,st))
  | col (lo hi st j : Int)                      -- Array<2>::operator()(stride(lo,hi,st), j)
  | sub (lo0 hi0 st0 lo1 hi1 st1 : Int)         -- Array<2>::operator()(stride(..), stride(..))
  | idx (i : Int)                               -- Array<2>::operator[](i)
  | transpose                                   -- Array<2>::T()
  | diag (k : Int)                              -- Array<2>::diag_vector(k) / SpecialMatrix::diag_vector(k)
  | subDiag (i0 i1 : Int)                       -- submatrix_on_diagonal(i0, i1)
  | reshape (d0 d1 : Int)                       -- Array<1>::reshape(d0, d1)
  | permute (i0 i1 : Int)                       -- Array<2>::permute(i0, i1)
  | diagMatrix                                  -- Array<1>::diag_matrix(): a DiagMatrix VIEW of the vector's data
  | inactive                                    -- inactive_link() / value(): a passive object on the same data
deriving Repr, DecidableEq

/-- what the member function hands to the view constructor: result kind, `data_ + delta`, extents and strides -/
structure ViewSpec where
  kind  : Kind
  delta : Int
  d0    : Int
  s0    : Int
  d1    : Int := 0
  s1    : Int := 0
deriving Repr, DecidableEq

inductive ViewRes
  | empty (k : Kind)          -- the function returns a default-constructed object (`diag_vector` of an empty matrix)
  | ctor (v : ViewSpec)
deriving Repr, DecidableEq

/-- `(end + stride - begin)/stride` in C++ `int` arithmetic (the quotient truncates towards zero) -/
def rangeLen (lo hi st : Int) : Int := Int.tdiv (hi + st - lo) st

/-- the member function up to its call of the view constructor; its own `throw`s are the errors -/
def evalView (b : Obj) : ViewFn → Except Err ViewRes
  | .slice lo hi st =>
    if b.kind.isVec then .ok (.ctor { kind := b.kind, delta := lo * b.stride, d0 := rangeLen lo hi st, s0 := st * b.stride })
    else .error .badOp
  | .row i lo hi st =>
    match b.kind with
    | .mat => .ok (.ctor { kind := .vec, delta := i * b.stride + lo * b.stride1, d0 := rangeLen lo hi st, s0 := st * b.stride1 })
    | _ => .error .badOp
  | .col lo hi st j =>
    match b.kind with
    | .mat => .ok (.ctor { kind := .vec, delta := lo * b.stride + j * b.stride1, d0 := rangeLen lo hi st, s0 := st * b.stride })
    | _ => .error .badOp
  | .sub lo0 hi0 st0 lo1 hi1 st1 =>
    match b.kind with
    | .mat => .ok (.ctor { kind := .mat, delta := lo0 * b.stride + lo1 * b.stride1,
                           d0 := rangeLen lo0 hi0 st0, s0 := st0 * b.stride,
                           d1 := rangeLen lo1 hi1 st1, s1 := st1 * b.stride1 })
    | _ => .error .badOp
  | .idx i =>
    match b.kind with
    | .mat => .ok (.ctor { kind := .vec, delta := i * b.stride, d0 := b.len1, s0 := b.stride1 })
    | _ => .error .badOp
  | .transpose =>                  -- `Array out(*this); return out.in_place_transpose();` (copy constructors)
    match b.kind with
    | .mat => .ok (.ctor { kind := .mat, delta := 0, d0 := b.len1, s0 := b.stride1, d1 := b.len, s1 := b.stride })
    | .symm | .asymm =>            -- `SpecialMatrix<Type, transpose_engine, IsActive>(data_, storage_, dimension_, offset_)`:
      .ok (.ctor { kind := b.kind, delta := 0, d0 := b.len, s0 := b.stride })   -- the transpose engine is the same class
    | _ => .error .badOp
  | .diag k =>
    match b.kind with
    | .mat =>
      if b.len = 0 then .ok (.empty .vec)
      else if b.len ≠ b.len1 then .error .invalidOperation
      else if 0 ≤ k then
        .ok (.ctor { kind := .vec, delta := b.stride1 * k, d0 := min (b.len : Int) (b.len1 - k), s0 := b.stride + b.stride1 })
      else
        .ok (.ctor { kind := .vec, delta := -(b.stride * k), d0 := min ((b.len : Int) + k) b.len1, s0 := b.stride + b.stride1 })
    | .symm | .asymm =>             -- upper_offset = offdiag*offset, lower_offset = -offdiag*offset, no range test
      if 0 ≤ k then .ok (.ctor { kind := b.kind.diagVec, delta := k * b.stride, d0 := b.len - k, s0 := b.stride + 1 })
      else .ok (.ctor { kind := b.kind.diagVec, delta := -(k * b.stride), d0 := b.len + k, s0 := b.stride + 1 })
    | .tri | .diag | .adiag =>      -- check_upper_diag / check_lower_diag of BandEngine<ROW_MAJOR,L,U>
      if 0 ≤ k then
        if k > ((b.kind.band.getD 0 : Nat) : Int) then .error .indexOutOfBounds
        else .ok (.ctor { kind := b.kind.diagVec, delta := k, d0 := b.len - k, s0 := b.stride + 1 })
      else
        if -k > ((b.kind.band.getD 0 : Nat) : Int) then .error .indexOutOfBounds
        else .ok (.ctor { kind := b.kind.diagVec, delta := -(k * b.stride), d0 := b.len + k, s0 := b.stride + 1 })
    | _ => .error .badOp
  | .subDiag i0 i1 =>
    match b.kind with
    | .mat =>
      if b.len ≠ b.len1 then .error .invalidOperation
      else if i0 < 0 ∨ i0 > i1 ∨ i1 ≥ b.len then .error .indexOutOfBounds
      else .ok (.ctor { kind := .mat, delta := i0 * (b.stride + b.stride1), d0 := i1 - i0 + 1, s0 := b.stride,
                        d1 := i1 - i0 + 1, s1 := b.stride1 })
    | .symm | .tri | .diag | .adiag | .asymm =>
      if i0 < 0 ∨ i0 > i1 ∨ i1 ≥ b.len then .error .indexOutOfBounds
      else .ok (.ctor { kind := b.kind, delta := (b.stride + 1) * i0, d0 := i1 - i0 + 1, s0 := b.stride })
    | _ => .error .badOp
  | .reshape d0 d1 =>
    match b.kind with
    | .vec =>
      if d0 * d1 ≠ b.len then .error .invalidDimension
      else .ok (.ctor { kind := .mat, delta := 0, d0 := d0, s0 := d1 * b.stride, d1 := d1, s1 := b.stride })
    | _ => .error .badOp
  | .permute i0 i1 =>
    match b.kind with
    | .mat =>
      if b.len = 0 then .error .emptyArray
      else if i0 = -1 ∨ i1 = -1 then .error .invalidDimension
      else if ¬ (0 ≤ i0 ∧ i0 < 2 ∧ 0 ≤ i1 ∧ i1 < 2) then .error .invalidDimension
      else if i0 = i1 then .error .invalidDimension
      else if b.len1 = 0 then .error .invalidDimension
      else if i0 = 0 then .ok (.ctor { kind := .mat, delta := 0, d0 := b.len, s0 := b.stride, d1 := b.len1, s1 := b.stride1 })
      else .ok (.ctor { kind := .mat, delta := 0, d0 := b.len1, s0 := b.stride1, d1 := b.len, s1 := b.stride })
    | _ => .error .badOp
  | .diagMatrix =>                 -- `SpecialMatrix<Type,BandEngine<ROW_MAJOR,0,0>,IsActive>(data_, storage_, dimensions_[0], offset_[0]-1)`
    match b.kind with
    | .vec => .ok (.ctor { kind := .diag, delta := 0, d0 := b.len, s0 := (b.stride : Int) - 1 })
    | .avec => .ok (.ctor { kind := .adiag, delta := 0, d0 := b.len, s0 := (b.stride : Int) - 1 })
    | _ => .error .badOp
  | .inactive =>
    match b.kind with
    -- `Array<Rank,Type,false>(data_, storage_, dimensions_, offset_)`: the view constructor of the PASSIVE class
    | .vec | .dvec => .ok (.ctor { kind := b.kind, delta := 0, d0 := b.len, s0 := b.stride })
    | .avec => .ok (.ctor { kind := .dvec, delta := 0, d0 := b.len, s0 := b.stride })
    | .mat => .ok (.ctor { kind := .mat, delta := 0, d0 := b.len, s0 := b.stride, d1 := b.len1, s1 := b.stride1 })
    -- SpecialMatrix: members copied by hand + `if (storage_) storage_->add_link()`: exactly one link, no test
    | .symm | .tri | .diag => .ok (.ctor { kind := b.kind, delta := 0, d0 := b.len, s0 := b.stride })
    | _ => .error .badOp           -- of an ACTIVE special matrix it does not compile (protected members of another class)

/-- the object the view constructor builds from its source `b`.  The view constructor of `Array` canonicalises an empty
    selection: if ANY extent is zero ALL extents are zero (as `resize` does), so that `empty()` — which looks at the first
    extent only — is true and no loop over the elements is entered; only the rank-2 kind has a second extent. -/
def viewObject (b : Obj) (v : ViewSpec) : Obj :=
  let z : Bool := v.kind == .mat && (v.d0 == 0 || v.d1 == 0)
  { kind := v.kind, region := b.region, off := b.off + v.delta.toNat, storage := b.storage,
    len := if z then 0 else v.d0.toNat, stride := v.s0.toNat, len1 := if z then 0 else v.d1.toNat,
    stride1 := v.s1.toNat }

/-- the view constructor `Array(Type* data, Storage<Type>* s, dims, offset)` (SpecialMatrix: `(data, s, dim, offset)`):
    an `Array` rejects a negative extent FIRST, then `storage_->add_link()`; without a Storage an ACTIVE view has no
    gradient index and `assert_inactive()` throws invalid_operation (a slice of a soft link of an active array).
    The library does not test that the view stays inside its source (C06/C11); a view that leaves the source's
    extent is not an operation here. -/
def viewCtor (s : St) (b : Obj) (v : ViewSpec) : Except Err St :=
  if v.kind.isArray ∧ (v.d0 < 0 ∨ v.d1 < 0) then .error .invalidDimension
  else if v.kind.active ∧ b.storage = none then .error .invalidOperation
  else if v.delta < 0 ∨ v.d0 < 0 ∨ v.s0 < 0 ∨ v.d1 < 0 ∨ v.s1 < 0 then .error .badOp
  else
    let o : Obj := viewObject b v
    if v.delta.toNat + extentOf o ≤ extentOf b then linkNew s o else .error .badOp

/-- `b.f(...)` held in a new object (appended) -/
def viewAt (s : St) (j : Nat) (f : ViewFn) : Except Err St :=
  match getObj s j with
  | .error e => .error e
  | .ok b =>
    match evalView b f with
    | .error e => .error e
    | .ok (.empty k) => .ok (push s (blank k))
    | .ok (.ctor v) => viewCtor s b v

/-- `soft_link()`: same view, `storage_ = 0`, no count is touched -/
def softLinkAt (s : St) (j : Nat) : Except Err St :=
  match getObj s j with
  | .error e => .error e
  | .ok b => .ok (push s { b with storage := none })

/-- `link(X& rhs)` / `operator>>=` -/
def linkAt (s : St) (i j : Nat) : Except Err St :=
  match getObj s i, getObj s j with
  | .error e, _ => .error e
  | _, .error e => .error e
  | .ok a, .ok b =>
    if a.kind ≠ b.kind then .error .badOp                  -- does not compile
    else if b.region = .null then .error .emptyArray       -- `!rhs.data()`
    else
      match clearAt s i with                               -- clear();
      | .error e => .error e
      | .ok s1 =>
        match getObj s1 j with                             -- `rhs` is a reference: read after clear() (a.link(a))
        | .error e => .error e
        | .ok b1 =>
          match b1.storage with
          | none => .ok (setObj s1 i b1)
          | some σ =>
            match addLink s1 σ with                        -- storage_->add_link();
            | .error e => .error e
            | .ok s2 => .ok (setObj s2 i b1)

/-- arguments of the `resize` an assignment to an empty target makes: `rhs.get_dimensions(dims)` -/
def dimsOf (o : Obj) : Int × Int :=
  match o.kind with
  | .vec | .avec | .dvec => (o.len, 0)
  | .mat => (o.len, o.len1)
  | _ => (o.len, o.len)

/-- `rhs.is_aliased(ptr_begin, ptr_end)` with `data_range`: both objects address the same allocation and their
    address ranges `[data_, data_ + extent - 1]` overlap -/
def aliased (a b : Obj) : Bool :=
  a.region == b.region && a.region != .null && 0 < extentOf a && 0 < extentOf b &&
    decide (b.off ≤ a.off + extentOf a - 1) && decide (a.off ≤ b.off + extentOf b - 1)

/-- `internal::compatible(dims, dimensions_)` -/
def sameDims (a b : Obj) : Bool := a.len == b.len && a.len1 == b.len1

/-- `operator=(const X&)` → `operator=(const Expression&)`.
    The stored values are those of the right-hand side evaluated before the first store
    (an aliased right-hand side is copied first). -/
def assignCopyAt (s : St) (i j : Nat) : Except Err St :=
  match getObj s i, getObj s j with
  | .error e, _ => .error e
  | _, .error e => .error e
  | .ok a, .ok b =>
    if a.kind ≠ b.kind then .error .badOp else
    match (if a.len = 0 then resizeAt s i false (dimsOf b).1 (dimsOf b).2 0   -- empty(): resize(dims)
           else if ¬ sameDims a b then .error .sizeMismatch                    -- !compatible(dims, dimensions_)
           else .ok s) with
    | .error e => .error e
    | .ok s1 =>
      match getObj s1 i, getObj s1 j with
      | .error e, _ => .error e
      | _, .error e => .error e
      | .ok a1, .ok b1 =>
        if s1.thrown then .ok s1                           -- bad_alloc out of resize()
        else if a1.len = 0 then .ok s1                     -- if (!empty()) { … }
        else if aliased a1 b1 ∧ (allocTick s1).2 then      -- aliased: `X copy; copy = rhs;` needs a Storage of its own
          .ok (allocTick s1).1                             -- … whose allocation failed: nothing has been stored
        else
          let s1 := if aliased a1 b1 then (allocTick s1).1 else s1
          match readView s1 b1 with
          | .error e => .error e
          | .ok vs => writeCells s1 a1.region (cells a1) vs

/-- `storage_ && storage_->n_links() == 1` -/
def ownsUnshared (s : St) (o : Obj) : Except Err Bool :=
  match o.storage with
  | none => .ok false
  | some σ =>
    match nLinksOf s σ with
    | .error e => .error e
    | .ok n => .ok (n == 1)

/-- `swap(*this, rhs)` -/
def swapObjs (s : St) (i j : Nat) (a b : Obj) : St := setObj (setObj s i b) j a

/-- `operator=(Array&& rhs)` WITH the F-01 repair: the right-hand side must own an unshared Storage.
    `SpecialMatrix` declares no move assignment: an rvalue binds to `operator=(const SpecialMatrix&)`. -/
def assignMoveAt (s : St) (i j : Nat) : Except Err St :=
  match getObj s i, getObj s j with
  | .error e, _ => .error e
  | _, .error e => .error e
  | .ok a, .ok b =>
    if a.kind ≠ b.kind then .error .badOp
    else if ¬ a.kind.isArray then assignCopyAt s i j
    else
    match (if a.len = 0 then .ok true else ownsUnshared s a) with     -- empty() || (storage_ && n_links()==1)
    | .error e => .error e
    | .ok false => assignCopyAt s i j
    | .ok true =>
      match ownsUnshared s b with                                     -- rhs.storage() && rhs.storage()->n_links()==1
      | .error e => .error e
      | .ok false => assignCopyAt s i j
      | .ok true =>
        if a.len = 0 ∨ sameDims a b then .ok (swapObjs s i j a b)     -- empty() || compatible(...)
        else .error .sizeMismatch

/-- the pinned (unrepaired) rule, kept for reference and for the refutation of the full-strength ownership
    statement on the pinned tree: `!rhs.storage() || rhs.storage()->n_links() == 1` -/
def assignMoveAtPinned (s : St) (i j : Nat) : Except Err St :=
  match getObj s i, getObj s j with
  | .error e, _ => .error e
  | _, .error e => .error e
  | .ok a, .ok b =>
    match (if a.len = 0 then .ok true else ownsUnshared s a) with
    | .error e => .error e
    | .ok false => assignCopyAt s i j
    | .ok true =>
      match (if b.storage = none then .ok true else ownsUnshared s b) with
      | .error e => .error e
      | .ok false => assignCopyAt s i j
      | .ok true =>
        if a.len = 0 ∨ sameDims a b then .ok (swapObjs s i j a b)
        else .error .sizeMismatch

/-- `swap(a, b)` found by argument-dependent lookup: the friend of `Array` exchanges data pointer, storage pointer,
    extents and strides (and the gradient index); no count is touched -/
def swapAt (s : St) (i j : Nat) : Except Err St :=
  match getObj s i, getObj s j with
  | .error e, _ => .error e
  | _, .error e => .error e
  | .ok a, .ok b =>
    if a.kind ≠ b.kind ∨ ¬ a.kind.isArray then .error .badOp else .ok (swapObjs s i j a b)

/-- `Array(const Expression& rhs) : data_(0), storage_(0) { *this = rhs; }` with `rhs = b + c` (a temporary
    expression result, e.g. the return value of `Vector f(..) { return b + c; }`): a size mismatch throws before
    anything is allocated and no object comes to exist; otherwise the new object owns a fresh Storage -/
def newSumAt (s : St) (j1 j2 : Nat) : Except Err St :=
  match getObj s j1, getObj s j2 with
  | .error e, _ => .error e
  | _, .error e => .error e
  | .ok b, .ok c =>
    if b.kind ≠ c.kind ∨ ¬ (b.kind = .vec ∨ b.kind = .avec) then .error .badOp
    else if b.len ≠ c.len then .error .sizeMismatch           -- !rhs.get_dimensions(dims)
    else
      match readView s b, readView s c with
      | .error e, _ => .error e
      | _, .error e => .error e
      | .ok vb, .ok vc =>
        let p := s.pool.length
        match resizeAt (push s (blank b.kind)) p false b.len 0 0 with
        | .error e => .error e
        | .ok s1 =>
          if s1.thrown then .ok { s1 with pool := s1.pool.eraseIdx p } else   -- bad_alloc out of the constructor
          match getObj s1 p with
          | .error e => .error e
          | .ok a1 => writeCells s1 a1.region (cells a1) (List.zipWith (· + ·) vb vc)

/-- `Array(std::initializer_list<T> list) : data_(0), storage_(0), dimensions_(0) { *this = list; }` and its nested forms
    (Array.h; one constructor per rank).  The new object is `empty()`, so `operator=(list)` resizes it to the shape of the list
    (`resize(list.size())` / `shape_initializer_list_` + `resize(dims)`) and writes the list: a FRESH OWNER of `n0[*n1]` elements,
    exactly what `Array(n0[,n1])` makes, holding the values of the list (`v0, v0+1, …` in canonical order).  Special matrices have
    no such constructor; a list has no empty level here (`n0, n1 ≥ 1`). -/
def newListAt (s : St) (k : Kind) (n0 n1 : Nat) (v0 : Int) : Except Err St :=
  if ¬ k.isArray ∨ n0 = 0 ∨ (k = .mat ∧ n1 = 0) then .error .badOp
  else newAt s k n0 (if k = .mat then n1 else 0) v0

/-- `Array<1>::operator=(std::initializer_list<T> list)` with a list of `n` values `v0, v0+1, …`:
    `if (empty()) resize(list.size()); else if (list.size() > dimensions_[0]) throw size_mismatch;`  then `*this = 0` and the
    list is written in front.  An empty VIEW is `empty()` too: `resize` gives its link back first. -/
def assignListAt (s : St) (i : Nat) (n : Nat) (v0 : Int) : Except Err St :=
  match getObj s i with
  | .error e => .error e
  | .ok a =>
    if ¬ a.kind.isVec ∨ n = 0 then .error .badOp
    else if a.len = 0 then resizeAt s i false n 0 v0
    else if a.len < n then .error .sizeMismatch
    else writeCells s a.region (cells a) (iota n v0 ++ List.replicate (a.len - n) 0)

/-- element `k` (canonical order) := v -/
def writeAt (s : St) (i k : Nat) (v : Int) : Except Err St :=
  match getObj s i with
  | .error e => .error e
  | .ok a =>
    match (cells a)[k]? with
    | some c => writeCell s a.region c v
    | none => .error .badOp

/-! ## the environment -/

def xnewAt (s : St) (n : Nat) (v0 : Int) : St := { s with exts := s.exts ++ [{ live := true, vals := iota n v0 }] }

def xwriteAt (s : St) (x k : Nat) (v : Int) : Except Err St :=
  match s.exts[x]? with
  | none => .error .badOp
  | some e =>
    if e.live ∧ k < e.vals.length then .ok { s with exts := s.exts.set x { e with vals := e.vals.set k v } }
    else .error .badOp

/-- the owner of external memory lets it go: the contents become rubbish -/
def xendAt (s : St) (x : Nat) : Except Err St :=
  match s.exts[x]? with
  | none => .error .badOp
  | some e =>
    if e.live then .ok { s with exts := s.exts.set x { live := false, vals := List.replicate e.vals.length (-7777) } }
    else .error .badOp

/-! ## histories -/

inductive Op
  | xnew (n : Nat) (v0 : Int)
  | xwrite (x k : Nat) (v : Int)
  | xend (x : Nat)
  | new (k : Kind) (n0 n1 : Int) (v0 : Int)
  | newEmpty (k : Kind)
  | newExternal (x off : Nat) (n : Int) (dm : Bool := false)
  | copyCtor (j : Nat)
  | view (j : Nat) (f : ViewFn)
  | softLink (j : Nat)
  | link (i j : Nat)
  | assignCopy (i j : Nat)
  | assignMove (i j : Nat)
  | resize (i : Nat) (strict : Bool) (n0 n1 : Int) (v0 : Int)
  | clear (i : Nat)
  | destroy (i : Nat)
  | write (i k : Nat) (v : Int)
  | swap (i j : Nat)
  | newSum (j1 j2 : Nat)
  | newList (k : Kind) (n0 n1 : Nat) (v0 : Int)      -- constructed from a (nested) initializer list
  | assignList (i : Nat) (n : Nat) (v0 : Int)        -- a vector assigned an initializer list
  | failNext (k : Nat)        -- the environment: the k-th next data allocation will fail
deriving Repr, DecidableEq

def stepCore (s : St) : Op → Except Err St
  | .xnew n v0 => .ok (xnewAt s n v0)
  | .xwrite x k v => xwriteAt s x k v
  | .xend x => xendAt s x
  | .new k n0 n1 v0 => newAt s k n0 n1 v0
  | .newEmpty k => newEmptyAt s k
  | .newExternal x off n dm => newExternalAt s x off n dm
  | .copyCtor j => copyCtorAt s j
  | .view j f => viewAt s j f
  | .softLink j => softLinkAt s j
  | .link i j => linkAt s i j
  | .assignCopy i j => assignCopyAt s i j
  | .assignMove i j => assignMoveAt s i j
  | .resize i strict n0 n1 v0 => resizeAt s i strict n0 n1 v0
  | .clear i => clearAt s i
  | .destroy i => destroyAt s i
  | .write i k v => writeAt s i k v
  | .swap i j => swapAt s i j
  | .newSum j1 j2 => newSumAt s j1 j2
  | .newList k n0 n1 v0 => newListAt s k n0 n1 v0
  | .assignList i n v0 => assignListAt s i n v0
  | .failNext k => .ok { s with failIn := k }

/-- one operation; `thrown` only describes the operation just run -/
def step (s : St) (op : Op) : Except Err St := stepCore { s with thrown := false } op

/-- an operation that throws (or is not an operation) leaves the state as it was: with the two repairs every
    `throw` of the transcribed code precedes the first mutation -/
def stepOrStay (s : St) (op : Op) : St :=
  match step s op with
  | .ok s' => s'
  | .error _ => s

def run (s : St) (ops : List Op) : St := ops.foldl stepOrStay s

end Adept.Storage
