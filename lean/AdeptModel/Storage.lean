/-
M6 — storage life cycle of `adept::Array` (rank 1) over reference-counted `adept::Storage`.

Transcribed from
  include/adept/Storage.h   Storage(Index,bool) 63-76, ~Storage 82-96, add_link 143-144,
                            remove_link 149-157, n_links 164-165, n_storage_objects 216-218
  include/adept/Array.h     Array() 154, Array(Index) 166, Array(Type*,Storage*,dims,offset) 181-193,
                            Array(const Type*,Index,dims,offset,Index) 198-201 (soft_link, FixedArray slices),
                            Array(Type*,dims) 207-214, Array(Array&) / Array(const Array&) / link_ 223-250,
                            ~Array 332-333, operator=(const Array&) 343-348, operator=(Array&&) 351-382,
                            swap 384-397, operator=(const Expression&) 403-464, operator()(range) 1012-1027,
                            link 1760-1779, empty 1855, clear 1904-1913, resize 1916-1956, soft_link 2490-2495
  include/adept/FixedArray.h operator()(range) 754-763 (a slice of a FixedArray is an `Array` with storage_ == 0)

The model transcribes the tree WITH the two repairs fixes/F-01.patch and fixes/F-24.patch:
  * F-01: `operator=(Array&&)` steals the source's data only if the source owns an unshared Storage
    (`rhs.storage() && rhs.storage()->n_links() == 1`).  The pinned code read `!rhs.storage() || …`, i.e. it also
    swapped with a source that has NO storage (external memory, FixedArray slice, soft link), leaving the target
    aliased to memory it does not own; `assignMoveAtPinned` below keeps that rule for reference.
  * F-24: `resize` validates the requested extents before it releases the old Storage (the pinned code released
    first, so a caught `invalid_dimension` left `data_` dangling).

Objects live in a pool (a list; an object is addressed by its position, new objects are appended, temporaries are
ordinary pool objects with a short life).  An object is the quadruple `data_`, `storage_`, `dimensions_[0]`,
`offset_[0]`; `data_` is kept as (allocation, element offset from the start of that allocation), where an allocation
is a `Storage` (library-owned) or an external block (user memory, a `FixedArray`, the stack).  Values live in the
allocations (`smem` per storage, `exts` per external block), not in the objects.

Core Lean only (this file is linked into the `adept_model` driver).
-/
namespace Adept.Storage

inductive Err
  | emptyArray | sizeMismatch | invalidDimension | invalidOperation   -- the documented exceptions
  | fault        -- modelled fault: a Storage object was touched after `delete this` (never an exception in C++)
  | badAccess    -- modelled fault: data read or written through a null, stale or out-of-range pointer
  | badOp        -- not an operation of the protocol (unknown position, slice outside the array, ...)
deriving Repr, DecidableEq

/-- which allocation `data_` points into -/
inductive Region
  | null                -- data_ == 0
  | sto (σ : Nat)       -- data block of Storage number σ
  | ext (x : Nat)       -- external block number x
deriving Repr, DecidableEq

/-- a `Storage<Type>` object: `n_links_`, whether `delete this` has run, `n_` -/
structure Sto where
  nLinks : Nat
  freed  : Bool
  size   : Nat
deriving Repr, DecidableEq

/-- an external block; `live = false` once the environment has ended it -/
structure Ext where
  live : Bool
  vals : List Int
deriving Repr, DecidableEq

/-- an `Array<1,Type>` object -/
structure Obj where
  region  : Region := .null     -- allocation `data_` points into
  off     : Nat := 0            -- `data_` minus the start of that allocation
  storage : Option Nat := none  -- `storage_`
  len     : Nat := 0            -- `dimensions_[0]`
  stride  : Nat := 0            -- `offset_[0]`
deriving Repr, DecidableEq

structure St where
  heap    : List Sto := []          -- every Storage ever created, by creation number
  smem    : List (List Int) := []   -- data block of each Storage
  exts    : List Ext := []
  pool    : List Obj := []          -- the live array objects
  created : Nat := 0                -- internal::n_storage_objects_created_
  deleted : Nat := 0                -- internal::n_storage_objects_deleted_
deriving Repr

def init : St := {}

/-- `adept::n_storage_objects()` -/
def nStorageObjects (s : St) : Int := (s.created : Int) - s.deleted

def iota (n : Nat) (v0 : Int) : List Int := (List.range n).map (fun (i : Nat) => v0 + Int.ofNat i)

/-! ## Storage.h -/

/-- `new Storage<Type>(n)`: `n_links_(1)`, `++n_storage_objects_created_`; the data are uninitialised in C++,
    the harness fills them with `v0, v0+1, …` right after the call -/
def newStorage (s : St) (n : Nat) (v0 : Int) : St × Nat :=
  ({ s with heap := s.heap ++ [{ nLinks := 1, freed := false, size := n }],
            smem := s.smem ++ [iota n v0],
            created := s.created + 1 }, s.heap.length)

/-- `Storage::add_link()` : `n_links_++` -/
def addLink (s : St) (σ : Nat) : Except Err St :=
  match s.heap[σ]? with
  | none => .error .fault
  | some r =>
    if r.freed then .error .fault
    else .ok { s with heap := s.heap.set σ { r with nLinks := r.nLinks + 1 } }

/-- `Storage::remove_link()`: throws at 0; `--n_links_ == 0` → `delete this`
    (`~Storage`: `free_aligned(data_)`, `++n_storage_objects_deleted_`) -/
def removeLink (s : St) (σ : Nat) : Except Err St :=
  match s.heap[σ]? with
  | none => .error .fault
  | some r =>
    if r.freed then .error .fault
    else if r.nLinks = 0 then .error .invalidOperation
    else if r.nLinks - 1 = 0 then
      .ok { s with heap := s.heap.set σ { r with nLinks := 0, freed := true }, deleted := s.deleted + 1 }
    else .ok { s with heap := s.heap.set σ { r with nLinks := r.nLinks - 1 } }

/-- `storage_->n_links()` -/
def nLinksOf (s : St) (σ : Nat) : Except Err Nat :=
  match s.heap[σ]? with
  | none => .error .fault
  | some r => if r.freed then .error .fault else .ok r.nLinks

/-! ## memory cells -/

def readCell (s : St) (r : Region) (c : Nat) : Except Err Int :=
  match r with
  | .null => .error .badAccess
  | .sto σ =>
    match s.heap[σ]?, s.smem[σ]? with
    | some h, some m => if h.freed then .error .badAccess else
        match m[c]? with
        | some v => .ok v
        | none => .error .badAccess
    | _, _ => .error .badAccess
  | .ext x =>
    match s.exts[x]? with
    | some e => match e.vals[c]? with
      | some v => .ok v
      | none => .error .badAccess
    | none => .error .badAccess

def writeCell (s : St) (r : Region) (c : Nat) (v : Int) : Except Err St :=
  match r with
  | .null => .error .badAccess
  | .sto σ =>
    match s.heap[σ]?, s.smem[σ]? with
    | some h, some m =>
      if h.freed then .error .badAccess
      else if c < m.length then .ok { s with smem := s.smem.set σ (m.set c v) }
      else .error .badAccess
    | _, _ => .error .badAccess
  | .ext x =>
    match s.exts[x]? with
    | some e =>
      if c < e.vals.length then .ok { s with exts := s.exts.set x { e with vals := e.vals.set c v } }
      else .error .badAccess
    | none => .error .badAccess

/-- memory index of element `k` of a view: `data_ + k*offset_[0]` -/
def cellOf (o : Obj) (k : Nat) : Nat := o.off + k * o.stride

/-- the values a view reads, element 0 first -/
def readFrom (s : St) (o : Obj) : Nat → Nat → Except Err (List Int)
  | _, 0 => .ok []
  | k, n + 1 =>
    match readCell s o.region (cellOf o k) with
    | .error e => .error e
    | .ok v => match readFrom s o (k + 1) n with
      | .error e => .error e
      | .ok vs => .ok (v :: vs)

def readView (s : St) (o : Obj) : Except Err (List Int) := readFrom s o 0 o.len

/-- store `vs` into elements `k, k+1, …` of a view -/
def writeFrom (s : St) (o : Obj) : Nat → List Int → Except Err St
  | _, [] => .ok s
  | k, v :: vs =>
    match writeCell s o.region (cellOf o k) v with
    | .error e => .error e
    | .ok s' => writeFrom s' o (k + 1) vs

/-! ## the pool -/

def getObj (s : St) (i : Nat) : Except Err Obj :=
  match s.pool[i]? with
  | some o => .ok o
  | none => .error .badOp

def setObj (s : St) (i : Nat) (o : Obj) : St := { s with pool := s.pool.set i o }

def push (s : St) (o : Obj) : St := { s with pool := s.pool ++ [o] }

/-! ## Array.h -/

/-- `if (storage_) { storage_->remove_link(); storage_ = 0; }` (clear 1905-1908, resize 1922-1925) -/
def releaseAt (s : St) (i : Nat) : Except Err St :=
  match getObj s i with
  | .error e => .error e
  | .ok a =>
    match a.storage with
    | none => .ok s
    | some σ =>
      match removeLink s σ with
      | .error e => .error e
      | .ok s1 => .ok (setObj s1 i { a with storage := none })

/-- `Array::clear()`: release, then `data_ = 0`, dimensions and offsets zero -/
def clearAt (s : St) (i : Nat) : Except Err St :=
  match releaseAt s i with
  | .error e => .error e
  | .ok s1 => .ok (setObj s1 i {})

/-- `Array::resize(const Index*)` for rank 1, WITH the F-24 repair (extents validated before the release);
    `pack_()` gives `offset_[0] = 1`, data volume `n` -/
def resizeAt (s : St) (i : Nat) (n : Int) (v0 : Int) : Except Err St :=
  match getObj s i with
  | .error e => .error e
  | .ok _ =>
    if n < 0 then .error .invalidDimension
    else if n = 0 then clearAt s i
    else
      match releaseAt s i with
      | .error e => .error e
      | .ok s1 =>
        let (s2, σ) := newStorage s1 n.toNat v0
        .ok (setObj s2 i { region := .sto σ, off := 0, storage := some σ, len := n.toNat, stride := 1 })

/-- `~Array()`: `if (storage_) storage_->remove_link();` and the object is gone -/
def destroyAt (s : St) (i : Nat) : Except Err St :=
  match releaseAt s i with
  | .error e => .error e
  | .ok s1 => .ok { s1 with pool := s1.pool.eraseIdx i }

/-- `Array(Index m0) : storage_(0) { resize_<1>(m0); }` — the new object is appended to the pool -/
def newAt (s : St) (n : Int) (v0 : Int) : Except Err St :=
  resizeAt (push s {}) s.pool.length n v0

/-- `Array()` -/
def newEmptyAt (s : St) : Except Err St := .ok (push s {})

/-- `Array(Type* data, const ExpressionSize<Rank>& dims)`: `storage_(0)`, `pack_contiguous_()` -/
def newExternalAt (s : St) (x off n : Nat) : Except Err St :=
  match s.exts[x]? with
  | none => .error .badOp
  | some e =>
    if off + n ≤ e.vals.length then
      .ok (push s { region := .ext x, off := off, storage := none, len := n, stride := 1 })
    else .error .badOp

/-- shared tail of the linking constructors: `if (storage_) storage_->add_link();` -/
def linkNew (s : St) (o : Obj) : Except Err St :=
  match o.storage with
  | none => .ok (push s o)
  | some σ =>
    match addLink s σ with
    | .error e => .error e
    | .ok s1 => .ok (push s1 o)

/-- `Array(Array& rhs)` / `Array(const Array& rhs)`: shallow copy -/
def copyCtorAt (s : St) (j : Nat) : Except Err St :=
  match getObj s j with
  | .error e => .error e
  | .ok b => linkNew s b

/-- extent of `b(stride(lo,hi,st))`: `(end + stride - begin)/stride` -/
def sliceLen (lo hi st : Nat) : Nat := (hi + st - lo) / st

/-- `operator()(range)` 1012-1027 followed by `Array(Type*,Storage*,dims,offset)` 181-193.
    The library does not test the range (C06/C11); a slice that leaves the source is not an operation here. -/
def sliceAt (s : St) (j lo hi st : Nat) : Except Err St :=
  match getObj s j with
  | .error e => .error e
  | .ok b =>
    let n := sliceLen lo hi st
    if st = 0 ∨ hi + st < lo then .error .badOp
    else if (n = 0 ∧ lo < b.len) ∨ (0 < n ∧ lo + (n - 1) * st < b.len) then
      linkNew s { region := b.region, off := b.off + lo * b.stride, storage := b.storage,
                  len := n, stride := st * b.stride }
    else .error .badOp

/-- `soft_link()`: same view, `storage_ = 0`, no count is touched -/
def softLinkAt (s : St) (j : Nat) : Except Err St :=
  match getObj s j with
  | .error e => .error e
  | .ok b => .ok (push s { b with storage := none })

/-- `Array::link(Array& rhs)` / `operator>>=` -/
def linkAt (s : St) (i j : Nat) : Except Err St :=
  match getObj s i, getObj s j with
  | .error e, _ => .error e
  | _, .error e => .error e
  | .ok _, .ok b =>
    if b.region = .null then .error .emptyArray          -- `!rhs.data()`
    else
      match clearAt s i with                               -- clear();
      | .error e => .error e
      | .ok s1 =>
        match getObj s1 j with                             -- `rhs` is a reference: read after clear() (a.link(a))
        | .error e => .error e
        | .ok b1 =>
          match b1.storage with
          | none => .ok (setObj s1 i b1)
          | some σ =>
            match addLink s1 σ with                        -- storage_->add_link();
            | .error e => .error e
            | .ok s2 => .ok (setObj s2 i b1)

/-- `operator=(const Array&)` → `operator=(const Expression&)`, rank 1.
    The stored values are those of the right-hand side evaluated before the first store
    (an aliased right-hand side is copied first, Array.h 437-451). -/
def assignCopyAt (s : St) (i j : Nat) : Except Err St :=
  match getObj s i, getObj s j with
  | .error e, _ => .error e
  | _, .error e => .error e
  | .ok a, .ok b =>
    let dims := b.len                                      -- rhs.get_dimensions(dims)
    match (if a.len = 0 then resizeAt s i dims 0           -- empty(): resize(dims)
           else if dims ≠ a.len then .error .sizeMismatch  -- !compatible(dims, dimensions_)
           else .ok s) with
    | .error e => .error e
    | .ok s1 =>
      match getObj s1 i, getObj s1 j with
      | .error e, _ => .error e
      | _, .error e => .error e
      | .ok a1, .ok b1 =>
        if a1.len = 0 then .ok s1                          -- if (!empty()) { … }
        else
          match readView s1 b1 with
          | .error e => .error e
          | .ok vs => writeFrom s1 a1 0 vs

/-- `storage_ && storage_->n_links() == 1` -/
def ownsUnshared (s : St) (o : Obj) : Except Err Bool :=
  match o.storage with
  | none => .ok false
  | some σ =>
    match nLinksOf s σ with
    | .error e => .error e
    | .ok n => .ok (n == 1)

/-- `swap(*this, rhs)` -/
def swapAt (s : St) (i j : Nat) (a b : Obj) : St := setObj (setObj s i b) j a

/-- `operator=(Array&& rhs)` WITH the F-01 repair: the right-hand side must own an unshared Storage -/
def assignMoveAt (s : St) (i j : Nat) : Except Err St :=
  match getObj s i, getObj s j with
  | .error e, _ => .error e
  | _, .error e => .error e
  | .ok a, .ok b =>
    match (if a.len = 0 then .ok true else ownsUnshared s a) with     -- empty() || (storage_ && n_links()==1)
    | .error e => .error e
    | .ok false => assignCopyAt s i j
    | .ok true =>
      match ownsUnshared s b with                                     -- rhs.storage() && rhs.storage()->n_links()==1
      | .error e => .error e
      | .ok false => assignCopyAt s i j
      | .ok true =>
        if a.len = 0 ∨ a.len = b.len then .ok (swapAt s i j a b)      -- empty() || compatible(...)
        else .error .sizeMismatch

/-- the pinned (unrepaired) rule, kept for reference and for the refutation of the full-strength ownership
    statement on the pinned tree: `!rhs.storage() || rhs.storage()->n_links() == 1` -/
def assignMoveAtPinned (s : St) (i j : Nat) : Except Err St :=
  match getObj s i, getObj s j with
  | .error e, _ => .error e
  | _, .error e => .error e
  | .ok a, .ok b =>
    match (if a.len = 0 then .ok true else ownsUnshared s a) with
    | .error e => .error e
    | .ok false => assignCopyAt s i j
    | .ok true =>
      match (if b.storage = none then .ok true else ownsUnshared s b) with
      | .error e => .error e
      | .ok false => assignCopyAt s i j
      | .ok true =>
        if a.len = 0 ∨ a.len = b.len then .ok (swapAt s i j a b)
        else .error .sizeMismatch

/-- `a(k) = v` -/
def writeAt (s : St) (i k : Nat) (v : Int) : Except Err St :=
  match getObj s i with
  | .error e => .error e
  | .ok a => if k < a.len then writeCell s a.region (cellOf a k) v else .error .badOp

/-! ## the environment -/

def xnewAt (s : St) (n : Nat) (v0 : Int) : St := { s with exts := s.exts ++ [{ live := true, vals := iota n v0 }] }

def xwriteAt (s : St) (x k : Nat) (v : Int) : Except Err St :=
  match s.exts[x]? with
  | none => .error .badOp
  | some e =>
    if e.live ∧ k < e.vals.length then .ok { s with exts := s.exts.set x { e with vals := e.vals.set k v } }
    else .error .badOp

/-- the owner of external memory lets it go: the contents become rubbish -/
def xendAt (s : St) (x : Nat) : Except Err St :=
  match s.exts[x]? with
  | none => .error .badOp
  | some e =>
    if e.live then .ok { s with exts := s.exts.set x { live := false, vals := List.replicate e.vals.length (-7777) } }
    else .error .badOp

/-! ## histories -/

inductive Op
  | xnew (n : Nat) (v0 : Int)
  | xwrite (x k : Nat) (v : Int)
  | xend (x : Nat)
  | new (n : Int) (v0 : Int)
  | newEmpty
  | newExternal (x off n : Nat)
  | copyCtor (j : Nat)
  | slice (j lo hi st : Nat)
  | softLink (j : Nat)
  | link (i j : Nat)
  | assignCopy (i j : Nat)
  | assignMove (i j : Nat)
  | resize (i : Nat) (n : Int) (v0 : Int)
  | clear (i : Nat)
  | destroy (i : Nat)
  | write (i k : Nat) (v : Int)
deriving Repr, DecidableEq

def step (s : St) : Op → Except Err St
  | .xnew n v0 => .ok (xnewAt s n v0)
  | .xwrite x k v => xwriteAt s x k v
  | .xend x => xendAt s x
  | .new n v0 => newAt s n v0
  | .newEmpty => newEmptyAt s
  | .newExternal x off n => newExternalAt s x off n
  | .copyCtor j => copyCtorAt s j
  | .slice j lo hi st => sliceAt s j lo hi st
  | .softLink j => softLinkAt s j
  | .link i j => linkAt s i j
  | .assignCopy i j => assignCopyAt s i j
  | .assignMove i j => assignMoveAt s i j
  | .resize i n v0 => resizeAt s i n v0
  | .clear i => clearAt s i
  | .destroy i => destroyAt s i
  | .write i k v => writeAt s i k v

/-- an operation that throws (or is not an operation) leaves the state as it was: with the two repairs every
    `throw` of the transcribed code precedes the first mutation -/
def stepOrStay (s : St) (op : Op) : St :=
  match step s op with
  | .ok s' => s'
  | .error _ => s

def run (s : St) (ops : List Op) : St := ops.foldl stepOrStay s

end Adept.Storage
