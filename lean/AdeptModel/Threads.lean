import AdeptModel.Generated.Globals
import AdeptModel.Generated.StorageCfg
/-!
# Threads — abstract machine for C12 (threads that each own a stack) and C14 (shared array data)

Core Lean only (linked into `adept_model`).  This is NOT a transcription of C++ control flow: it is an abstract
machine with atomic steps whose *footprint table* (which library location an API operation reads / writes, and whether
the access is atomic) is what the proofs consume.  The table is tied to the working tree by two generated files:

* `Generated/Globals.lean`   (translate/globals.py: symbol tables of the compiled library) — every writable data symbol,
  its section, whether it is thread-local.  `classify` below must know every non-thread-local one, and
  `adept::_stack_current_thread` must be thread-local (`include/adept/base.h` ADEPT_THREAD_LOCAL, `adept/Stack.cpp:31`).
* `Generated/StorageCfg.lean` (translate/storagecfg.py: `include/adept/Storage.h`) — declared type of `n_links_` with and
  without ADEPT_STORAGE_THREAD_SAFE, shape of `remove_link()`, declared type of the two global counters.

Part 1: locations, accesses, footprints.  Part 2: worlds, steps, schedules.  Part 3: the `n_links_` machine.
-/
namespace Adept.Threads

/-! ## 1. Locations, accesses, configuration, footprint table -/

/-- process-wide (shared) library locations -/
inductive SLoc
  /-- `adept::_stack_current_thread` IF it is not thread-local (configuration `stackPtrTLS = false`) -/
  | stackPtrGlobal
  /-- `adept::_stack_current_thread_unsafe` (only stacks built with ADEPT_STACK_THREAD_UNSAFE use it) -/
  | stackPtrUnsafe
  /-- `adept::internal::n_storage_objects_created_` (Storage.h, every `Storage` constructor) -/
  | nStorageCreated
  /-- `adept::internal::n_storage_objects_deleted_` (Storage.h, every `Storage` destructor) -/
  | nStorageDeleted
  /-- `adept::internal::array_row_major_order` (Array.cpp; read by every array constructor/resize) -/
  | rowMajorOrder
  /-- the print settings of Array.cpp (`array_print_style`, separators, brackets, …) -/
  | printSettings
  /-- `n_links_` of the ONE Storage object shared between the threads (C14) -/
  | nLinksShared
  deriving DecidableEq, Repr

/-- a location as seen from the calling thread -/
inductive Loc
  /-- the calling thread's instance of the thread-local `_stack_current_thread` -/
  | tlsStackPtr
  /-- objects owned by the calling thread: its Stack, its active scalars, its arrays and their Storage objects -/
  | own
  | shared (l : SLoc)
  deriving DecidableEq, Repr

inductive Mode | read | write deriving DecidableEq, Repr
inductive Kind | atomic | plain deriving DecidableEq, Repr

structure Access where
  loc : Loc
  mode : Mode
  kind : Kind
  deriving DecidableEq, Repr

/-- what the generated tables say about the build -/
structure Cfg where
  /-- `_stack_current_thread` lives in .tdata/.tbss -/
  stackPtrTLS : Bool
  /-- the two storage counters are std::atomic and updated by one read-modify-write -/
  countersAtomic : Bool
  /-- `n_links_` is std::atomic and add_link is one read-modify-write -/
  nLinksAtomic : Bool
  deriving DecidableEq, Repr

/-- kinds of API operation a thread performs -/
inductive OpKind
  | newStack | activate | deactivate | destroyStack      -- arg = stack number
  | newRecording | record | differentiate                -- `record`: one statement; `differentiate`: adjoint/tangent/Jacobian
  | readActive                                           -- `adept::active_stack()`
  | newArray | deleteArray | viewOwn                     -- private arrays: Storage ctor / dtor, link or slice of own data
  | printArray
  | linkShared | unlinkShared | softView                 -- C14: copy/link/slice of the shared array; view through soft_link()
  | setRowMajor | setPrintStyle | readStorageCount       -- never part of a C12/C14 thread workload
  deriving DecidableEq, Repr

def OpKind.all : List OpKind :=
  [.newStack, .activate, .deactivate, .destroyStack, .newRecording, .record, .differentiate, .readActive, .newArray,
   .deleteArray, .viewOwn, .printArray, .linkShared, .unlinkShared, .softView, .setRowMajor, .setPrintStyle,
   .readStorageCount]

structure Op where
  kind : OpKind
  arg : Nat
  deriving DecidableEq, Repr

def stackPtrLoc (c : Cfg) : Loc := if c.stackPtrTLS then .tlsStackPtr else .shared .stackPtrGlobal
def kindOf (atomic : Bool) : Kind := if atomic then .atomic else .plain

/-- THE FOOTPRINT TABLE.  An atomic read-modify-write whose result is discarded (`x++` on a counter) is listed as a
    write only; one whose result is used (`--n_links_ == 0`) as read + write. -/
def footprint (c : Cfg) : OpKind → List Access
  -- Stack::Stack -> activate(), Stack::activate, deactivate, ~Stack  (Stack.cpp:36-76, Stack.h:507-512)
  | .newStack | .activate | .deactivate | .destroyStack =>
      [⟨stackPtrLoc c, .read, .plain⟩, ⟨stackPtrLoc c, .write, .plain⟩, ⟨.own, .write, .plain⟩]
  -- member functions called on the thread's own Stack object
  | .newRecording | .differentiate => [⟨.own, .write, .plain⟩]
  -- a statement is pushed on ADEPT_ACTIVE_STACK (Stack.h:580-623, Active.h)
  | .record => [⟨stackPtrLoc c, .read, .plain⟩, ⟨.own, .write, .plain⟩]
  | .readActive => [⟨stackPtrLoc c, .read, .plain⟩, ⟨.own, .write, .plain⟩]
  -- Array constructor: layout from array_row_major_order, Storage::Storage bumps the counter and (active data)
  -- registers gradients with ADEPT_ACTIVE_STACK (Storage.h:62-75)
  | .newArray => [⟨.shared .rowMajorOrder, .read, .plain⟩, ⟨.shared .nStorageCreated, .write, kindOf c.countersAtomic⟩,
                  ⟨stackPtrLoc c, .read, .plain⟩, ⟨.own, .write, .plain⟩]
  | .deleteArray => [⟨.shared .nStorageDeleted, .write, kindOf c.countersAtomic⟩,
                     ⟨stackPtrLoc c, .read, .plain⟩, ⟨.own, .write, .plain⟩]
  | .viewOwn => [⟨.own, .write, .plain⟩]
  | .printArray => [⟨.shared .printSettings, .read, .plain⟩, ⟨.own, .write, .plain⟩]
  -- Storage::add_link (Storage.h:138)
  | .linkShared => [⟨.shared .nLinksShared, .write, kindOf c.nLinksAtomic⟩, ⟨.own, .write, .plain⟩]
  -- Storage::remove_link (Storage.h:143-152): load, decrement-and-test, the last one runs ~Storage
  | .unlinkShared => [⟨.shared .nLinksShared, .read, kindOf c.nLinksAtomic⟩, ⟨.shared .nLinksShared, .write, kindOf c.nLinksAtomic⟩,
                      ⟨.shared .nStorageDeleted, .write, kindOf c.countersAtomic⟩, ⟨.own, .write, .plain⟩]
  -- Array::soft_link(): storage_ = 0, the count is never touched (Array.h:2490)
  | .softView => [⟨.own, .write, .plain⟩]
  | .setRowMajor => [⟨.shared .rowMajorOrder, .write, .plain⟩]
  | .setPrintStyle => [⟨.shared .printSettings, .write, .plain⟩]
  | .readStorageCount => [⟨.shared .nStorageCreated, .read, kindOf c.countersAtomic⟩,
                          ⟨.shared .nStorageDeleted, .read, kindOf c.countersAtomic⟩, ⟨.own, .write, .plain⟩]

def sharedReads (c : Cfg) (k : OpKind) : List SLoc :=
  (footprint c k).filterMap fun a => match a.loc, a.mode with
    | .shared l, .read => some l
    | _, _ => none

def sharedWrites (c : Cfg) (k : OpKind) : List SLoc :=
  (footprint c k).filterMap fun a => match a.loc, a.mode with
    | .shared l, .write => some l
    | _, _ => none

/-! ### Classification of the writable globals found in the binary -/

inductive GClass
  | stackPtr                -- must be thread-local
  | loc (l : SLoc)          -- a shared location of the footprint table
  | constTag                -- `adept::__`, `adept::end`: empty tag objects, no data member to read or write
  | initOnly                -- written only by static initialisation, before `main` (std::ios_base::Init)
  | compilerGenerated       -- `DW.ref.__gxx_personality_v0`
  deriving DecidableEq, Repr

/-- every writable data symbol the footprint table knows about -/
def classify (name : String) : Option GClass :=
  if name = "adept::_stack_current_thread" then some .stackPtr
  else if name = "adept::_stack_current_thread_unsafe" then some (.loc .stackPtrUnsafe)
  else if name = "adept::internal::n_storage_objects_created_" then some (.loc .nStorageCreated)
  else if name = "adept::internal::n_storage_objects_deleted_" then some (.loc .nStorageDeleted)
  else if name = "adept::internal::array_row_major_order" then some (.loc .rowMajorOrder)
  else if name ∈ ["adept::internal::array_print_style", "adept::internal::array_print_indent",
                  "adept::internal::array_print_empty_rank", "adept::internal::array_print_before",
                  "adept::internal::array_print_after", "adept::internal::array_print_empty_before",
                  "adept::internal::array_print_empty_after", "adept::internal::array_opening_bracket",
                  "adept::internal::array_closing_bracket", "adept::internal::array_contiguous_separator",
                  "adept::internal::array_non_contiguous_separator", "adept::internal::vector_separator",
                  "adept::internal::vector_print_before", "adept::internal::vector_print_after"]
    then some (.loc .printSettings)
  else if name = "adept::__" ∨ name = "adept::end" then some .constTag
  else if name = "std::__ioinit" then some .initOnly
  else if name = "DW.ref.__gxx_personality_v0" then some .compilerGenerated
  else none

/-- obligation on a symbol table: the stack pointer is present and thread-local; every thread-local symbol is the stack
    pointer; every other writable symbol is classified (as something that is not the stack pointer) -/
def globalsAccounted (table : List (String × String × Bool)) : Bool :=
  table.any (fun e => e.1 = "adept::_stack_current_thread" && e.2.2) &&
  table.all fun e =>
    match classify e.1 with
    | none => false
    | some .stackPtr => e.2.2
    | some _ => !e.2.2

/-- is the active-stack pointer thread-local according to a symbol table? -/
def stackPtrIsTLS (table : List (String × String × Bool)) : Bool :=
  table.any (fun e => e.1 = "adept::_stack_current_thread" && e.2.2) &&
  table.all (fun e => !(e.1 = "adept::_stack_current_thread") || e.2.2)

open Adept.Generated in
/-- the configuration of the DEFAULT C++11 build of the working tree, read off the generated tables -/
def cfgDefault : Cfg :=
  { stackPtrTLS := stackPtrIsTLS Globals.table
    countersAtomic := StorageCfg.countersAtomicDefault && StorageCfg.counterUpdateSingleRmw
    nLinksAtomic := StorageCfg.nLinksAtomicDefault && StorageCfg.addLinkSingleRmw }

open Adept.Generated in
/-- the configuration of the -DADEPT_STORAGE_THREAD_SAFE build -/
def cfgThreadSafe : Cfg :=
  { stackPtrTLS := stackPtrIsTLS Globals.table
    countersAtomic := StorageCfg.countersAtomicThreadSafe && StorageCfg.counterUpdateSingleRmw
    nLinksAtomic := StorageCfg.nLinksAtomicThreadSafe && StorageCfg.addLinkSingleRmw }

/-- operation kinds of a C12 workload: own stack, scalars, arrays, Jacobians, own views, printing -/
def c12Kinds : List OpKind :=
  [.newStack, .activate, .deactivate, .destroyStack, .newRecording, .record, .differentiate, .readActive, .newArray,
   .deleteArray, .viewOwn, .printArray]

/-- operation kinds of a C14 workload in a thread-safe build: views of the shared array + private arrays -/
def c14Kinds : List OpKind := [.linkShared, .unlinkShared, .softView, .newArray, .deleteArray, .viewOwn]

/-- operation kinds of a C14 workload in a build WITHOUT thread-safe storage: soft links + private arrays -/
def c14SoftKinds : List OpKind := [.softView, .newArray, .deleteArray, .viewOwn]

/-! ## 2. Worlds, steps, schedules -/

/-- pointwise update of a per-thread component -/
def upd {α : Type} (f : Nat → α) (t : Nat) (v : α) : Nat → α := fun u => if u = t then v else f u

/-- what a thread owns, abstractly -/
structure Priv where
  /-- statements recorded since the last new_recording: (stack they went to, payload) -/
  tape : List (Nat × Nat) := []
  /-- every result the thread obtained (derivatives, active_stack() samples, layouts, printed text, …) -/
  out : List Nat := []
  arrays : Nat := 0
  views : Nat := 0
  errors : Nat := 0
  deriving DecidableEq, Repr

structure World where
  /-- per-thread instance of `_stack_current_thread` (0 = none, s+1 = stack number s) -/
  tls : Nat → Nat
  priv : Nat → Priv
  sh : SLoc → Nat

def World.init : World := { tls := fun _ => 0, priv := fun _ => {}, sh := fun l => if l = .rowMajorOrder then 1 else 0 }

def setS (f : SLoc → Nat) (l : SLoc) (v : Nat) : SLoc → Nat := fun l' => if l' = l then v else f l'

def getPtr (c : Cfg) (w : World) (t : Nat) : Nat := if c.stackPtrTLS then w.tls t else w.sh .stackPtrGlobal
def setPtr (c : Cfg) (w : World) (t : Nat) (v : Nat) : World :=
  if c.stackPtrTLS then { w with tls := upd w.tls t v } else { w with sh := setS w.sh .stackPtrGlobal v }

def modPriv (w : World) (t : Nat) (f : Priv → Priv) : World := { w with priv := upd w.priv t (f (w.priv t)) }

def digest (tape : List (Nat × Nat)) : Nat := tape.foldl (fun acc e => 31 * acc + 7 * e.1 + e.2) 17

/-- one API operation of thread `t`, as one atomic step -/
def step (c : Cfg) (t : Nat) (op : Op) (w : World) : World :=
  let cur := getPtr c w t
  let sid := op.arg + 1
  match op.kind with
  | .newStack | .activate =>           -- Stack::activate: throws stack_already_active if another stack is active here
      if cur ≠ 0 ∧ cur ≠ sid then modPriv w t fun p => { p with errors := p.errors + 1 }
      else setPtr c w t sid
  | .deactivate =>                     -- Stack::deactivate: `if (is_active()) ADEPT_ACTIVE_STACK = 0`
      if cur = sid then setPtr c w t 0 else w
  | .destroyStack =>                   -- Stack::~Stack
      modPriv (if cur = sid then setPtr c w t 0 else w) t fun p => { p with tape := [] }
  | .newRecording => modPriv w t fun p => { p with tape := [] }
  | .record =>                         -- the statement goes to whatever ADEPT_ACTIVE_STACK is for this thread
      if cur = 0 then modPriv w t fun p => { p with errors := p.errors + 1 }
      else modPriv w t fun p => { p with tape := (cur, op.arg) :: p.tape }
  | .differentiate => modPriv w t fun p => { p with out := digest p.tape :: p.out }
  | .readActive => modPriv w t fun p => { p with out := cur :: p.out }
  | .newArray =>
      let w1 := { w with sh := setS w.sh .nStorageCreated (w.sh .nStorageCreated + 1) }
      modPriv w1 t fun p => { p with arrays := p.arrays + 1, out := (w.sh .rowMajorOrder + 2 * cur) :: p.out }
  | .deleteArray =>
      if (w.priv t).arrays = 0 then modPriv w t fun p => { p with errors := p.errors + 1 }
      else
        let w1 := { w with sh := setS w.sh .nStorageDeleted (w.sh .nStorageDeleted + 1) }
        modPriv w1 t fun p => { p with arrays := p.arrays - 1, out := cur :: p.out }
  | .viewOwn | .softView => modPriv w t fun p => { p with views := p.views + 1 }
  | .printArray => modPriv w t fun p => { p with out := w.sh .printSettings :: p.out }
  | .linkShared =>
      let w1 := { w with sh := setS w.sh .nLinksShared (w.sh .nLinksShared + 1) }
      modPriv w1 t fun p => { p with views := p.views + 1 }
  | .unlinkShared =>
      let n := w.sh .nLinksShared
      if n = 0 then modPriv w t fun p => { p with errors := p.errors + 1 }
      else if n = 1 then
        let w1 := { w with sh := setS (setS w.sh .nLinksShared 0) .nStorageDeleted (w.sh .nStorageDeleted + 1) }
        modPriv w1 t fun p => { p with out := 1 :: p.out }
      else
        let w1 := { w with sh := setS w.sh .nLinksShared (n - 1) }
        modPriv w1 t fun p => { p with out := 0 :: p.out }
  | .setRowMajor => { w with sh := setS w.sh .rowMajorOrder op.arg }
  | .setPrintStyle => { w with sh := setS w.sh .printSettings op.arg }
  | .readStorageCount =>
      modPriv w t fun p => { p with out := (w.sh .nStorageCreated - w.sh .nStorageDeleted) :: p.out }

/-- a workload gives every thread its list of operations -/
abbrev Workload := Nat → List Op

structure Run where
  w : World
  /-- how many of its operations each thread has executed -/
  pc : Nat → Nat
  /-- executed steps, most recent first -/
  trace : List (Nat × Op)

def Run.start (w : World) : Run := { w := w, pc := fun _ => 0, trace := [] }

/-- a schedule is a list of thread ids: the named thread executes its next operation (nothing if it has none left) -/
def execStep (c : Cfg) (W : Workload) (r : Run) (t : Nat) : Run :=
  match (W t)[r.pc t]? with
  | none => r
  | some op => { w := step c t op r.w, pc := upd r.pc t (r.pc t + 1), trace := (t, op) :: r.trace }

def exec (c : Cfg) (W : Workload) (sched : List Nat) (r : Run) : Run := sched.foldl (execStep c W) r

/-- thread `t` running `ops` alone -/
def solo (c : Cfg) (t : Nat) (ops : List Op) (w : World) : World := ops.foldl (fun w op => step c t op w) w

/-- what thread `t` can see of a world: its stack pointer and everything it owns -/
def proj (c : Cfg) (t : Nat) (w : World) : Nat × Priv := (getPtr c w t, w.priv t)

/-- location of an access as a global name: thread-local and owned locations are tagged with the thread -/
inductive CLoc
  | tls (t : Nat) | own (t : Nat) | shared (l : SLoc)
  deriving DecidableEq, Repr

def concrete (t : Nat) : Loc → CLoc
  | .tlsStackPtr => .tls t
  | .own => .own t
  | .shared l => .shared l

/-- a data race between an access of thread `t` and one of thread `u` (no synchronisation exists between workload
    threads in this machine, so conflicting accesses of different threads are unordered) -/
def Races (t : Nat) (a : Access) (u : Nat) (b : Access) : Prop :=
  t ≠ u ∧ concrete t a.loc = concrete u b.loc ∧ (a.mode = .write ∨ b.mode = .write) ∧ (a.kind = .plain ∨ b.kind = .plain)

/-! ## 3. The reference count `n_links_` of one shared Storage object (C14) -/
namespace NLinks

/-- how `remove_link()` decrements -/
inductive Shape
  /-- `if (--n_links_ == 0) delete this` on a std::atomic: ONE fetch-sub whose returned value is tested -/
  | rmwTested
  /-- `--n_links_; if (n_links_ == 0) delete this`: the decrement's result is dropped, a separate load is tested -/
  | rmwThenReload
  /-- `if (--n_links_ == 0)` on a plain int: load, then store of (loaded − 1), the stored value is tested -/
  | loadStore
  deriving DecidableEq, Repr

/-- shape implied by the generated configuration -/
def shapeOf (atomic rmwResultTested : Bool) : Shape :=
  if !rmwResultTested then .rmwThenReload else if atomic then .rmwTested else .loadStore

/-- API-level operations of a thread on the shared array -/
inductive LOp
  | addLink        -- copy-construct, link (>>=), slice: Storage::add_link
  | removeLink     -- destructor / clear() of a view: Storage::remove_link
  | softView       -- create or destroy a view made through soft_link(): storage_ == 0
  | privArray      -- create or destroy an array of the thread's own
  deriving DecidableEq, Repr

/-- atomic steps of the machine -/
inductive MOp
  | inc            -- fetch-add 1
  | chk            -- the leading load `n_links_ == 0` of remove_link
  | decTest        -- fetch-sub 1, free iff the RETURNED old value was 1
  | decOnly        -- fetch-sub 1, result dropped
  | reloadTest     -- load, free iff it reads 0
  | load           -- load into the thread's register
  | storeTest      -- store (register − 1), free iff that is 0
  | nop            -- no access to this counter
  deriving DecidableEq, Repr

def expand (sh : Shape) (leadingLoad : Bool) : LOp → List MOp
  | .addLink => [.inc]
  | .removeLink =>
      (if leadingLoad then [.chk] else []) ++
      (match sh with
       | .rmwTested => [.decTest]
       | .rmwThenReload => [.decOnly, .reloadTest]
       | .loadStore => [.load, .storeTest])
  | .softView | .privArray => [.nop]

def expandAll (sh : Shape) (leadingLoad : Bool) (p : List LOp) : List MOp := p.flatMap (expand sh leadingLoad)

structure St where
  /-- value of `n_links_` (an `int` in C++) -/
  count : Int
  /-- how many times `delete this` has run -/
  frees : Nat
  /-- accesses to the counter after the object was freed -/
  touchedAfterFree : Nat
  /-- ghost: number of views of the shared data thread `t` owns -/
  held : Nat → Nat
  /-- `loadStore` shape: the value thread `t` loaded -/
  reg : Nat → Int
  /-- what each thread still has to do -/
  rem : Nat → List MOp

def touch (s : St) : St := if s.frees = 0 then s else { s with touchedAfterFree := s.touchedAfterFree + 1 }

def mstep (t : Nat) (m : MOp) (s : St) : St :=
  match m with
  | .inc => let s := touch s; { s with count := s.count + 1, held := upd s.held t (s.held t + 1) }
  | .chk => touch s
  | .decTest =>
      let s := touch s
      let s := { s with count := s.count - 1, held := upd s.held t (s.held t - 1) }
      if s.count = 0 then { s with frees := s.frees + 1 } else s
  | .decOnly => let s := touch s; { s with count := s.count - 1, held := upd s.held t (s.held t - 1) }
  | .reloadTest => let s := touch s; if s.count = 0 then { s with frees := s.frees + 1 } else s
  | .load => let s := touch s; { s with reg := upd s.reg t s.count }
  | .storeTest =>
      let s := touch s
      let s := { s with count := s.reg t - 1, held := upd s.held t (s.held t - 1) }
      if s.count = 0 then { s with frees := s.frees + 1 } else s
  | .nop => s

/-- the scheduled thread executes its next atomic step (nothing if it has finished) -/
def mexecStep (s : St) (t : Nat) : St :=
  match s.rem t with
  | [] => s
  | m :: r => mstep t m { s with rem := upd s.rem t r }

def mexec (sched : List Nat) (s : St) : St := sched.foldl mexecStep s

def sumTo : Nat → (Nat → Nat) → Nat
  | 0, _ => 0
  | n + 1, f => sumTo n f + f n

/-- `T` threads; thread `t < T` starts owning `h0 t` views and runs `progs t`; the count starts as the number of views -/
def St.init (T : Nat) (h0 : Nat → Nat) (progs : Nat → List MOp) : St :=
  let held := fun t => if t < T then h0 t else 0
  { count := (sumTo T held : Nat), frees := 0, touchedAfterFree := 0, held := held, reg := fun _ => 0,
    rem := fun t => if t < T then progs t else [] }

/-- well-formed micro-program for the `rmwTested` shape: the thread only adds a link from a view it owns and only
    removes links it holds (`h` = views it owns now) -/
def wfM : Nat → List MOp → Bool
  | _, [] => true
  | h, .inc :: r => decide (1 ≤ h) && wfM (h + 1) r
  | h, .chk :: r => decide (1 ≤ h) && wfM h r
  | h, .decTest :: r => decide (1 ≤ h) && wfM (h - 1) r
  | h, .nop :: r => wfM h r
  | _, _ :: _ => false

/-- well-formed API-level program -/
def wfL : Nat → List LOp → Bool
  | _, [] => true
  | h, .addLink :: r => decide (1 ≤ h) && wfL (h + 1) r
  | h, .removeLink :: r => decide (1 ≤ h) && wfL (h - 1) r
  | h, _ :: r => wfL h r

end NLinks

/-! ## Part 4: the Stack constructor as a sequence of steps with a fault point  (C12)

`Stack::Stack(bool activate_immediately)` (include/adept/Stack.h) performs three steps; `initialize` allocates three arrays
(`StackStorageOrig::initialize`: multiplier_, index_, statement_) and any of these allocations may throw std::bad_alloc;
`activate` throws stack_already_active when another stack is active in the thread.  A constructor that exits by an exception
has constructed NO object: `~Stack` (which would clear the thread's pointer) does not run.  The ORDER of the steps is read
from the source (`Generated/StorageCfg.lean: stackCtorOrder`, translate/storagecfg.py). -/
namespace Ctor

inductive CStep | initialize | newRecording | activate
  deriving DecidableEq, Repr

def CStep.ofName : String → Option CStep
  | "initialize" => some .initialize | "new_recording" => some .newRecording | "activate" => some .activate | _ => none

/-- the order of the pinned source: `initialize(ADEPT_INITIAL_STACK_LENGTH); new_recording(); if (activate_immediately) activate();` -/
def codeOrder : List CStep := [.initialize, .newRecording, .activate]
/-- activation first (the order of a seeded regression) -/
def swappedOrder : List CStep := [.activate, .initialize, .newRecording]

open Adept.Generated in
/-- the order of the working tree, as translated (none: a step name the model does not know) -/
def generatedOrder : Option (List CStep) := StorageCfg.stackCtorOrder.mapM CStep.ofName

structure CSt where
  /-- the constructing thread's active-stack pointer: 0 = none, else stack number + 1 -/
  ptr : Nat
  /-- the constructor has exited by an exception: the object does not exist -/
  failed : Bool
  deriving DecidableEq, Repr

/-- one step of the constructor of the stack whose pointer value is `sid`; `fault`: an exception is injected into this step
    (an allocation failing inside it); a step that throws has no effect of its own -/
def cstep (sid : Nat) (act : Bool) (fault : Bool) (s : CSt) (k : CStep) : CSt :=
  if s.failed then s
  else if fault then { s with failed := true }
  else match k with
    | .initialize => s
    | .newRecording => s
    | .activate =>                     -- Stack::activate
        if !act then s
        else if s.ptr ≠ 0 ∧ s.ptr ≠ sid then { s with failed := true }
        else { s with ptr := sid }

/-- run the steps `ord` from step index `i`; the step with index `faultAt` faults (`faultAt ≥ length`: no fault) -/
def crun (sid : Nat) (act : Bool) (faultAt : Nat) : List CStep → Nat → CSt → CSt
  | [], _, s => s
  | k :: ks, i, s => crun sid act faultAt ks (i + 1) (cstep sid act (i == faultAt) s k)

/-- index of the step that performs the `a`-th array allocation of the constructor (all three are in `initialize`) -/
def faultStepOfAlloc (ord : List CStep) (a : Nat) : Nat :=
  if a < 3 then ord.findIdx (· == .initialize) else ord.length

/-- the whole constructor in a thread whose pointer is `cur` -/
def construct (ord : List CStep) (sid : Nat) (act : Bool) (faultAt : Nat) (cur : Nat) : CSt :=
  crun sid act faultAt ord 0 ⟨cur, false⟩

end Ctor

end Adept.Threads
