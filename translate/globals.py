#!/usr/bin/env python3
"""Translator: symbol tables of the compiled library  ->  lean/AdeptModel/Generated/Globals.lean   (C12, C14)

Compiles every adept/*.cpp of the working tree (env VERIF_REPO, default /repo; the flags of lib/vbuild.py with the
verification guard undefined, g++, no sanitizer) plus harness/drv_threads.cpp (so that library state instantiated from the HEADERS -- function-local statics of
inline functions, static members of templates -- is seen as well; from that object only symbols of namespace adept are
taken), reads `readelf -SW` / `readelf -sW` of every object and lists

    every defined OBJECT/TLS symbol that lives in a WRITABLE data section
    (.data*, .bss*, .tdata*, .tbss*; not .rodata, not .data.rel.ro*)

as (demangled name, section family, thread-local?).  Addresses, sizes, binding and the object file are dropped, the list
is de-duplicated and sorted, so the output is a pure function of the sources (byte-identical on an unchanged tree).

The Lean side (AdeptProofs/Props/C12.lean) proves by `decide` over the WHOLE table that the active-stack pointer
`adept::_stack_current_thread` is thread-local and that every writable non-thread-local symbol is classified in the
footprint table (AdeptModel/Threads.lean `classify`): a new global makes that obligation fail.

Anything unexpected (compile error, readelf output that does not parse, empty table) raises TranslateError: nothing is
written and the check reports a broken obligation.

usage: globals.py [--out FILE] [--check]      (--check: exit 1 if FILE differs from what would be written)
"""
import os, re, subprocess, sys
from concurrent.futures import ThreadPoolExecutor

HERE = os.path.dirname(os.path.abspath(__file__))
sys.path.insert(0, os.path.join(os.path.dirname(HERE), "lib"))
import vbuild

WRITABLE = re.compile(r"^\.(data|bss|tdata|tbss)(\.|$)")
READONLY_AFTER_RELOC = re.compile(r"^\.data\.rel\.ro(\.|$)")


class TranslateError(Exception):
    pass


def default_out():
    lean = os.environ.get("VERIF_LEAN", os.path.join(vbuild.VERIF, "lean"))
    return os.path.join(lean, "AdeptModel", "Generated", "Globals.lean")


def sh(cmd, inp=None):
    p = subprocess.run(cmd, input=inp, stdout=subprocess.PIPE, stderr=subprocess.PIPE, text=True)
    if p.returncode != 0:
        raise TranslateError("%s failed: %s" % (" ".join(cmd[:3]), p.stderr[-2000:]))
    return p.stdout


def compile_objects():
    # the verification guard is switched OFF: the table describes the library as shipped (hook globals are not library state)
    flags = list(vbuild.BASE_FLAGS) + ["-U" + vbuild.GUARD]
    srcs = vbuild.lib_sources()
    if len(srcs) < 5:
        raise TranslateError("only %d library sources under %s/adept" % (len(srcs), vbuild.REPO))
    drv = os.path.join(vbuild.VERIF, "harness", "drv_threads.cpp")
    jobs = [(s, flags, False) for s in srcs] + [(drv, flags, True)]
    with ThreadPoolExecutor(max_workers=16) as ex:
        res = list(ex.map(lambda j: vbuild._compile("g++", j[0], j[1], None), jobs))
    errs = [e for (_, e) in res if e]
    if errs:
        raise TranslateError("the library no longer compiles:\n" + "\n".join(errs)[-4000:])
    return [(o, j[2]) for (o, _), j in zip(res, jobs)]


def sections(obj):
    """section index -> (name, flags)"""
    out = {}
    for line in sh(["readelf", "-SW", obj]).splitlines():
        m = re.match(r"\s*\[\s*(\d+)\]\s+(\S*)\s+(\S+)\s+[0-9a-f]+\s+[0-9a-f]+\s+[0-9a-f]+\s+[0-9a-f]+\s+(\S*)\s+\d+\s+\d+\s+\d+\s*$", line)
        if m:
            flags = m.group(4)
            if re.fullmatch(r"\d+", flags):     # empty flag column: the regex slid by one field
                flags = ""
            out[int(m.group(1))] = (m.group(2), flags)
    if not out:
        raise TranslateError("no section headers parsed from " + obj)
    return out


def symbols(obj, only_adept):
    secs = sections(obj)
    rows = []
    nsym = 0
    for line in sh(["readelf", "-sW", obj]).splitlines():
        m = re.match(r"\s*\d+:\s+[0-9a-f]+\s+\d+\s+(\S+)\s+(\S+)\s+(\S+)\s+(\S+)\s+(\S.*)$", line)
        if not m:
            continue
        nsym += 1
        typ, bind, vis, ndx, name = m.groups()
        if typ not in ("OBJECT", "TLS", "COMMON"):
            continue
        if ndx == "UND":
            continue
        if ndx == "COM":
            secname, tls = ".bss", False
        elif ndx.isdigit():
            if int(ndx) not in secs:
                raise TranslateError("symbol %s refers to unknown section %s in %s" % (name, ndx, obj))
            secname, flags = secs[int(ndx)]
            tls = typ == "TLS" or "T" in flags
        else:
            raise TranslateError("symbol %s has section index %r in %s" % (name, ndx, obj))
        if not WRITABLE.match(secname) or READONLY_AFTER_RELOC.match(secname):
            continue
        fam = re.match(r"^\.(data\.rel\.local|data\.rel|data|bss|tdata|tbss)", secname).group(0)
        rows.append((name.strip(), fam, tls))
    if nsym == 0:
        raise TranslateError("no symbols parsed from " + obj)
    if not rows:
        return []
    dem = sh(["c++filt"], inp="\n".join(r[0] for r in rows) + "\n").splitlines()
    if len(dem) != len(rows):
        raise TranslateError("c++filt returned %d names for %d symbols" % (len(dem), len(rows)))
    out = []
    for (_, fam, tls), d in zip(rows, dem):
        d = d.replace("[abi:cxx11]", "").strip()
        if only_adept and "adept::" not in d:
            continue
        out.append((d, fam, tls))
    return out


def table():
    rows = set()
    for obj, only_adept in compile_objects():
        rows.update(symbols(obj, only_adept))
    if not rows:
        raise TranslateError("no writable data symbol found at all (the library has several): symbol-table parser is broken")
    return sorted(rows)


def lean_str(s):
    return '"' + s.replace("\\", "\\\\").replace('"', '\\"') + '"'


def translate():
    rows = table()
    L = ["/-! GENERATED by translate/globals.py from the symbol tables of the compiled library (adept/*.cpp of the working",
         "    tree + the header state instantiated by harness/drv_threads.cpp).  Do not edit: rewritten on every run of C12/C14.",
         "    One entry per writable data OBJECT/TLS symbol: (demangled name, section family, thread-local?). -/",
         "namespace Adept.Generated.Globals",
         "",
         "def table : List (String × String × Bool) := ["]
    for i, (n, s, t) in enumerate(rows):
        L.append("  (%s, %s, %s)%s" % (lean_str(n), lean_str(s), "true" if t else "false", "," if i + 1 < len(rows) else ""))
    L += ["]", "", "end Adept.Generated.Globals", ""]
    return "\n".join(L)


def write(out=None):
    text = translate()
    out = out or default_out()
    os.makedirs(os.path.dirname(out), exist_ok=True)
    old = open(out).read() if os.path.exists(out) else None
    if old != text:
        with open(out, "w") as f:
            f.write(text)
    return out, old != text


def main(argv):
    out = None; check = False
    i = 0
    while i < len(argv):
        if argv[i] == "--out":
            out = argv[i + 1]; i += 2
        elif argv[i] == "--check":
            check = True; i += 1
        else:
            print(__doc__); return 2
    try:
        if check:
            text = translate()
            cur = open(out or default_out()).read()
            print("identical" if cur == text else "DIFFERENT")
            return 0 if cur == text else 1
        p, ch = write(out)
        print("%s %s" % (p, "rewritten" if ch else "unchanged"))
        return 0
    except TranslateError as e:
        print("TRANSLATE ERROR: %s" % e, file=sys.stderr)
        return 3


if __name__ == "__main__":
    sys.exit(main(sys.argv[1:]))
