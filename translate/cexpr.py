"""Shared pieces of the C01 translators (translate/unary.py, translate/binary.py):
a line preprocessor for #ifdef/#ifndef/#else/#endif, a recursive-descent parser for the small C++ expression
language of the derivative tables, literal classification in 50-digit decimal arithmetic, and the emitter of Lean
terms generic over `Adept.Num` (AdeptModel/Num.lean)."""
import re, struct
from decimal import Decimal, getcontext
from fractions import Fraction

getcontext().prec = 60

DEFINED = {"ADEPT_CXX11_FEATURES"}          # configuration of the harness build (-std=c++11 or later, no ADEPT_FAST*)


class TranslateError(Exception):
    pass


# ----------------------------------------------------------------------------- exact constants (50+ digits)
def _pi():
    # Machin: pi = 16 atan(1/5) - 4 atan(1/239)
    def atan_inv(n):
        n = Decimal(n); x = 1 / n; s = x; t = x; k = 1
        while True:
            t = -t / (n * n); k += 2
            d = t / k
            if abs(d) < Decimal(10) ** -58:
                break
            s += d
        return s
    return 16 * atan_inv(5) - 4 * atan_inv(239)


_CONSTS = None


def known_consts():
    """(KConst constructor of AdeptModel/Num.lean, 50-digit value, description)"""
    global _CONSTS
    if _CONSTS is None:
        pi = _pi()
        ln2, ln10 = Decimal(2).ln(), Decimal(10).ln()
        _CONSTS = [
            ("invLn10", 1 / ln10, "1 / ln 10"),
            ("invLn2", 1 / ln2, "1 / ln 2"),
            ("ln2", ln2, "ln 2"),
            ("ln10", ln10, "ln 10"),
            ("twoInvSqrtPi", 2 / pi.sqrt(), "2 / sqrt(pi)"),
            ("pi", pi, "pi"),
        ]
    return _CONSTS


def classify_literal(text):
    """-> (bits of the IEEE double, num, den of the exact decimal value, KConst name or None, relative error or None)"""
    try:
        d = Decimal(text)
    except Exception:
        raise TranslateError("cannot read numeric literal %r" % text)
    bits = struct.unpack(">Q", struct.pack(">d", float(text)))[0]
    fr = Fraction(d)
    name = err = None
    if d != 0:
        for cname, cval, _ in known_consts():
            rel = abs((d - cval) / cval)
            if rel < Decimal("1e-14"):
                name, err = cname, rel
                break
    return bits, fr.numerator, fr.denominator, name, err


# ----------------------------------------------------------------------------- lexical helpers / preprocessor
def strip_comments(s):
    s = re.sub(r"/\*.*?\*/", lambda m: "\n" * m.group(0).count("\n"), s, flags=re.S)
    s = re.sub(r"//[^\n]*", " ", s)
    return s


def preprocess(src, header):
    """join continuation lines, evaluate #ifdef/#ifndef/#else/#endif against DEFINED (local #define/#undef of
    object-like names are tracked) -> (text without directives, {macro name: (params or None, definition text)})"""
    src = strip_comments(src).replace("\\\n", " ")
    out, macros = [], {}
    defined = set(DEFINED)
    stack = []   # (parent_active, this_branch_taken)
    active = True
    for line in src.split("\n"):
        s = line.strip()
        if s.startswith("#"):
            m = re.match(r"#\s*(\w+)\s*(.*)$", s)
            if not m:
                raise TranslateError("unreadable directive: %r" % s)
            d, rest = m.group(1), m.group(2).strip()
            if d in ("ifdef", "ifndef"):
                name = rest.split()[0]
                cond = (name in defined) == (d == "ifdef")
                stack.append((active, cond))
                active = active and cond
            elif d in ("if", "elif"):
                raise TranslateError("unsupported conditional in %s: %r" % (header, s))
            elif d == "else":
                if not stack:
                    raise TranslateError("#else without #if")
                parent, cond = stack[-1]
                stack[-1] = (parent, not cond)
                active = parent and not cond
            elif d == "endif":
                if not stack:
                    raise TranslateError("#endif without #if")
                parent, _ = stack.pop()
                active = parent
            elif d == "define" and active:
                mm = re.match(r"(\w+)(\([^)]*\))?\s*(.*)$", rest)
                if mm.group(2) is None:
                    defined.add(mm.group(1))
                macros[mm.group(1)] = (mm.group(2), mm.group(3))
            elif d == "undef" and active:
                defined.discard(rest.split()[0])
            continue
        if active:
            out.append(line)
    if stack:
        raise TranslateError("unterminated #if in %s" % header)
    return "\n".join(out), macros


def match_close(s, i, op="(", cl=")"):
    if s[i] != op:
        raise TranslateError("expected %r at offset %d" % (op, i))
    d = 0
    for k in range(i, len(s)):
        if s[k] == op:
            d += 1
        elif s[k] == cl:
            d -= 1
            if d == 0:
                return k
    raise TranslateError("unbalanced %s%s" % (op, cl))


def split_top(s, sep=","):
    out, d, cur, instr = [], 0, "", False
    for ch in s:
        if ch == '"':
            instr = not instr
        if not instr:
            if ch in "([":
                d += 1
            if ch in ")]":
                d -= 1
            if ch == sep and d == 0:
                out.append(cur.strip()); cur = ""
                continue
        cur += ch
    out.append(cur.strip())
    return out


# ----------------------------------------------------------------------------- expression parser
TOK = re.compile(r"\s*(?:(\d+\.\d*(?:[eE][+-]?\d+)?|\.\d+(?:[eE][+-]?\d+)?|\d+[eE][+-]?\d+)|(\d+)|([A-Za-z_]\w*)"
                 r"|(<=|>=|==|!=|[-+*/()<>?:,!]))")


def tokenize(s, where):
    pos, toks = 0, []
    s = s.strip()
    while pos < len(s):
        m = TOK.match(s, pos)
        if not m:
            raise TranslateError("%s: cannot tokenize expression at %r" % (where, s[pos:pos + 40]))
        if m.group(1) is not None:
            toks.append(("flt", m.group(1)))
        elif m.group(2) is not None:
            toks.append(("int", m.group(2)))
        elif m.group(3) is not None:
            toks.append(("id", m.group(3)))
        else:
            toks.append(("op", m.group(4)))
        pos = m.end()
    return toks


class Parser:
    """AST: ('flt', text) ('int', text) ('var', name) ('neg', e) ('bin', op, a, b) ('call', f, [args])
            ('cmp', op, a, b) ('ite', c, a, b) ('not', c)
    variables: names allowed as free variables; calls: {name: arity}; `fast_sqr(x)` is expanded to x*x when
    it is listed in calls."""

    def __init__(self, text, where, variables, calls):
        self.t, self.p, self.where = tokenize(text, where), 0, where
        self.variables, self.calls = variables, calls

    def peek(self):
        return self.t[self.p] if self.p < len(self.t) else (None, None)

    def take(self):
        x = self.peek(); self.p += 1
        return x

    def fail(self, msg):
        raise TranslateError("%s: %s (at token %d of %r)" % (self.where, msg, self.p, " ".join(v for _, v in self.t)))

    def parse(self):
        e = self.tern()
        if self.p != len(self.t):
            self.fail("trailing tokens")
        return e

    def tern(self):
        c = self.cmp()
        if self.peek() == ("op", "?"):
            self.take()
            a = self.tern()
            if self.take() != ("op", ":"):
                self.fail("expected ':'")
            b = self.tern()
            if c[0] not in ("cmp", "not"):
                self.fail("condition of ?: is not a comparison")
            return ("ite", c, a, b)
        return c

    def cmp(self):
        a = self.add()
        k, v = self.peek()
        if k == "op" and v in ("<", ">", "<=", ">="):
            self.take()
            b = self.add()
            return ("cmp", v, a, b)
        if k == "op" and v in ("==", "!="):
            self.fail("comparison %s is not supported" % v)
        return a

    def add(self):
        a = self.mul()
        while self.peek() in (("op", "+"), ("op", "-")):
            op = self.take()[1]
            a = ("bin", op, a, self.mul())
        return a

    def mul(self):
        a = self.unary()
        while self.peek() in (("op", "*"), ("op", "/")):
            op = self.take()[1]
            a = ("bin", op, a, self.unary())
        return a

    def unary(self):
        if self.peek() == ("op", "-"):
            self.take()
            return ("neg", self.unary())
        if self.peek() == ("op", "+"):
            self.take()
            return self.unary()
        if self.peek() == ("op", "!"):
            self.take()
            e = self.unary()
            if e[0] not in ("cmp", "not"):
                self.fail("operand of ! is not a comparison")
            return ("not", e)
        return self.primary()

    def primary(self):
        k, v = self.take()
        if k == "flt":
            return ("flt", v)
        if k == "int":
            return ("int", v)
        if k == "id":
            if self.peek() == ("op", "("):
                self.take()
                args = [self.tern()]
                while self.peek() == ("op", ","):
                    self.take()
                    args.append(self.tern())
                if self.take() != ("op", ")"):
                    self.fail("expected )")
                if v not in self.calls:
                    self.fail("call of %r is not understood here" % v)
                if len(args) != self.calls[v]:
                    self.fail("%s called with %d arguments" % (v, len(args)))
                if v == "fast_sqr":
                    return ("bin", "*", args[0], args[0])
                return ("call", v, args)
            if v in self.variables:
                return ("var", v)
            self.fail("unknown identifier %r" % v)
        if (k, v) == ("op", "("):
            e = self.tern()
            if self.take() != ("op", ")"):
                self.fail("expected )")
            return e
        self.fail("unexpected token %r" % (v,))


def typeof(e):
    """'real' | 'int' | 'bool'"""
    k = e[0]
    if k in ("flt", "var", "call"):
        return "real"
    if k == "int":
        return "int"
    if k in ("cmp", "not"):
        return "bool"
    if k == "neg":
        t = typeof(e[1])
        return "int" if t == "bool" else t
    if k == "bin":
        ta, tb = typeof(e[2]), typeof(e[3])
        return "real" if "real" in (ta, tb) else "int"
    if k == "ite":
        ta, tb = typeof(e[2]), typeof(e[3])
        return "real" if "real" in (ta, tb) else "int"
    raise AssertionError(e)


# calls -> Lean
CALL_LEAN = {"sin": "Num.cfun CFun.sin", "cos": "Num.cfun CFun.cos", "sqrt": "Num.cfun CFun.sqrt",
             "cosh": "Num.cfun CFun.cosh", "sinh": "Num.cfun CFun.sinh", "exp": "Num.cfun CFun.exp",
             "log": "Num.cfun CFun.log", "pow": "Num.pow", "atan2": "Num.atan2", "fmax": "Num.fmax", "fmin": "Num.fmin"}


class Emit:
    def __init__(self, where, rename=None):
        self.where = where
        self.rename = rename or {}
        self.lits = []     # (text, bits, num, den, const, relerr)

    def lit(self, text):
        bits, num, den, cname, err = classify_literal(text)
        self.lits.append((text, bits, num, den, cname, err))
        if cname:
            return "(Num.kconst KConst.%s 0x%016X)" % (cname, bits)
        return "(Num.lit 0x%016X %d %d)" % (bits, num, den)

    def real(self, e):
        """Lean term of type α"""
        k = e[0]
        if typeof(e) in ("int", "bool"):
            return "(Num.ofInt %s)" % self.int(e)
        if k == "flt":
            return self.lit(e[1])
        if k == "var":
            return self.rename.get(e[1], e[1])
        if k == "neg":
            return "(-%s)" % self.real(e[1])
        if k == "call":
            return "(%s %s)" % (CALL_LEAN[e[1]], " ".join(self.real(a) for a in e[2]))
        if k == "bin":
            return "(%s %s %s)" % (self.real(e[2]), e[1], self.real(e[3]))
        if k == "ite":
            return "(if %s then %s else %s)" % (self.bool(e[1]), self.real(e[2]), self.real(e[3]))
        raise AssertionError(e)

    def bool(self, e):
        """Lean term of type Bool"""
        k = e[0]
        if k == "not":
            return "(!%s)" % self.bool(e[1])
        if k == "cmp":
            op, a, b = e[1], e[2], e[3]
            if op == "<":
                return "(Num.lt %s %s)" % (self.real(a), self.real(b))
            if op == ">":
                return "(Num.lt %s %s)" % (self.real(b), self.real(a))
            if op == "<=":
                return "(Num.le %s %s)" % (self.real(a), self.real(b))
            if op == ">=":
                return "(Num.le %s %s)" % (self.real(b), self.real(a))
        raise TranslateError("%s: not a boolean expression" % self.where)

    def int(self, e):
        """Lean term of type Int (C++ int/bool arithmetic; no division)"""
        k = e[0]
        if k == "int":
            return "(%s : Int)" % e[1]
        if k in ("cmp", "not"):
            return "(Num.b2i %s)" % self.bool(e)
        if k == "neg":
            return "(-%s)" % self.int(e[1])
        if k == "bin":
            if e[1] == "/":
                raise TranslateError("%s: integer division is not supported" % self.where)
            return "(%s %s %s)" % (self.int(e[2]), e[1], self.int(e[3]))
        raise TranslateError("%s: cannot emit %r as an integer" % (self.where, e[0]))


def const_header_lines(all_lits):
    consts = {}
    for (text, bits, num, den, cname, err) in all_lits:
        if cname:
            consts[(text, cname)] = err
    descr = {n: d for n, _, d in known_consts()}
    return ["  %s  ~  %s = KConst.%s   (relative error %.2e)" % (text, descr[cname], cname, err)
            for (text, cname), err in sorted(consts.items())]
