#!/usr/bin/env python3
"""Translator: include/adept/SpecialMatrix.h  ->  lean/AdeptModel/Generated/Engines.lean   (property C17)

Parses every engine policy struct of `namespace internal` in SpecialMatrix.h (whatever the header defines:
SquareEngine, BandEngine, SymmEngine, LowerBase/LowerEngine, UpperBase/UpperEngine, all specialisations)
and transcribes, per *instantiation family* (struct x value of every enum template parameter; integer
template parameters stay symbolic), the member functions the SpecialMatrix class calls:

  pack_offset index row_offset get_row_range data_size upper_offset lower_offset check_upper_diag
  check_lower_diag set_extras value_at_location get_scalar (passive, active) get_reference (passive, active)
  + typedef transpose_engine + static const Index members (e.g. `diagonals`)

C++ member lookup is reproduced: own definition, else `using Base<..>::f`, else the base class; a function that
is inherited is emitted as a delegation to the base family (so a non-virtual call inside an inherited body keeps
calling the *base's* `index`, as in C++).  Function bodies are symbolically executed (assignments, if/else, ?:,
return, throw) into one Lean expression over `Int`; element accesses (`data[k]`, 0, throw) become `Option Int`
(`some k` = reads/writes raw element k, `none` = structural zero / exception).  `/` and `%` would be emitted as
`Int.tdiv`/`Int.tmod` (C semantics).  `Index` is a 32-bit int in C++; the Lean model is over unbounded `Int`
(no-overflow is an assumption of C17).

Anything the parser does not understand raises TranslateError: no output is written and the check reports a
broken obligation.  The output is a pure function of the header text (byte-identical on an unchanged tree).

usage: engines.py [--repo DIR] [--out FILE] [--check]     (--check: exit 1 if FILE differs from what would be written)
"""
import os, re, sys

FUNCS = ["pack_offset", "index", "row_offset", "get_row_range", "data_size", "upper_offset", "lower_offset",
         "check_upper_diag", "check_lower_diag", "set_extras", "value_at_location", "get_scalar", "get_reference"]
ENUMS_FALLBACK = {"MatrixStorageOrder": ["ROW_MAJOR", "COL_MAJOR"]}


class TranslateError(Exception):
    pass


# ----------------------------------------------------------------------------- lexical helpers
def strip_comments(s):
    s = re.sub(r"/\*.*?\*/", " ", s, flags=re.S)
    s = re.sub(r"//[^\n]*", " ", s)
    s = re.sub(r'"(?:[^"\\]|\\.)*"', '""', s)
    return s


def match_close(s, i, op, cl):
    """s[i] == op; index of the matching closer"""
    assert s[i] == op
    d = 0
    for k in range(i, len(s)):
        if s[k] == op:
            d += 1
        elif s[k] == cl:
            d -= 1
            if d == 0:
                return k
    raise TranslateError("unbalanced %s%s" % (op, cl))


def split_top(s, sep=","):
    out, d, cur = [], 0, ""
    for ch in s:
        if ch in "<([":
            d += 1
        elif ch in ">)]":
            d -= 1
        if ch == sep and d == 0:
            out.append(cur.strip()); cur = ""
        else:
            cur += ch
    if cur.strip():
        out.append(cur.strip())
    return out


# ----------------------------------------------------------------------------- struct level
class Struct:
    def __init__(self):
        self.name = None; self.tparams = []; self.spec = None; self.base = None
        self.funcs = {}      # key -> (params [(type,name)], body text)     key: name or name@p / name@a
        self.usings = {}     # fname -> (basename, [args])
        self.typedefs = {}   # name -> (basename, [args])
        self.statics = {}    # name -> initializer text
        self.pos = 0


def parse_enums(src, hdr_dir):
    enums = {}
    texts = [src]
    arr = os.path.join(hdr_dir, "Array.h")
    if os.path.exists(arr):
        texts.append(strip_comments(open(arr).read()))
    for t in texts:
        for m in re.finditer(r"enum\s+(\w+)\s*\{([^}]*)\}", t):
            names = [x.split("=")[0].strip() for x in m.group(2).split(",") if x.strip()]
            enums.setdefault(m.group(1), names)
    for k, v in ENUMS_FALLBACK.items():
        enums.setdefault(k, v)
    return enums


def parse_structs(src):
    end = src.find("class SpecialMatrix")
    if end < 0:
        raise TranslateError("class SpecialMatrix not found")
    region = src[:end]
    structs = []
    for m in re.finditer(r"template\s*<([^<>]*)>\s*struct\s+(\w+)\s*", region):
        k = m.end()
        st = Struct(); st.name = m.group(2); st.pos = m.start()
        st.tparams = []
        for p in split_top(m.group(1)):
            w = p.split()
            if len(w) != 2:
                raise TranslateError("template parameter not understood: %r of struct %s" % (p, st.name))
            st.tparams.append((w[0], w[1]))
        if k < len(region) and region[k] == "<":
            c = match_close(region, k, "<", ">")
            st.spec = split_top(region[k + 1:c])
            k = c + 1
        rest = region[k:]
        m2 = re.match(r"\s*;", rest)
        if m2:
            continue  # forward declaration
        m2 = re.match(r"\s*(?::\s*public\s+(\w+)\s*<([^{]*?)>\s*)?\{", rest)
        if not m2:
            raise TranslateError("struct header not understood: %s" % region[m.start():k + 80])
        if m2.group(1):
            st.base = (m2.group(1), split_top(m2.group(2)))
        ob = k + m2.end() - 1
        cb = match_close(region, ob, "{", "}")
        parse_members(st, region[ob + 1:cb])
        structs.append(st)
    if not structs:
        raise TranslateError("no engine struct found")
    return structs


def parse_members(st, body):
    i, n = 0, len(body)
    while i < n:
        # one declaration: up to ';' at depth 0 or a '{...}' block at depth 0
        j = i; d = 0; chunk_end = None; blk = None
        while j < n:
            ch = body[j]
            if ch in "(<[":
                d += 1
            elif ch in ")>]":
                d -= 1
            elif ch == "{" and d <= 0:
                cb = match_close(body, j, "{", "}")
                blk = (j, cb); chunk_end = cb + 1
                break
            elif ch == ";" and d <= 0:
                chunk_end = j + 1
                break
            j += 1
        if chunk_end is None:
            if body[i:].strip():
                raise TranslateError("trailing text in struct %s: %r" % (st.name, body[i:i + 60]))
            break
        if blk:
            head = body[i:blk[0]].strip(); fbody = body[blk[0] + 1:blk[1]]
            parse_function(st, head, fbody)
            k = chunk_end
            while k < n and body[k] in " \t\r\n;":
                k += 1
            i = k
        else:
            parse_simple_decl(st, body[i:chunk_end - 1].strip())
            i = chunk_end


def parse_simple_decl(st, text):
    if not text:
        return
    m = re.match(r"using\s+(\w+)\s*<(.*)>\s*::\s*(\w+)$", text, flags=re.S)
    if m:
        st.usings[m.group(3)] = (m.group(1), split_top(m.group(2)))
        return
    m = re.match(r"typedef\s+(\w+)\s*<(.*)>\s*(\w+)$", text, flags=re.S)
    if m:
        st.typedefs[m.group(3)] = (m.group(1), split_top(m.group(2)))
        return
    m = re.match(r"static\s+const\s+(\w+)\s+(\w+)\s*=\s*(.*)$", text, flags=re.S)
    if m:
        st.statics[m.group(2)] = (m.group(1), m.group(3).strip())
        return
    raise TranslateError("member declaration not understood in struct %s: %r" % (st.name, text[:120]))


def parse_function(st, head, fbody):
    h = head
    tm = re.match(r"template\s*<", h)
    if tm:
        c = match_close(h, tm.end() - 1, "<", ">")
        h = h[c + 1:].strip()
    po = h.rfind("(")
    # find the parameter list: the last top-level (...) group
    pc = h.rfind(")")
    if po < 0 or pc < po:
        raise TranslateError("function header not understood in %s: %r" % (st.name, head[:160]))
    # walk back to the matching '(' of the final ')'
    d = 0; po = None
    for k in range(pc, -1, -1):
        if h[k] == ")":
            d += 1
        elif h[k] == "(":
            d -= 1
            if d == 0:
                po = k; break
    tail = h[pc + 1:].strip()
    if tail not in ("", "const"):
        raise TranslateError("function qualifier not understood in %s: %r" % (st.name, head[:160]))
    pre = h[:po].rstrip()
    m = re.search(r"(\w+)$", pre)
    if not m:
        raise TranslateError("function name not found in %s: %r" % (st.name, head[:160]))
    fname = m.group(1); rtype = pre[:m.start()].strip()
    if fname not in FUNCS:
        return
    params = []
    for p in split_top(h[po + 1:pc]):
        mm = re.match(r"(.*?)(\w+)$", p, flags=re.S)
        params.append((mm.group(1).strip(), mm.group(2)))
    key = fname
    if fname in ("get_scalar", "get_reference"):
        r = re.sub(r"\s+", "", rtype)
        if "enable_if<!IsActive" in r:
            key = fname + "@p"
        elif "enable_if<IsActive" in r:
            key = fname + "@a"
        else:
            raise TranslateError("cannot classify overload of %s in %s: %r" % (fname, st.name, rtype))
    if key in st.funcs:
        raise TranslateError("duplicate definition of %s in %s" % (key, st.name))
    st.funcs[key] = (params, fbody, rtype)


# ----------------------------------------------------------------------------- C expression / statement parser
TOK = re.compile(r"\s*(?:(\d+\.\d*|\d+)|([A-Za-z_]\w*)|(\"\"|<=|>=|==|!=|&&|\|\||\+\+|--|\+=|-=|::|[-+*/%<>=!?:(){}\[\],;.&]))")


def tokenize(s):
    s = s.replace("Active<Type>", "Active_").replace("ActiveReference<Type>", "ActiveReference_")
    out, i = [], 0
    s = s.rstrip()
    while i < len(s):
        m = TOK.match(s, i)
        if not m:
            if s[i:].strip() == "":
                break
            raise TranslateError("cannot tokenize %r" % s[i:i + 40])
        if m.group(1) is not None:
            out.append(("num", m.group(1)))
        elif m.group(2) is not None:
            out.append(("id", m.group(2)))
        else:
            out.append(("op", m.group(3)))
        i = m.end()
    return out


class P:
    def __init__(self, toks, where):
        self.t, self.i, self.where = toks, 0, where

    def peek(self, k=0):
        return self.t[self.i + k] if self.i + k < len(self.t) else ("eof", "")

    def eat(self, kind=None, val=None):
        tk = self.peek()
        if (kind and tk[0] != kind) or (val is not None and tk[1] != val):
            raise TranslateError("%s: expected %s %s, found %r" % (self.where, kind, val, tk))
        self.i += 1
        return tk

    def at(self, val):
        return self.peek()[1] == val and self.peek()[0] in ("op", "id")

    # statements
    def stmts(self, until=None):
        out = []
        while self.peek()[0] != "eof" and not (until and self.at(until)):
            out.append(self.stmt())
        return out

    def block_or_stmt(self):
        if self.at("{"):
            self.eat("op", "{"); s = self.stmts("}"); self.eat("op", "}")
            return s
        return [self.stmt()]

    def stmt(self):
        tk = self.peek()
        if tk == ("op", "{"):
            return ("block", self.block_or_stmt())
        if tk == ("id", "return"):
            self.eat()
            e = self.expr(); self.eat("op", ";")
            return ("return", e)
        if tk == ("id", "throw"):
            self.eat()
            d = 0
            while True:
                t = self.eat()
                if t[0] == "eof":
                    raise TranslateError(self.where + ": unterminated throw")
                if t == ("op", "("):
                    d += 1
                elif t == ("op", ")"):
                    d -= 1
                elif t == ("op", ";") and d == 0:
                    break
            return ("throw",)
        if tk == ("id", "if"):
            self.eat(); self.eat("op", "(")
            c = self.expr(); self.eat("op", ")")
            th = self.block_or_stmt(); el = []
            if self.peek() == ("id", "else"):
                self.eat(); el = self.block_or_stmt()
            return ("if", c, th, el)
        if tk == ("id", "const") and self.peek(1)[0] == "id" and self.peek(1)[1] in ("Index", "Type", "int") and self.peek(2)[0] == "id":
            self.eat(); tk = self.peek()            # `const Index k = …;`: a local declaration like any other (locals are single-assignment anyway)
        if tk[0] == "id" and tk[1] in ("Index", "Type", "int") and self.peek(1)[0] == "id":
            self.eat(); name = self.eat("id")[1]
            if self.at("="):
                self.eat(); e = self.expr(); self.eat("op", ";")
                return ("assign", ("var", name), e)
            self.eat("op", ";")
            return ("decl", name)
        # assignment
        lv = self.postfix()
        if not self.at("="):
            raise TranslateError("%s: statement not understood near %r" % (self.where, self.t[self.i:self.i + 6]))
        self.eat("op", "=")
        e = self.expr(); self.eat("op", ";")
        if lv[0] not in ("var", "idx"):
            raise TranslateError(self.where + ": bad assignment target")
        return ("assign", lv, e)

    # expressions
    def expr(self):
        c = self.lor()
        if self.at("?"):
            self.eat(); a = self.expr(); self.eat("op", ":"); b = self.expr()
            return ("tern", c, a, b)
        return c

    def _left(self, sub, ops):
        a = sub()
        while self.peek()[0] == "op" and self.peek()[1] in ops:
            op = self.eat()[1]; b = sub()
            a = ("bin", op, a, b)
        return a

    def lor(self): return self._left(self.land, ("||",))
    def land(self): return self._left(self.equ, ("&&",))
    def equ(self): return self._left(self.rel, ("==", "!="))
    def rel(self): return self._left(self.add, ("<", ">", "<=", ">="))
    def add(self): return self._left(self.mul, ("+", "-"))
    def mul(self): return self._left(self.unary, ("*", "/", "%"))

    def unary(self):
        if self.at("-"):
            self.eat(); return ("neg", self.unary())
        if self.at("!"):
            self.eat(); return ("not", self.unary())
        if self.at("+"):
            self.eat(); return self.unary()
        return self.postfix()

    def postfix(self):
        tk = self.peek()
        if tk == ("op", "("):
            self.eat(); e = self.expr(); self.eat("op", ")")
            a = ("paren", e)
        elif tk[0] == "num":
            self.eat()
            if "." in tk[1]:
                if float(tk[1]) != int(float(tk[1])):
                    raise TranslateError(self.where + ": non-integer literal " + tk[1])
                a = ("num", int(float(tk[1])))
            else:
                a = ("num", int(tk[1]))
        elif tk[0] == "id":
            self.eat(); a = ("var", tk[1])
        else:
            raise TranslateError("%s: expression not understood near %r" % (self.where, self.t[self.i:self.i + 6]))
        while True:
            if self.at("(") and a[0] == "var":
                self.eat(); args = []
                if not self.at(")"):
                    args.append(self.expr())
                    while self.at(","):
                        self.eat(); args.append(self.expr())
                self.eat("op", ")")
                a = ("call", a[1], args)
            elif self.at("["):
                self.eat(); e = self.expr(); self.eat("op", "]")
                a = ("idx", a, e)
            else:
                return a


# ----------------------------------------------------------------------------- symbolic execution
def strip_paren(e):
    while e[0] == "paren":
        e = e[1]
    return e


def arr_slot(e, where):
    """index[MyArrayNum+k] / loc[MyArrayNum+k] -> k"""
    e = strip_paren(e)
    if e == ("var", "MyArrayNum"):
        return 0
    if e[0] == "bin" and e[1] == "+" and strip_paren(e[2]) == ("var", "MyArrayNum") and strip_paren(e[3])[0] == "num":
        return strip_paren(e[3])[1]
    raise TranslateError(where + ": array slot is not MyArrayNum+k")


def subst(e, env, where):
    k = e[0]
    if k == "num":
        return e
    if k == "var":
        return env.get(e[1], e)
    if k == "paren":
        return ("paren", subst(e[1], env, where))
    if k == "bin":
        return ("bin", e[1], subst(e[2], env, where), subst(e[3], env, where))
    if k in ("neg", "not"):
        return (k, subst(e[1], env, where))
    if k == "tern":
        return ("tern", subst(e[1], env, where), subst(e[2], env, where), subst(e[3], env, where))
    if k == "call":
        return ("call", e[1], [subst(a, env, where) for a in e[2]])
    if k == "idx":
        base = e[1]
        if base[0] == "var" and base[1] in ("loc", "index") and ("#arr", base[1]) in env:
            slot = arr_slot(e[2], where)
            key = "%s#%d" % (base[1], slot)
            if key in env:
                return env[key]
            return ("var", "loc%d" % slot)
        return ("idx", subst(base, env, where), subst(e[2], env, where))
    raise TranslateError(where + ": unknown node " + k)


def execute(stmts, env, where):
    if not stmts:
        return ("fall", env)
    s, rest = stmts[0], stmts[1:]
    if s[0] == "block":
        return execute(list(s[1]) + rest, env, where)
    if s[0] == "return":
        return ("ret", subst(s[1], env, where))
    if s[0] == "throw":
        return ("throw",)
    if s[0] == "decl":
        env = dict(env); env[s[1]] = ("undef", s[1])
        return execute(rest, env, where)
    if s[0] == "assign":
        env = dict(env)
        lv, e = s[1], subst(s[2], env, where)
        if e[0] not in ("num", "var", "paren", "call", "idx"):
            e = ("paren", e)
        if lv[0] == "var":
            env[lv[1]] = e
        else:
            if lv[1][0] != "var" or ("#arr", lv[1][1]) not in env:
                raise TranslateError(where + ": assignment to unknown array")
            env["%s#%d" % (lv[1][1], arr_slot(lv[2], where))] = e
        return execute(rest, env, where)
    if s[0] == "if":
        c = subst(s[1], env, where)
        return ("ite", c, execute(list(s[2]) + rest, env, where), execute(list(s[3]) + rest, env, where))
    raise TranslateError(where + ": unknown statement")


# ----------------------------------------------------------------------------- Lean printing
PREC = {"||": 1, "&&": 2, "==": 3, "!=": 3, "<": 4, ">": 4, "<=": 4, ">=": 4, "+": 5, "-": 5, "*": 6, "/": 6, "%": 6}
LEANOP = {"||": "∨", "&&": "∧", "==": "=", "!=": "≠", "<": "<", ">": ">", "<=": "≤", ">=": "≥", "+": "+", "-": "-", "*": "*"}


class Printer:
    def __init__(self, inst, where):
        self.inst, self.where = inst, where
        self.calls = set()

    def e(self, x, prec=0):
        k = x[0]
        if k == "num":
            return str(x[1])
        if k == "undef":
            raise TranslateError(self.where + ": use of uninitialised local " + x[1])
        if k == "var":
            return self.var(x[1])
        if k == "paren":
            inner = strip_paren(x)
            if inner[0] in ("num", "var", "call", "neg", "not", "tern"):
                return self.e(inner, prec)
            return "(" + self.e(inner, 0) + ")"
        if k == "neg":
            return "(-" + self.e(x[1], 7) + ")"
        if k == "not":
            return "(¬ " + self.e(x[1], 7) + ")"
        if k == "bin":
            op = x[1]; p = PREC[op]
            if op == "/":
                s = "Int.tdiv %s %s" % (self.e(x[2], 8), self.e(x[3], 8)); p = 7
            elif op == "%":
                s = "Int.tmod %s %s" % (self.e(x[2], 8), self.e(x[3], 8)); p = 7
            else:
                # comparisons do not chain; left-assoc arithmetic keeps C grouping
                s = "%s %s %s" % (self.e(x[2], p), LEANOP[op], self.e(x[3], p + 1))
            return "(" + s + ")" if p < prec else s
        if k == "tern":
            return "(if %s then %s else %s)" % (self.e(x[1]), self.e(x[2]), self.e(x[3]))
        if k == "call":
            return self.call(x[1], x[2], prec)
        raise TranslateError("%s: cannot print %r as an integer expression" % (self.where, x))

    def var(self, name):
        inst = self.inst
        if name in inst.local_params:
            return name
        if name in inst.int_params:
            return name
        if re.match(r"loc\d$", name):
            return name
        if inst.has_static(name):
            self.calls.add(name)
            return inst.apply_own(name, [], 0)
        raise TranslateError("%s: unknown identifier %s" % (self.where, name))

    def call(self, f, args, prec):
        if f not in FUNCS or f in ("get_scalar", "get_reference", "value_at_location", "get_row_range", "set_extras"):
            raise TranslateError("%s: call of %s not supported inside an index expression" % (self.where, f))
        self.calls.add(f)
        return self.inst.apply_own(f, [self.e(a, 8) for a in args], prec)


# ----------------------------------------------------------------------------- instances (families)
class Inst:
    """one struct definition with its enum template parameters fixed"""

    def __init__(self, tr, st, lean_name, enum_bind, int_params):
        self.tr, self.st, self.name = tr, st, lean_name
        self.enum_bind = enum_bind      # template param name -> enum constant
        self.int_params = int_params    # symbolic integer template parameters, in order
        self.local_params = []
        self.defs = []                  # (member, lean text)
        self.members = {}               # member -> arity info (list of value params)

    def tsub(self, a):
        a = a.strip()
        return self.enum_bind.get(a, a)

    def base_inst(self, ref):
        name, args = ref
        return self.tr.resolve(name, [self.tsub(a) for a in args], "%s (base/using of %s)" % (name, self.name))

    def lookup(self, member):
        """C++ member lookup: ('own', key) | ('deleg', inst, args) | None"""
        st = self.st
        own = [k for k in st.funcs if k.split("@")[0] == member.split("@")[0]]
        if member in st.funcs:
            return ("own",)
        if member in st.statics:
            return ("own-static",)
        if own:
            # a declaration of the same name hides the base overloads (C++ name hiding)
            return None
        nm = member.split("@")[0]
        if nm in st.usings:
            bi, bargs = self.base_inst(st.usings[nm])
            return ("deleg", bi, bargs)
        if st.base:
            bi, bargs = self.base_inst(st.base)
            if bi.lookup(member) is not None:
                return ("deleg", bi, bargs)
        return None

    def has_static(self, name):
        r = self.lookup(name)
        return r is not None and (r[0] == "own-static" or (r[0] == "deleg" and r[1].has_static(name)))

    def apply_own(self, lean_member, args, prec):
        s = " ".join([lean_member] + list(self.int_params) + list(args))
        return "(" + s + ")" if (prec >= 7 and (self.int_params or args)) else s


class Translator:
    def __init__(self, repo):
        self.hdr = os.path.join(repo, "include", "adept", "SpecialMatrix.h")
        if not os.path.exists(self.hdr):
            raise TranslateError("header not found: " + self.hdr)
        self.src = strip_comments(open(self.hdr).read())
        self.enums = parse_enums(self.src, os.path.dirname(self.hdr))
        self.structs = parse_structs(self.src)
        self.insts = {}       # lean name -> Inst
        self.order = []
        self.families = {}    # (struct, enum args tuple) -> {"general": Inst, "special": [(ints, Inst)], "int_params": [...]}
        self.build_instances()

    # -- which template parameters are enums / ints
    def primary(self, name):
        ps = [s for s in self.structs if s.name == name and s.spec is None]
        if len(ps) != 1:
            raise TranslateError("expected exactly one primary template for %s, found %d" % (name, len(ps)))
        return ps[0]

    def build_instances(self):
        names = []
        for s in self.structs:
            if s.name not in names:
                names.append(s.name)
        for name in names:
            prim = self.primary(name)
            kinds = []
            for (ty, pn) in prim.tparams:
                if ty in self.enums:
                    kinds.append(("enum", ty))
                elif ty in ("Index", "int"):
                    kinds.append(("int", pn))
                else:
                    raise TranslateError("template parameter type %s of %s not supported" % (ty, name))
            enum_positions = [i for i, k in enumerate(kinds) if k[0] == "enum"]
            combos = [[]]
            for i in enum_positions:
                combos = [c + [v] for c in combos for v in self.enums[kinds[i][1]]]
            for combo in combos:
                fam_key = (name, tuple(combo))
                # candidates: specialisations whose enum args equal combo
                general, specials = None, []
                for s in [x for x in self.structs if x.name == name and x.spec is not None]:
                    if len(s.spec) != len(kinds):
                        raise TranslateError("specialisation arity mismatch in " + name)
                    ok = True; ints = []; bind = {}
                    ci = 0
                    for i, a in enumerate(s.spec):
                        if kinds[i][0] == "enum":
                            want = combo[ci]; ci += 1
                            if a in [p for (_, p) in s.tparams]:
                                bind[a] = want
                            elif a != want:
                                ok = False
                        else:
                            ints.append(a)
                    if not ok:
                        continue
                    sym = [a for a in ints if a in [p for (_, p) in s.tparams]]
                    lit = [a for a in ints if re.match(r"-?\d+$", a)]
                    if len(sym) == len(ints):
                        if general is not None:
                            raise TranslateError("two partial specialisations match %s%s" % (name, combo))
                        general = (s, bind, sym)
                    elif len(lit) == len(ints):
                        specials.append((s, bind, [int(a) for a in lit]))
                    else:
                        raise TranslateError("mixed literal/symbolic specialisation of %s not supported" % name)
                if general is None:
                    bind = {}; ci = 0
                    for i, (ty, pn) in enumerate(prim.tparams):
                        if kinds[i][0] == "enum":
                            bind[pn] = combo[ci]; ci += 1
                    general = (prim, bind, [pn for i, (ty, pn) in enumerate(prim.tparams) if kinds[i][0] == "int"])
                lean = "_".join([name] + combo)
                gi = Inst(self, general[0], lean, general[1], general[2])
                self.insts[lean] = gi; self.order.append(lean)
                fam = {"general": gi, "special": [], "int_params": general[2], "name": lean,
                       "n_int": len([k for k in kinds if k[0] == "int"])}
                for (s, bind, ints) in sorted(specials, key=lambda t: t[2]):
                    ln = lean + "_" + "_".join(str(v).replace("-", "m") for v in ints)
                    si = Inst(self, s, ln, bind, [])
                    self.insts[ln] = si; self.order.append(ln)
                    fam["special"].append((ints, si))
                self.families[fam_key] = fam
        self.kinds = {}
        for name in names:
            prim = self.primary(name)
            self.kinds[name] = [("enum", ty) if ty in self.enums else ("int", pn) for (ty, pn) in prim.tparams]

    def resolve(self, name, args, where):
        """-> (Inst, [lean int argument strings]) for Base<args>; int args must be symbolic names or literals"""
        if name not in self.kinds:
            raise TranslateError("unknown struct %s referenced by %s" % (name, where))
        kinds = self.kinds[name]
        if len(args) != len(kinds):
            raise TranslateError("template arity mismatch for %s in %s" % (name, where))
        combo = [a for a, k in zip(args, kinds) if k[0] == "enum"]
        ints = [a for a, k in zip(args, kinds) if k[0] == "int"]
        for c, k in zip(combo, [k for k in kinds if k[0] == "enum"]):
            if c not in self.enums[k[1]]:
                raise TranslateError("enum argument %s of %s not resolved in %s" % (c, name, where))
        fam = self.families[(name, tuple(combo))]
        if all(re.match(r"-?\d+$", a) for a in ints) and ints:
            for (lits, si) in fam["special"]:
                if lits == [int(a) for a in ints]:
                    return si, []
            return fam["general"], [("(%s)" % a if a.startswith("-") else a) for a in ints]
        if fam["special"] and ints:
            raise TranslateError("%s: symbolic reference to %s<...> which has literal specialisations; not supported" % (where, name))
        return fam["general"], ints

    # ------------------------------------------------------------------ emission of one member
    def emit_member(self, inst, member):
        """returns list of (lean def name, params list, type, body, doc) or [] if the member does not exist"""
        r = inst.lookup(member)
        if r is None:
            return []
        where = "%s::%s" % (inst.name, member)
        shapes = member_shape(member)
        out = []
        if r[0] == "deleg":
            bi, bargs = r[1], r[2]
            for (dn, params, ty) in shapes:
                body = " ".join(["%s.%s" % (bi.name, dn)] + bargs + [p for p in params])
                out.append((dn, params, ty, body, "inherited from `%s`" % cpp_name(bi)))
            return out
        if r[0] == "own-static":
            ty, init = inst.st.statics[member]
            if ty not in ("Index", "int"):
                return []
            inst.local_params = []
            pr = Printer(inst, where)
            e = P(tokenize(init), where).expr()
            return [(member, [], "Int", pr.e(e), "`static const %s %s = %s`" % (ty, member, init))]
        params, fbody, rtype = inst.st.funcs[member]
        pnames = [p for (_, p) in params]
        toks = tokenize(fbody)
        stmts = P(toks, where).stmts()
        env = {}
        base = member.split("@")[0]
        if base in ("set_extras", "row_offset", "value_at_location"):
            arr = pnames[-1]
            if arr not in ("index", "loc"):
                raise TranslateError(where + ": last parameter expected to be the location array")
            env[("#arr", arr)] = True
        tree = execute(stmts, env, where)
        doc = "`%s::%s`" % (cpp_name(inst), base)
        if base in ("pack_offset", "index", "data_size", "upper_offset", "lower_offset", "row_offset"):
            want = {"pack_offset": ["dim"], "index": ["i", "j", "offset"], "data_size": ["dim", "offset"],
                    "upper_offset": ["dim", "offset", "offdiag"], "lower_offset": ["dim", "offset", "offdiag"],
                    "row_offset": ["offset", "loc"]}[base]
            if pnames != want:
                raise TranslateError("%s: parameters %s, expected %s" % (where, pnames, want))
            lp = shapes[0][1]
            inst.local_params = lp
            pr = Printer(inst, where)
            out.append((shapes[0][0], lp, "Int", self.tree_int(tree, pr, where), doc))
        elif base == "get_row_range":
            want = ["i", "dim", "offset", "j_start", "j_end_plus_1", "index_start", "index_stride"]
            if pnames != want:
                raise TranslateError("%s: parameters %s, expected %s" % (where, pnames, want))
            for (dn, lp, ty), var in zip(shapes, want[3:]):
                inst.local_params = lp
                pr = Printer(inst, where)
                out.append((dn, lp, "Int", self.tree_out(tree, var, pr, where), doc + " (`%s`)" % var))
        elif base == "set_extras":
            if pnames != ["i", "offset", "index"]:
                raise TranslateError("%s: parameters %s" % (where, pnames))
            slots = set()
            collect_slots(tree, slots)
            if not slots <= {"index#1", "index#2"}:
                raise TranslateError("%s: writes unexpected slots %s" % (where, sorted(slots)))
            for (dn, lp, ty), var in zip(shapes, ["index#1", "index#2"]):
                inst.local_params = lp
                pr = Printer(inst, where)
                body = self.tree_out(tree, var, pr, where, default="0")
                out.append((dn, lp, "Int", body, doc + " (`index[MyArrayNum+%s]`%s)" % (var[-1], "" if var in slots else "; not written")))
        elif base in ("check_upper_diag", "check_lower_diag"):
            if pnames != ["offdiag"]:
                raise TranslateError("%s: parameters %s" % (where, pnames))
            inst.local_params = shapes[0][1]
            pr = Printer(inst, where)
            out.append((shapes[0][0], shapes[0][1], "Bool", self.tree_throws(tree, pr, where), doc + " (`true` = throws `index_out_of_bounds`)"))
        elif base == "value_at_location":
            if pnames != ["data", "loc"]:
                raise TranslateError("%s: parameters %s" % (where, pnames))
            inst.local_params = shapes[0][1]
            pr = Printer(inst, where)
            out.append((shapes[0][0], shapes[0][1], "Option Int", self.tree_access(tree, pr, where),
                        doc + " (`some k` = `data[k]`, `none` = 0)"))
        elif base in ("get_scalar", "get_reference"):
            want = ["i", "j", "dim", "offset", "gradient_index", "data"]
            if pnames != want:
                raise TranslateError("%s: parameters %s, expected %s" % (where, pnames, want))
            inst.local_params = shapes[0][1]
            pr = Printer(inst, where)
            what = "structural zero" if base == "get_scalar" else "throws `index_out_of_bounds`"
            out.append((shapes[0][0], shapes[0][1], "Option Int", self.tree_access(tree, pr, where),
                        doc + " (%s overload; `some k` = `data[k]`, `none` = %s)" % ("passive" if member.endswith("@p") else "active", what)))
        else:
            raise TranslateError("no emitter for " + member)
        return out

    def tree_int(self, t, pr, where):
        if t[0] == "ret":
            return pr.e(strip_paren(t[1]))
        if t[0] == "ite":
            return "if %s then %s else %s" % (pr.e(t[1]), paren_if(self.tree_int(t[2], pr, where)), paren_if(self.tree_int(t[3], pr, where)))
        raise TranslateError(where + ": path without integer return value")

    def tree_out(self, t, var, pr, where, default=None):
        if t[0] == "fall":
            if var in t[1]:
                return pr.e(strip_paren(t[1][var]))
            if default is not None:
                return default
            raise TranslateError("%s: output %s not assigned on some path" % (where, var))
        if t[0] == "ite":
            a, b = self.tree_out(t[2], var, pr, where, default), self.tree_out(t[3], var, pr, where, default)
            if a == b:
                return a
            return "if %s then %s else %s" % (pr.e(t[1]), paren_if(a), paren_if(b))
        raise TranslateError(where + ": return/throw in a function with output parameters")

    def tree_throws(self, t, pr, where):
        if t[0] == "fall":
            return "false"
        if t[0] == "throw":
            return "true"
        if t[0] == "ite":
            a, b = self.tree_throws(t[2], pr, where), self.tree_throws(t[3], pr, where)
            if (a, b) == ("true", "false"):
                return "decide (%s)" % pr.e(t[1])
            if a == b:
                return a
            return "if %s then %s else %s" % (pr.e(t[1]), a, b)
        raise TranslateError(where + ": unexpected return")

    def tree_access(self, t, pr, where):
        if t[0] == "throw":
            return "none"
        if t[0] == "ret":
            return self.access_leaf(strip_paren(t[1]), pr, where)
        if t[0] == "ite":
            return "if %s then %s else %s" % (pr.e(t[1]), paren_if(self.tree_access(t[2], pr, where)), paren_if(self.tree_access(t[3], pr, where)))
        raise TranslateError(where + ": path without a value")

    def access_leaf(self, e, pr, where):
        if e == ("num", 0):
            return "none"
        if e[0] == "idx" and e[1] == ("var", "data"):
            return "some (%s)" % pr.e(e[2])
        if e[0] == "call" and e[1] == "Active_" and len(e[2]) == 1:
            return self.access_leaf(strip_paren(e[2][0]), pr, where)
        if e[0] == "call" and e[1] == "ActiveReference_" and len(e[2]) == 2:
            d, g = strip_paren(e[2][0]), strip_paren(e[2][1])
            if d[0] == "idx" and d[1] == ("var", "data"):
                k = pr.e(d[2])
                if g[0] == "bin" and g[1] == "+" and strip_paren(g[2]) == ("var", "gradient_index") and pr.e(g[3]) == k:
                    return "some (%s)" % k
                raise TranslateError(where + ": ActiveReference gradient index is not gradient_index + data index")
        raise TranslateError("%s: element access not understood: %r" % (where, e))

    # ------------------------------------------------------------------ whole file
    def generate(self):
        L = []
        A = L.append
        A("/-")
        A("GENERATED by translate/engines.py from include/adept/SpecialMatrix.h — do not edit.")
        A("Regenerated by every run of `check.py C17`; the committed copy is byte-identical on an unchanged tree.")
        A("")
        A("One namespace per engine struct x value of its enum template parameters (integer template parameters are")
        A("leading `Int` arguments).  `Option Int`: `some k` = raw element `data[k]`, `none` = structural zero or")
        A("`index_out_of_bounds`.  `check_*_diag`: `true` = throws.  C++ `Index` (32-bit int) is modelled by `Int`.")
        A("-/")
        A("set_option linter.unusedVariables false")
        A("namespace Adept.Engines")
        A("")
        member_order = ["diagonals_static", "pack_offset", "index", "row_offset", "get_row_range", "data_size", "upper_offset",
                        "lower_offset", "check_upper_diag", "check_lower_diag", "set_extras", "value_at_location",
                        "get_scalar@p", "get_scalar@a", "get_reference@p", "get_reference@a"]
        inst_members = {}
        for ln in self.order:
            inst = self.insts[ln]
            # only structs that (directly or by inheritance) provide an index function are engines or engine bases
            if inst.lookup("index") is None:
                continue
            A("/-! ### `%s`%s -/" % (cpp_name(inst), "" if not inst.st.base else "   (base: `%s<%s>`)" % (inst.st.base[0], ",".join(inst.tsub(a) for a in inst.st.base[1]))))
            A("namespace %s" % ln)
            statics = []
            s = inst
            # static Index constants visible in this struct (own first, then bases)
            seen = set()
            stack = [inst]
            while stack:
                cur = stack.pop(0)
                for nm, (ty, _) in cur.st.statics.items():
                    if ty in ("Index",) and nm not in seen:
                        seen.add(nm); statics.append(nm)
                if cur.st.base:
                    stack.append(cur.base_inst(cur.st.base)[0])
            emitted = []
            for member in statics + member_order[1:]:
                for (dn, params, ty, body, doc) in self.emit_member(inst, member):
                    sig = " ".join(["(%s : Int)" % p for p in list(inst.int_params) + list(params)])
                    A("/-- %s -/" % doc)
                    A("def %s%s : %s := %s" % (dn, (" " + sig) if sig else "", ty, body))
                    emitted.append(dn)
            missing = [dn for m in member_order[1:] for (dn, _, _) in member_shape(m) if dn not in emitted]
            if ln.split("_")[0].endswith("Engine") and missing:
                raise TranslateError("engine %s lacks members %s" % (ln, missing))
            inst_members[ln] = emitted
            A("end %s" % ln)
            A("")
        # ---- Engine type
        fams = [f for (k, f) in self.families.items() if k[0].endswith("Engine") and f["general"].lookup("index") is not None]
        if not fams:
            raise TranslateError("no engine family found")
        for f in fams:
            if "transpose_engine" not in f["general"].st.typedefs and not self.find_typedef(f["general"], "transpose_engine"):
                raise TranslateError("engine %s has no transpose_engine" % f["name"])
        A("/-- every engine instantiation family defined by the header -/")
        A("inductive Engine where")
        for f in fams:
            args = "".join(" (%s : Int)" % p for p in f["int_params"])
            A("  | %s%s" % (f["name"], args))
        A("  deriving DecidableEq, Repr")
        A("")
        A("namespace Engine")
        A("/-- struct names found in the header (primary templates and specialisations, in source order) -/")
        A("def structs : List String := [%s]" % ", ".join('"%s"' % self.struct_label(s) for s in self.structs))
        A("")
        A("def name : Engine → String")
        for f in fams:
            A("  | .%s%s => \"%s\"" % (f["name"], " _" * len(f["int_params"]), f["name"]))
        A("")
        A("/-- family name and integer template arguments -> engine (`none`: unknown name / wrong number of arguments) -/")
        A("def ofName (s : String) (args : List Int) : Option Engine :=")
        for f in fams:
            n = len(f["int_params"])
            pat = "[" + ", ".join("a%d" % i for i in range(n)) + "]"
            A("  if s = \"%s\" then (match args with | %s => some (.%s%s) | _ => none) else" % (
                f["name"], pat, f["name"], "".join(" a%d" % i for i in range(n))))
        A("  none")
        A("")
        A("/-- `typedef ... transpose_engine` -/")
        A("def transpose : Engine → Engine")
        for f in fams:
            ps = f["int_params"]
            cases = []
            for (lits, si) in f["special"]:
                cases.append((lits, self.transpose_target(si, [])))
            gen = self.transpose_target(f["general"], ps)
            rhs = gen
            if cases:
                rhs = ""
                for lits, tgt in cases:
                    cond = " ∧ ".join("%s = %d" % (p, v) for p, v in zip(ps, lits))
                    rhs += "if %s then %s else " % (cond, tgt)
                rhs += gen
            A("  | .%s%s => %s" % (f["name"], "".join(" " + p for p in ps), rhs))
        A("")
        # dispatchers
        for m in member_order[1:]:
            for (dn, params, ty) in member_shape(m):
                arrow = " → ".join(["Int"] * len(params) + [ty])
                A("def %s : Engine → %s" % (dn, arrow))
                for f in fams:
                    ps = f["int_params"]
                    pv = "".join(" " + p for p in params)
                    gen = " ".join(["%s.%s" % (f["general"].name, dn)] + ps + params)
                    rhs = gen
                    if f["special"]:
                        rhs = ""
                        for lits, si in f["special"]:
                            cond = " ∧ ".join("%s = %d" % (p, v) for p, v in zip(ps, lits))
                            rhs += "if %s then %s else " % (cond, " ".join(["%s.%s" % (si.name, dn)] + params))
                        rhs += gen
                    A("  | .%s%s%s => %s" % (f["name"], "".join(" " + p for p in ps), "".join(", " + p for p in params), rhs))
                A("")
        A("end Engine")
        A("")
        A("end Adept.Engines")
        A("")
        names = []
        for ln in self.order:
            for dn in inst_members.get(ln, []):
                names.append("Adept.Engines.%s.%s" % (ln, dn))
        for m in member_order[1:]:
            for (dn, _, _) in member_shape(m):
                names.append("Adept.Engines.Engine.%s" % dn)
        names.append("Adept.Engines.Engine.transpose")
        A("set_option maxRecDepth 8192")
        A("/-- `engine_unfold (at h)?`: unfold every definition of this file (the proofs of C17 start with it) -/")
        A("macro \"engine_unfold\" loc:(Lean.Parser.Tactic.location)? : tactic =>")
        A("  `(tactic| simp only [" + ",\n    ".join(names) + "] $[$loc]?)")
        return "\n".join(L) + "\n"

    def struct_label(self, s):
        if s.spec is None:
            return "%s<%s>" % (s.name, ",".join(p for (_, p) in s.tparams))
        return "%s<%s>" % (s.name, ",".join(s.spec))

    def find_typedef(self, inst, name):
        cur = inst
        while cur is not None:
            if name in cur.st.typedefs:
                return cur, cur.st.typedefs[name]
            if cur.st.base:
                cur = cur.base_inst(cur.st.base)[0]
            else:
                cur = None
        return None

    def transpose_target(self, inst, ps):
        r = self.find_typedef(inst, "transpose_engine")
        if r is None:
            raise TranslateError("no transpose_engine for " + inst.name)
        owner, (tname, targs) = r
        if owner is not inst and owner.int_params:
            raise TranslateError("inherited transpose_engine with integer parameters not supported (%s)" % inst.name)
        targs = [owner.tsub(a) for a in targs]
        kinds = self.kinds.get(tname)
        if kinds is None or len(kinds) != len(targs):
            raise TranslateError("transpose_engine of %s names unknown template %s" % (inst.name, tname))
        combo = [a for a, k in zip(targs, kinds) if k[0] == "enum"]
        ints = [a for a, k in zip(targs, kinds) if k[0] == "int"]
        fam = self.families.get((tname, tuple(combo)))
        if fam is None or not tname.endswith("Engine"):
            raise TranslateError("transpose_engine of %s is not an engine: %s<%s>" % (inst.name, tname, ",".join(targs)))
        for a in ints:
            if not (re.match(r"-?\d+$", a) or a in ps):
                raise TranslateError("transpose_engine argument %s of %s not understood" % (a, inst.name))
        s = ".%s%s" % (fam["name"], "".join(" " + (a if not a.startswith("-") else "(%s)" % a) for a in ints))
        return s


def collect_slots(t, acc):
    if t[0] == "fall":
        for k in t[1]:
            if isinstance(k, str) and "#" in k:
                acc.add(k)
    elif t[0] == "ite":
        collect_slots(t[2], acc); collect_slots(t[3], acc)


def paren_if(s):
    return "(" + s + ")" if s.startswith("if ") else s


def cpp_name(inst):
    st = inst.st
    if st.spec is None:
        return "%s<%s>" % (st.name, ",".join(inst.enum_bind.get(p, p) for (_, p) in st.tparams))
    return "%s<%s>" % (st.name, ",".join(inst.enum_bind.get(a, a) for a in st.spec))


def member_shape(member):
    """lean defs produced for a C++ member: [(def name, value parameter names, type)]"""
    base = member.split("@")[0]
    if base == "pack_offset":
        return [("pack_offset", ["dim"], "Int")]
    if base == "index":
        return [("index", ["i", "j", "offset"], "Int")]
    if base == "row_offset":
        return [("row_offset", ["offset", "loc0", "loc1", "loc2"], "Int")]
    if base == "get_row_range":
        return [("get_row_range_" + v, ["i", "dim", "offset"], "Int") for v in ("j_start", "j_end_plus_1", "index_start", "index_stride")]
    if base == "data_size":
        return [("data_size", ["dim", "offset"], "Int")]
    if base in ("upper_offset", "lower_offset"):
        return [(base, ["dim", "offset", "offdiag"], "Int")]
    if base in ("check_upper_diag", "check_lower_diag"):
        return [(base, ["offdiag"], "Bool")]
    if base == "set_extras":
        return [("set_extras_1", ["i", "offset"], "Int"), ("set_extras_2", ["i", "offset"], "Int")]
    if base == "value_at_location":
        return [("value_at_location", ["loc0", "loc1", "loc2"], "Option Int")]
    if base in ("get_scalar", "get_reference"):
        return [(base + ("" if member.endswith("@p") else "_active"), ["i", "j", "dim", "offset"], "Option Int")]
    return [(member, [], "Int")]


def default_out():
    lean = os.environ.get("VERIF_LEAN", os.path.join(os.path.dirname(os.path.dirname(os.path.abspath(__file__))), "lean"))
    return os.path.join(lean, "AdeptModel", "Generated", "Engines.lean")


def translate(repo=None):
    repo = repo or os.environ.get("VERIF_REPO", "/repo")
    return Translator(repo).generate()


def write(repo=None, out=None):
    """regenerate; returns (path, changed: bool).  Raises TranslateError without touching the file."""
    text = translate(repo)
    out = out or default_out()
    old = open(out).read() if os.path.exists(out) else None
    if old != text:
        os.makedirs(os.path.dirname(out), exist_ok=True)
        tmp = out + ".tmp%d" % os.getpid()
        with open(tmp, "w") as f:
            f.write(text)
        os.replace(tmp, out)
    return out, old != text


def main(argv):
    repo = out = None; check = False
    i = 0
    while i < len(argv):
        if argv[i] == "--repo":
            repo = argv[i + 1]; i += 2
        elif argv[i] == "--out":
            out = argv[i + 1]; i += 2
        elif argv[i] == "--check":
            check = True; i += 1
        else:
            print(__doc__); return 2
    try:
        if check:
            text = translate(repo)
            cur = open(out or default_out()).read()
            print("identical" if cur == text else "DIFFERENT")
            return 0 if cur == text else 1
        p, ch = write(repo, out)
        print("%s %s" % (p, "rewritten" if ch else "unchanged"))
        return 0
    except TranslateError as e:
        print("TRANSLATE ERROR: %s" % e, file=sys.stderr)
        return 3


if __name__ == "__main__":
    sys.exit(main(sys.argv[1:]))
