#!/usr/bin/env python3
"""Translator: include/adept/UnaryOperation.h  ->  lean/AdeptModel/Generated/UnaryTable.lean   (property C01)

Parses every `ADEPT_DEF_UNARY_FUNC(NAME, FUNC, RAWFUNC, STRING, DERIVATIVE, ISVEC)` and
`ADEPT_DEF_UNARY_OP(NAME, FUNC, RAWFUNC, STRING, DERIVATIVE, ISVEC)` invocation that survives the preprocessor
in the configuration the harness builds (ADEPT_CXX11_FEATURES defined, ADEPT_FAST_EXPONENTIAL not defined) and
emits, generic over the numeric class `Adept.Num` (AdeptModel/Num.lean):

  inductive UFun              one constructor per NAME, in header order
  UFun.all / UFun.name / UFun.cname / UFun.isVec
  UFun.fn    : UFun -> a -> a        the operation: the C library function RAWFUNC names (`Num.cfun CFun.<name>`)
  UFun.dexpr : UFun -> a -> a -> a   the C++ DERIVATIVE expression over (val, result), shape preserved

DERIVATIVE is parsed by a small recursive-descent parser (`val`, `result`, literals, + - * /, unary minus,
parentheses, calls of sqrt cos sin cosh sinh exp fast_sqr, comparisons < > as 0/1 integers).  `fast_sqr(x)` is
expanded to `x*x` after checking that the macro defines it so.

Floating literals: the IEEE double a literal denotes is computed here (Python's float() is correctly rounded, as
is the compiler's) and emitted as a bit pattern for the Float layer together with the exact decimal value
(num/den) for the proof layer.  A literal that agrees with one of the mathematical constants of KNOWN_CONSTS to a
relative error < 1e-14 (checked in 50-digit decimal arithmetic) is emitted as the *named exact constant*
(`Num.kconst KConst.<name> <bits>`): the proof layer then reasons about 1/ln 10, not about 0.4342944819...
An unrecognised literal stays a literal (and the soundness proof of that entry then fails, which is intended).

The macro definitions themselves are checked for the shape the model relies on (operation = FUNC(val) resp.
RAWFUNC(val); derivative(val, result) returns DERIVATIVE; fast_sqr(val) = val*val).  Anything the parser does not
understand raises TranslateError: no output is written and the check reports a broken obligation.
The output is a pure function of the header text (byte-identical on an unchanged tree).

usage: unary.py [--repo DIR] [--out FILE] [--check]
"""
import os, re, sys
sys.path.insert(0, os.path.dirname(os.path.abspath(__file__)))
from cexpr import (TranslateError, DEFINED, preprocess, match_close, split_top, Parser, Emit, known_consts,
                   const_header_lines)

HEADER = os.path.join("include", "adept", "UnaryOperation.h")

# C library functions / operators the numeric class knows (AdeptModel/Num.lean, `inductive CFun`)
KNOWN_CFUN = ["log", "log10", "sin", "cos", "tan", "asin", "acos", "atan", "sinh", "cosh", "abs", "fabs", "sqrt",
              "tanh", "fastexp", "exp", "ceil", "floor", "log2", "expm1", "exp2", "log1p", "asinh", "acosh", "atanh",
              "erf", "erfc", "cbrt", "round", "trunc", "rint", "nearbyint", "pos", "neg", "lnot"]
OPERATOR_CFUN = {"+": "pos", "-": "neg", "!": "lnot"}
# functions that may be called inside DERIVATIVE (the macro brings exactly these into scope) + fast_sqr
DERIV_CALLS = ["sin", "cos", "sqrt", "cosh", "sinh", "exp"]


# ----------------------------------------------------------------------------- the table
def check_macro_shape(macros):
    for mname, op_pat in (("ADEPT_DEF_UNARY_FUNC", r"using\s+RAWFUNC\s*;\s*return\s+FUNC\s*\(\s*val\s*\)\s*;"),
                          ("ADEPT_DEF_UNARY_OP", r"return\s+RAWFUNC\s*\(\s*val\s*\)\s*;")):
        if mname not in macros or macros[mname][0] is None:
            raise TranslateError("macro %s is not defined in %s" % (mname, HEADER))
        params = [p.strip() for p in macros[mname][0].strip("()").split(",")]
        if params != ["NAME", "FUNC", "RAWFUNC", "STRING", "DERIVATIVE", "ISVEC"]:
            raise TranslateError("macro %s has parameters %s" % (mname, params))
        body = macros[mname][1]
        if not re.search(r"T\s+operation\s*\(\s*const\s+T&\s+val\s*\)\s*const\s*\{\s*" + op_pat, body):
            raise TranslateError("macro %s: member `operation` no longer has the expected shape" % mname)
        if not re.search(r"Type\s+derivative\s*\(\s*const\s+Type&\s+val\s*,\s*const\s+Type&\s+result\s*\)\s*const\s*\{"
                         r"(\s*using\s+std::\w+\s*;)*\s*return\s+DERIVATIVE\s*;", body):
            raise TranslateError("macro %s: member `derivative(val, result)` no longer has the expected shape" % mname)
        usings = set(re.findall(r"using\s+std::(\w+)\s*;", body))
        if mname == "ADEPT_DEF_UNARY_FUNC" and usings != set(DERIV_CALLS):
            raise TranslateError("macro %s: functions in scope of derivative() are %s, expected %s"
                                 % (mname, sorted(usings), sorted(DERIV_CALLS)))
        if not re.search(r"Type\s+fast_sqr\s*\(\s*Type\s+val\s*\)\s*(const\s*)?\{\s*return\s+val\s*\*\s*val\s*;\s*\}", body):
            raise TranslateError("macro %s: fast_sqr(val) is no longer val*val" % mname)


def parse_table(repo):
    path = os.path.join(repo, HEADER)
    try:
        src = open(path).read()
    except OSError as e:
        raise TranslateError("cannot read %s: %s" % (path, e))
    text, macros = preprocess(src, HEADER)
    check_macro_shape(macros)
    entries, seen = [], set()
    for m in re.finditer(r"\b(ADEPT_DEF_UNARY_FUNC|ADEPT_DEF_UNARY_OP)\s*\(", text):
        kind = "func" if m.group(1).endswith("FUNC") else "op"
        close = match_close(text, m.end() - 1)
        args = split_top(text[m.end():close])
        if len(args) != 6:
            raise TranslateError("%s(...) with %d arguments: %r" % (m.group(1), len(args), text[m.start():close + 1]))
        name, func, raw, string, deriv, isvec = args
        where = "%s entry %s" % (HEADER, name)
        if not re.match(r"^[A-Z]\w*$", name) or name in seen:
            raise TranslateError("%s: bad or duplicate NAME" % where)
        seen.add(name)
        if kind == "func":
            base = raw.split("::")[-1]
            if base != func:
                raise TranslateError("%s: FUNC %r is not the function RAWFUNC %r names" % (where, func, raw))
            cfun = base
        else:
            if raw not in OPERATOR_CFUN or func != "operator" + raw:
                raise TranslateError("%s: unknown operator %r / %r" % (where, func, raw))
            cfun = OPERATOR_CFUN[raw]
        if cfun not in KNOWN_CFUN:
            raise TranslateError("%s: library function %r is unknown to the numeric class (AdeptModel/Num.lean CFun)" % (where, cfun))
        if isvec not in ("true", "false"):
            raise TranslateError("%s: ISVEC is %r" % (where, isvec))
        calls = {c: 1 for c in DERIV_CALLS}; calls["fast_sqr"] = 1
        ast = Parser(deriv, where, ("val", "result"), calls).parse()
        em = Emit(where)
        term = em.real(ast)
        entries.append({"name": name, "kind": kind, "func": func, "raw": raw, "cfun": cfun, "string": string.strip('"'),
                        "deriv_src": " ".join(deriv.split()), "term": term, "lits": em.lits, "isvec": isvec == "true"})
    if not entries:
        raise TranslateError("no ADEPT_DEF_UNARY_FUNC / ADEPT_DEF_UNARY_OP invocation found in %s" % HEADER)
    return entries


def render(entries):
    L = []
    w = L.append
    w("import AdeptModel.Num")
    w("/-!")
    w("GENERATED by translate/unary.py from include/adept/UnaryOperation.h — do not edit.")
    w("Configuration: " + ", ".join(sorted(DEFINED)) + " defined; ADEPT_FAST_EXPONENTIAL not defined.")
    w("One constructor per ADEPT_DEF_UNARY_FUNC / ADEPT_DEF_UNARY_OP invocation, in header order.")
    w("`fn` is the member `operation`, `dexpr val result` the member `derivative(val, result)` (shape preserved;")
    w("`fast_sqr(x)` expanded to `x*x`).  Literals carry the IEEE bit pattern (Float layer) and the exact decimal value")
    w("(proof layer); literals recognised as a mathematical constant (relative error < 1e-14 in 50-digit arithmetic):")
    for line in const_header_lines([l for e in entries for l in e["lits"]]):
        w(line)
    w("-/")
    w("set_option linter.unusedVariables false")
    w("namespace Adept")
    w("")
    w("inductive UFun")
    for e in entries:
        w("  | %s" % e["name"])
    w("deriving Repr, DecidableEq")
    w("")
    w("namespace UFun")
    w("")
    w("def all : List UFun := [" + ", ".join("." + e["name"] for e in entries) + "]")
    w("")
    w("/-- the C++ function / operator name the user writes -/")
    w("def name : UFun → String")
    for e in entries:
        w('  | .%s => "%s"' % (e["name"], e["func"]))
    w("")
    w("def isVec : UFun → Bool")
    for e in entries:
        w("  | .%s => %s" % (e["name"], "true" if e["isvec"] else "false"))
    w("")
    w("/-- the library function the policy's `operation` calls -/")
    w("def cfun : UFun → CFun")
    for e in entries:
        w("  | .%s => .%s" % (e["name"], e["cfun"]))
    w("")
    w("/-- member `operation(val)` -/")
    w("def fn {α : Type} [Num α] (f : UFun) (val : α) : α := Num.cfun f.cfun val")
    w("")
    w("/-- member `derivative(val, result)` -/")
    w("def dexpr {α : Type} [Num α] : UFun → α → α → α")
    for e in entries:
        w("  -- %s: %s" % (e["func"], e["deriv_src"]))
        w("  | .%s, val, result => %s" % (e["name"], e["term"]))
    w("")
    w("end UFun")
    w("end Adept")
    return "\n".join(L) + "\n"


def default_out():
    lean = os.environ.get("VERIF_LEAN", os.path.join(os.path.dirname(os.path.dirname(os.path.abspath(__file__))), "lean"))
    return os.path.join(lean, "AdeptModel", "Generated", "UnaryTable.lean")


def translate(repo=None):
    repo = repo or os.environ.get("VERIF_REPO", "/repo")
    return render(parse_table(repo))


def write(repo=None, out=None):
    text = translate(repo)
    out = out or default_out()
    old = open(out).read() if os.path.exists(out) else None
    if old != text:
        os.makedirs(os.path.dirname(out), exist_ok=True)
        tmp = out + ".tmp%d" % os.getpid()
        with open(tmp, "w") as f:
            f.write(text)
        os.replace(tmp, out)
    return out, old != text


def main(argv):
    repo = out = None; check = False
    i = 0
    while i < len(argv):
        if argv[i] == "--repo":
            repo = argv[i + 1]; i += 2
        elif argv[i] == "--out":
            out = argv[i + 1]; i += 2
        elif argv[i] == "--check":
            check = True; i += 1
        else:
            print(__doc__); return 2
    try:
        if check:
            text = translate(repo)
            cur = open(out or default_out()).read()
            print("identical" if cur == text else "DIFFERENT")
            return 0 if cur == text else 1
        p, ch = write(repo, out)
        print("%s %s" % (p, "rewritten" if ch else "unchanged"))
        return 0
    except TranslateError as e:
        print("TRANSLATE ERROR: %s" % e, file=sys.stderr)
        return 3


if __name__ == "__main__":
    sys.exit(main(sys.argv[1:]))
