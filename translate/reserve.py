#!/usr/bin/env python3
"""Translator: every check_space(...) / check_space_static<...>() reservation in include/adept -> Lean definitions.

Output: lean/AdeptModel/Generated/ReserveSites.lean (regenerated on every run by checks/c09.py; the proofs in
AdeptProofs/Props/C09.lean are re-checked against what the source says now).  Each site becomes
    def <File>_<ordinal> (nActive size n dim0 strips extra finish : Nat) : Nat := <reservation expression>
(finish = 2 for reductions with a finishing step (mean, norm2), 1 otherwise)
Fails loudly (exit 2) if an argument uses a token it does not know.
"""
import os, re, sys, glob

REPO = os.environ.get("VERIF_REPO", "/repo")
HERE = os.path.dirname(os.path.dirname(os.path.abspath(__file__)))
OUT = os.path.join(os.environ.get("VERIF_LEAN", os.path.join(HERE, "lean")), "AdeptModel", "Generated", "ReserveSites.lean")

TOK = [
    (r"(?:internal::)?expr_cast<\w+>::n_active", "nActive"),
    (r"\b[A-Z]\w*::n_active", "nActive"),
    (r"\(\s*Func::finish_needed\s*\?\s*2\s*:\s*1\s*\)", "finish"),
    (r"Func::extra_element_cost", "extra"),
    (r"dimensions_\.size\(\)", "size"),
    (r"new_dims\.size\(\)", "strips"),
    (r"dimensions_\[0\]", "dim0"),
    (r"\bsize\(\)", "size"),
    (r"\blength_\b", "size"),
    (r"\bn\b", "n"),
    (r"\bnew_dim\b", "n"),
    (r"\d+", None),
    (r"[()*+\-]", None),
    (r"\s+", ""),
]


def convert(arg):
    out, pos = [], 0
    while pos < len(arg):
        for pat, rep in TOK:
            m = re.compile(pat).match(arg, pos)
            if m:
                out.append(m.group(0) if rep is None else rep)
                pos = m.end()
                break
        else:
            raise ValueError("unknown token at %r in reservation %r" % (arg[pos:pos + 20], arg))
    return " ".join(t for t in out if t)


def balanced(s, i):
    depth, j = 0, i
    while j < len(s):
        if s[j] == "(":
            depth += 1
        elif s[j] == ")":
            depth -= 1
            if depth == 0:
                return j
        j += 1
    raise ValueError("unbalanced")


def sites():
    res = []
    for f in sorted(glob.glob(os.path.join(REPO, "include", "adept", "*.h"))):
        base = os.path.basename(f)
        if base.startswith("StackStorage"):
            continue
        txt = open(f).read()
        txt_nc = re.sub(r"//[^\n]*", lambda m: " " * len(m.group(0)), txt)
        k = 0
        for m in re.finditer(r"check_space(_static)?\s*(<|\()", txt_nc):
            if m.group(1):
                j = txt_nc.index(">", m.end())
                arg = txt_nc[m.end():j]
            else:
                j = balanced(txt_nc, m.end() - 1)
                arg = txt_nc[m.end():j]
            # skip the declarations/definitions themselves
            if re.match(r"\s*uIndex\b", arg) or arg.strip() == "":
                continue
            name = "%s_%d" % (re.sub(r"\W", "", base[:-2]), k)
            res.append((name, base, " ".join(arg.split()), convert(arg.strip())))
            k += 1
    return res


# ---------------------------------------------------------------------------------------------------------------
# Census of RECORDING CALLS: every place in include/adept/*.h (outside the buffer class itself) that makes the stack push
# operations — a call of Expression::next_value_and_gradient* / scalar_value_and_gradient (which push E::n_active
# operations), Stack::push_rhs / push_rhs_indices, or Stack::push_derivative_dependence (which reserves for itself).  For
# each call the enclosing function is located and the call is classified:
#   reserved   a check_space / check_space_static call precedes it in the same function body,
#   self       push_derivative_dependence (contains its own check_space(n): site Stack_2),
#   leaf       the enclosing function is itself only ever called from inside a reserved statement: the calc_gradient_ /
#              calc_left_ / calc_right_ / push_rhs members of expression nodes and engines (their pushes are the
#              E::n_active operations the statement reserved), the forwarding members of Expression.h, and the
#              accumulate_active members of the reduction functors (reduce_active / reduce_dimension reserve for them),
#   UNRESERVED anything else — a recording site that pushes without any reservation (finding F-69 was one).
# The table is emitted as `recordingCalls`; `C09_every_recording_call_reserved` proves (by `decide` over the WHOLE
# regenerated table) that no entry is UNRESERVED.
REC_CALL = re.compile(r"\b(next_value_and_gradient(?:_contiguous|_special2|_special)?|scalar_value_and_gradient|"
                      r"push_rhs_indices|push_rhs|push_derivative_dependence)\s*(?:<[^;(){}]*>)?\s*\(")
LEAF_FUNCS = {"calc_gradient", "calc_gradient_", "calc_gradient_packet_", "calc_left_", "calc_right_", "calc_left", "calc_right", "push_rhs",
              "accumulate_active", "next_value_and_gradient", "next_value_and_gradient_contiguous",
              "next_value_and_gradient_special", "next_value_and_gradient_special2", "scalar_value_and_gradient",
              "push_derivative_dependence", "my_calc_gradient_"}
CTRL = {"for", "if", "while", "switch", "else", "do", "catch", "try"}


def strip_comments(txt):
    txt = re.sub(r"/\*.*?\*/", lambda m: re.sub(r"[^\n]", " ", m.group(0)), txt, flags=re.S)
    return re.sub(r"//[^\n]*", lambda m: " " * len(m.group(0)), txt)


def function_blocks(txt):
    """(open, close, name) of every brace block that is a function body"""
    out, stack = [], []
    for i, ch in enumerate(txt):
        if ch == "{":
            # text between the previous ; { } and this brace
            j = i - 1
            depth = 0
            while j >= 0:
                c = txt[j]
                if c == ")":
                    depth += 1
                elif c == "(":
                    depth -= 1
                elif depth == 0 and c in ";{}":
                    break
                j -= 1
            head = txt[j + 1:i]
            name = None
            hs = head.strip()
            # a function header ends with ')' (+ const / noexcept / initialiser list) and does not start with a control keyword
            m = re.match(r"(?s)(.*?)\)\s*(?:const\b)?\s*(?:noexcept\b)?\s*(?::[^{};]*)?$", hs)
            first = re.match(r"\s*(\w+)", hs)
            if m and hs and not (first and first.group(1) in CTRL) and not hs.startswith("#"):
                # name = identifier before the parameter list's opening parenthesis
                k, d = len(m.group(1)), 0
                t = m.group(1) + ")"
                k = len(t) - 1
                while k >= 0:
                    if t[k] == ")":
                        d += 1
                    elif t[k] == "(":
                        d -= 1
                        if d == 0:
                            break
                    k -= 1
                mm = re.search(r"([A-Za-z_]\w*(?:\s*<[^()]*>)?|operator\s*\S+?)\s*$", t[:k])
                if mm and mm.group(1).split("<")[0].strip() not in CTRL:
                    name = re.sub(r"\s+", "", mm.group(1).split("<")[0]) if not mm.group(1).startswith("operator") else re.sub(r"\s+", "", mm.group(1))
            stack.append((i, name))
        elif ch == "}":
            if stack:
                o, name = stack.pop()
                if name:
                    out.append((o, i, name))
    return out


def recording_calls():
    res = []
    for f in sorted(glob.glob(os.path.join(REPO, "include", "adept", "*.h"))):
        base = os.path.basename(f)
        if base.startswith("StackStorage"):
            continue
        txt = strip_comments(open(f).read())
        blocks = function_blocks(txt)
        for m in REC_CALL.finditer(txt):
            # skip definitions / declarations: after the balanced argument list comes `{`, `const {` or the call is preceded by a type
            try:
                j = balanced(txt, m.end() - 1)
            except ValueError:
                continue
            after = txt[j + 1:j + 40].lstrip()
            if after.startswith("{") or re.match(r"const\s*\{", after) or re.match(r"const\s*;", after):
                continue
            before = txt[max(0, m.start() - 60):m.start()]
            if re.search(r"(\bvoid|\bType|\bT|>|\busing\s+[\w:<>, ]+::)\s*$", before) and not re.search(r"(\.|->|::template\s|template\s)\s*$", before):
                if not re.search(r"[=(,]\s*$", before):
                    continue
            enc = [b for b in blocks if b[0] < m.start() < b[1]]
            if not enc:
                continue
            o, c, fname = max(enc, key=lambda b: b[0])
            line = txt.count("\n", 0, m.start()) + 1
            body_before = txt[o:m.start()]
            callee = m.group(1)
            if callee == "push_derivative_dependence":
                kind = "self"
            elif re.search(r"check_space(_static)?\s*(<|\()", body_before):
                kind = "reserved"
            elif fname in LEAF_FUNCS:
                kind = "leaf"
            else:
                kind = "UNRESERVED"
            res.append((base, fname, callee, line, kind))
    return res


# ---------------------------------------------------------------------------------------------------------------
# Census of the node TRAITS.  Every reservation `check_space(E::n_active * size)` derives from the compile-time trait
# `n_active` of the expression type; the scratch slots and location slots a node hands to its operands derive from `n_scratch`
# and `n_arrays`.  An inner node must define each trait as the sum over its operand TYPES (+ its local constant).  For every
# class that defines `static const int n_active = …` the type names T appearing as `T::n_active` (or `expr_cast<T>::n_active`),
# `T::n_arrays` and `T::n_scratch` in the three definitions are collected and the class is classified:
#   leaf            no operand type in any trait (arrays, scalars, indices)
#   sumConsistent   the operand types of n_active are exactly (as a multiset) those of n_arrays, and those of n_scratch are among them
#   boolInactive    n_active is the literal 0 although n_arrays names operand types: the bool-valued nodes (comparisons, logical
#                   operations), which never carry derivatives
#   BROKEN          anything else (OuterProduct::n_active = LArray::n_active + LArray::n_active was a seeded regression: nothing
#                   is reserved for the right operand's operations)
TRAIT_DEF = re.compile(r"static\s+const\s+int\s+(n_active|n_arrays|n_scratch)\s*=\s*([^;]*);")


def trait_nodes():
    res = []
    for f in sorted(glob.glob(os.path.join(REPO, "include", "adept", "*.h"))):
        base = os.path.basename(f)
        txt = strip_comments(open(f).read())
        defs = [(m.start(), m.group(1), " ".join(m.group(2).split())) for m in TRAIT_DEF.finditer(txt)]
        # group the three definitions of one class: consecutive definitions no more than 30 lines apart, one n_active per group
        groups, cur = [], []
        for d in defs:
            if cur and (txt.count("\n", cur[-1][0], d[0]) > 30 or d[1] in [x[1] for x in cur]):
                groups.append(cur); cur = []
            cur.append(d)
        if cur:
            groups.append(cur)
        for g in groups:
            tr = {k: e for _, k, e in g}
            if "n_active" not in tr:
                continue
            types = {}
            for k in ("n_active", "n_arrays", "n_scratch"):
                e = tr.get(k, "")
                types[k] = sorted(re.findall(r"(?:expr_cast<\s*)?([A-Za-z_]\w*)\s*>?\s*::\s*%s\b" % k, e))
            if not types["n_active"] and not types["n_arrays"] and not types["n_scratch"]:
                kind = "leaf"
            elif types["n_active"] and types["n_active"] == types["n_arrays"] and set(types["n_scratch"]) <= set(types["n_active"]):
                kind = "sumConsistent"
            elif not types["n_active"] and tr["n_active"].strip() == "0" and types["n_arrays"]:
                kind = "boolInactive"
            else:
                kind = "BROKEN"
            line = txt.count("\n", 0, g[0][0]) + 1
            res.append((base, line, types["n_active"], types["n_arrays"], types["n_scratch"], kind, tr.get("n_active", "")))
    return res


def main():
    try:
        ss = sites()
    except Exception as e:
        print("translate/reserve.py: cannot translate: %s" % e, file=sys.stderr)
        return 2
    lines = ["/- GENERATED by translate/reserve.py from include/adept/*.h — do not edit. -/",
             "set_option linter.unusedVariables false", "namespace Adept.RecBuf.Sites", ""]
    for name, base, arg, lean in ss:
        lines.append("/-- %s: `check_space(%s)` -/" % (base, arg.replace("/-", "/ -")))
        lines.append("def %s (nActive size n dim0 strips extra finish : Nat) : Nat := %s" % (name, lean))
        lines.append("")
    lines.append("/-- all reservation sites: (name, file, C++ argument) -/")
    lines.append("def all : List (String × String × String) := [")
    lines.append(",\n".join('  ("%s", "%s", "%s")' % (n, b, a.replace('"', "'")) for n, b, a, _ in ss))
    lines.append("]")
    lines.append("")
    rc = recording_calls()
    lines.append("/-- census of recording calls: (file, enclosing function, callee, classification); see translate/reserve.py -/")
    lines.append("inductive RecKind | reserved | self | leaf | unreserved deriving DecidableEq, Repr")
    lines.append("def recordingCalls : List (String × String × String × RecKind) := [")
    lines.append(",\n".join('  ("%s", "%s", "%s", .%s)' % (b, fn, cal, kind.lower()) for b, fn, cal, ln, kind in rc))
    lines.append("]")
    lines.append("")
    tn = trait_nodes()
    lst = lambda xs: "[" + ", ".join('"%s"' % x for x in xs) + "]"
    lines.append("inductive TraitKind | leaf | sumConsistent | boolInactive | broken deriving DecidableEq, Repr")
    lines.append("/-- census of the node traits: (file, operand types of n_active, of n_arrays, of n_scratch, classification); see translate/reserve.py -/")
    lines.append("def traitNodes : List (String × List String × List String × List String × TraitKind) := [")
    lines.append(",\n".join('  ("%s", %s, %s, %s, .%s)' % (b, lst(a), lst(r), lst(sc), "broken" if k == "BROKEN" else k)
                             for b, ln, a, r, sc, k, e in tn))
    lines.append("]")
    lines.append("")
    lines.append("end Adept.RecBuf.Sites")
    os.makedirs(os.path.dirname(OUT), exist_ok=True)
    new = "\n".join(lines) + "\n"
    old = open(OUT).read() if os.path.exists(OUT) else None
    if old != new:
        open(OUT, "w").write(new)
    print("reserve sites: %d, recording calls: %d (%s)%s" % (len(ss), len(rc), ", ".join(
        "%s %d" % (k, sum(1 for x in rc if x[4] == k)) for k in ("reserved", "self", "leaf", "UNRESERVED")),
        "" if old == new else " (regenerated, changed)"))
    print("trait nodes: %d (%s)" % (len(tn), ", ".join("%s %d" % (k, sum(1 for x in tn if x[5] == k)) for k in ("leaf", "sumConsistent", "boolInactive", "BROKEN"))))
    for b, ln, a, r, sc, k, e in tn:
        if k == "BROKEN":
            print("  BROKEN traits: %s:%d n_active = %s (operand types %s, n_arrays names %s)" % (b, ln, e, a, r))
    for b, fn, cal, ln, kind in rc:
        if kind == "UNRESERVED":
            print("  UNRESERVED recording call: %s:%d %s() calls %s" % (b, ln, fn, cal))
    return 0


if __name__ == "__main__":
    sys.exit(main())
