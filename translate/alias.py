#!/usr/bin/env python3
"""Translator: census of the alias test of every expression node class in include/adept/*.h.

An assignment `lhs = rhs` asks `rhs.is_aliased(mem1, mem2)` whether anything on the right overlaps the memory range of the
target; every expression node answers through its own `is_aliased_`, which must consult EVERY operand it holds, with the
range handed down unchanged and in the same order.  (AdeptModel/Assign.lean models this as one recursion over the expression
tree: `C04_alias_conservative` is about that recursion; this census is what ties the recursion to the classes as written.)

For every definition `bool is_aliased_(const T* mem1, const T* mem2) const` the enclosing class body is located, and
  * the operands the class holds are taken from its sibling `expression_string_` (which prints every operand: the members
    `m` in calls `m.expression_string()` / `(&m)->expression_string()`),
  * the operands the alias test consults are the members `m` in calls `m.is_aliased(a, b)` / `m.is_aliased_(a, b)`,
  * the class is classified:
      forwardsAll     consults exactly the operands of expression_string_, each with (mem1, mem2) in that order
      leafRange       an array-like leaf: compares its own data_range with [mem1, mem2]
      leafAddress     a scalar reference leaf: compares the address of its value with [mem1, mem2]
      leafNever       a leaf that owns no array memory (passive scalar, active scalar, `end`, range indices): false
      noaliasPromise  noalias(): false by the user's promise (include/adept/noalias.h)
      indexedParent   IndexedArray: consults the indexed array only; its integer index vectors are not alias-tested (documented
                      assumption of C04: index vectors do not overlap the array they index)
      boolNode        comparison / logical nodes: their element type differs from the target's, is_aliased of the Expression
                      base answers false for them (open findings F-25 / F-38 are about exactly this boundary)
      BROKEN          anything else: an operand that is not consulted, a swapped or altered range
Output: lean/AdeptModel/Generated/AliasNodes.lean — table `aliasNodes` + the enumeration `AliasKind`; theorem
`C04_every_node_alias_test_forwards` (AdeptProofs/Props/C04.lean) proves by `decide` over the WHOLE regenerated table that no
entry is BROKEN.  Exit 2 if nothing could be parsed.
"""
import glob, os, re, sys

REPO = os.environ.get("VERIF_REPO", "/repo")
HERE = os.path.dirname(os.path.dirname(os.path.abspath(__file__)))
OUT = os.path.join(os.environ.get("VERIF_LEAN", os.path.join(HERE, "lean")), "AdeptModel", "Generated", "AliasNodes.lean")


def strip_comments(txt):
    txt = re.sub(r"/\*.*?\*/", lambda m: re.sub(r"[^\n]", " ", m.group(0)), txt, flags=re.S)
    return re.sub(r"//[^\n]*", lambda m: " " * len(m.group(0)), txt)


def match_brace(txt, i):
    depth = 0
    for j in range(i, len(txt)):
        if txt[j] == "{":
            depth += 1
        elif txt[j] == "}":
            depth -= 1
            if depth == 0:
                return j
    raise ValueError("unbalanced braces")


def class_blocks(txt):
    """(open, close, name) of every class / struct body"""
    out = []
    for m in re.finditer(r"\b(?:class|struct)\s+([A-Za-z_]\w*)\s*(?:<[^;{]*>)?\s*(?::[^;{]*)?\{", txt):
        o = m.end() - 1
        try:
            out.append((o, match_brace(txt, o), m.group(1)))
        except ValueError:
            pass
    return out


def nodes():
    res = []
    for f in sorted(glob.glob(os.path.join(REPO, "include", "adept", "*.h"))):
        base = os.path.basename(f)
        txt = strip_comments(open(f).read())
        blocks = class_blocks(txt)
        for m in re.finditer(r"\bbool\s+is_aliased_\s*\(\s*const\s+(\w+)\s*\*\s*(\w+)\s*,\s*const\s+\w+\s*\*\s*(\w+)\s*\)\s*const\s*\{", txt):
            o = m.end() - 1
            c = match_brace(txt, o)
            body = txt[o:c + 1]
            etype, a1, a2 = m.group(1), m.group(2), m.group(3)
            enc = [b for b in blocks if b[0] < m.start() < b[1]]
            if not enc:
                continue
            bo, bc, cname = max(enc, key=lambda b: b[0])
            # the class body without nested class bodies (their members are not this class's)
            cbody = txt[bo:bc]
            for nb in blocks:
                if bo < nb[0] and nb[1] < bc:
                    cbody = cbody.replace(txt[nb[0]:nb[1] + 1], " " * (nb[1] + 1 - nb[0]))
            gd = re.search(r"\bstd::string\s+expression_string_\s*\(\s*\)\s*const\s*\{", cbody)
            operands = []
            if gd:
                go = gd.end() - 1
                gbody = cbody[go:match_brace(cbody, go) + 1]
                for mm in re.finditer(r"(?:\b([A-Za-z_]\w*)\s*\.|&\s*([A-Za-z_]\w*)\s*\)\s*->)\s*expression_string_?\s*\(", gbody):
                    nm = mm.group(1) or mm.group(2)
                    if nm not in operands:
                        operands.append(nm)
            consulted, inorder = [], True
            for mm in re.finditer(r"\b([A-Za-z_]\w*)\s*\.\s*is_aliased_?\s*\(\s*([^,()]+?)\s*,\s*([^,()]+?)\s*\)", body):
                if mm.group(1) not in consulted:
                    consulted.append(mm.group(1))
                if (mm.group(2), mm.group(3)) != (a1, a2):
                    inorder = False
            flat = " ".join(body.split())
            if consulted:
                if base == "IndexedArray.h" and consulted == ["a_"] and inorder:
                    kind = "indexedParent"
                elif set(consulted) == set(operands) and inorder:
                    kind = "forwardsAll"
                else:
                    kind = "BROKEN"
            elif "data_range" in body and re.search(r"<=\s*%s\b" % a2, body) and re.search(r">=\s*%s\b" % a1, body):
                kind = "leafRange"
            elif re.search(r"&\s*val_\s*>=\s*%s\s*&&\s*&\s*val_\s*<=\s*%s" % (a1, a2), flat):
                kind = "leafAddress"
            elif re.fullmatch(r"\{\s*return false;\s*\}", flat):
                if base == "noalias.h":
                    kind = "noaliasPromise"
                elif etype == "bool" and operands:
                    kind = "boolNode"
                elif not operands:
                    kind = "leafNever"
                else:
                    kind = "BROKEN"
            else:
                kind = "BROKEN"
            line = txt.count("\n", 0, m.start()) + 1
            res.append((base, cname, operands, consulted, kind, line))
    return res


def main():
    try:
        ns = nodes()
    except Exception as e:
        print("translate/alias.py: cannot translate: %s" % e, file=sys.stderr)
        return 2
    if not ns:
        print("translate/alias.py: no is_aliased_ definition found", file=sys.stderr)
        return 2
    L = ["/- GENERATED by translate/alias.py from include/adept/*.h — do not edit. -/", "namespace Adept.Assign.AliasCensus", "",
         "inductive AliasKind | forwardsAll | leafRange | leafAddress | leafNever | noaliasPromise | indexedParent | boolNode | broken",
         "deriving DecidableEq, Repr", "",
         "/-- (file, class, operands printed by expression_string_, operands consulted by is_aliased_, classification) -/",
         "def aliasNodes : List (String × String × List String × List String × AliasKind) := ["]
    lst = lambda xs: "[" + ", ".join('"%s"' % x for x in xs) + "]"
    L.append(",\n".join('  ("%s", "%s", %s, %s, .%s)' % (b, c, lst(ops), lst(cons), "broken" if k == "BROKEN" else k)
                        for b, c, ops, cons, k, ln in ns))
    L += ["]", "", "end Adept.Assign.AliasCensus", ""]
    new = "\n".join(L)
    os.makedirs(os.path.dirname(OUT), exist_ok=True)
    old = open(OUT).read() if os.path.exists(OUT) else None
    if old != new:
        tmp = OUT + ".tmp%d" % os.getpid()
        open(tmp, "w").write(new)
        os.replace(tmp, OUT)
    kinds = {}
    for n in ns:
        kinds[n[4]] = kinds.get(n[4], 0) + 1
    print("alias nodes: %d (%s)%s" % (len(ns), ", ".join("%s %d" % kv for kv in sorted(kinds.items())), "" if old == new else " (regenerated, changed)"))
    for b, c, ops, cons, k, ln in ns:
        if k == "BROKEN":
            print("  BROKEN alias test: %s:%d class %s holds %s, consults %s" % (b, ln, c, ops, cons))
    return 0


if __name__ == "__main__":
    sys.exit(main())
