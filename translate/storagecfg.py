#!/usr/bin/env python3
"""Translator: include/adept/Storage.h  ->  lean/AdeptModel/Generated/StorageCfg.lean   (C14, C12)

Storage.h of the working tree (env VERIF_REPO, default /repo) is run through the real preprocessor (`g++ -E -P`) in three
configurations (and, for the census of configuration macros, once per macro WITHOUT and once WITH -fopenmp, i.e. _OPENMP)

    thread-safe : -std=c++11 -DADEPT_STORAGE_THREAD_SAFE
    default     : -std=c++11
    c++98       : -std=c++98

and the following facts are read off the preprocessed text of `class Storage` and `namespace adept::internal`:

  * the declared type of the member `n_links_` (thread-safe / default) and whether it is a std::atomic;
  * the shape of `remove_link()`: is the decrement ONE read-modify-write expression whose result is what the `if`
    tests (`if (--n_links_ == 0)`, `if (!--n_links_)`, `if (n_links_.fetch_sub(1) == 1)`), or is the decrement a
    statement of its own followed by a separate load (`--n_links_; if (n_links_ == 0)`); whether the function starts
    with a separate `n_links_ == 0` load (the "removed more links than set" test); that it ends in `delete this`;
  * the shape of `add_link()` (`n_links_++` / `++n_links_` / `fetch_add`: one read-modify-write);
  * the declared type of the global counters `n_storage_objects_created_` / `n_storage_objects_deleted_`
    (typedefs/using-aliases of namespace adept are resolved) in the default C++11 and in the C++98 configuration, whether
    that type is a std::atomic, and that the constructor / destructor update them by one read-modify-write (`x++`, `++x`,
    `fetch_add`), and that `n_storage_objects*()` only read them.

The C14/C12 models (AdeptModel/Threads.lean) are instantiated with these flags; the proofs are re-checked against the
regenerated file.  Anything the parser does not recognise raises TranslateError: nothing is written and the check reports
a broken obligation.  The output is a pure function of the header text.

usage: storagecfg.py [--out FILE] [--check]
"""
import os, re, subprocess, sys

HERE = os.path.dirname(os.path.abspath(__file__))
sys.path.insert(0, os.path.join(os.path.dirname(HERE), "lib"))
import vbuild


class TranslateError(Exception):
    pass


def default_out():
    lean = os.environ.get("VERIF_LEAN", os.path.join(vbuild.VERIF, "lean"))
    return os.path.join(lean, "AdeptModel", "Generated", "StorageCfg.lean")


def preprocess(std, defines, openmp=False):
    """openmp=True adds -fopenmp, i.e. the predefined macro _OPENMP (a library user compiling for OpenMP threads)"""
    hdr = os.path.join(vbuild.REPO, "include", "adept", "Storage.h")
    if not os.path.exists(hdr):
        raise TranslateError("no such file: " + hdr)
    cmd = ["g++", "-E", "-P", "-std=" + std, "-I" + os.path.join(vbuild.REPO, "include")] + ["-D" + d for d in defines] + (["-fopenmp"] if openmp else []) + ["-x", "c++", hdr]
    p = subprocess.run(cmd, stdout=subprocess.PIPE, stderr=subprocess.PIPE, text=True)
    if p.returncode != 0:
        raise TranslateError("preprocessing Storage.h (%s %s) failed: %s" % (std, defines, p.stderr[-1500:]))
    return p.stdout


def match_close(s, i):
    assert s[i] == "{"
    d = 0
    for k in range(i, len(s)):
        if s[k] == "{":
            d += 1
        elif s[k] == "}":
            d -= 1
            if d == 0:
                return k
    raise TranslateError("unbalanced braces")


def norm(t):
    t = re.sub(r"\s+", " ", t).strip()
    t = re.sub(r"\s*([<>,:*&])\s*", r"\1", t)
    return t


def class_body(text):
    ms = list(re.finditer(r"template\s*<\s*typename\s+\w+\s*>\s*class\s+Storage\s*\{", text))
    if len(ms) != 1:
        raise TranslateError("expected exactly one definition of `template <typename T> class Storage`, found %d" % len(ms))
    i = ms[0].end() - 1
    return text[i + 1:match_close(text, i)]


def member_statements(body):
    """text of the class body at brace depth 0, split at ';' (function bodies are skipped)"""
    out, cur, d = [], "", 0
    for ch in body:
        if ch == "{":
            d += 1
            if d == 1:
                cur += " {} "
            continue
        if ch == "}":
            d -= 1
            if d == 0:
                out.append(cur); cur = ""      # end of an inline function definition
            continue
        if d == 0:
            if ch == ";":
                out.append(cur); cur = ""
            else:
                cur += ch
    return [re.sub(r"\b(public|private|protected)\s*:", " ", s).strip() for s in out if s.strip()]


def member_type(body, name):
    hits = []
    for st in member_statements(body):
        m = re.fullmatch(r"(.+?)\b%s" % re.escape(name), st, flags=re.S)
        if m and "(" not in st and "{}" not in st:
            hits.append(norm(m.group(1)))
    if len(hits) != 1:
        raise TranslateError("expected exactly one declaration of member %s, found %r" % (name, hits))
    return hits[0]


def function_body(body, signature_re, what):
    ms = list(re.finditer(signature_re + r"\s*(?:const\s*)?\{", body))
    if len(ms) != 1:
        raise TranslateError("expected exactly one definition of %s, found %d" % (what, len(ms)))
    i = ms[0].end() - 1
    return body[i + 1:match_close(body, i)]


def is_atomic_type(t):
    return re.match(r"^(std::)?atomic<.+>$", t) is not None or re.match(r"^(std::)?atomic_(int|long|uint|ulong)$", t) is not None


DEC_TESTED = [r"--\s*n_links_\s*==\s*0", r"0\s*==\s*--\s*n_links_", r"!\s*--\s*n_links_",
              r"n_links_\s*\.\s*fetch_sub\s*\(\s*1\s*(?:,[^()]*)?\)\s*==\s*1", r"\(\s*n_links_\s*-=\s*1\s*\)\s*==\s*0"]
DEC_ANY = r"--\s*n_links_|n_links_\s*--|n_links_\s*-=|n_links_\s*\.\s*fetch_sub|n_links_\s*=\s*n_links_\s*-|n_links_\s*\.\s*store|n_links_\s*="


def remove_link_shape(body):
    f = function_body(body, r"void\s+remove_link\s*\(\s*\)", "remove_link()")
    if not re.search(r"\bdelete\s+this\b", f):
        raise TranslateError("remove_link() no longer contains `delete this`")
    # strip the comparison operators before counting writes so that `n_links_ == 0` is not taken for an assignment
    g = re.sub(r"==|!=|<=|>=", " CMP ", f)
    writes = re.findall(DEC_ANY, g)
    if len(writes) != 1:
        raise TranslateError("remove_link(): expected exactly one update of n_links_, found %d (%r)" % (len(writes), writes))
    tested = False
    for pat in DEC_TESTED:
        m = re.search(r"\bif\s*\(\s*" + pat + r"\s*\)\s*\{?\s*delete\s+this", f)
        if m:
            tested = True
    if not tested:
        # must then be the split form: the update is a statement of its own and a later `if (n_links_ == 0)` (or `!n_links_`,
        # or `n_links_ <= 0`) guards `delete this`
        stmt = re.search(r"(?:^|[;{}])\s*(?:--\s*n_links_|n_links_\s*--|n_links_\s*-=\s*1|n_links_\s*\.\s*fetch_sub\s*\([^()]*\)|n_links_\s*=\s*n_links_\s*-\s*1)\s*;", f)
        guard = re.search(r"\bif\s*\(\s*(?:n_links_\s*(?:==|<=)\s*0|0\s*==\s*n_links_|!\s*n_links_|n_links_\s*\.\s*load\s*\(\s*\)\s*==\s*0)\s*\)\s*\{?\s*delete\s+this", f)
        if not (stmt and guard):
            raise TranslateError("remove_link(): neither `if (--n_links_ == 0) delete this` nor a decrement statement followed by "
                                 "`if (n_links_ == 0) delete this` was recognised:\n" + f.strip()[:600])
    # a separate leading load `if (n_links_ == 0) throw ...`
    leading = re.search(r"\bif\s*\(\s*n_links_\s*==\s*0\s*\)\s*\{?\s*throw\b", f) is not None
    return tested, leading


def add_link_shape(body):
    f = function_body(body, r"void\s+add_link\s*\(\s*\)", "add_link()")
    g = re.sub(r"==|!=|<=|>=", " CMP ", f)
    if re.fullmatch(r"\s*(?:n_links_\s*\+\+|\+\+\s*n_links_|n_links_\s*\+=\s*1|n_links_\s*\.\s*fetch_add\s*\(\s*1\s*(?:,[^()]*)?\))\s*;\s*", g):
        return True
    if re.fullmatch(r"\s*n_links_\s*=\s*n_links_\s*\+\s*1\s*;\s*", g) or re.fullmatch(r"\s*n_links_\s*\.\s*store\s*\(.*\)\s*;\s*", g, flags=re.S):
        return False
    raise TranslateError("add_link(): body not recognised: " + f.strip()[:300])


def resolve_alias(text, t, depth=0):
    """resolve typedef / using aliases declared in the preprocessed text (last declaration wins)"""
    if depth > 4:
        return t
    base = t
    m = None
    for m_ in re.finditer(r"\btypedef\s+([^;{}]+?)\s+%s\s*;" % re.escape(base), text):
        m = m_
    if m is None:
        for m_ in re.finditer(r"\busing\s+%s\s*=\s*([^;{}]+?)\s*;" % re.escape(base), text):
            m = m_
    if m is None or base in ("Index", "int", "long"):
        return t
    return resolve_alias(text, norm(m.group(1)), depth + 1)


def counter_types(text):
    out = []
    for name in ("n_storage_objects_created_", "n_storage_objects_deleted_"):
        ms = re.findall(r"\bextern\s+([^;{}()]+?)\s+%s\s*;" % name, text)
        if len(ms) != 1:
            raise TranslateError("expected exactly one `extern <type> %s;`, found %d" % (name, len(ms)))
        out.append(resolve_alias(text, norm(ms[0])))
    if out[0] != out[1]:
        raise TranslateError("the two storage counters have different types: %r" % (out,))
    return out[0]


def counter_updates(text, body):
    """constructor/destructor update the counters by one read-modify-write; accessors only read"""
    single = True
    for name in ("n_storage_objects_created_", "n_storage_objects_deleted_"):
        q = r"(?:internal\s*::\s*)?" + name
        uses = [m for m in re.finditer(q, body)]
        if len(uses) != 1:
            raise TranslateError("expected exactly one use of %s inside class Storage, found %d" % (name, len(uses)))
        ok = re.search(r"(?:%s\s*\+\+|\+\+\s*%s|%s\s*\+=\s*1|%s\s*\.\s*fetch_add\s*\(\s*1\s*(?:,[^()]*)?\))\s*;" % (q, q, q, q), body)
        if not ok:
            if re.search(r"%s\s*=\s*%s\s*\+\s*1\s*;" % (q, q), body) or re.search(r"%s\s*\.\s*store\s*\(" % q, body):
                single = False
            else:
                raise TranslateError("update of %s inside class Storage not recognised" % name)
    # outside the class: the three accessors must not write
    tail = text[text.index(body) + len(body):]
    g = re.sub(r"==|!=|<=|>=", " CMP ", tail)
    if re.search(r"n_storage_objects_(?:created|deleted)_\s*(?:=|\+\+|--|\+=|-=|\.\s*(?:store|fetch_|exchange))", g) or \
       re.search(r"(?:\+\+|--)\s*(?:internal\s*::\s*)?n_storage_objects_(?:created|deleted)_", g):
        raise TranslateError("the storage counters are written outside the Storage constructor/destructor in Storage.h")
    return single


def facts():
    ts = preprocess("c++11", ["ADEPT_STORAGE_THREAD_SAFE"])
    df = preprocess("c++11", [])
    c98 = preprocess("c++98", [])
    bts, bdf = class_body(ts), class_body(df)
    t_ts, t_df = member_type(bts, "n_links_"), member_type(bdf, "n_links_")
    tested_ts, lead_ts = remove_link_shape(bts)
    tested_df, lead_df = remove_link_shape(bdf)
    if (tested_ts, lead_ts) != (tested_df, lead_df):
        raise TranslateError("remove_link() has different shapes with and without ADEPT_STORAGE_THREAD_SAFE")
    add_ts, add_df = add_link_shape(bts), add_link_shape(bdf)
    if add_ts != add_df:
        raise TranslateError("add_link() has different shapes with and without ADEPT_STORAGE_THREAD_SAFE")
    c_ts, c_df, c_98 = counter_types(ts), counter_types(df), counter_types(c98)
    upd = counter_updates(df, bdf) and counter_updates(ts, bts)
    return [
        ("nLinksTypeThreadSafe", t_ts), ("nLinksTypeDefault", t_df),
        ("nLinksAtomicThreadSafe", is_atomic_type(t_ts)), ("nLinksAtomicDefault", is_atomic_type(t_df)),
        ("removeLinkRmwResultTested", tested_ts), ("removeLinkLeadingLoad", lead_ts), ("addLinkSingleRmw", add_ts),
        ("counterTypeThreadSafe", c_ts), ("counterTypeDefault", c_df), ("counterTypeCxx98", c_98),
        ("countersAtomicThreadSafe", is_atomic_type(c_ts)), ("countersAtomicDefault", is_atomic_type(c_df)),
        ("countersAtomicCxx98", is_atomic_type(c_98)), ("counterUpdateSingleRmw", upd),
    ]


def config_macros():
    """every ADEPT_* macro some header of include/adept tests in an #if/#ifdef/#ifndef/#elif, except include guards
    (`#ifndef X` immediately followed by `#define X`) and ADEPT_STORAGE_THREAD_SAFE itself: the user-visible configuration
    switches, as the source spells them (no list kept here)"""
    import glob
    tested, guards = set(), set()
    for f in sorted(glob.glob(os.path.join(vbuild.REPO, "include", "adept", "*.h")) + [os.path.join(vbuild.REPO, "include", "adept.h")]):
        try:
            txt = open(f).read()
        except OSError:
            continue
        txt = re.sub(r"\\\n", " ", txt)
        for m in re.finditer(r"^[ \t]*#[ \t]*(?:if|ifdef|ifndef|elif)\b([^\n]*)", txt, flags=re.M):
            tested.update(re.findall(r"\bADEPT_[A-Z0-9_]+\b", m.group(1)))
        for m in re.finditer(r"^[ \t]*#[ \t]*ifndef[ \t]+(\w+)[^\n]*\n(?:[ \t]*\n)*[ \t]*#[ \t]*define[ \t]+(\w+)", txt, flags=re.M):
            if m.group(1) == m.group(2) and re.search(r"_H(?:_|$)|^Adept", m.group(1)):
                guards.add(m.group(1))
    tested -= guards
    tested.discard("ADEPT_STORAGE_THREAD_SAFE")
    return sorted(tested)


BASE_ROW = "(no other macro)"


def combos(openmp=False):
    """openmp: preprocess with -fopenmp (_OPENMP defined) as well; the first row (BASE_ROW) is -DADEPT_STORAGE_THREAD_SAFE alone.
    [(macro, ok)]: with -DADEPT_STORAGE_THREAD_SAFE -D<macro> the reference counter is still a std::atomic, remove_link/add_link keep
    their single read-modify-write shape and the storage counters stay atomic.  A combination the headers reject with #error (or in
    which class Storage is not compiled at all) cannot be built and is left out (returned separately)."""
    from concurrent.futures import ThreadPoolExecutor
    ms = [BASE_ROW] + config_macros()
    # the wanted shape: the single read-modify-write forms (what C14_thread_safe_build_shape states of the plain thread-safe build)
    ref = preprocess("c++11", ["ADEPT_STORAGE_THREAD_SAFE"])
    bref = class_body(ref)
    want = (remove_link_shape(bref), add_link_shape(bref))

    def one(m):
        try:
            t = preprocess("c++11", ["ADEPT_STORAGE_THREAD_SAFE"] + ([] if m == BASE_ROW else [m]), openmp=openmp)
        except TranslateError:
            return (m, None)
        try:
            b = class_body(t)
        except TranslateError:
            return (m, None)
        try:
            ok = is_atomic_type(member_type(b, "n_links_")) and (remove_link_shape(b), add_link_shape(b)) == want \
                and is_atomic_type(counter_types(t)) and counter_updates(t, b)
        except TranslateError:
            ok = False
        return (m, ok)

    with ThreadPoolExecutor(5) as ex:
        res = list(ex.map(one, ms))
    return [(m, ok) for m, ok in res if ok is not None], [m for m, ok in res if ok is None]


def strip_comments(t):
    t = re.sub(r"/\*.*?\*/", " ", t, flags=re.S)
    return re.sub(r"//[^\n]*", " ", t)


def stack_ctor_order():
    """order of the steps of `Stack::Stack(bool activate_immediately)` in include/adept/Stack.h: the body must consist of exactly
    `initialize(...)`, `new_recording()` and `if (activate_immediately) activate()` (in some order); anything else is not translated"""
    hdr = os.path.join(vbuild.REPO, "include", "adept", "Stack.h")
    try:
        text = strip_comments(open(hdr).read())
    except OSError:
        raise TranslateError("no such file: " + hdr)
    ms = list(re.finditer(r"\bStack\s*\(\s*bool\s+activate_immediately\s*(?:=\s*true\s*)?\)\s*:", text))
    if len(ms) != 1:
        raise TranslateError("expected exactly one constructor Stack(bool activate_immediately = true), found %d" % len(ms))
    i = text.index("{", ms[0].end())
    if re.search(r"[;}]", re.sub(r"#[^\n]*", "", text[ms[0].end():i])):
        raise TranslateError("Stack constructor: the member initializer list was not recognised")
    body = text[i + 1:match_close(text, i)]
    pats = [("activate", r"if\s*\(\s*activate_immediately\s*\)\s*(?:\{\s*activate\s*\(\s*\)\s*;\s*\}|activate\s*\(\s*\)\s*;)"),
            ("initialize", r"(?<![\w.>])initialize\s*\(\s*ADEPT_INITIAL_STACK_LENGTH\s*\)\s*;"),
            ("new_recording", r"(?<![\w.>])new_recording\s*\(\s*\)\s*;")]
    found, rest = [], body
    for name, pat in pats:
        hits = list(re.finditer(pat, body))
        if len(hits) != 1:
            raise TranslateError("Stack constructor: expected exactly one `%s` step, found %d in:\n%s" % (name, len(hits), body.strip()[:500]))
        found.append((hits[0].start(), name))
        rest = re.sub(pat, " ", rest, count=1)
    if rest.strip():
        raise TranslateError("Stack constructor: statements that are not one of the three known steps: " + rest.strip()[:300])
    return [n for _, n in sorted(found)]


DOC = {
    "nLinksTypeThreadSafe": "declared type of `Storage::n_links_` with -DADEPT_STORAGE_THREAD_SAFE",
    "nLinksTypeDefault": "declared type of `Storage::n_links_` in the default build",
    "removeLinkRmwResultTested": "`remove_link()` decrements by ONE read-modify-write expression whose result guards `delete this`",
    "removeLinkLeadingLoad": "`remove_link()` starts with a separate load `if (n_links_ == 0) throw`",
    "addLinkSingleRmw": "`add_link()` is one read-modify-write (`n_links_++`)",
    "counterTypeDefault": "resolved declared type of n_storage_objects_created_/deleted_ (default C++11 build)",
    "counterUpdateSingleRmw": "the Storage constructor/destructor update the counters by one read-modify-write, nothing else writes them",
}


def translate():
    L = ["/-! GENERATED by translate/storagecfg.py from include/adept/Storage.h (preprocessed with g++ -E in the thread-safe,",
         "    default and C++98 configurations).  Do not edit: rewritten on every run of C12/C14. -/",
         "namespace Adept.Generated.StorageCfg", ""]
    for k, v in facts():
        if k in DOC:
            L.append("/-- %s -/" % DOC[k])
        if isinstance(v, bool):
            L.append("def %s : Bool := %s" % (k, "true" if v else "false"))
        else:
            L.append('def %s : String := "%s"' % (k, v.replace("\\", "\\\\").replace('"', '\\"')))
    L += ["", "/-- steps of `Stack::Stack(bool activate_immediately)` (include/adept/Stack.h) in source order -/",
          "def stackCtorOrder : List String := [%s]" % ", ".join('"%s"' % n for n in stack_ctor_order())]
    cs, skipped = combos()
    L += ["", "/-- every configuration macro the headers test (include guards excepted), paired with: `-DADEPT_STORAGE_THREAD_SAFE` given",
          "    TOGETHER with that macro still yields an atomic `n_links_`, the single read-modify-write shapes of remove_link/add_link and",
          "    atomic storage counters.  Combinations the headers reject (#error) are not listed: %s -/" % (", ".join(skipped) or "none"),
          "def threadSafeUnderConfig : List (String × Bool) := ["]
    L.append(",\n".join('  ("%s", %s)' % (m, "true" if ok else "false") for m, ok in cs))
    L += ["]", ""]
    co, skipped_o = combos(openmp=True)
    L += ["/-- the same census with the compiler's OpenMP switch on (`g++ -E -fopenmp`: the predefined macro `_OPENMP` is defined, as in a",
          "    user's program compiled for OpenMP threads): `#if`s that combine ADEPT_STORAGE_THREAD_SAFE with `_OPENMP` (either way round)",
          "    show up in one of the two tables.  First row of both tables: ADEPT_STORAGE_THREAD_SAFE alone.  Rejected: %s -/" % (", ".join(skipped_o) or "none"),
          "def threadSafeUnderConfigOpenMP : List (String × Bool) := ["]
    L.append(",\n".join('  ("%s", %s)' % (m, "true" if ok else "false") for m, ok in co))
    L += ["]", "", "end Adept.Generated.StorageCfg", ""]
    return "\n".join(L)


def write(out=None):
    text = translate()
    out = out or default_out()
    os.makedirs(os.path.dirname(out), exist_ok=True)
    old = open(out).read() if os.path.exists(out) else None
    if old != text:
        with open(out, "w") as f:
            f.write(text)
    return out, old != text


def main(argv):
    out = None; check = False
    i = 0
    while i < len(argv):
        if argv[i] == "--out":
            out = argv[i + 1]; i += 2
        elif argv[i] == "--check":
            check = True; i += 1
        else:
            print(__doc__); return 2
    try:
        if check:
            text = translate()
            cur = open(out or default_out()).read()
            print("identical" if cur == text else "DIFFERENT")
            return 0 if cur == text else 1
        p, ch = write(out)
        print("%s %s" % (p, "rewritten" if ch else "unchanged"))
        return 0
    except TranslateError as e:
        print("TRANSLATE ERROR: %s" % e, file=sys.stderr)
        return 3


if __name__ == "__main__":
    sys.exit(main(sys.argv[1:]))
