#!/usr/bin/env python3
"""Translator: include/adept/BinaryOperation.h  ->  lean/AdeptModel/Generated/BinaryTable.lean   (property C01)

For each of the policy structs Add, Subtract, Multiply, Divide, Pow, Atan2, Max, Min (C++11 configuration) it
transcribes, generic over `Adept.Num`:

  storeResult                       static const int store_result
  operation mixed L R               member `operation` (scalar overloads; where the header distinguishes
                                    floating-point operands from mixed int/floating operands, `mixed` selects)
  operationStore L R                member `operation_store`: (the stored auxiliary, the result computed from it)
  leftMul / rightMul                the multiplier expression passed to left/right.calc_gradient_ in the four
                                    calc_left/calc_right overloads (m = none: no incoming multiplier; `none` result:
                                    the overload calls calc_gradient_ without a multiplier), over the symbols
                                      L   = left.value_stored_<MyArrayNum, MyScratchNum+store_result>
                                      R   = right.value_stored_<MyArrayNum+L::n_arrays, MyScratchNum+L::n_scratch+store_result>
                                      RES = scratch[MyScratchNum]      AUX = scratch[MyScratchNum+1]
  leftGuard / rightGuard            the `if (...)` condition under which the overload forwards at all (Max, Min)
  leftSlot / rightSlot              the scratch slot each overload forwards to the child (k = MyScratchNum,
                                    nL = L::n_scratch)

and from the three node templates BinaryOperation / BinaryOpScalarLeft / BinaryOpScalarRight:

  nLocalScratch, the child slots of the store path (`value_at_location_store_`), which of `operation` /
  `operation_store` each StoreResult variant uses, and what `value_stored_` returns.

plus the special `operator/(Expression, scalar)`, which the header turns into a multiplication by `1.0/r`.

Anything the parser does not understand raises TranslateError: no output is written and the check reports a
broken obligation.  The output is a pure function of the header text (byte-identical on an unchanged tree).

usage: binary.py [--repo DIR] [--out FILE] [--check]
"""
import os, re, sys
sys.path.insert(0, os.path.dirname(os.path.abspath(__file__)))
from cexpr import (TranslateError, DEFINED, preprocess, match_close, split_top, Parser, Emit, const_header_lines)

HEADER = os.path.join("include", "adept", "BinaryOperation.h")
POLICIES = ["Add", "Subtract", "Multiply", "Divide", "Pow", "Atan2", "Max", "Min"]
USER_NAMES = {"Add": "operator+", "Subtract": "operator-", "Multiply": "operator*", "Divide": "operator/",
              "Pow": "pow", "Atan2": "atan2", "Max": "max", "Min": "min"}


def norm(s):
    return re.sub(r"\s+", "", s)


# ----------------------------------------------------------------------------- slot expressions
def slot_lean(expr, where, store_name="sr"):
    """linear expression over MyScratchNum, L::n_scratch, store_result / n_local_scratch, integers -> Lean Nat term
    over k, nL, sr"""
    e = norm(expr)
    terms = e.split("+")
    out = []
    for t in terms:
        if t == "MyScratchNum":
            out.append("k")
        elif t == "L::n_scratch":
            out.append("nL")
        elif t in ("store_result", "n_local_scratch"):
            out.append(store_name)
        elif re.match(r"^\d+$", t):
            out.append(t)
        else:
            raise TranslateError("%s: cannot read scratch slot expression %r" % (where, expr))
    return " + ".join(out)


LEFT_VS = norm("MyArrayNum,MyScratchNum+store_result")
RIGHT_VS = norm("MyArrayNum+L::n_arrays,MyScratchNum+L::n_scratch+store_result")


def rewrite_symbols(text, where):
    """replace the C++ sub-expressions that denote L R RES AUX m by identifiers"""
    def vs(m):
        side, args = m.group(1), norm(m.group(2))
        if side == "left":
            if args != LEFT_VS:
                raise TranslateError("%s: left.value_stored_<%s> does not read the slot the left child stores to" % (where, m.group(2)))
            return " L "
        if args != RIGHT_VS:
            raise TranslateError("%s: right.value_stored_<%s> does not read the slot the right child stores to" % (where, m.group(2)))
        return " R "
    text = re.sub(r"\b(left|right)\s*\.\s*template\s+value_stored_\s*<([^<>]*)>\s*\(\s*loc\s*,\s*scratch\s*\)", vs, text)

    def scr(m):
        idx = norm(m.group(1))
        if idx == "MyScratchNum":
            return " RES "
        if idx == "MyScratchNum+1":
            return " AUX "
        raise TranslateError("%s: scratch[%s] is neither the result nor the auxiliary slot" % (where, m.group(1)))
    text = re.sub(r"\bscratch\s*\[([^\]]*)\]", scr, text)
    text = re.sub(r"\bmultiplier\b", " m ", text)
    text = re.sub(r"\bstd::", "", text)
    return text


# ----------------------------------------------------------------------------- struct / member extraction
def struct_body(text, name):
    m = re.search(r"\bstruct\s+%s\s*(?::[^{]*)?\{" % name, text)
    if not m:
        raise TranslateError("struct %s not found in %s" % (name, HEADER))
    close = match_close(text, m.end() - 1, "{", "}")
    return text[m.end():close]


def members(body, fname):
    """all member functions called fname -> list of (header text before the name, params, body)"""
    out = []
    for m in re.finditer(r"\b%s\s*\(" % fname, body):
        # must be a definition: after the parameter list comes optional `const` and `{`
        pclose = match_close(body, m.end() - 1)
        rest = body[pclose + 1:]
        mm = re.match(r"\s*(const\s*)?\{", rest)
        if not mm:
            continue
        bopen = pclose + 1 + mm.end() - 1
        bclose = match_close(body, bopen, "{", "}")
        # header: back to the previous ';' or '}' or start
        hstart = max(body.rfind(";", 0, m.start()), body.rfind("}", 0, m.start())) + 1
        out.append((body[hstart:m.start()], body[m.end():pclose], body[bopen + 1:bclose]))
    return out


def strip_usings(b):
    return re.sub(r"\busing\s+std::\w+\s*;", " ", b)


CALLS_OP = {"pow": 2, "atan2": 2, "fmax": 2, "fmin": 2}
CALLS_MUL = {"pow": 2, "log": 1}


def parse_operation(name, body):
    """-> {'plain': term} or {'float': term, 'mixed': term}; packet overloads are skipped"""
    found = {}
    lits = []
    for head, params, b in members(body, "operation"):
        where = "%s struct %s::operation" % (HEADER, name)
        h = norm(head)
        if "enable_if<is_packet<LType>::value" in h:
            continue                      # packet overload (vectorised array code, not modelled here)
        if "is_packet" in h:
            if "(!is_floating_point<LType>::value||!is_floating_point<RType>::value)" in h:
                kind = "mixed"
            elif "(is_floating_point<LType>::value&&is_floating_point<RType>::value)" in h:
                kind = "float"
            else:
                raise TranslateError("%s: cannot classify overload %r" % (where, " ".join(head.split())))
        else:
            kind = "plain"
        if norm(params) != norm("const LType& left, const RType& right"):
            raise TranslateError("%s: parameters are %r" % (where, params))
        st = strip_usings(b).strip()
        m = re.match(r"^return\s+(.*);$", st, flags=re.S)
        if not m:
            raise TranslateError("%s: body is not a single return statement: %r" % (where, st))
        expr = re.sub(r"\bstd::", "", m.group(1))
        ast = Parser(expr, where, ("left", "right"), CALLS_OP).parse()
        em = Emit(where, {"left": "L", "right": "R"})
        if kind in found:
            raise TranslateError("%s: two %s overloads" % (where, kind))
        found[kind] = em.real(ast)
        lits += em.lits
    if set(found) not in ({"plain"}, {"float", "mixed"}):
        raise TranslateError("%s struct %s: operation overloads found: %s" % (HEADER, name, sorted(found)))
    return found, lits


def parse_operation_store(name, body):
    ms = members(body, "operation_store")
    if not ms:
        return None, []
    if len(ms) != 1:
        raise TranslateError("%s struct %s: %d operation_store overloads" % (HEADER, name, len(ms)))
    head, params, b = ms[0]
    where = "%s struct %s::operation_store" % (HEADER, name)
    m = re.match(r"^constLType&left,constRType&right,Real&(\w+)$", norm(params))
    if not m:
        raise TranslateError("%s: parameters are %r" % (where, params))
    auxname = m.group(1)
    st = [s.strip() for s in strip_usings(b).split(";") if s.strip()]
    if len(st) != 2 or not st[0].startswith(auxname) or not st[1].startswith("return"):
        raise TranslateError("%s: body is not `aux = e; return e'`: %r" % (where, st))
    m0 = re.match(r"^%s\s*=\s*(.*)$" % auxname, st[0], flags=re.S)
    m1 = re.match(r"^return\s+(.*)$", st[1], flags=re.S)
    if not m0 or not m1:
        raise TranslateError("%s: cannot read body %r" % (where, st))
    em = Emit(where, {"left": "L", "right": "R", auxname: "AUX"})
    aux = em.real(Parser(re.sub(r"\bstd::", "", m0.group(1)), where, ("left", "right"), CALLS_OP).parse())
    res = em.real(Parser(re.sub(r"\bstd::", "", m1.group(1)), where, ("left", "right", auxname), CALLS_OP).parse())
    return (aux, res), em.lits


def parse_is_left(name, body):
    ms = members(body, "is_left")
    if not ms:
        return None
    where = "%s struct %s::is_left" % (HEADER, name)
    if len(ms) != 1:
        raise TranslateError("%s: %d definitions" % (where, len(ms)))
    st = strip_usings(ms[0][2]).strip()
    m = re.match(r"^return\s+(.*);$", st, flags=re.S)
    if not m:
        raise TranslateError("%s: body is not a single return" % where)
    expr = rewrite_symbols(m.group(1), where)
    ast = Parser(expr, where, ("L", "R"), {}).parse()
    if ast[0] != "cmp":
        raise TranslateError("%s: not a comparison" % where)
    return Emit(where).bool(ast)


def parse_calc(name, body, side, is_left_term):
    """-> {False: (guard, slot, mult or None), True: (...)} keyed by `has multiplier parameter`"""
    out = {}
    lits = []
    child = "left" if side == "left" else "right"
    for head, params, b in members(body, "calc_" + side):
        where = "%s struct %s::calc_%s" % (HEADER, name, side)
        withm = bool(re.search(r"\bMyType\s+multiplier\b", params))
        where += " (with multiplier)" if withm else " (no multiplier)"
        if withm in out:
            raise TranslateError("%s: defined twice" % where)
        st = strip_usings(b).strip()
        guard = "true"
        mg = re.match(r"^if\s*\((.*?)\)\s*\{(.*)\}\s*$", st, flags=re.S)
        if mg:
            cond, st = norm(mg.group(1)), mg.group(2).strip()
            neg = cond.startswith("!")
            if cond.lstrip("!") != norm("is_left<MyArrayNum,MyScratchNum>(left,right,loc,scratch)") or is_left_term is None:
                raise TranslateError("%s: cannot read the guard %r" % (where, mg.group(1)))
            guard = "(!%s)" % is_left_term if neg else is_left_term
        # leading `const T[&] name = expr;` locals (named temporaries for scratch entries and the like) are inlined textually
        while True:
            ml = re.match(r"^const\s+[\w:]+\s*&?\s*(\w+)\s*=\s*([^;]+);\s*", st)
            if not ml:
                break
            st = re.sub(r"\b%s\b" % re.escape(ml.group(1)), "(" + ml.group(2).strip() + ")", st[ml.end():])
        mc = re.match(r"^%s\s*\.\s*template\s+calc_gradient_\s*<" % child, st)
        if not mc:
            raise TranslateError("%s: does not forward to %s.calc_gradient_: %r" % (where, child, st[:80]))
        # template arguments: up to the matching '>' that is followed by '('
        depth, k = 0, mc.end() - 1
        for k in range(mc.end() - 1, len(st)):
            if st[k] == "<":
                depth += 1
            elif st[k] == ">":
                depth -= 1
                if depth == 0:
                    break
        targs = st[mc.end():k]
        rest = st[k + 1:].strip()
        if not rest.startswith("(") or not rest.endswith(";"):
            raise TranslateError("%s: malformed call" % where)
        aclose = match_close(rest, 0)
        if rest[aclose + 1:].strip() != ";":
            raise TranslateError("%s: more than one statement" % where)
        ta = [norm(t) for t in targs.split(",")]
        want_arr = "MyArrayNum" if side == "left" else "MyArrayNum+L::n_arrays"
        if len(ta) != 2 or ta[0] != want_arr:
            raise TranslateError("%s: template arguments are <%s>" % (where, targs))
        slot = slot_lean(ta[1], where)
        args = split_top(rewrite_symbols(rest[1:aclose], where))
        if [norm(a) for a in args[:3]] != ["stack", "loc", "scratch"] or len(args) not in (3, 4):
            raise TranslateError("%s: arguments are %r" % (where, args))
        mult = None
        if len(args) == 4:
            variables = ("L", "R", "RES", "AUX") + (("m",) if withm else ())
            ast = Parser(args[3], where, variables, CALLS_MUL).parse()
            em = Emit(where)
            mult = em.real(ast)
            lits += em.lits
        elif withm:
            raise TranslateError("%s: the incoming multiplier is dropped" % where)
        out[withm] = (guard, slot, mult)
    if set(out) != {False, True}:
        raise TranslateError("%s struct %s: calc_%s overloads found: %s" % (HEADER, name, side, sorted(out)))
    return out, lits


def parse_policy(text, name):
    body = struct_body(text, name)
    m = re.search(r"static\s+const\s+int\s+store_result\s*=\s*(\d+)\s*;", body)
    if not m:
        raise TranslateError("%s struct %s: store_result not found" % (HEADER, name))
    sr = int(m.group(1))
    ops, lits = parse_operation(name, body)
    opstore, l2 = parse_operation_store(name, body)
    if (sr == 2) != (opstore is not None):
        raise TranslateError("%s struct %s: store_result = %d but operation_store %s" % (
            HEADER, name, sr, "present" if opstore else "missing"))
    if sr not in (0, 1, 2):
        raise TranslateError("%s struct %s: store_result = %d" % (HEADER, name, sr))
    isl = parse_is_left(name, body)
    cl, l3 = parse_calc(name, body, "left", isl)
    cr, l4 = parse_calc(name, body, "right", isl)
    return {"name": name, "sr": sr, "ops": ops, "opstore": opstore, "left": cl, "right": cr,
            "lits": lits + l2 + l3 + l4}


# ----------------------------------------------------------------------------- node templates
def parse_node(text, sname):
    """store-path facts of BinaryOperation / BinaryOpScalarLeft / BinaryOpScalarRight"""
    body = struct_body(text, sname)
    where = "%s struct %s" % (HEADER, sname)
    if not re.search(r"static\s+const\s+int\s+store_result\s*=\s*is_active\s*\*\s*Op::store_result\s*;", body):
        raise TranslateError("%s: store_result is no longer is_active * Op::store_result" % where)
    if not re.search(r"static\s+const\s+int\s+n_local_scratch\s*=\s*store_result\s*;", body):
        raise TranslateError("%s: n_local_scratch is no longer store_result" % where)
    m = re.search(r"static\s+const\s+int\s+n_scratch\s*=\s*([^;]*);", body)
    want = {"BinaryOperation": "n_local_scratch+L::n_scratch+R::n_scratch",
            "BinaryOpScalarLeft": "n_local_scratch+R::n_scratch",
            "BinaryOpScalarRight": "n_local_scratch+L::n_scratch"}[sname]
    if not m or norm(m.group(1)) != want:
        raise TranslateError("%s: n_scratch is %r" % (where, m and m.group(1)))
    variants = {}
    for head, params, b in members(body, "my_value_at_location_store_"):
        h = norm(head)
        mm = re.search(r"enable_if<\(?StoreResult(==|>)(\d)\)?,Type>", h)
        if not mm:
            raise TranslateError("%s: cannot classify my_value_at_location_store_ overload %r" % (where, " ".join(head.split())))
        srs = [int(mm.group(2))] if mm.group(1) == "==" else [v for v in (1, 2) if v > int(mm.group(2))]
        st = b.strip()
        m2 = re.match(r"^return\s+(scratch\s*\[\s*MyScratchNum\s*\]\s*=\s*)?(Op::operation_store|operation)\s*\((.*)\)\s*;$", st, flags=re.S)
        if not m2:
            raise TranslateError("%s: cannot read my_value_at_location_store_ body %r" % (where, st[:100]))
        stores = m2.group(1) is not None
        fn = m2.group(2)
        slots = {}

        def child(ma):
            ta = [norm(t) for t in ma.group(2).split(",")]
            want_arr = "MyArrayNum" if (ma.group(1) == "left" or sname == "BinaryOpScalarLeft") else "MyArrayNum+L::n_arrays"
            if len(ta) != 2 or ta[0] != want_arr:
                raise TranslateError("%s: store path template arguments <%s>" % (where, ma.group(2)))
            if ma.group(1) in slots:
                raise TranslateError("%s: %s child evaluated twice in the store path" % (where, ma.group(1)))
            slots[ma.group(1)] = slot_lean(ta[1], where, "nl")
            return " CHILD_%s " % ma.group(1)
        inner = re.sub(r"\b(left|right)\s*\.\s*template\s+value_at_location_store_\s*<([^<>]*)>\s*\(\s*loc\s*,\s*scratch\s*\)",
                       child, m2.group(3))
        args = split_top(inner)
        order = [norm(a) for a in args if norm(a).startswith("CHILD_")]
        if order != ["CHILD_" + c for c in ("left", "right") if c in slots]:
            raise TranslateError("%s: store path children out of order: %r" % (where, args))
        rest_args = [norm(a) for a in args if not norm(a).startswith("CHILD_")]
        expect_rest = {"BinaryOperation": [], "BinaryOpScalarLeft": ["left.value()"], "BinaryOpScalarRight": ["right.value()"]}[sname]
        if fn == "Op::operation_store":
            expect_rest = expect_rest + ["scratch[MyScratchNum+1]"]
        if sorted(rest_args) != sorted(expect_rest):
            raise TranslateError("%s: store path arguments %r" % (where, args))
        expect_children = {"BinaryOperation": {"left", "right"}, "BinaryOpScalarLeft": {"right"}, "BinaryOpScalarRight": {"left"}}[sname]
        if set(slots) != expect_children:
            raise TranslateError("%s: store path evaluates children %s" % (where, sorted(slots)))
        for v in srs:
            if v in variants:
                raise TranslateError("%s: two store variants for StoreResult=%d" % (where, v))
            variants[v] = (stores, fn == "Op::operation_store", slots)
    need = {0, 1, 2}
    if set(variants) != need:
        raise TranslateError("%s: store variants for StoreResult in %s" % (where, sorted(variants)))
    for v, (stores, useos, _) in variants.items():
        if stores != (v > 0):
            raise TranslateError("%s: StoreResult=%d %s scratch[MyScratchNum]" % (where, v, "writes" if stores else "does not write"))
        if sname != "BinaryOpScalarRight" and useos != (v == 2):
            raise TranslateError("%s: StoreResult=%d uses %s" % (where, v, "operation_store" if useos else "operation"))
    # value_stored_: scratch[MyScratchNum] if StoreResult>0, re-evaluation (operation on value_at_location_) if 0
    vs = {}
    for head, params, b in members(body, "my_value_stored_"):
        h = norm(head)
        st = norm(b)
        if "enable_if<(StoreResult>0),Type>" in h:
            if st != "returnscratch[MyScratchNum];":
                raise TranslateError("%s: value_stored_ for StoreResult>0 is %r" % (where, b.strip()))
            vs["pos"] = True
        elif "enable_if<StoreResult==0,Type>" in h:
            if not st.startswith("returnoperation(") or "value_at_location_<" not in st:
                raise TranslateError("%s: value_stored_ for StoreResult==0 is %r" % (where, b.strip()))
            vs["zero"] = True
        else:
            raise TranslateError("%s: cannot classify my_value_stored_ overload" % where)
    if set(vs) != {"pos", "zero"}:
        raise TranslateError("%s: value_stored_ overloads %s" % (where, sorted(vs)))
    return variants


def parse_scalar_rhs_list(src_text):
    """which policies have an Expr∘scalar form (ADEPT_DEFINE_SCALAR_RHS_OPERATION)"""
    names = re.findall(r"\bADEPT_DEFINE_SCALAR_RHS_OPERATION\s*\(\s*(\w+)\s*,\s*([\w+\-*/]+)\s*\)", src_text)
    return names


def check_div_by_scalar(text):
    """operator/(Expression, scalar) for an active or floating-point case is a multiplication by 1.0/r"""
    pat = (r"internal::is_not_expression<RType>::value\s*&&\s*\(internal::is_floating_point<RType>::value\s*\|\|\s*L::is_active\)"
           r".*?operator/\s*\(const Expression<typename L::type, L>& l, const RType& r\)\s*\{(.*?)\}")
    m = re.search(pat, text, flags=re.S)
    if not m:
        raise TranslateError("%s: operator/(Expression, scalar) for active operands not found" % HEADER)
    b = norm(m.group(1))
    if "returnBinaryOpScalarRight<PType,L,Multiply,PType>(l.cast(),1.0/static_cast<PType>(r));" not in b:
        raise TranslateError("%s: operator/(Expression, scalar) is no longer a multiplication by 1.0/r: %r" % (HEADER, m.group(1).strip()))
    em = Emit("operator/(Expression, scalar)")
    return em.lit("1.0"), em.lits


# ----------------------------------------------------------------------------- rendering
def parse_all(repo):
    path = os.path.join(repo, HEADER)
    try:
        src = open(path).read()
    except OSError as e:
        raise TranslateError("cannot read %s: %s" % (path, e))
    text, macros = preprocess(src, HEADER)
    pols = [parse_policy(text, n) for n in POLICIES]
    nodes = {s: parse_node(text, s) for s in ("BinaryOperation", "BinaryOpScalarLeft", "BinaryOpScalarRight")}
    one, l = check_div_by_scalar(text)
    # which policies exist as Expr∘Expr / scalar∘Expr (ADEPT_DEFINE_OPERATION) and Expr∘scalar
    full = re.findall(r"\bADEPT_DEFINE_OPERATION\s*\(\s*(\w+)\s*,\s*([\w+\-*/]+)\s*\)", text)
    rhs = parse_scalar_rhs_list(text)
    for n, _ in full + rhs:
        if n not in POLICIES:
            raise TranslateError("%s: operation defined for unknown policy %s" % (HEADER, n))
    return pols, nodes, one, l, full, rhs


def render(parsed):
    pols, nodes, one, onelits, full, rhs = parsed
    L = []
    w = L.append
    w("import AdeptModel.Num")
    w("/-!")
    w("GENERATED by translate/binary.py from include/adept/BinaryOperation.h — do not edit.")
    w("Configuration: " + ", ".join(sorted(DEFINED)) + " defined.")
    w("Symbols: L = left.value_stored_, R = right.value_stored_ (read at the slots the children store to),")
    w("RES = scratch[MyScratchNum], AUX = scratch[MyScratchNum+1], m = incoming multiplier;")
    w("slots: k = MyScratchNum, nL = L::n_scratch, sr = store_result (policy), nl = n_local_scratch (node).")
    for line in const_header_lines([l for p in pols for l in p["lits"]] + onelits):
        w(line)
    w("-/")
    w("set_option linter.unusedVariables false")
    w("namespace Adept")
    w("")
    w("inductive BOp")
    for p in pols:
        w("  | %s" % p["name"])
    w("deriving Repr, DecidableEq")
    w("")
    w("namespace BOp")
    w("")
    w("def all : List BOp := [" + ", ".join("." + p["name"] for p in pols) + "]")
    w("")
    w("def name : BOp → String")
    for p in pols:
        w('  | .%s => "%s"' % (p["name"], USER_NAMES[p["name"]]))
    w("")
    w("/-- user-visible functions defined for Expr∘Expr and scalar∘Expr (ADEPT_DEFINE_OPERATION) -/")
    w("def definedFull : List (BOp × String) := [" + ", ".join('(.%s, "%s")' % (n, f) for n, f in full) + "]")
    w("/-- user-visible functions defined for Expr∘scalar (ADEPT_DEFINE_SCALAR_RHS_OPERATION); `x / scalar` is separate -/")
    w("def definedScalarRhs : List (BOp × String) := [" + ", ".join('(.%s, "%s")' % (n, f) for n, f in rhs) + "]")
    w("")
    w("/-- `static const int store_result` of the policy -/")
    w("def storeResult : BOp → Nat")
    for p in pols:
        w("  | .%s => %d" % (p["name"], p["sr"]))
    w("")
    w("/-- member `operation(left, right)`; `mixed`: an operand is not a floating-point type (e.g. an `int` scalar) -/")
    w("def operation {α : Type} [Num α] : BOp → Bool → α → α → α")
    for p in pols:
        if "plain" in p["ops"]:
            w("  | .%s, _, L, R => %s" % (p["name"], p["ops"]["plain"]))
        else:
            w("  | .%s, false, L, R => %s" % (p["name"], p["ops"]["float"]))
            w("  | .%s, true, L, R => %s" % (p["name"], p["ops"]["mixed"]))
    w("")
    w("/-- member `operation_store(left, right, aux&)`: (the auxiliary written to scratch[MyScratchNum+1], the value returned,")
    w("    computed from the auxiliary just stored); `none`: the policy has no `operation_store` -/")
    w("def operationStore {α : Type} [Num α] : BOp → α → α → Option (α × α)")
    for p in pols:
        if p["opstore"]:
            w("  | .%s, L, R => some (let AUX := %s; (AUX, %s))" % (p["name"], p["opstore"][0], p["opstore"][1]))
        else:
            w("  | .%s, L, R => none" % p["name"])
    for side in ("left", "right"):
        w("")
        w("/-- `calc_%s`: does the overload forward to the %s child at all (the `if` of Max/Min) -/" % (side, side))
        w("def %sGuard {α : Type} [Num α] : BOp → (withM : Bool) → α → α → Bool" % side)
        for p in pols:
            for withm in (False, True):
                w("  | .%s, %s, L, R => %s" % (p["name"], "true" if withm else "false", p[side][withm][0]))
        w("")
        w("/-- `calc_%s`: the multiplier handed to %s.calc_gradient_ (`none`: the overload without multiplier is called);" % (side, side))
        w("    first argument: the incoming multiplier, `none` for the overload without one -/")
        w("def %sMul {α : Type} [Num α] : BOp → Option α → α → α → α → α → Option α" % side)
        for p in pols:
            g0, s0, m0 = p[side][False]
            g1, s1, m1 = p[side][True]
            w("  | .%s, none, L, R, RES, AUX => %s" % (p["name"], "some %s" % m0 if m0 else "none"))
            w("  | .%s, some m, L, R, RES, AUX => %s" % (p["name"], "some %s" % m1 if m1 else "none"))
        w("")
        w("/-- `calc_%s`: the scratch slot forwarded to the %s child -/" % (side, side))
        w("def %sSlot : BOp → (withM : Bool) → (k nL sr : Nat) → Nat" % side)
        for p in pols:
            for withm in (False, True):
                w("  | .%s, %s, k, nL, sr => %s" % (p["name"], "true" if withm else "false", p[side][withm][1]))
    w("")
    w("end BOp")
    w("")
    w("/-! ### the three node templates (store path) -/")
    w("")
    w("/-- `n_local_scratch = store_result = is_active * Op::store_result` (all three templates) -/")
    w("def nLocalScratch (op : BOp) (isActive : Bool) : Nat := if isActive then op.storeResult else 0")
    w("")
    for sname, short in (("BinaryOperation", "bin"), ("BinaryOpScalarLeft", "binL"), ("BinaryOpScalarRight", "binR")):
        v = nodes[sname]
        for child in ("left", "right"):
            if child in v[0][2]:
                w("/-- %s::my_value_at_location_store_: slot handed to the %s child, per StoreResult variant -/" % (sname, child))
                w("def %sStore%sSlot : (storeResult k nL nl : Nat) → Nat" % (short, child.capitalize()))
                for sr in (0, 1):
                    w("  | %d, k, nL, nl => %s" % (sr, v[sr][2][child]))
                w("  | _, k, nL, nl => %s" % v[2][2][child])
        w("/-- %s: does the StoreResult=2 variant call `operation_store` (else plain `operation`) -/" % sname)
        w("def %sUsesOperationStore : Bool := %s" % (short, "true" if v[2][1] else "false"))
        w("")
    w("/-- `operator/(Expression, scalar)` with an active left operand is `BinaryOpScalarRight<Multiply>(l, 1.0/r)`:")
    w("    the numerator of that reciprocal -/")
    w("def divByScalarOne {α : Type} [Num α] : α := %s" % one)
    w("")
    w("end Adept")
    return "\n".join(L) + "\n"


def default_out():
    lean = os.environ.get("VERIF_LEAN", os.path.join(os.path.dirname(os.path.dirname(os.path.abspath(__file__))), "lean"))
    return os.path.join(lean, "AdeptModel", "Generated", "BinaryTable.lean")


def translate(repo=None):
    repo = repo or os.environ.get("VERIF_REPO", "/repo")
    return render(parse_all(repo))


def write(repo=None, out=None):
    text = translate(repo)
    out = out or default_out()
    old = open(out).read() if os.path.exists(out) else None
    if old != text:
        os.makedirs(os.path.dirname(out), exist_ok=True)
        tmp = out + ".tmp%d" % os.getpid()
        with open(tmp, "w") as f:
            f.write(text)
        os.replace(tmp, out)
    return out, old != text


def main(argv):
    repo = out = None; check = False
    i = 0
    while i < len(argv):
        if argv[i] == "--repo":
            repo = argv[i + 1]; i += 2
        elif argv[i] == "--out":
            out = argv[i + 1]; i += 2
        elif argv[i] == "--check":
            check = True; i += 1
        else:
            print(__doc__); return 2
    try:
        if check:
            text = translate(repo)
            cur = open(out or default_out()).read()
            print("identical" if cur == text else "DIFFERENT")
            return 0 if cur == text else 1
        p, ch = write(repo, out)
        print("%s %s" % (p, "rewritten" if ch else "unchanged"))
        return 0
    except TranslateError as e:
        print("TRANSLATE ERROR: %s" % e, file=sys.stderr)
        return 3


if __name__ == "__main__":
    sys.exit(main(sys.argv[1:]))
