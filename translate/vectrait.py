#!/usr/bin/env python3
"""Translator: census of the SIMD trait `is_vectorizable` of every expression node class in include/adept/*.h (property C05).

`Array::assign_expression_` and `reduce_inactive` exist in a packet (SIMD) overload and an element-by-element overload; which one a
statement uses is decided at compile time by the trait `is_vectorizable` of the type of its right-hand side.  The packet loops
advance EVERY array index of the expression themselves (`next_packet`: all indices += Packet::size), so a node class may only
declare the trait (other than `false`) if it has a packet form (`packet_at_location_`) and its own index discipline is "every
operand moves with the row" -- its `advance_location_` forwards to every operand unconditionally.  The two classes whose index
discipline differs are Spread (the argument must NOT move along a row when the spread dimension is the last one: its
`advance_location_` is conditional) and OuterProduct (the left vector never moves).

For every class that derives from `Expression<...>` the translator records
  file, class,
  rankOff        r when the class declares `rank = E::rank + r` (Spread), else none
  hasOp          the class derives from an operation policy (`protected Op` / `protected Op<Type>`)
  twoTypes       the template has both an `L` and an `R` parameter (element types of the two sides may differ)
  hasPacket      the class defines `packet_at_location_`
  operands       the operand members printed by `expression_string_` (as translate/alias.py does)
  operandTypes   the type (template parameter or local typedef) each of them is declared with
  advanced       the members `m` in calls `m.advance_location_<..>(loc)` inside the class's `advance_location_`
  advCond        that body contains an `if`
  selfAdv        that body moves the class's own index (`loc[MyArrayNum..] += ..` / `++loc[..]`)
  trait          the declaration `static const bool is_vectorizable = ...;` in normal form:
                   absent (inherits Expression's `false`) | constFalse | constTrue | packetType (Packet<Type>::is_vectorized)
                   | conj [X, ..] opVec same   (X::is_vectorizable && .. [&& Op::is_vectorized] [&& is_same<..>::value])
                   | spreadDimNe k             (SpreadDim != E::rank + k;  `rank` is expanded with the class's own rank)
                   | other                     (anything else)
Output: lean/AdeptModel/Generated/VecTraits.lean (table `vecNodes`).  The rule every entry must obey is `Node.sound`
(AdeptProofs/Lemmas/SimdTraits.lean); theorem `C05_every_node_vectorizable_trait_sound` (AdeptProofs/Props/C05.lean) proves it by
`decide` over the WHOLE regenerated table, `C05_model_nodes_match_census` that the classes the model's constructors stand for
have exactly the trait form `Expr.vectorizable` transcribes.  Exit 2 if nothing could be parsed.
"""
import glob, os, re, sys

REPO = os.environ.get("VERIF_REPO", "/repo")
HERE = os.path.dirname(os.path.dirname(os.path.abspath(__file__)))
OUT = os.path.join(os.environ.get("VERIF_LEAN", os.path.join(HERE, "lean")), "AdeptModel", "Generated", "VecTraits.lean")


def strip_comments(txt):
    txt = re.sub(r"/\*.*?\*/", lambda m: re.sub(r"[^\n]", " ", m.group(0)), txt, flags=re.S)
    return re.sub(r"//[^\n]*", lambda m: " " * len(m.group(0)), txt)


def match_brace(txt, i):
    depth = 0
    for j in range(i, len(txt)):
        if txt[j] == "{":
            depth += 1
        elif txt[j] == "}":
            depth -= 1
            if depth == 0:
                return j
    raise ValueError("unbalanced braces")


def class_blocks(txt):
    """(start of the class keyword, open brace, close brace, name, header text) of every class / struct body"""
    out = []
    for m in re.finditer(r"\b(?:class|struct)\s+([A-Za-z_]\w*)\s*(?:<[^;{]*>)?\s*(:[^;{]*)?\{", txt):
        o = m.end() - 1
        try:
            out.append((m.start(), o, match_brace(txt, o), m.group(1), m.group(2) or ""))
        except ValueError:
            pass
    return out


def body_of(cbody, rx):
    """bodies of all member function definitions whose head matches rx (rx ends just before the opening brace)"""
    out = []
    for m in re.finditer(rx + r"\s*\{", cbody):
        o = m.end() - 1
        out.append(cbody[o:match_brace(cbody, o) + 1])
    return out


def linear_in_erank(expr, own_rank):
    """value of an expression of the form  E::rank | rank | integer  joined by + and -, as an offset from E::rank (coefficient of
    E::rank must be 1); None if it is anything else"""
    e = expr.replace(" ", "")
    while e.startswith("(") and e.endswith(")"):
        e = e[1:-1]
    toks = re.findall(r"[+-]|E::rank|\brank\b|\d+", e)
    if "".join(toks) != e or not toks:
        return None
    coef, off, sign = 0, 0, 1
    expect_term = True
    for t in toks:
        if t in "+-":
            if expect_term and t == "+":
                return None
            sign = -1 if t == "-" else 1
            if expect_term and t == "-":
                expect_term = True
                continue
            expect_term = True
            continue
        if not expect_term:
            return None
        if t == "E::rank":
            coef += sign
        elif t == "rank":
            if own_rank is None:
                return None
            coef += sign
            off += sign * own_rank
        else:
            off += sign * int(t)
        sign, expect_term = 1, False
    if expect_term or coef != 1:
        return None
    return off


def parse_trait(text, own_rank):
    t = re.sub(r"\s+", "", text)
    if t == "false":
        return ("constFalse",)
    if t == "true":
        return ("constTrue",)
    if t == "Packet<Type>::is_vectorized":
        return ("packetType",)
    m = re.fullmatch(r"\(?SpreadDim!=(.+?)\)?", t)
    if m:
        k = linear_in_erank(m.group(1), own_rank)
        return ("spreadDimNe", k) if k is not None else ("other",)
    types, opvec, same = [], False, False
    # split the conjunction at top level (angle brackets of is_same<..,..> contain no &&)
    for term in t.split("&&"):
        mm = re.fullmatch(r"(\w+)::is_vectorizable", term)
        if mm:
            types.append(mm.group(1))
        elif term in ("Op::is_vectorized", "Op<Type>::is_vectorized"):
            opvec = True
        elif re.fullmatch(r"is_same<[^&|!]*>::value", term):
            same = True
        else:
            return ("other",)
    if not types:
        return ("other",)
    return ("conj", sorted(types), opvec, same)


def nodes():
    res = []
    for f in sorted(glob.glob(os.path.join(REPO, "include", "adept", "*.h"))):
        base = os.path.basename(f)
        txt = strip_comments(open(f).read())
        blocks = class_blocks(txt)
        for (start, bo, bc, cname, header) in blocks:
            if not re.search(r"\bpublic\s+(?:internal::)?Expression\s*<", header):
                continue
            cbody = txt[bo:bc]
            for nb in blocks:
                if bo < nb[1] and nb[2] < bc:
                    cbody = cbody.replace(txt[nb[1]:nb[2] + 1], " " * (nb[2] + 1 - nb[1]))
            tm = re.search(r"template\s*<([^{};]*)>\s*$", txt[max(0, start - 600):start])
            tparams = re.findall(r"\b(?:class|typename)\s+(\w+)", tm.group(1)) if tm else []
            has_op = bool(re.search(r"\bprotected\s+Op\b", header))
            two_types = "L" in tparams and "R" in tparams
            has_packet = bool(re.search(r"Packet\s*<[^>;{}]*>\s*packet_at_location_\s*\(", cbody))
            # rank
            rm = re.findall(r"static\s+const\s+int\s+rank\s*=\s*([^;]*);", cbody)
            own_rank = linear_in_erank(rm[0], None) if len(rm) == 1 else None
            # operands and their declared types
            operands = []
            for gb in body_of(cbody, r"\bstd::string\s+expression_string_\s*\(\s*\)\s*const")[:1]:
                for mm in re.finditer(r"(?:\b([A-Za-z_]\w*)\s*\.|&\s*([A-Za-z_]\w*)\s*\)\s*->)\s*expression_string_?\s*\(", gb):
                    nm = mm.group(1) or mm.group(2)
                    if nm not in operands:
                        operands.append(nm)
            otypes = []
            for o in operands:
                dm = re.findall(r"(?:^|[;{}:])\s*((?:const\s+|typename\s+)*[\w:<>\s&]+?[\s&]+)%s\s*;" % re.escape(o), cbody)
                ty = "?"
                if len(dm) == 1:
                    d = dm[0]
                    ne = re.search(r"nested_expression\s*<\s*(\w+)\s*>", d)
                    ids = re.findall(r"[A-Za-z_]\w*", re.sub(r"\b(const|typename|__restrict)\b", " ", d))
                    ty = ne.group(1) if ne else (ids[-1] if ids else "?")
                otypes.append(ty)
            # advance_location_
            advanced, adv_cond, self_adv = [], False, False
            for ab in body_of(cbody, r"\bvoid\s+advance_location_\s*\([^)]*\)\s*const"):
                for mm in re.finditer(r"\b([A-Za-z_]\w*)\s*\.\s*(?:template\s+)?advance_location_\b", ab):
                    if mm.group(1) not in advanced:
                        advanced.append(mm.group(1))
                if re.search(r"\bif\s*\(|\?", ab):
                    adv_cond = True
                if re.search(r"\bloc\s*\[[^\]]*\]\s*\+=|\+\+\s*loc\s*\[|\bloc\s*\[[^\]]*\]\s*\+\+", ab):
                    self_adv = True
            # trait
            tr = re.findall(r"static\s+const\s+bool\s+is_vectorizable\s*=\s*([^;]*);", cbody)
            if len(tr) == 0:
                trait = ("absent",)
            elif len(tr) == 1:
                trait = parse_trait(tr[0], own_rank)
            else:
                trait = ("other",)
            line = txt.count("\n", 0, start) + 1
            res.append(dict(file=base, cls=cname, rankOff=own_rank if "E::rank" in (rm[0] if len(rm) == 1 else "") else None,
                            hasOp=has_op, twoTypes=two_types, hasPacket=has_packet, operands=operands, operandTypes=sorted(otypes),
                            advanced=advanced, advCond=adv_cond, selfAdv=self_adv, trait=trait, line=line,
                            text=" ".join(tr[0].split()) if len(tr) == 1 else ("(absent)" if not tr else "(several)")))
    return res


def lean_trait(t):
    if t[0] == "conj":
        return '.conj [%s] %s %s' % (", ".join('"%s"' % x for x in t[1]), "true" if t[2] else "false", "true" if t[3] else "false")
    if t[0] == "spreadDimNe":
        return ".spreadDimNe (%d)" % t[1]
    return "." + t[0]


def sound(n):
    """python mirror of Node.sound (AdeptProofs/Lemmas/SimdTraits.lean), used only for the message printed here"""
    t = n["trait"]
    if t[0] in ("absent", "constFalse"):
        return True
    if t[0] == "constTrue":
        return n["hasPacket"] and not n["operands"] and not n["selfAdv"]
    if t[0] == "packetType":
        return n["hasPacket"] and not n["operands"] and n["selfAdv"]
    if t[0] == "conj":
        return (n["hasPacket"] and bool(n["operands"]) and not n["advCond"] and n["advanced"] == n["operands"]
                and t[1] == n["operandTypes"] and (not n["hasOp"] or t[2]) and (not n["twoTypes"] or t[3]))
    if t[0] == "spreadDimNe":
        return (n["hasPacket"] and n["advCond"] and bool(n["operands"]) and n["advanced"] == n["operands"]
                and n["rankOff"] is not None and n["rankOff"] == t[1] + 1)
    return False


def main():
    try:
        ns = nodes()
    except Exception as e:
        print("translate/vectrait.py: cannot translate: %s" % e, file=sys.stderr)
        return 2
    if not ns:
        print("translate/vectrait.py: no expression node class found", file=sys.stderr)
        return 2
    b = lambda x: "true" if x else "false"
    lst = lambda xs: "[" + ", ".join('"%s"' % x for x in xs) + "]"
    L = ["/- GENERATED by translate/vectrait.py from include/adept/*.h — do not edit. -/", "namespace Adept.Simd.TraitCensus", "",
         "/-- normal form of the declaration `static const bool is_vectorizable = …;` of an expression node class -/",
         "inductive Trait",
         "  | absent | constFalse | constTrue | packetType",
         "  | conj (types : List String) (opVec same : Bool)",
         "  | spreadDimNe (k : Int)",
         "  | other",
         "deriving DecidableEq, Repr", "",
         "/-- one expression node class (see translate/vectrait.py for the meaning of the fields) -/",
         "structure Node where",
         "  file : String", "  cls : String", "  rankOff : Option Int", "  hasOp : Bool", "  twoTypes : Bool", "  hasPacket : Bool",
         "  operands : List String", "  operandTypes : List String", "  advanced : List String", "  advCond : Bool", "  selfAdv : Bool",
         "  trait : Trait",
         "deriving DecidableEq, Repr", "",
         "def vecNodes : List Node := ["]
    L.append(",\n".join(
        '  ⟨"%s", "%s", %s, %s, %s, %s, %s, %s, %s, %s, %s, %s⟩'
        % (n["file"], n["cls"], "none" if n["rankOff"] is None else "some (%d)" % n["rankOff"], b(n["hasOp"]), b(n["twoTypes"]),
           b(n["hasPacket"]), lst(n["operands"]), lst(n["operandTypes"]), lst(n["advanced"]), b(n["advCond"]), b(n["selfAdv"]),
           lean_trait(n["trait"])) for n in ns))
    L += ["]", "", "end Adept.Simd.TraitCensus", ""]
    new = "\n".join(L)
    os.makedirs(os.path.dirname(OUT), exist_ok=True)
    old = open(OUT).read() if os.path.exists(OUT) else None
    if old != new:
        tmp = OUT + ".tmp%d" % os.getpid()
        open(tmp, "w").write(new)
        os.replace(tmp, OUT)
    kinds = {}
    for n in ns:
        kinds[n["trait"][0]] = kinds.get(n["trait"][0], 0) + 1
    print("vectorizable-trait census: %d node classes (%s)%s" % (len(ns), ", ".join("%s %d" % kv for kv in sorted(kinds.items())),
                                                                  "" if old == new else " (regenerated, changed)"))
    for n in ns:
        if not sound(n):
            print("  UNSOUND trait: %s:%d class %s declares is_vectorizable = %s  [packet form: %s; operands %s, advanced %s%s; rank = E::rank%+d]"
                  % (n["file"], n["line"], n["cls"], n["text"], n["hasPacket"], n["operands"], n["advanced"],
                     " conditionally" if n["advCond"] else "", n["rankOff"] or 0))
    return 0


if __name__ == "__main__":
    sys.exit(main())
