// C05 driver: red family for double (split over translation units to keep compile time down)
#include "drv_simd_red.h"
namespace simd { std::string red_d(const Words& w) { return dispatch_red<double>(w); } }
