// Correspondence driver for interpolation (property C20): adept::interp / interp2d / interp3d
// (include/adept/interp.h) called on run-time data.
//
// usage: drv_interp < cases            one case per line, one canonical result line per case
//
//   interp D T A NARGS OPT EV | knots_1 | .. | knots_D | dims (D+T numbers) | data (row-major) | q_1 | .. | q_D
//
//   D      1..3  number of interpolated dimensions (interp / interp2d / interp3d)
//   T      0..2  number of trailing dimensions of the data array
//   A      0/1   passive / active data (active: the Jacobian d out / d data is computed with
//                Stack::jacobian and printed sparsely)
//   NARGS  0: call without options and value (defaults); 1: options only; 2: options and value;
//          3,4,5: the same three calls with EXPRESSION arguments (x+0.0, data*1.0, xi+0.0: exact), i.e. the overloads
//          that cast their arguments to arrays and forward
//   OPT    option word (unsigned);  EV extrapolation value
//   numbers are `p`, `p/q` (q a power of two: dyadic, so exactly representable), `inf`, `-inf`, `nan`
//   `interpf ...` (float regime): the same with every finite number given as 16 hex digits = the bits of
//   a binary64, and results printed the same way (zero of either sign as 0000000000000000)
//
// result:  ok dims=d0,d1,.. vals=v,v,..[ jac=row;row;..]     (row = col:val,col:val,.. non-zero entries only,
//          rows in row-major order of the output, columns in row-major order of the data)
//          exc <exception class>
// finite doubles are printed as exact fractions p/2^k in lowest terms (bit-exact apart from the sign of
// zero, which is not modelled: -0 prints as 0); NaNs of any sign/payload print as `nan`.
#include "spy.h"
#include <cmath>
#include <cstdlib>
#include <limits>
#include <typeinfo>
using namespace adept;

typedef std::vector<std::string> Words;
static bool g_hex = false;   // float regime: numbers are 16 hex digits (bits of a binary64)

static bool parse_num(const std::string& s, double& v) {
  if (s == "nan") { v = std::numeric_limits<double>::quiet_NaN(); return true; }
  if (s == "inf") { v = std::numeric_limits<double>::infinity(); return true; }
  if (s == "-inf") { v = -std::numeric_limits<double>::infinity(); return true; }
  if (s.empty()) return false;
  if (g_hex) {
    if (s.size() != 16) return false;
    unsigned long long b = 0;
    for (size_t i = 0; i < 16; ++i) {
      char ch = s[i]; int d;
      if (ch >= '0' && ch <= '9') d = ch - '0'; else if (ch >= 'a' && ch <= 'f') d = ch - 'a' + 10; else return false;
      b = (b << 4) | static_cast<unsigned long long>(d);
    }
    std::memcpy(&v, &b, sizeof v);
    return v == v && !std::isinf(v);                      // non-finite values travel by name only
  }
  size_t slash = s.find('/');
  std::string a = s.substr(0, slash), b = slash == std::string::npos ? "1" : s.substr(slash + 1);
  if (a.empty() || b.empty()) return false;
  size_t i = (a[0] == '-') ? 1 : 0;
  if (i == a.size() || a.size() - i > 15 || b.size() > 15) return false;
  for (; i < a.size(); ++i) if (a[i] < '0' || a[i] > '9') return false;
  for (i = 0; i < b.size(); ++i) if (b[i] < '0' || b[i] > '9') return false;
  long long p = atoll(a.c_str()), q = atoll(b.c_str());
  if (q <= 0 || (q & (q - 1)) != 0) return false;       // dyadic only
  v = static_cast<double>(p) / static_cast<double>(q);   // exact: |p| < 2^53 and q a power of two
  return true;
}

static std::string fmt(double v) {
  if (v != v) return "nan";
  if (std::isinf(v)) return v > 0 ? "inf" : "-inf";
  if (g_hex) {
    if (v == 0.0) return "0000000000000000";
    unsigned long long b; std::memcpy(&b, &v, sizeof b);
    char hb[32]; snprintf(hb, sizeof hb, "%016llx", b);
    return hb;
  }
  if (v == 0.0) return "0";
  int k = 0;
  double m = v;
  while (m != std::floor(m) && k < 1100) { m *= 2.0; ++k; }   // exact scaling
  char buf[64];
  if (std::fabs(m) < 9.0e15 && k < 62) {
    long long p = static_cast<long long>(m);
    if (k == 0) snprintf(buf, sizeof buf, "%lld", p);
    else snprintf(buf, sizeof buf, "%lld/%lld", p, 1LL << k);
  } else snprintf(buf, sizeof buf, "%a", v);              // outside the exact regime: hex float
  return buf;
}

static bool parse_list(const Words& w, std::vector<double>& out) {
  out.clear();
  for (size_t i = 0; i < w.size(); ++i) { double v; if (!parse_num(w[i], v)) return false; out.push_back(v); }
  return true;
}

static Vector mkvec(const std::vector<double>& v) {
  Vector a;
  if (!v.empty()) { a.resize(static_cast<Index>(v.size())); for (size_t i = 0; i < v.size(); ++i) a(i) = v[i]; }
  return a;
}

struct Case {
  int D, T, A, nargs;
  unsigned int opt;
  double ev;
  std::vector<double> knots[3], q[3], data;
  std::vector<int> dims;
};

template <int R, bool Act>
static void fill(Array<R, double, Act>& M, const Case& c) {
  ExpressionSize<R> d;
  bool empty = false;
  for (int i = 0; i < R; ++i) { d[i] = c.dims[i]; if (c.dims[i] == 0) empty = true; }
  if (!empty) {
    M.resize(d);
    // raw writes (nothing is recorded) in logical row-major order; rows may be padded, so go through offset()
    double* p = M.data();
    int idx[R];
    for (int i = 0; i < R; ++i) idx[i] = 0;
    for (size_t k = 0; k < c.data.size(); ++k) {
      Index off = 0;
      for (int i = 0; i < R; ++i) off += idx[i] * M.offset(i);
      p[off] = c.data[k];
      for (int i = R - 1; i >= 0; --i) { if (++idx[i] < M.size(i)) break; idx[i] = 0; }
    }
  }
}

template <int D> struct Call;
template <> struct Call<1> {
  template <class M> static Array<M::rank, double, M::is_active> go(const Case& c, const M& m) {
    Vector x = mkvec(c.knots[0]), xi = mkvec(c.q[0]);
    // nargs 3..5: the Expression-argument overloads (the arguments are cast to arrays inside the library)
    if (c.nargs == 3) return interp(x + 0.0, m * 1.0, xi + 0.0);
    if (c.nargs == 4) return interp(x + 0.0, m * 1.0, xi + 0.0, c.opt);
    if (c.nargs == 5) return interp(x + 0.0, m * 1.0, xi + 0.0, c.opt, c.ev);
    if (c.nargs == 0) return interp(x, m, xi);
    if (c.nargs == 1) return interp(x, m, xi, c.opt);
    return interp(x, m, xi, c.opt, c.ev);
  }
};
template <> struct Call<2> {
  template <class M> static Array<M::rank - 1, double, M::is_active> go(const Case& c, const M& m) {
    Vector x = mkvec(c.knots[0]), y = mkvec(c.knots[1]), xi = mkvec(c.q[0]), yi = mkvec(c.q[1]);
    if (c.nargs == 3) return interp2d(x + 0.0, y + 0.0, m * 1.0, xi + 0.0, yi + 0.0);
    if (c.nargs == 4) return interp2d(x + 0.0, y + 0.0, m * 1.0, xi + 0.0, yi + 0.0, c.opt);
    if (c.nargs == 5) return interp2d(x + 0.0, y + 0.0, m * 1.0, xi + 0.0, yi + 0.0, c.opt, c.ev);
    if (c.nargs == 0) return interp2d(x, y, m, xi, yi);
    if (c.nargs == 1) return interp2d(x, y, m, xi, yi, c.opt);
    return interp2d(x, y, m, xi, yi, c.opt, c.ev);
  }
};
template <> struct Call<3> {
  template <class M> static Array<M::rank - 2, double, M::is_active> go(const Case& c, const M& m) {
    Vector x = mkvec(c.knots[0]), y = mkvec(c.knots[1]), z = mkvec(c.knots[2]);
    Vector xi = mkvec(c.q[0]), yi = mkvec(c.q[1]), zi = mkvec(c.q[2]);
    if (c.nargs == 3) return interp3d(x + 0.0, y + 0.0, z + 0.0, m * 1.0, xi + 0.0, yi + 0.0, zi + 0.0);
    if (c.nargs == 4) return interp3d(x + 0.0, y + 0.0, z + 0.0, m * 1.0, xi + 0.0, yi + 0.0, zi + 0.0, c.opt);
    if (c.nargs == 5) return interp3d(x + 0.0, y + 0.0, z + 0.0, m * 1.0, xi + 0.0, yi + 0.0, zi + 0.0, c.opt, c.ev);
    if (c.nargs == 0) return interp3d(x, y, z, m, xi, yi, zi);
    if (c.nargs == 1) return interp3d(x, y, z, m, xi, yi, zi, c.opt);
    return interp3d(x, y, z, m, xi, yi, zi, c.opt, c.ev);
  }
};

template <int R, bool Act>
static void print_vals(std::ostream& os, const Array<R, double, Act>& ans) {
  os << "ok dims=";
  for (int i = 0; i < R; ++i) os << (i ? "," : "") << ans.size(i);
  os << " vals=";
  // logical row-major traversal over whatever layout the result has (data() + offset(i))
  Index n = ans.size();
  if (n > 0) {
    const double* p = ans.data();
    int idx[R];
    for (int i = 0; i < R; ++i) idx[i] = 0;
    for (Index k = 0; k < n; ++k) {
      Index off = 0;
      for (int i = 0; i < R; ++i) off += idx[i] * ans.offset(i);
      os << (k ? "," : "") << fmt(p[off]);
      for (int i = R - 1; i >= 0; --i) { if (++idx[i] < ans.size(i)) break; idx[i] = 0; }
    }
  }
}

template <int D, int T>
static void run_passive(const Case& c, std::ostream& os) {
  Array<D + T, double, false> M;
  fill(M, c);
  Array<1 + T, double, false> ans = Call<D>::go(c, M);
  print_vals(os, ans);
}

struct OneIndex {   // a single gradient index, in the form Stack::dependent() accepts
  uIndex gi;
  void push_gradient_indices(std::vector<uIndex>& v) const { v.push_back(gi); }
};

template <int D, int T>
static void run_active(const Case& c, std::ostream& os, Stack& stack) {
  Array<D + T, double, true> M;
  fill(M, c);
  stack.new_recording();
  stack.clear_independents();
  stack.clear_dependents();
  Array<1 + T, double, true> ans = Call<D>::go(c, M);
  print_vals(os, ans);
  os << " jac=";
  Index m = ans.size(), n = M.size();
  if (m > 0 && n > 0) {
    bool finite = true;
    for (int d = 0; d < D; ++d) for (size_t i = 0; i < c.q[d].size(); ++i) if (c.q[d][i] != c.q[d][i] || std::isinf(c.q[d][i])) finite = false;
    Matrix J(m, n);
    stack.independent(M);
    if (finite) {
      stack.dependent(ans);
      stack.jacobian(J);
    } else {
      // some weights are inf/NaN: a joint sweep would spread 0*inf = NaN into the rows of the other outputs,
      // so take one Jacobian per output element (rows of the non-finite queries stay meaningless)
      std::vector<uIndex> dep;
      ans.push_gradient_indices(dep);
      std::vector<Real> row(n);
      for (Index i = 0; i < m; ++i) {
        stack.clear_dependents();
        OneIndex one; one.gi = dep[i];
        stack.dependent(one);
        stack.jacobian(&row[0]);
        for (Index j = 0; j < n; ++j) J(i, j) = row[j];
      }
    }
    for (Index i = 0; i < m; ++i) {
      if (i) os << ";";
      bool first = true;
      for (Index j = 0; j < n; ++j) {
        double v = J(i, j);
        if (v == 0.0) continue;
        if (!first) os << ",";
        first = false;
        os << j << ":" << fmt(v);
      }
    }
  }
}

template <int D, int T>
static void run_dt(const Case& c, std::ostream& os, Stack& stack) {
  if (c.A) run_active<D, T>(c, os, stack); else run_passive<D, T>(c, os);
}

template <int D>
static void run_d(const Case& c, std::ostream& os, Stack& stack) {
  if (c.T == 0) run_dt<D, 0>(c, os, stack); else if (c.T == 1) run_dt<D, 1>(c, os, stack); else run_dt<D, 2>(c, os, stack);
}

static bool parse_case(const Words& w, Case& c) {
  if (w.empty() || (w[0] != "interp" && w[0] != "interpf")) return false;
  g_hex = (w[0] == "interpf");
  std::vector<Words> sec(1);
  for (size_t i = 1; i < w.size(); ++i) { if (w[i] == "|") sec.push_back(Words()); else sec.back().push_back(w[i]); }
  const Words& h = sec[0];
  if (h.size() != 6) return false;
  for (int i = 0; i < 5; ++i) { if (h[i].empty() || h[i].size() > (i == 4 ? 10u : 9u)) return false; for (size_t k = 0; k < h[i].size(); ++k) if (h[i][k] < '0' || h[i][k] > '9') return false; }
  c.D = atoi(h[0].c_str()); c.T = atoi(h[1].c_str()); c.A = atoi(h[2].c_str()); c.nargs = atoi(h[3].c_str());
  unsigned long long o = strtoull(h[4].c_str(), 0, 10);
  if (o >= 4294967296ULL) return false;
  c.opt = static_cast<unsigned int>(o);
  if (!parse_num(h[5], c.ev)) return false;
  if (c.D < 1 || c.D > 3 || c.T < 0 || c.T > 2 || c.A < 0 || c.A > 1 || c.nargs < 0 || c.nargs > 5) return false;
  if (static_cast<int>(sec.size()) != 1 + c.D + 2 + c.D) return false;
  for (int d = 0; d < c.D; ++d) if (!parse_list(sec[1 + d], c.knots[d])) return false;
  const Words& dw = sec[1 + c.D];
  if (static_cast<int>(dw.size()) != c.D + c.T) return false;
  c.dims.clear();
  long total = 1;
  for (size_t i = 0; i < dw.size(); ++i) {
    if (dw[i].empty() || dw[i].size() > 2) return false;
    for (size_t k = 0; k < dw[i].size(); ++k) if (dw[i][k] < '0' || dw[i][k] > '9') return false;
    int dv = atoi(dw[i].c_str());
    if (dv > 64) return false;
    c.dims.push_back(dv); total *= dv;
  }
  if (!parse_list(sec[2 + c.D], c.data) || static_cast<long>(c.data.size()) != total) return false;
  for (size_t i = 0; i < c.data.size(); ++i) if (c.data[i] != c.data[i] || std::isinf(c.data[i])) return false;
  for (int d = 0; d < c.D; ++d) {
    if (!parse_list(sec[3 + c.D + d], c.q[d])) return false;
    for (size_t i = 0; i < c.knots[d].size(); ++i) if (c.knots[d][i] != c.knots[d][i] || std::isinf(c.knots[d][i])) return false;
  }
  return true;
}

int main() {
  Stack* stack = new Stack();
  std::string line;
  while (std::getline(std::cin, line)) {
    Words w = verif::words(line);
    if (w.empty()) continue;
    Case c;
    if (!parse_case(w, c)) { std::cout << "bad-op\n"; continue; }
    std::ostringstream os;
    try {
      if (c.D == 1) run_d<1>(c, os, *stack); else if (c.D == 2) run_d<2>(c, os, *stack); else run_d<3>(c, os, *stack);
      std::cout << os.str() << "\n";
    } catch (const adept::exception& e) {
      const char* nm = "adept::exception(other)";
      if (typeid(e) == typeid(size_mismatch)) nm = "size_mismatch";
      else if (typeid(e) == typeid(array_exception)) nm = "array_exception";
      else if (typeid(e) == typeid(invalid_dimension)) nm = "invalid_dimension";
      else if (typeid(e) == typeid(index_out_of_bounds)) nm = "index_out_of_bounds";
      else if (typeid(e) == typeid(empty_array)) nm = "empty_array";
      else if (typeid(e) == typeid(invalid_operation)) nm = "invalid_operation";
      else if (dynamic_cast<const array_exception*>(&e)) nm = "array_exception(subclass)";
      else if (dynamic_cast<const autodiff_exception*>(&e)) nm = "autodiff_exception";
      std::cout << "exc " << nm << "\n";
    } catch (const std::exception& e) {
      std::cout << "exc std::exception " << e.what() << "\n";
    }
    std::cout.flush();
  }
  delete stack;
  return 0;
}
