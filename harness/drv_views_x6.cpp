// rank-6 views indexed with rich index expressions (first XMENU3 shapes of the menu; roles scalar and begin),
// the other arguments being end-k / __ (see drv_views_x3.cpp)
#include "drv_views.h"
typedef Array<6,int> AX;
VBase* rich_slice(AX& a, const Call& c) { return rich_slice_t<AX, XMENU3, ROLE_S | ROLE_B, FAM_XT>(a, c); }
