// arrayad driver, statement menu part 10: the fx* statement kinds of part 4 on active FixedArrays of RANK 3
// (FixedArray<double,true,2,3,4>) and RANK 4 (<double,true,2,2,3,2>), as targets and as sources.  From rank 3 on
// FixedArray::advance_index wraps a dimension other than the last (the branch `index -= offset*(dimension-1)`), which the
// rank-1/2 FixedArrays of part 4 never execute with effect.  Same op words and argument order as part 4; dispatched first,
// answers 0 ("not mine") unless the FixedArray is of one of the two kinds.
//   fxcopy F A   F = A      fxbin <op> F A B   F = A op B      fxsrc <op> T F A   T = F op A      fxff <op> F F1 F2   F = F1 op F2
//   fxbcp F c    F = c      fxbca F s          F = s           fxcmp <op> F A     F op= A         fxred <f> S F       S = f(F)
#include "drv_arrayad.h"
#include <type_traits>
namespace aad {
using namespace adept;

static int opcode(const std::string& s) { return s == "add" ? 0 : s == "sub" ? 1 : s == "mul" ? 2 : s == "div" ? 3 : -1; }
static int fcode(const std::string& s) { return s == "sum" ? 0 : s == "mean" ? 1 : s == "product" ? 2 : s == "minval" ? 3 : s == "maxval" ? 4 : s == "norm2" ? 5 : -1; }
static bool mine(Obj* o) { return o && (o->kind == K_FA234 || o->kind == K_FA2232); }

template <class Fn> static bool withF34(Obj* o, Fn&& f) {
  if (!o) return false;
  if (o->kind == K_FA234) return f(asF234(*o), std::integral_constant<int, 3>());
  if (o->kind == K_FA2232) return f(asF2232(*o), std::integral_constant<int, 4>());
  return false;
}

int exec_s10(const Words& w, Ctx& c) {
  const std::string& k = w[0];
  if (k.size() < 4 || k[0] != 'f' || k[1] != 'x') return 0;
  if (k == "fxcopy" && w.size() == 3) {
    Obj* F = get(w[1]); if (!mine(F)) return 0;
    return withF34(F, [&](auto& f, auto Rc) {
      constexpr int R = decltype(Rc)::value; Obj* A = geta(w[2], R); if (!A) return false;
      c.pre({F, A});
      return with<R>(A, [&](auto& a) { f = a; return true; }); }) ? 1 : -1;
  }
  if (k == "fxbin" && w.size() == 5) {
    Obj* F = get(w[2]); if (!mine(F)) return 0;
    int op = opcode(w[1]); if (op < 0) return -1;
    return withF34(F, [&](auto& f, auto Rc) {
      constexpr int R = decltype(Rc)::value; Obj* A = getat(w[3], R); Obj* B = geta(w[4], R); if (!A || !B) return false;
      c.pre({F, A, B});
      auto& a = as<R, true>(*A);
      return with<R>(B, [&](auto& b) {
        switch (op) { case 0: f = a + b; break; case 1: f = a - b; break; case 2: f = a * b; break; default: f = a / b; }
        return true; }); }) ? 1 : -1;
  }
  if (k == "fxsrc" && w.size() == 5) {
    Obj* F = get(w[3]); if (!mine(F)) return 0;
    int op = opcode(w[1]); Obj* T = get(w[2]); if (op < 0 || !T || T->kind != K_ARR || !T->active) return -1;
    return withF34(F, [&](auto& f, auto Rc) {
      constexpr int R = decltype(Rc)::value; Obj* A = geta(w[4], R); if (!A || T->rank != R) return false;
      c.pre({T, F, A});
      auto& t = as<R, true>(*T);
      return with<R>(A, [&](auto& a) {
        switch (op) { case 0: t = f + a; break; case 1: t = f - a; break; case 2: t = f * a; break; default: t = f / a; }
        return true; }); }) ? 1 : -1;
  }
  if (k == "fxff" && w.size() == 5) {
    Obj* F = get(w[2]); if (!mine(F)) return 0;
    int op = opcode(w[1]); Obj* F1 = get(w[3]); Obj* F2 = get(w[4]);
    if (op < 0 || !F1 || !F2 || F1->kind != F->kind || F2->kind != F->kind) return -1;
    return withF34(F, [&](auto& f, auto) {
      typedef typename std::remove_reference<decltype(f)>::type FT;
      FT& f1 = *static_cast<FT*>(F1->p); FT& f2 = *static_cast<FT*>(F2->p);
      c.pre({F, F1, F2});
      switch (op) { case 0: f = f1 + f2; break; case 1: f = f1 - f2; break; case 2: f = f1 * f2; break; default: f = f1 / f2; }
      return true; }) ? 1 : -1;
  }
  if (k == "fxbcp" && w.size() == 3) {
    Obj* F = get(w[1]); if (!mine(F)) return 0;
    double cv = atof(w[2].c_str());
    return withF34(F, [&](auto& f, auto) { c.pre({F}); f = cv; return true; }) ? 1 : -1;
  }
  if (k == "fxbca" && w.size() == 3) {
    Obj* F = get(w[1]); if (!mine(F)) return 0;
    Obj* S = getk(w[2], K_SCAL); if (!S) return -1;
    return withF34(F, [&](auto& f, auto) { c.pre({F, S}); f = asS(*S); return true; }) ? 1 : -1;
  }
  if (k == "fxcmp" && w.size() == 4) {
    Obj* F = get(w[2]); if (!mine(F)) return 0;
    int op = opcode(w[1]); if (op < 0) return -1;
    return withF34(F, [&](auto& f, auto Rc) {
      constexpr int R = decltype(Rc)::value; Obj* A = geta(w[3], R); if (!A) return false;
      c.pre({F, A});
      return with<R>(A, [&](auto& a) {
        switch (op) { case 0: f += a; break; case 1: f -= a; break; case 2: f *= a; break; default: f /= a; }
        return true; }); }) ? 1 : -1;
  }
  if (k == "fxred" && w.size() == 4) {
    Obj* F = get(w[3]); if (!mine(F)) return 0;
    int fn = fcode(w[1]); Obj* S = getk(w[2], K_SCAL); if (fn < 0 || !S) return -1;
    return withF34(F, [&](auto& f, auto) {
      c.pre({S, F});
      adouble& s = asS(*S);
      switch (fn) { case 0: s = sum(f); break; case 1: s = mean(f); break; case 2: s = product(f); break;
                    case 3: s = minval(f); break; case 4: s = maxval(f); break; default: s = norm2(f); }
      return true; }) ? 1 : -1;
  }
  return 0;
}

} // namespace aad
