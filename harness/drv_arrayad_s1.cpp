// arrayad driver, statement menu part 1: element-wise assignments to an active Array / view of rank 1..3.
//   copy T A            T = A                      (A active or passive)
//   bin <op> T A B      T = A op B                 op in add sub mul div; A, B active or passive in any combination
//   binsl <op> T c A    T = c op A                 passive scalar on the left    binsr <op> T A c   T = A op c
//   binal <op> T s A    T = s op A                 s an adouble                  binar <op> T A s   T = A op s
//   neg T A             T = -A
#include "drv_arrayad.h"
#include <type_traits>
using namespace adept;
namespace aad {

template <class F> static int by_rank(Obj* t, F&& f) {
  switch (t->rank) {
    case 1: return f(std::integral_constant<int, 1>());
    case 2: return f(std::integral_constant<int, 2>());
    case 3: return f(std::integral_constant<int, 3>());
  }
  return -1;
}

static int opcode(const std::string& s) { return s == "add" ? 0 : s == "sub" ? 1 : s == "mul" ? 2 : s == "div" ? 3 : -1; }

int exec_s1(const Words& w, Ctx& c) {
  const std::string& k = w[0];
  if (k == "copy" && w.size() == 3) {
    Obj* T = get(w[1]); if (!T || T->kind != K_ARR || !T->active) return -1;
    return by_rank(T, [&](auto Rc) {
      constexpr int R = decltype(Rc)::value;
      Obj* A = geta(w[2], R); if (!A) return -1;
      c.pre({T, A});
      auto& t = as<R, true>(*T);
      return with<R>(A, [&](auto& a) { t = a; return true; }) ? 1 : -1;
    });
  }
  if (k == "neg" && w.size() == 3) {
    Obj* T = get(w[1]); if (!T || T->kind != K_ARR || !T->active) return -1;
    return by_rank(T, [&](auto Rc) {
      constexpr int R = decltype(Rc)::value;
      Obj* A = geta(w[2], R); if (!A) return -1;
      c.pre({T, A});
      auto& t = as<R, true>(*T);
      return with<R>(A, [&](auto& a) { t = -a; return true; }) ? 1 : -1;
    });
  }
  if (k == "bin" && w.size() == 5) {
    int op = opcode(w[1]);
    Obj* T = get(w[2]); if (op < 0 || !T || T->kind != K_ARR || !T->active) return -1;
    return by_rank(T, [&](auto Rc) {
      constexpr int R = decltype(Rc)::value;
      Obj* A = geta(w[3], R); Obj* B = geta(w[4], R); if (!A || !B) return -1;
      c.pre({T, A, B});
      auto& t = as<R, true>(*T);
      return with<R>(A, [&](auto& a) { return with<R>(B, [&](auto& b) {
        switch (op) { case 0: t = a + b; break; case 1: t = a - b; break; case 2: t = a * b; break; default: t = a / b; }
        return true; }); }) ? 1 : -1;
    });
  }
  if ((k == "binsl" || k == "binsr") && w.size() == 5) {
    int op = opcode(w[1]);
    Obj* T = get(w[2]); if (op < 0 || !T || T->kind != K_ARR || !T->active) return -1;
    bool left = k == "binsl";
    double cv = atof(w[left ? 3 : 4].c_str());
    return by_rank(T, [&](auto Rc) {
      constexpr int R = decltype(Rc)::value;
      Obj* A = geta(w[left ? 4 : 3], R); if (!A) return -1;
      c.pre({T, A});
      auto& t = as<R, true>(*T);
      return with<R>(A, [&](auto& a) {
        if (left) switch (op) { case 0: t = cv + a; break; case 1: t = cv - a; break; case 2: t = cv * a; break; default: t = cv / a; }
        else switch (op) { case 0: t = a + cv; break; case 1: t = a - cv; break; case 2: t = a * cv; break; default: t = a / cv; }
        return true; }) ? 1 : -1;
    });
  }
  if ((k == "binal" || k == "binar") && w.size() == 5) {
    int op = opcode(w[1]);
    Obj* T = get(w[2]); if (op < 0 || op > 2 || !T || T->kind != K_ARR || !T->active) return -1;
    bool left = k == "binal";
    Obj* S = getk(w[left ? 3 : 4], K_SCAL); if (!S) return -1;
    return by_rank(T, [&](auto Rc) {
      constexpr int R = decltype(Rc)::value;
      Obj* A = geta(w[left ? 4 : 3], R); if (!A) return -1;
      c.pre({T, S, A});
      auto& t = as<R, true>(*T);
      const adouble& s = asS(*S);
      return with<R>(A, [&](auto& a) {
        if (left) switch (op) { case 0: t = s + a; break; case 1: t = s - a; break; default: t = s * a; }
        else switch (op) { case 0: t = a + s; break; case 1: t = a - s; break; default: t = a * s; }
        return true; }) ? 1 : -1;
    });
  }
  return 0;
}

} // namespace aad
