// integer-vector indexing of rank-2 views: the patterns whose first letter is in the mask 0x0000000f (see drv_views_idx.h)
#define IX_FIRST_MASK 0x0000000f
#include "drv_views_idx.h"
std::string ix_op2_a(Array<2,int>& a, const std::vector<ISel>& t) { return ix_go<2>(a, t); }
