// Correspondence driver for the tape / stack-protocol family (models M1, M7, M8; properties C02, C10, C13, C11).
// Reads ops on stdin (see lean/Driver/TapeDrv.lean for the grammar), prints one canonical line per op.
// Values are small integers held in doubles, so every multiplier and Jacobian entry is exact.
#include "spy.h"
#include <map>
#include <cmath>
#include <type_traits>
#include <utility>
#include <cstring>
#include <type_traits>
using namespace adept;
using verif::SpyStack;

#ifdef RJHOGAN_ADEPT_2_VERIF
namespace adept { extern int verif_omp_blocks_[256]; }
#endif
static SpyStack* st = 0;
static std::map<long, adouble*> vars;

struct Tok {
  std::vector<std::string> w; size_t p;
  bool more() const { return p < w.size(); }
  const std::string& next() { return w[p++]; }
};

static std::string excname(const std::exception& e) {
  if (dynamic_cast<const gradients_not_initialized*>(&e)) return "gradients_not_initialized";
  if (dynamic_cast<const gradient_out_of_range*>(&e)) return "gradient_out_of_range";
  if (dynamic_cast<const dependents_or_independents_not_identified*>(&e)) return "dependents_or_independents_not_identified";
  if (dynamic_cast<const wrong_gradient*>(&e)) return "wrong_gradient";
  if (dynamic_cast<const size_mismatch*>(&e)) return "size_mismatch";
  if (dynamic_cast<const stack_already_active*>(&e)) return "stack_already_active";
  return std::string("other:") + e.what();
}

// `hex 1`: every number is printed as the 16 hex digits of its binary64 bit pattern (C02/C13 binary64 tie: results are
// compared bit for bit, signed zeros and infinities included); `hex 0` (default): integers / %.17g
static bool hex_mode = false;
static std::string num(double x) {
  char b[64];
  if (std::isnan(x)) return "nan";    // the sign of a NaN carries no meaning
  if (hex_mode) {
    unsigned long long u; std::memcpy(&u, &x, sizeof u);
    snprintf(b, sizeof b, "%016llx", u);
    return b;
  }
  if (x == std::floor(x) && std::fabs(x) < 9.0e15) snprintf(b, sizeof b, "%lld", (long long)x);
  else snprintf(b, sizeof b, "%.17g", x);
  return b;
}

// continuation-passing parser: builds the expression *type* for trees of height <= D
template <int D, class K>
static bool parse(Tok& t, K&& k) {
  if (!t.more()) return false;
  std::string s = t.next();
  if (s[0] == 'v') {
    long h = atol(s.c_str() + 1);
    if (!vars.count(h)) return false;
    const adouble& x = *vars[h];
    return k(x);
  } else if (s[0] == 'c') {
    double c = atof(s.c_str() + 1);
    return k(c);
  }
  if constexpr (D > 0) {
    if (s == "neg") return parse<D - 1>(t, [&](const auto& a) { return k(-a); });
    if (s == "add") return parse<D - 1>(t, [&](const auto& a) { return parse<D - 1>(t, [&](const auto& b) { return k(a + b); }); });
    if (s == "sub") return parse<D - 1>(t, [&](const auto& a) { return parse<D - 1>(t, [&](const auto& b) { return k(a - b); }); });
    if (s == "mul") return parse<D - 1>(t, [&](const auto& a) { return parse<D - 1>(t, [&](const auto& b) { return k(a * b); }); });
  }
  return false;
}

template <class E>
static typename std::enable_if<std::is_arithmetic<E>::value, bool>::type assign_to(adouble& x, const E&) { return false; }
template <class E>
static typename std::enable_if<!std::is_arithmetic<E>::value, bool>::type assign_to(adouble& x, const E& e) { x = e; return true; }

static void print_tape() {
  std::ostringstream os;
  os << "T " << st->n_statements() << " " << st->n_operations() << " | ";
  for (uIndex i = 1; i < st->n_statements(); ++i) {
    if (i > 1) os << " | ";
    os << st->st_index(i) << ":";
    for (uIndex j = st->st_end(i - 1); j < st->st_end(i); ++j) {
      if (j > st->st_end(i - 1)) os << ",";
      os << num(st->op_mult(j)) << "*" << st->op_index(j);
    }
  }
  std::cout << os.str() << "\n";
}

static void cleanup() {
  for (std::map<long, adouble*>::iterator it = vars.begin(); it != vars.end(); ++it) delete it->second;
  vars.clear();
  delete st; st = 0;
}

static void call_jac(const std::string& mode, double* p, Index dO, Index iO) {
  if (mode == "auto") st->jacobian(p, dO, iO);
  else if (mode == "fwd") st->jacobian_forward(p, dO, iO);
  else st->jacobian_reverse(p, dO, iO);
}
static void call_jac(const std::string& mode, Matrix& J) {
  if (mode == "auto") st->jacobian(J);
  else if (mode == "fwd") st->jacobian_forward(J);
  else st->jacobian_reverse(J);
}
static void print_mat(const Matrix& J) {
  std::cout << "J " << J.dimension(0) << " " << J.dimension(1) << " :";
  for (Index i = 0; i < J.dimension(0); ++i)
    for (Index j = 0; j < J.dimension(1); ++j) std::cout << " " << num(J(i, j));
  std::cout << "\n";
}

int main() {
  st = new SpyStack();
  std::string line;
  while (std::getline(std::cin, line)) {
    Tok t; t.w = verif::words(line); t.p = 0;
    if (t.w.empty()) continue;
    std::vector<std::string>& w = t.w;
    try {
      if (w[0] == "cfg") {
        std::cout.flush();   // a new case starts: whatever stops the driver later, the output of the earlier cases is complete
        cleanup(); st = new SpyStack(); hex_mode = false;
#ifdef RJHOGAN_ADEPT_2_VERIF
        verif::EventLog::install(); verif::EventLog::buf().clear();
#endif
        std::cout << "cfg\n";
      }
      else if (w[0] == "new" && w.size() == 3) {
        adouble* x = new adouble(atof(w[2].c_str())); vars[atol(w[1].c_str())] = x;
        std::cout << "ok " << x->gradient_index() << "\n";
      } else if (w[0] == "newd" && w.size() == 2) {
        adouble* x = new adouble(); vars[atol(w[1].c_str())] = x;
        std::cout << "ok " << x->gradient_index() << "\n";
      } else if (w[0] == "newc" && w.size() == 3) {
        long i = atol(w[2].c_str());
        if (!vars.count(i)) { std::cout << "EXC unknown_handle\n"; continue; }
        adouble* x = new adouble(*vars[i]); vars[atol(w[1].c_str())] = x;
        std::cout << "ok " << x->gradient_index() << "\n";
      } else if (w[0] == "del" && w.size() == 2) {
        long k = atol(w[1].c_str());
        if (!vars.count(k)) { std::cout << "EXC unknown_handle\n"; continue; }
        delete vars[k]; vars.erase(k); std::cout << "ok\n";
      } else if (w[0] == "setp" && w.size() == 3) {
        long k = atol(w[1].c_str());
        if (!vars.count(k)) { std::cout << "EXC unknown_handle\n"; continue; }
        *vars[k] = atof(w[2].c_str()); std::cout << "ok\n";
      } else if (w[0] == "asg" && w.size() >= 3) {
        long k = atol(w[1].c_str());
        if (!vars.count(k)) { std::cout << "EXC unknown_handle\n"; continue; }
        adouble& x = *vars[k];
        t.p = 2;
        bool ok = parse<2>(t, [&](const auto& e) { return assign_to(x, e); });
        if (ok && !t.more()) std::cout << "ok " << num(x.value()) << "\n"; else std::cout << "bad-op\n";
      } else if ((w[0] == "cadd" || w[0] == "csub" || w[0] == "cmul") && w.size() == 3) {
        long k = atol(w[1].c_str());
        if (!vars.count(k)) { std::cout << "EXC unknown_handle\n"; continue; }
        adouble& x = *vars[k];
        if (w[2][0] == 'c') {
          double c = atof(w[2].c_str() + 1);
          if (w[0] == "cadd") x += c; else if (w[0] == "csub") x -= c; else x *= c;
        } else {
          long i = atol(w[2].c_str() + 1);
          if (!vars.count(i)) { std::cout << "EXC unknown_handle\n"; continue; }
          const adouble& y = *vars[i];
          if (w[0] == "cadd") x += y; else if (w[0] == "csub") x -= y; else x *= y;
        }
        std::cout << "ok " << num(x.value()) << "\n";
      } else if ((w[0] == "rasg" || w[0] == "rsetp" || w[0] == "rcadd" || w[0] == "rcsub" || w[0] == "rcmul") && w.size() == 3) {
        // statements whose target is an ActiveReference (what A(i) of an active array returns) that refers to variable k:
        //   rasg k i     ActiveReference::operator=(const ActiveReference&)      (element = element)
        //   rsetp k c    ActiveReference::operator=(passive)
        //   rcadd|rcsub|rcmul k c<y>   ActiveReference::operator+= / -= / *= with a passive right-hand side
        // the reference is bound to a copy of the value, which is written back with set_value (records nothing)
        long k = atol(w[1].c_str());
        if (!vars.count(k)) { std::cout << "EXC unknown_handle\n"; continue; }
        adouble& x = *vars[k];
        double v = x.value(); ActiveReference<double> ref(v, x.gradient_index());
        if (w[0] == "rasg") {
          long i = atol(w[2].c_str());
          if (!vars.count(i)) { std::cout << "EXC unknown_handle\n"; continue; }
          double v2 = vars[i]->value(); ActiveReference<double> ref2(v2, vars[i]->gradient_index());
          const ActiveReference<double>& cr = ref2;
          ref = cr;
        } else if (w[0] == "rsetp") ref = atof(w[2].c_str());
        else {
          if (w[2][0] != 'c') { std::cout << "bad-op\n"; continue; }
          double c = atof(w[2].c_str() + 1);
          if (w[0] == "rcadd") ref += c; else if (w[0] == "rcsub") ref -= c; else ref *= c;
        }
        x.set_value(v);
        if (w[0] == "rsetp") std::cout << "ok\n"; else std::cout << "ok " << num(x.value()) << "\n";
      } else if ((w[0] == "adep" || w[0] == "apdep") && w.size() == 4) {
        long k = atol(w[1].c_str()), i = atol(w[2].c_str());
        if (!vars.count(k) || !vars.count(i)) { std::cout << "EXC unknown_handle\n"; continue; }
        if (w[0] == "adep") vars[k]->add_derivative_dependence(*vars[i], atof(w[3].c_str()));
        else vars[k]->append_derivative_dependence(*vars[i], atof(w[3].c_str()));
        std::cout << "ok\n";
      } else if ((w[0] == "adepv" || w[0] == "apdepv") && w.size() >= 5 && w[4] == ":" && (w.size() - 5) % 2 == 0) {
        // adepv|apdepv <form a|r|c> <k> <stride> : i1 m1 i2 m2 ..   the ARRAY forms of add/append_derivative_dependence
        // (rhs = pointer to n contiguous Active objects, multipliers read with the given stride), called through an
        // Active (a), an ActiveReference (r) or an ActiveConstReference (c) that refers to variable k
        long k = atol(w[2].c_str()); int stride = atoi(w[3].c_str());
        size_t n = (w.size() - 5) / 2;
        bool okh = vars.count(k) && stride >= 1 && stride <= 4 && (w[1] == "a" || w[1] == "r" || w[1] == "c");
        for (size_t j = 0; okh && j < n; ++j) okh = vars.count(atol(w[5 + 2 * j].c_str()));
        if (!okh) { std::cout << "EXC unknown_handle\n"; continue; }
        // the API wants the right-hand sides contiguous: bitwise images of the live variables (never constructed or
        // destroyed: an Active constructor registers a gradient, its copy constructor records a statement); only
        // gradient_index() is read from them.  Unused multiplier slots hold a value that would show if it were read.
        typedef std::aligned_storage<sizeof(adouble), alignof(adouble)>::type Raw;
        std::vector<Raw> raw(n + 1);
        std::vector<double> mult(n * stride + 1, 77.0);
        for (size_t j = 0; j < n; ++j) {
          std::memcpy(&raw[j], vars[atol(w[5 + 2 * j].c_str())], sizeof(adouble));
          mult[j * stride] = atof(w[6 + 2 * j].c_str());
        }
        const adouble* rhs = reinterpret_cast<const adouble*>(&raw[0]);
        adouble& x = *vars[k];
        bool add = w[0] == "adepv";
        if (w[1] == "a") {
          if (add) x.add_derivative_dependence(rhs, &mult[0], (int)n, stride); else x.append_derivative_dependence(rhs, &mult[0], (int)n, stride);
        } else if (w[1] == "r") {
          double v = x.value(); ActiveReference<double> ref(v, x.gradient_index());
          // (ActiveReference::append_derivative_dependence carries a stray `template <typename T>` whose T cannot be
          // deduced: the documented call y.append_derivative_dependence(z, dy_dz, n) does not compile for array elements;
          // an explicit template argument reaches the same code)
          if (add) ref.add_derivative_dependence(rhs, &mult[0], (int)n, stride); else ref.append_derivative_dependence<double>(rhs, &mult[0], (int)n, stride);
        } else {
          ActiveConstReference<double> ref(x.value(), x.gradient_index());
          if (add) ref.add_derivative_dependence(rhs, &mult[0], (int)n, stride); else ref.append_derivative_dependence(rhs, &mult[0], (int)n, stride);
        }
        std::cout << "ok\n";
      } else if (w[0] == "prealloc" && (w.size() == 3 || w.size() == 4)) {
        // prealloc s|o <n> [m|f]: Stack::preallocate_statements(n) / preallocate_operations(n), through the member function (m,
        // default) or the free function of the same name (f: acts on the active stack).  The call is put into the H1 event log as
        // `s<n>` / `o<n>` (the library logs only the growth it causes, which is a consequence); the sizes come with the next `ev`
        long n = atol(w[2].c_str());
        bool fr = w.size() == 4 && w[3] == "f";
        if (n < 0 || (w[1] != "s" && w[1] != "o") || (w.size() == 4 && w[3] != "f" && w[3] != "m")) { std::cout << "bad-op\n"; continue; }
        if (w[1] == "s") { if (fr) adept::preallocate_statements((uIndex)n); else st->preallocate_statements((uIndex)n); }
        else { if (fr) adept::preallocate_operations((uIndex)n); else st->preallocate_operations((uIndex)n); }
#ifdef RJHOGAN_ADEPT_2_VERIF
        verif::EventLog::buf() += " " + w[1] + w[2];
#endif
        std::cout << "ok\n";
      } else if (w[0] == "pause") { st->pause_recording(); std::cout << "ok\n"; }
      else if (w[0] == "cont") { st->continue_recording(); std::cout << "ok\n"; }
      else if (w[0] == "nr") { st->new_recording(); std::cout << "ok\n"; }
      else if ((w[0] == "indep" || w[0] == "dep") && w.size() == 2) {
        long k = atol(w[1].c_str());
        if (!vars.count(k)) { std::cout << "EXC unknown_handle\n"; continue; }
        if (w[0] == "indep") st->independent(*vars[k]); else st->dependent(*vars[k]);
        std::cout << "ok\n";
      } else if (w[0] == "indepn" || w[0] == "depn" || w[0] == "getgn" || w[0] == "getvn" || w[0] == "setgn" || w[0] == "setvn") {
        // the POINTER-AND-COUNT forms: Stack::independent(const A* x, n) / dependent(const A* x, n)   indepn|depn h1 h2 ..
        // and the free functions on arrays of Active (Active.h): set_gradients / set_values              setgn|setvn h1 v1 h2 v2 ..
        //                                                        get_gradients / get_values              getgn|getvn h1 h2 ..
        // The API wants the objects contiguous: bitwise images of the live variables (never constructed or destroyed, see adepv);
        // set_values writes the value member of the image, which is copied back to the variable afterwards.
        bool pairs = w[0] == "setgn" || w[0] == "setvn";
        if (pairs && (w.size() - 1) % 2 != 0) { std::cout << "bad-op\n"; continue; }
        size_t n = pairs ? (w.size() - 1) / 2 : w.size() - 1;
        std::vector<long> hs; std::vector<double> data(n + 2, -777.0);
        bool okh = true;
        for (size_t j = 0; j < n; ++j) {
          long h = atol(w[1 + (pairs ? 2 * j : j)].c_str());
          if (!vars.count(h)) okh = false;
          hs.push_back(h);
          if (pairs) data[1 + j] = atof(w[2 + 2 * j].c_str());
        }
        if (!okh) { std::cout << "EXC unknown_handle\n"; continue; }
        typedef std::aligned_storage<sizeof(adouble), alignof(adouble)>::type Raw;
        std::vector<Raw> raw(n + 1);
        for (size_t j = 0; j < n; ++j) std::memcpy(&raw[j], vars[hs[j]], sizeof(adouble));
        adouble* a = reinterpret_cast<adouble*>(&raw[0]);
        const adouble* ca = a;
        if (w[0] == "indepn") { st->independent(ca, (uIndex)n); std::cout << "ok\n"; }
        else if (w[0] == "depn") { st->dependent(ca, (uIndex)n); std::cout << "ok\n"; }
        else if (w[0] == "setgn") { adept::set_gradients(a, (Index)n, &data[1]); std::cout << "ok\n"; }
        else if (w[0] == "setvn") {
          adept::set_values(a, (Index)n, &data[1]);
          for (size_t j = 0; j < n; ++j) std::memcpy(vars[hs[j]], &raw[j], sizeof(adouble));
          std::cout << "ok\n";
        } else {
          if (w[0] == "getgn") adept::get_gradients(ca, (Index)n, &data[1]); else adept::get_values(ca, (Index)n, &data[1]);
          if (data[0] != -777.0 || data[n + 1] != -777.0) { std::cout << "GUARD\n"; continue; }
          std::cout << (w[0] == "getgn" ? "G" : "V");
          for (size_t j = 0; j < n; ++j) std::cout << " " << num(data[1 + j]);
          std::cout << "\n";
        }
      } else if (w[0] == "clri") { st->clear_independents(); std::cout << "ok\n"; }
      else if (w[0] == "clrd") { st->clear_dependents(); std::cout << "ok\n"; }
      else if (w[0] == "clrg") { st->clear_gradients(); std::cout << "ok\n"; }
      else if (w[0] == "seed" && w.size() == 3) {
        long k = atol(w[1].c_str());
        if (!vars.count(k)) { std::cout << "EXC unknown_handle\n"; continue; }
        vars[k]->set_gradient(atof(w[2].c_str())); std::cout << "ok\n";
      } else if (w[0] == "get" && w.size() == 2) {
        long k = atol(w[1].c_str());
        if (!vars.count(k)) { std::cout << "EXC unknown_handle\n"; continue; }
        double g = vars[k]->get_gradient(); std::cout << "g " << num(g) << "\n";
      } else if (w[0] == "getr" && w.size() == 4) {
        // range forms of Stack::get_gradients as Array::get_gradient calls them: n elements from the index of handle k, element
        // separation ss (ss == 1: the contiguous overload); end_plus_one is one past the LAST element touched
        long k = atol(w[1].c_str()); long n = atol(w[2].c_str()), ss = atol(w[3].c_str());
        if (!vars.count(k)) { std::cout << "EXC unknown_handle\n"; continue; }
        if (n < 0 || ss < 1) { std::cout << "bad-op\n"; continue; }
        uIndex start = vars[k]->gradient_index();
        uIndex endp1 = n == 0 ? start : start + (n - 1) * ss + 1;
        std::vector<double> buf(n + 2, -777.0);
        if (ss == 1) st->get_gradients(start, endp1, buf.data() + 1);
        else st->get_gradients(start, endp1, buf.data() + 1, (Index)ss, (Index)1);
        if (buf[0] != -777.0 || buf[n + 1] != -777.0) { std::cout << "GUARD\n"; continue; }
        std::cout << "G";
        for (long i = 0; i < n; ++i) std::cout << " " << num(buf[1 + i]);
        std::cout << "\n";
      } else if (w[0] == "setr" && w.size() >= 2) {
        long k = atol(w[1].c_str());
        if (!vars.count(k)) { std::cout << "EXC unknown_handle\n"; continue; }
        std::vector<double> buf;
        for (size_t i = 2; i < w.size(); ++i) buf.push_back(atof(w[i].c_str()));
        uIndex start = vars[k]->gradient_index();
        buf.push_back(0.0);
        st->set_gradients(start, start + (uIndex)(buf.size() - 1), buf.data());
        std::cout << "ok\n";
      } else if (w[0] == "fwd") { st->forward(); std::cout << "ok\n"; }
      else if (w[0] == "rev") { st->reverse(); std::cout << "ok\n"; }
      else if (w[0] == "jac" && w.size() == 6 && w[2] == "ptr") {
        long nc = atol(w[5].c_str());
        std::vector<double> buf(nc > 0 ? nc : 1, -777.0);
        call_jac(w[1], buf.data(), atoi(w[3].c_str()), atoi(w[4].c_str()));
        std::cout << "P";
        for (long i = 0; i < nc; ++i) std::cout << " " << num(buf[i]);
        if (nc == 0) std::cout << " ";
        std::cout << "\n";
      } else if (w[0] == "jac" && w.size() == 3 && w[2] == "mat") {
        Matrix J;
        if (w[1] == "auto") J >>= st->jacobian(); else if (w[1] == "fwd") J >>= st->jacobian_forward(); else J >>= st->jacobian_reverse();
        print_mat(J);
      } else if (w[0] == "jac" && w.size() == 6 && w[2] == "matarg") {
        Index r = atoi(w[4].c_str()), c = atoi(w[5].c_str());
        const std::string& kind = w[3];
        if (kind == "row") { Matrix J(r, c); J = -777.0; call_jac(w[1], J); print_mat(J); }
        else if (kind == "col") {
          Matrix J; J.resize_column_major(dimensions(r, c)); J = -777.0; call_jac(w[1], J); print_mat(J);
        } else if (kind == "transposed") {
          Matrix P(c, r); P = -777.0; Matrix J; J >>= P.T(); call_jac(w[1], J); print_mat(J);
        } else if (kind == "strided") {
          Matrix P(2 * r + 1, 2 * c + 1); P = -777.0;
          Matrix J; J >>= P(stride(1, 2 * r - 1, 2), stride(1, 2 * c - 1, 2));
          call_jac(w[1], J);
          bool stray = false;
          for (Index i = 0; i < 2 * r + 1; ++i) for (Index j = 0; j < 2 * c + 1; ++j)
            if (!((i % 2 == 1) && (j % 2 == 1)) && P(i, j) != -777.0) stray = true;
          if (stray) std::cout << "STRAY-WRITE ";
          print_mat(J);
        } else std::cout << "bad-op\n";
      } else if (w[0] == "threads" && w.size() == 2) {
        std::cout << "ok " << st->set_max_jacobian_threads(atoi(w[1].c_str())) << "\n";
      } else if (w[0] == "ompstat") {
        // hook H3: blocks processed per OpenMP thread id since the last call (harness-only information)
        std::cout << "O";
#ifdef RJHOGAN_ADEPT_2_VERIF
        for (int i = 0; i < 256; ++i) { if (adept::verif_omp_blocks_[i]) std::cout << " " << i << ":" << adept::verif_omp_blocks_[i]; adept::verif_omp_blocks_[i] = 0; }
#endif
        std::cout << "\n";
      } else if (w[0] == "hex" && w.size() == 2) { hex_mode = w[1] != "0"; std::cout << "ok\n"; }
      else if (w[0] == "ev") {
#ifdef RJHOGAN_ADEPT_2_VERIF
        std::cout << verif::EventLog::take(*st) << "\n";
#else
        std::cout << "E\n";
#endif
      } else if (w[0] == "tape") print_tape();
      else if (w[0] == "val" && w.size() == 2) {
        long k = atol(w[1].c_str());
        if (!vars.count(k)) { std::cout << "EXC unknown_handle\n"; continue; }
        std::cout << "v " << num(vars[k]->value()) << "\n";
      } else if (w[0] == "state") std::cout << st->alloc_line(0, false) << "\n";
      else if (w[0] == "stack2") {
        // C11: constructing a second (activating) Stack while one is active in this thread must throw
        // stack_already_active and leave the first one active
        adept::Stack* s2 = 0;
        try {
          s2 = new adept::Stack();
          std::cout << "ok second-stack-constructed active-is-first=" << (adept::active_stack() == st ? 1 : 0) << "\n";
        } catch (const stack_already_active&) {
          std::cout << "EXC stack_already_active" << (adept::active_stack() == st ? "" : " first-stack-no-longer-active") << "\n";
        }
        delete s2;
        if (adept::active_stack() != st) st->activate();   // keep the session going after a reported failure
      } else if (w[0] == "deact") { st->deactivate(); std::cout << "ok " << (adept::active_stack() == 0 ? 0 : 1) << "\n"; }
      else if (w[0] == "act") { st->activate(); std::cout << "ok " << (adept::active_stack() == st ? 1 : 0) << "\n"; }
      else std::cout << "bad-op\n";
    } catch (const std::exception& e) {
      std::cout << "EXC " << excname(e) << "\n";
    }
  }
  cleanup();
  return 0;
}
