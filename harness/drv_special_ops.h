// Shared body of the special-matrix correspondence driver (property C17): helper functions and the per-engine
// operation table `Ops<E>`.  Included by drv_special.cpp (main, dispatch) and by drv_special_g<k>.cpp, each of which
// instantiates `Ops<E>` for one pair of engines (an engine and its transpose_engine) so that the translation units compile in
// parallel.  See the header comment of drv_special.cpp for the line protocol.
#ifndef VERIF_DRV_SPECIAL_OPS_H
#define VERIF_DRV_SPECIAL_OPS_H
#include "spy.h"
#include <type_traits>
#include <utility>
#include <cmath>
using namespace adept;
using namespace adept::internal;

static inline std::string num(double v) {
  char buf[64];
  if (v == std::floor(v) && std::fabs(v) < 1e15) snprintf(buf, sizeof buf, "%lld", (long long)v);
  else snprintf(buf, sizeof buf, "%.17g", v);
  return buf;
}

template <class E> struct passive_lvalue_ok {
  typedef decltype(std::declval<E&>().template get_reference<false, Real>(0, 0, 0, 0, 0, (Real*)0)) R;
  static const bool value = std::is_same<R, Real&>::value;
};

struct RefSpy : public ActiveReference<Real> {   // ActiveReference::lvalue() is protected
  RefSpy(const ActiveReference<Real>& r) : ActiveReference<Real>(r) {}
  Real* addr() { return &lvalue(); }
};

template <class SM> static Index raw_size(const SM& M) {
  const Real *b, *e;
  M.data_range(b, e);
  return (Index)(e - b) + 1;
}
template <class SM> static void fill_raw(SM& M, double base, double step) {
  Index sz = raw_size(M);
  for (Index k = 0; k < sz; ++k) M.data()[k] = base + step * k;
}
template <class SM> static std::vector<double> view(const SM& M) {
  Index n = M.dimension();
  std::vector<double> v;
  for (Index i = 0; i < n; ++i) for (Index j = 0; j < n; ++j) v.push_back(M(i, j));
  return v;
}
template <class SM> static std::vector<double> raw(const SM& M) {
  Index sz = raw_size(M);
  return std::vector<double>(M.data(), M.data() + sz);
}
static std::string list(const std::vector<double>& v) {
  std::string s;
  for (size_t k = 0; k < v.size(); ++k) { if (k) s += ","; s += num(v[k]); }
  return s.empty() ? "-" : s;
}
static std::string mat(const Matrix& D) {
  std::vector<double> v;
  for (Index i = 0; i < D.dimension(0); ++i) for (Index j = 0; j < D.dimension(1); ++j) v.push_back(D(i, j));
  return list(v);
}
static std::string changes(const std::vector<double>& v0, const std::vector<double>& v1, Index n,
                           const std::vector<double>& r0, const std::vector<double>& r1) {
  std::ostringstream os;
  os << "chg=";
  bool first = true;
  for (size_t k = 0; k < v0.size(); ++k)
    if (v0[k] != v1[k]) { os << (first ? "" : ",") << k / n << ":" << k % n << ":" << num(v1[k]); first = false; }
  if (first) os << "-";
  os << " raw=";
  first = true;
  for (size_t k = 0; k < r0.size(); ++k)
    if (r0[k] != r1[k]) { os << (first ? "" : ",") << k << ":" << num(r1[k]); first = false; }
  if (first) os << "-";
  return os.str();
}

// ---- element lvalue access, passive (only where it compiles) and active
template <class SM, bool OK> struct PassiveLv {
  static bool ptr(SM& M, Index i, Index j, long& off) {
    try { Real& r = M(i, j); off = &r - M.data(); return true; } catch (const index_out_of_bounds&) { return false; }
  }
  static bool write(SM& M, Index i, Index j, double v) {
    try { M(i, j) = v; return true; } catch (const index_out_of_bounds&) { return false; }
  }
};
template <class SM> struct PassiveLv<SM, false> {
  static bool ptr(SM&, Index, Index, long& off) { off = -999999; return true; }
  static bool write(SM&, Index, Index, double) { return false; }
};


// ---- the process-wide recording stack (defined in drv_special.cpp)
extern verif::SpyStack* g_stack;

// ---- compound operators on a view V with a source view Y of the same type
template <class VT> struct Cmp {
  static std::string go(VT& V, VT& Y, const std::string& op, const std::string& form, int& al) {
    const Real *pb, *pe;
    V.data_range(pb, pe);
    Index m = V.dimension();
    bool dv = (op == "div");
    static const double P3[3] = {1.0, 2.0, 4.0};
#define VERIF_CMP(EXPR) do { al = (EXPR).is_aliased(pb, pe) ? 1 : 0; \
      if (op == "add") V += (EXPR); else if (op == "sub") V -= (EXPR); else if (op == "mul") V *= (EXPR); else V /= (EXPR); } while (0)
    if (form == "cp") VERIF_CMP(Y);
    else if (form == "k2") VERIF_CMP(2.0 * Y);
    else if (form == "T") VERIF_CMP(Y.T());
    else if (form == "mixT") VERIF_CMP(2.0 * Y + Y.T());
    else if (form == "D") {
      Matrix Dn(m, m);
      for (Index i = 0; i < m; ++i) for (Index j = 0; j < m; ++j) Dn(i, j) = dv ? P3[(i + 2 * j) % 3] : 100.0 * i + j + 1;
      VERIF_CMP(Dn);
    }
    else if (form == "c") {
      al = 0;
      if (op == "add") V += 2.0; else if (op == "sub") V -= 2.0; else if (op == "mul") V *= 2.0; else V /= 2.0;
    }
    else return "bad-op";
#undef VERIF_CMP
    return "";
  }
};

// ---- assignments to an active view AV (BV: the same view of a second active matrix), tape dumped relative to the
//      gradient indices of A's and B's storage and of the active scalar x
struct TapeRef { Index gA, szA, gB, szB, gx; };
static inline std::string tape_name(long g, const TapeRef& r) {
  std::ostringstream os;
  if (g == r.gx) os << "x";
  else if (g >= r.gA && g < r.gA + r.szA) os << "a" << (g - r.gA);
  else if (g >= r.gB && g < r.gB + r.szB) os << "b" << (g - r.gB);
  else os << "?" << g;
  return os.str();
}
static inline std::string tape_dump(verif::SpyStack* st, uIndex s0, const TapeRef& r) {
  std::ostringstream os;
  uIndex n = st->n_statements();
  for (uIndex s = s0; s < n; ++s) {
    if (s > s0) os << ";";
    os << tape_name((long)st->st_index(s), r) << ":";
    uIndex o0 = s == 0 ? 0 : st->st_end(s - 1), o1 = st->st_end(s);
    for (uIndex o = o0; o < o1; ++o) os << (o > o0 ? "+" : "") << num(st->op_mult(o)) << "*" << tape_name((long)st->op_index(o), r);
  }
  std::string t = os.str();
  return t.empty() ? "-" : t;
}
template <class AVT> struct Act {
  static std::string go(AVT& AV, AVT& BV, const std::string& kind, const adouble& x, const TapeRef& r) {
    uIndex s0 = g_stack->n_statements();
    if (kind == "x") AV = x;
    else if (kind == "c") AV = 5.0;
    else if (kind == "cp") AV = BV;
    else if (kind == "k2") AV = 2.0 * BV;
    else if (kind == "T") AV = BV.T();
    else if (kind == "mixT") AV = 2.0 * BV + BV.T();
    else return "bad-op";
    return tape_dump(g_stack, s0, r);
  }
};

template <class E> struct Ops {
  typedef SpecialMatrix<Real, E, false> SM;
  typedef SpecialMatrix<Real, E, true> ASM;
  typedef SpecialMatrix<Real, typename E::transpose_engine, false> TSM;
  typedef SpecialMatrix<Real, typename E::transpose_engine, true> ATSM;
  static const bool LV = passive_lvalue_ok<E>::value;

  static std::string run(const std::vector<std::string>& w) {
    const std::string& op = w[0];
    Index n = atoi(w[4].c_str());
    if (n < 1 || n > 64) return "bad-op";
    size_t na = w.size() - 5;
    std::ostringstream os;
    if (op == "caps" && na == 0) { os << "lvalue=" << (LV ? 1 : 0); return os.str(); }
    if (op == "cmp" && na == 8) return run_cmp(w, n);
    if (op == "act" && na == 4) return run_act(w, n);
    SM M(n); fill_raw(M, 1, 1);
    if (op == "info" && na == 0) {
      os << "offset=" << M.offset() << " size=" << raw_size(M) << " contiguous=" << (M.is_contiguous() ? 1 : 0);
      return os.str();
    }
    if (op == "get" && na == 0) return list(view(M));
    if (op == "ptr" && na == 1 && (w[5] == "p" || w[5] == "a")) {
      bool act = w[5] == "a";
      if (!act && !LV) return "unsupported";
      ASM A;
      if (act) { A.resize(n); }
      for (Index i = 0; i < n; ++i) for (Index j = 0; j < n; ++j) {
        if (i || j) os << ",";
        if (!act) {
          long off;
          if (PassiveLv<SM, LV>::ptr(M, i, j, off)) os << off; else os << "z";
        } else {
          try {
            RefSpy r(A(i, j));
            long off = r.addr() - A.data();
            long goff = (long)r.gradient_index() - (long)A.gradient_index();
            if (off != goff) os << off << "!" << goff; else os << off;
          } catch (const index_out_of_bounds&) { os << "z"; }
        }
      }
      return os.str();
    }
    if (op == "wr" && na == 3 && (w[5] == "p" || w[5] == "a")) {
      bool act = w[5] == "a";
      Index i = atoi(w[6].c_str()), j = atoi(w[7].c_str());
      if (i < 0 || j < 0 || i >= n || j >= n) return "bad-op";
      if (!act) {
        if (!LV) return "unsupported";
        std::vector<double> v0 = view(M), r0 = raw(M);
        if (!PassiveLv<SM, LV>::write(M, i, j, 1000.0)) return "oob";
        return changes(v0, view(M), n, r0, raw(M));
      } else {
        ASM A(n); fill_raw(A, 1, 1);
        SM P(A.data(), n);   // passive view of the same storage (A.inactive_link() does not compile: protected members)
        std::vector<double> v0 = view(P), r0 = raw(P);
        try { A(i, j) = 1000.0; } catch (const index_out_of_bounds&) { return "oob"; }
        return changes(v0, view(P), n, r0, raw(P));
      }
    }
    if (op == "dense" && na == 0) { Matrix D(M); return mat(D); }
    if (op == "fromdense" && na == 1 && (w[5] == "s" || w[5] == "a")) {
      Matrix D(n, n);
      for (Index i = 0; i < n; ++i) for (Index j = 0; j < n; ++j)
        D(i, j) = w[5] == "s" ? 100.0 * std::min(i, j) + std::max(i, j) + 1 : 100.0 * i + j + 1;
      SM S(n); fill_raw(S, -1, 0);
      S = D;
      os << "raw=" << list(raw(S)) << " view=" << list(view(S));
      return os.str();
    }
    if (op == "scalar" && na == 0) {
      SM S(n); fill_raw(S, -1, 0);
      S = 5.0;
      os << "raw=" << list(raw(S)) << " view=" << list(view(S));
      return os.str();
    }
    if (op == "T" && na == 0) {
      Matrix D(M.T());
      const TSM Tm = M.T();
      Matrix D2(M.T().T());
      os << "conv=" << mat(D) << " get=" << list(view(Tm)) << " convTT=" << mat(D2);
      return os.str();
    }
    if (op == "diag" && na == 1) {
      Index k = atoi(w[5].c_str());
      if (k <= -n || k >= n) return "bad-op";
      try {
        Vector d = M.diag_vector(k);
        std::vector<double> v;
        for (Index t = 0; t < d.size(); ++t) v.push_back(d(t));
        return list(v);
      } catch (const index_out_of_bounds&) { return "oob"; }
    }
    if (op == "wrdiag" && na == 2) {
      Index k = atoi(w[5].c_str()), t = atoi(w[6].c_str());
      Index len = n - (k < 0 ? -k : k);
      if (k <= -n || k >= n || t < 0 || t >= len) return "bad-op";
      std::vector<double> v0 = view(M), r0 = raw(M);
      try { Vector d = M.diag_vector(k); d(t) = 1000.0; } catch (const index_out_of_bounds&) { return "oob"; }
      return changes(v0, view(M), n, r0, raw(M));
    }
    if (op == "sub" && na == 2) {
      Index a = atoi(w[5].c_str()), b = atoi(w[6].c_str());
      try {
        SM X0 = M.submatrix_on_diagonal(a, b);
        const SM X(X0);
        Matrix D(X);
        Matrix Dt(X0.T());
        os << "get=" << list(view(X)) << " conv=" << mat(D) << " convT=" << mat(Dt);
        return os.str();
      } catch (const index_out_of_bounds&) { return "oob"; }
    }
    if (op == "sinfo" || op == "sdiag" || op == "sTdiag" || op == "swrdiag" || op == "swr" || op == "sT" || op == "ssub" ||
        op == "sassign") {
      if (na < 2) return "bad-op";
      Index a = atoi(w[5].c_str()), b = atoi(w[6].c_str());
      try {
        if (op == "swr" && na == 5 && w[7] == "a") {
          Index i = atoi(w[8].c_str()), j = atoi(w[9].c_str());
          ASM A(n); fill_raw(A, 1, 1);
          SM P(A.data(), n);
          ASM XA = A.submatrix_on_diagonal(a, b);
          if (i < 0 || j < 0 || i >= XA.dimension() || j >= XA.dimension()) return "bad-op";
          std::vector<double> v0 = view(P), r0 = raw(P);
          XA(i, j) = 1000.0;
          return changes(v0, view(P), n, r0, raw(P));
        }
        SM X = M.submatrix_on_diagonal(a, b);
        Index m = X.dimension();
        if (op == "sinfo" && na == 2) {
          os << "offset=" << X.offset() << " size=" << raw_size(X) << " contiguous=" << (X.is_contiguous() ? 1 : 0);
          return os.str();
        }
        if ((op == "sdiag" || op == "sTdiag") && na == 3) {
          Index k = atoi(w[7].c_str());
          if (k <= -m || k >= m) return "bad-op";
          std::vector<double> v;
          if (op == "sdiag") { Vector d = X.diag_vector(k); for (Index t = 0; t < d.size(); ++t) v.push_back(d(t)); }
          else { TSM Xt = X.T(); Vector d = Xt.diag_vector(k); for (Index t = 0; t < d.size(); ++t) v.push_back(d(t)); }
          return list(v);
        }
        if (op == "swrdiag" && na == 4) {
          Index k = atoi(w[7].c_str()), t = atoi(w[8].c_str());
          Index len = m - (k < 0 ? -k : k);
          if (k <= -m || k >= m || t < 0 || t >= len) return "bad-op";
          std::vector<double> v0 = view(M), r0 = raw(M);
          Vector d = X.diag_vector(k);
          d(t) = 1000.0;
          return changes(v0, view(M), n, r0, raw(M));
        }
        if (op == "swr" && na == 5 && w[7] == "p") {
          Index i = atoi(w[8].c_str()), j = atoi(w[9].c_str());
          if (i < 0 || j < 0 || i >= m || j >= m) return "bad-op";
          if (!LV) return "unsupported";
          std::vector<double> v0 = view(M), r0 = raw(M);
          if (!PassiveLv<SM, LV>::write(X, i, j, 1000.0)) return "oob";
          return changes(v0, view(M), n, r0, raw(M));
        }
        if (op == "sT" && na == 2) {
          Matrix D(X.T());
          const TSM Tm = X.T();
          Matrix D2(X.T().T());
          os << "conv=" << mat(D) << " get=" << list(view(Tm)) << " convTT=" << mat(D2);
          return os.str();
        }
        if (op == "ssub" && na == 4) {
          Index a2 = atoi(w[7].c_str()), b2 = atoi(w[8].c_str());
          SM Y0 = X.submatrix_on_diagonal(a2, b2);
          const SM Y(Y0);
          Matrix D(Y);
          Matrix Dt(Y0.T());
          os << "get=" << list(view(Y)) << " conv=" << mat(D) << " convT=" << mat(Dt);
          return os.str();
        }
        if (op == "sassign" && na == 2) {
          SM N2(n); fill_raw(N2, 1001, 1);
          SM S(n); fill_raw(S, -1, 0);
          S.submatrix_on_diagonal(a, b) = M.submatrix_on_diagonal(a, b) * 2.0 + N2.submatrix_on_diagonal(a, b).T();
          os << "raw=" << list(raw(S)) << " view=" << list(view(S));
          return os.str();
        }
        return "bad-op";
      }
      catch (const index_out_of_bounds&) { return "oob"; }
    }
    if (op == "selfsub" && na == 5) {
      Index a = atoi(w[5].c_str()), b = atoi(w[6].c_str()), c = atoi(w[7].c_str()), d = atoi(w[8].c_str());
      const std::string& f = w[9];
      if (f != "k2" && f != "cp" && f != "sum" && f != "T" && f != "mixT") return "bad-op";
      try {
        SM X = M.submatrix_on_diagonal(a, b);
        SM Y = M.submatrix_on_diagonal(c, d);
        Matrix D(M);
        const Real *pb, *pe;
        X.data_range(pb, pe);
        int al;
        if (f == "k2") {
          al = (2.0 * Y).is_aliased(pb, pe);
          M.submatrix_on_diagonal(a, b) = 2.0 * M.submatrix_on_diagonal(c, d);
          D(range(a, b), range(a, b)) = 2.0 * D(range(c, d), range(c, d));
        } else if (f == "cp") {
          al = Y.is_aliased(pb, pe);
          M.submatrix_on_diagonal(a, b) = M.submatrix_on_diagonal(c, d);
          D(range(a, b), range(a, b)) = D(range(c, d), range(c, d));
        } else if (f == "sum") {
          al = (2.0 * Y + Y).is_aliased(pb, pe);
          M.submatrix_on_diagonal(a, b) = 2.0 * M.submatrix_on_diagonal(c, d) + M.submatrix_on_diagonal(c, d);
          D(range(a, b), range(a, b)) = 2.0 * D(range(c, d), range(c, d)) + D(range(c, d), range(c, d));
        } else if (f == "T") {
          al = Y.T().is_aliased(pb, pe);
          M.submatrix_on_diagonal(a, b) = M.submatrix_on_diagonal(c, d).T();
          D(range(a, b), range(a, b)) = D(range(c, d), range(c, d)).T();
        } else {
          al = (2.0 * Y + Y.T()).is_aliased(pb, pe);
          M.submatrix_on_diagonal(a, b) = 2.0 * M.submatrix_on_diagonal(c, d) + M.submatrix_on_diagonal(c, d).T();
          D(range(a, b), range(a, b)) = 2.0 * D(range(c, d), range(c, d)) + D(range(c, d), range(c, d)).T();
        }
        os << "alias=" << al << " raw=" << list(raw(M)) << " view=" << list(view(M)) << " dense=" << mat(D);
        return os.str();
      }
      catch (const index_out_of_bounds&) { return "oob"; }
      catch (const size_mismatch&) { return "mismatch"; }
    }
    if ((op == "selfT" || op == "selfexpr") && na == 0) {
      Matrix D(M);
      const Real *pb, *pe;
      M.data_range(pb, pe);
      int al;
      if (op == "selfT") { al = M.T().is_aliased(pb, pe); M = M.T(); D = D.T(); }
      else { al = (2.0 * M + M).is_aliased(pb, pe); M = 2.0 * M + M; D = 2.0 * D + D; }
      os << "alias=" << al << " raw=" << list(raw(M)) << " view=" << list(view(M)) << " dense=" << mat(D);
      return os.str();
    }
    if (op == "selfdiag" && na == 3) {
      Index k = atoi(w[5].c_str()), k2 = atoi(w[6].c_str());
      const std::string& f = w[7];
      if (k <= -n || k >= n || k2 <= -n || k2 >= n) return "bad-op";
      if (f != "k2" && f != "cp" && f != "sum" && f != "rev") return "bad-op";
      try {
        Vector v = M.diag_vector(k);
        Vector u = M.diag_vector(k2);
        Matrix D(M);
        const Real *pb, *pe;
        v.data_range(pb, pe);
        Index len = u.size();
        int al;
        if (f == "k2") {
          al = (2.0 * u).is_aliased(pb, pe);
          M.diag_vector(k) = 2.0 * M.diag_vector(k2);
          D.diag_vector(k) = 2.0 * D.diag_vector(k2);
        } else if (f == "cp") {
          al = u.is_aliased(pb, pe);
          M.diag_vector(k) = M.diag_vector(k2);
          D.diag_vector(k) = D.diag_vector(k2);
        } else if (f == "sum") {
          al = (2.0 * u + u).is_aliased(pb, pe);
          M.diag_vector(k) = 2.0 * M.diag_vector(k2) + M.diag_vector(k2);
          D.diag_vector(k) = 2.0 * D.diag_vector(k2) + D.diag_vector(k2);
        } else {
          al = (2.0 * u(stride(len - 1, 0, -1))).is_aliased(pb, pe);
          M.diag_vector(k) = 2.0 * M.diag_vector(k2)(stride(len - 1, 0, -1));
          D.diag_vector(k) = 2.0 * D.diag_vector(k2)(stride(len - 1, 0, -1));
        }
        os << "alias=" << al << " raw=" << list(raw(M)) << " view=" << list(view(M)) << " dense=" << mat(D);
        return os.str();
      }
      catch (const index_out_of_bounds&) { return "oob"; }
      catch (const size_mismatch&) { return "mismatch"; }
    }
    SM N(n); fill_raw(N, 1001, 1);
    if (op == "expr" && na == 0) { Matrix R; R = M * 2.0 + N; return mat(R); }
    if (op == "exprT" && na == 0) { Matrix R; R = M * 2.0 + N.T(); return mat(R); }
    if (op == "assign" && na == 0) {
      SM S(n); fill_raw(S, -1, 0);
      S = M * 2.0 + N;
      os << "raw=" << list(raw(S)) << " view=" << list(view(S));
      return os.str();
    }
    if (op == "assignT" && na == 0) {
      SM S(n); fill_raw(S, -1, 0);
      S = M * 2.0 + N.T();
      os << "raw=" << list(raw(S)) << " view=" << list(view(S));
      return os.str();
    }
    return "bad-op";
  }

  static std::string run_cmp(const std::vector<std::string>& w, Index n) {
    const std::string &tv = w[5], &op = w[8], &form = w[9], &src = w[10];
    Index a = atoi(w[6].c_str()), b = atoi(w[7].c_str()), c = atoi(w[11].c_str()), d = atoi(w[12].c_str());
    if ((tv != "v" && tv != "t") || (op != "add" && op != "sub" && op != "mul" && op != "div")) return "bad-op";
    bool leaf = (form == "cp" || form == "k2" || form == "T" || form == "mixT");
    if (!leaf && !((form == "c" || form == "D") && src == "-" && c == 0 && d == 0)) return "bad-op";
    if (leaf && src != "m" && src != "n") return "bad-op";
    bool dv = (op == "div");
    SM M(n), N(n);
    Index sz = raw_size(M);
    static const double P3[3] = {1.0, 2.0, 4.0};
    for (Index k = 0; k < sz; ++k) { M.data()[k] = dv ? 8.0 * (k + 1) : k + 1.0; N.data()[k] = dv ? P3[k % 3] : 1001.0 + k; }
    int al = 0;
    std::string r;
    try {
      SM X = M.submatrix_on_diagonal(a, b);
      SM Y0 = leaf ? (src == "m" ? M : N).submatrix_on_diagonal(c, d) : M.submatrix_on_diagonal(a, b);
      if (tv == "v") r = Cmp<SM>::go(X, Y0, op, form, al);
      else { TSM V = X.T(); TSM Y = Y0.T(); r = Cmp<TSM>::go(V, Y, op, form, al); }
    }
    catch (const index_out_of_bounds&) { return "oob"; }
    catch (const size_mismatch&) { return "mismatch"; }
    if (!r.empty()) return r;
    std::ostringstream os;
    os << "alias=" << al << " raw=" << list(raw(M)) << " view=" << list(view(M));
    return os.str();
  }

  static std::string run_act(const std::vector<std::string>& w, Index n) {
    const std::string &tv = w[5], &kind = w[8];
    Index a = atoi(w[6].c_str()), b = atoi(w[7].c_str());
    if (tv != "v" && tv != "t") return "bad-op";
    ASM A(n), B(n);
    fill_raw(A, 1, 1); fill_raw(B, 1001, 1);
    SM P(A.data(), n);
    adouble x = 7.0;
    TapeRef ref;
    ref.gA = A.gradient_index(); ref.szA = raw_size(A); ref.gB = B.gradient_index(); ref.szB = raw_size(B);
    ref.gx = x.gradient_index();
    std::string t;
    try {
      ASM AX = A.submatrix_on_diagonal(a, b);
      ASM BX = B.submatrix_on_diagonal(a, b);
      if (tv == "v") t = Act<ASM>::go(AX, BX, kind, x, ref);
      else { ATSM AV = AX.T(); ATSM BV = BX.T(); t = Act<ATSM>::go(AV, BV, kind, x, ref); }
    }
    catch (const index_out_of_bounds&) { return "oob"; }
    catch (const size_mismatch&) { return "mismatch"; }
    if (t == "bad-op") return t;
    std::ostringstream os;
    os << "raw=" << list(raw(P)) << " view=" << list(view(P)) << " tape=" << t;
    return os.str();
  }
};


// ---- engine groups (each closed under transpose_engine); VERIF_GROUP selects the one this translation unit instantiates
#ifdef VERIF_GROUP
#define VERIF_TRY(NAME, LL, UU, TYPE) if (e == NAME && L == LL && U == UU) return Ops<TYPE >::run(w);
#define VERIF_BANDPAIR(LL, UU) VERIF_TRY("BandEngine_ROW_MAJOR", LL, UU, BandEngine<ROW_MAJOR VERIF_COMMA LL VERIF_COMMA UU>) \
                               VERIF_TRY("BandEngine_COL_MAJOR", UU, LL, BandEngine<COL_MAJOR VERIF_COMMA UU VERIF_COMMA LL>)
#define VERIF_COMMA ,
#define VERIF_CAT2(a, b) a##b
#define VERIF_CAT(a, b) VERIF_CAT2(a, b)
std::string VERIF_CAT(verif_special_group_, VERIF_GROUP)(const std::vector<std::string>& w) {
  const std::string& e = w[1];
  int L = atoi(w[2].c_str()), U = atoi(w[3].c_str());
#if VERIF_GROUP == 1
  VERIF_TRY("SquareEngine_ROW_MAJOR", 0, 0, SquareEngine<ROW_MAJOR>) VERIF_TRY("SquareEngine_COL_MAJOR", 0, 0, SquareEngine<COL_MAJOR>)
#elif VERIF_GROUP == 2
  VERIF_TRY("SymmEngine_ROW_LOWER_COL_UPPER", 0, 0, SymmEngine<ROW_LOWER_COL_UPPER>)
  VERIF_TRY("SymmEngine_ROW_UPPER_COL_LOWER", 0, 0, SymmEngine<ROW_UPPER_COL_LOWER>)
#elif VERIF_GROUP == 3
  VERIF_TRY("LowerEngine_ROW_MAJOR", 0, 0, LowerEngine<ROW_MAJOR>) VERIF_TRY("UpperEngine_COL_MAJOR", 0, 0, UpperEngine<COL_MAJOR>)
#elif VERIF_GROUP == 4
  VERIF_TRY("LowerEngine_COL_MAJOR", 0, 0, LowerEngine<COL_MAJOR>) VERIF_TRY("UpperEngine_ROW_MAJOR", 0, 0, UpperEngine<ROW_MAJOR>)
#elif VERIF_GROUP == 5
  VERIF_BANDPAIR(0, 0)
#elif VERIF_GROUP == 6
  VERIF_BANDPAIR(1, 1)
#elif VERIF_GROUP == 7
  VERIF_BANDPAIR(2, 2)
#elif VERIF_GROUP == 8
  VERIF_BANDPAIR(4, 4)
#elif VERIF_GROUP == 9
  VERIF_BANDPAIR(0, 2)
#elif VERIF_GROUP == 10
  VERIF_BANDPAIR(2, 0)
#elif VERIF_GROUP == 11
  VERIF_BANDPAIR(3, 1)
#elif VERIF_GROUP == 12
  VERIF_BANDPAIR(1, 3)
#endif
  return "";
}
#endif

#endif
