// drv_matmul: row-major asymmetric band matrices (see drv_matmul.h)
#include "drv_matmul.h"
namespace mm {
bool build_group_s5(const Spec& s, XVisitor& v) {
  S_GROUP_HEAD
  S_P("b20", BandEngine<ROW_MAJOR MM_COMMA 2 MM_COMMA 0>, 0) S_P("b02", BandEngine<ROW_MAJOR MM_COMMA 0 MM_COMMA 2>, 0)
  S_PA("b12", BandEngine<ROW_MAJOR MM_COMMA 1 MM_COMMA 2>, 1, 0)
  return false;
}
}
