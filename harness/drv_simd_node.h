// Statements whose right-hand side contains expression nodes that are NOT plain element-wise packet operations (C05 driver):
// spread<d>, outer_product, operations without a packet form (pow, abs, comparisons, isnan, mixed element types), integer-vector-
// indexed operands, transposed operands, dimension reductions nested in an expression, scalar broadcast, where / either_or.
// Instantiated per element type in drv_simd_node_{f,d}.cpp.
//
//   nod1 <T> <kind> <n> <t> <k1> <k2>                     rank-1 statement on unit-stride sub-views (alignment offsets t, k1, k2)
//   nod2 <T> <kind> <m> <n> <tk>,<tP> <k1>,<s1> <k2>,<s2>  rank-2 statement, target as in asg2; u = m elements at offset k1 stride s1
//                                                         of one buffer, v = n elements at offset k2 stride s2 of another
//   nod3 <T> <kind> <d0> <d1> <n> <kt>                    rank-3 statement: spread of a fresh matrix along dimension 0, 1, 2
//   nodr <T> <func> <kind> <m> <n> <k1>,<s1> <k2>,<s2>     whole-array reduction of such an expression
//
// The model token of every node is the DRIVER's statement of what the node is (it never asks the library for its trait):
//   U e / B l r   element-wise node whose operation has a packet form        UN e / BN l r   ... has no packet form
//   SP0 A / SPL A spread along a dimension that is not / is the last one     O A A           outer_product
//   X             a leaf that keeps Expression's fall-back trait (IndexedArray)
//   whr           a where() assignment (Array::assign_conditional_: no packet loop at all)
#ifndef VERIF_DRV_SIMD_NODE_H
#define VERIF_DRV_SIMD_NODE_H
#include "drv_simd_logic.h"

template <typename T> struct other_type;
template <> struct other_type<float> { typedef double type; };
template <> struct other_type<double> { typedef float type; };

// a temporary Array created inside an expression (result of a dimension reduction): not observable from here; fresh storage is
// allocated on a packet boundary (Storage<Type>: alloc_aligned), which is what this token asserts
static const char* TEMP_TOKEN = "A:0:1:-";

static const int N1KINDS = 13;
static const char* nod1_expr(int kind) {
  switch (kind) {
  case 0: return "BN %a %b";          // pow(a, b)
  case 1: return "UN %a";             // pow(a, 2)
  case 2: return "UN B %a %b";        // abs(a - b)
  case 3: return "B %a UN %b";        // a + abs(b)
  case 4: return "BN %a %b";          // a < b              (bool-valued right-hand side)
  case 5: return "BN %a %b";          // a' + b             (a' of the other floating-point type)
  case 6: return "B X %b";            // a(iv) + b          (IndexedArray)
  case 7: return "B %a %c";           // a + sum(M, 0)      (%c = temporary)
  case 8: return "whr";               // tg.where(a > b) = either_or(a, b)
  case 9: return "whr";               // tg.where(a > b) = a + b
  case 10: return "U U %a";           // 2*a + 1            (scalar broadcast, twice)
  case 11: return "UN %a";            // isnan(a)
  case 12: return "B U %a UN %b";     // -a + pow(2, b)     (BinaryOpScalarLeft without packet form)
  }
  return 0;
}
template <typename T> static T nod1_value(int kind, T x, T y, T colsum) {
  switch (kind) {
  case 0: return std::pow(x, y);
  case 1: return std::pow(x, T(2));
  case 2: return std::abs(x - y);
  case 3: return x + std::abs(y);
  case 4: return T(x < y);
  case 5: return x + y;
  case 6: return x + y;
  case 7: return x + colsum;
  case 8: return x > y ? x : y;
  case 9: return x > y ? x + y : T(SENT);
  case 10: return T(2) * x + T(1);
  case 11: return T(0);
  case 12: return -x + std::pow(T(2), y);
  }
  return T(0);
}

template <typename T> static std::string nod1(const Words& w) {
  typedef typename other_type<T>::type U;
  if (w.size() != 7) return "bad-op";
  int kind = atoi(w[2].c_str()); long n = atol(w[3].c_str()), t = atol(w[4].c_str()), k1 = atol(w[5].c_str()), k2 = atol(w[6].c_str());
  const char* pat = nod1_expr(kind);
  if (!pat || kind < 0 || n < 0 || n > 300 || t < 0 || t > 64 || k1 < 0 || k1 > 64 || k2 < 0 || k2 > 64) return "bad-op";
  Bufs<T>& B = Bufs<T>::get();
  Bufs<U>& BU = Bufs<U>::get();
  for (int i = 0; i < L1; ++i) B.bt.data()[i] = T(SENT);
  Array<1, T> tg = view1(B.bt, t, 1, n), a = view1(B.ba, k1, 1, n), b = view1(B.bb, k2, 1, n);
  Array<1, U> au = view1(BU.ba, k1, 1, n);
  IntVector iv;
  if (n > 0) { iv.resize(n); for (long j = 0; j < n; ++j) iv(j) = (int)(n - 1 - j); }
  Array<2, T> M;
  if (kind == 7 && n > 0) { M.resize(3, n); for (int i = 0; i < 3; ++i) for (long j = 0; j < n; ++j) M(i, j) = vc<T>(i * 31 + j); }
  std::ostringstream g;
  if (std::string(pat) == "whr") g << "G whr " << internal::Packet<T>::size;
  else g << "G asg " << internal::Packet<T>::size << " " << target_token(tg) << " "
         << subst(pat, kind == 5 ? leaf_token(au) : leaf_token(a), leaf_token(b), TEMP_TOKEN);
  std::string status;
  hook_reset();
  if (n > 0 || (kind != 6 && kind != 7)) {
    switch (kind) {
    case 0: GUARDED(tg = pow(a, b), status); break;
    case 1: GUARDED(tg = pow(a, T(2)), status); break;
    case 2: GUARDED(tg = abs(a - b), status); break;
    case 3: GUARDED(tg = a + abs(b), status); break;
    case 4: GUARDED(tg = (a < b), status); break;
    case 5: GUARDED(tg = au + b, status); break;
    case 6: GUARDED(tg = a(iv) + b, status); break;
    case 7: GUARDED(tg = a + sum(M, 0), status); break;
    case 8: GUARDED(tg.where(a > b) = either_or(a, b), status); break;
    case 9: GUARDED(tg.where(a > b) = a + b, status); break;
    case 10: GUARDED(tg = T(2) * a + T(1), status); break;
    case 11: GUARDED(tg = isnan(a), status); break;
    case 12: GUARDED(tg = -a + pow(T(2), b), status); break;
    }
  }
  std::string h = hook_line();
  if (status.empty()) {
    status = "R ok";
    for (long i = 0; i < L1 && status == "R ok"; ++i) {
      long j = (i >= t && i - t < n) ? i - t : -1;
      T got = B.bt.data()[i];
      if (j < 0) { if (got != T(SENT)) { std::ostringstream os; os << "R guard i=" << i; status = os.str(); } }
      else {
        T x = kind == 6 ? va<T>(k1 + (n - 1 - j)) : va<T>(k1 + j), y = vb<T>(k2 + j);
        T cs = vc<T>(j) + vc<T>(31 + j) + vc<T>(62 + j);
        T exp = nod1_value<T>(kind, x, y, cs);
        if (bits_of(got) != bits_of(exp)) {
          std::ostringstream os; os << "R bad i=" << j << " got=" << hex(got) << " exp=" << hex(exp); status = os.str();
        }
      }
    }
  }
  return g.str() + " | H " + h + " | " + status;
}

// ---- rank 2
static const int N2KINDS = 13;
static const char* nod2_expr(int kind) {
  switch (kind) {
  case 0: return "SPL %a";              // spread<1>(u, n)
  case 1: return "SP0 %b";              // spread<0>(v, m)
  case 2: return "B SPL %a %c";         // spread<1>(u, n) + Bm
  case 3: return "B SP0 %b %c";         // spread<0>(v, m) * Bm
  case 4: return "O %a %b";             // outer_product(u, v)
  case 5: return "B O %a %b %c";        // outer_product(u, v) + Bm
  case 6: return "U O %a %b";           // 2 * outer_product(u, v)
  case 7: return "%t";                  // At.T()
  case 8: return "B %t %c";             // At.T() + Bm
  case 9: return "UN %c";               // pow(Bm, 2)
  case 10: return "U SPL %a";           // -spread<1>(u, n)
  case 11: return "B SP0 %b SPL %a";    // spread<0>(v, m) + spread<1>(u, n)
  case 12: return "B U SP0 %b %c";      // 3 * spread<0>(v, m) - Bm
  }
  return 0;
}
template <typename T> static T nod2_value(int kind, T x, T y, T bm, T at) {
  switch (kind) {
  case 0: return x;
  case 1: return y;
  case 2: return x + bm;
  case 3: return y * bm;
  case 4: return x * y;
  case 5: return x * y + bm;
  case 6: return T(2) * (x * y);
  case 7: return at;
  case 8: return at + bm;
  case 9: return std::pow(bm, T(2));
  case 10: return -x;
  case 11: return y + x;
  case 12: return T(3) * y - bm;
  }
  return T(0);
}
static std::string subst4(const char* pat, const std::string& a, const std::string& b, const std::string& c, const std::string& t) {
  std::string out;
  for (const char* p = pat; *p; ++p) {
    if (*p == '%' && p[1]) { ++p; out += (*p == 'a' ? a : *p == 'b' ? b : *p == 'c' ? c : t); }
    else out += *p;
  }
  return out;
}

template <typename T> static std::string nod2(const Words& w) {
  if (w.size() != 8) return "bad-op";
  int kind = atoi(w[2].c_str()); long m = atol(w[3].c_str()), n = atol(w[4].c_str());
  long tk, tP, k1, s1, k2, s2;
  if (!two(w[5], tk, tP) || !two(w[6], k1, s1) || !two(w[7], k2, s2)) return "bad-op";
  const char* pat = nod2_expr(kind);
  if (!pat || m < 1 || n < 1 || m > 80 || n > 200 || s1 < 1 || s2 < 1 || k1 < 0 || k2 < 0) return "bad-op";
  if ((tP && tk + n > tP) || k1 + s1 * m >= L1 || k2 + s2 * n >= L1) return "bad-op";
  Bufs<T>& B = Bufs<T>::get();
  Mat<T> tg(m, n, tk, tP, -1), bm(m, n, 0, 0, 2);
  Array<1, T> u = view1(B.ba, k1, s1, m), v = view1(B.bb, k2, s2, n);
  Array<2, T> At(n, m);
  for (long i = 0; i < m; ++i) for (long j = 0; j < n; ++j) At(j, i) = vb<T>(i * 29 + j);
  Array<2, T> AtT; AtT >>= At.T();
  std::ostringstream g;
  g << "G asg " << internal::Packet<T>::size << " " << target_token(tg.v) << " "
    << subst4(pat, leaf_token(u), leaf_token(v), leaf_token(bm.v), leaf_token(AtT));
  std::string status;
  hook_reset();
  switch (kind) {
  case 0: GUARDED(tg.v = spread<1>(u, n), status); break;
  case 1: GUARDED(tg.v = spread<0>(v, m), status); break;
  case 2: GUARDED(tg.v = spread<1>(u, n) + bm.v, status); break;
  case 3: GUARDED(tg.v = spread<0>(v, m) * bm.v, status); break;
  case 4: GUARDED(tg.v = outer_product(u, v), status); break;
  case 5: GUARDED(tg.v = outer_product(u, v) + bm.v, status); break;
  case 6: GUARDED(tg.v = T(2) * outer_product(u, v), status); break;
  case 7: GUARDED(tg.v = At.T(), status); break;
  case 8: GUARDED(tg.v = At.T() + bm.v, status); break;
  case 9: GUARDED(tg.v = pow(bm.v, T(2)), status); break;
  case 10: GUARDED(tg.v = -spread<1>(u, n), status); break;
  case 11: GUARDED(tg.v = spread<0>(v, m) + spread<1>(u, n), status); break;
  case 12: GUARDED(tg.v = T(3) * spread<0>(v, m) - bm.v, status); break;
  }
  std::string h = hook_line();
  if (status.empty()) {
    status = "R ok";
    long pitch = tg.big.offset(0);
    const T* d = tg.big.const_data();
    for (long i = 0; i < m && status == "R ok"; ++i)
      for (long jj = 0; jj < pitch && status == "R ok"; ++jj) {
        long j = jj - tg.k;
        T got = d[i * pitch + jj];
        if (j < 0 || j >= n) { if (got != T(SENT)) { std::ostringstream os; os << "R guard i=" << i << "," << jj; status = os.str(); } }
        else {
          T exp = nod2_value<T>(kind, va<T>(k1 + s1 * i), vb<T>(k2 + s2 * j), Mat<T>::val(2, i, j), vb<T>(i * 29 + j));
          if (bits_of(got) != bits_of(exp)) {
            std::ostringstream os; os << "R bad i=" << i << "," << j << " got=" << hex(got) << " exp=" << hex(exp); status = os.str();
          }
        }
      }
  }
  return g.str() + " | H " + h + " | " + status;
}

// ---- rank 3: spread of a fresh matrix along each dimension
template <typename T> static std::string nod3(const Words& w) {
  if (w.size() != 7) return "bad-op";
  int kind = atoi(w[2].c_str());
  long d0 = atol(w[3].c_str()), d1 = atol(w[4].c_str()), n = atol(w[5].c_str());
  int kt = atoi(w[6].c_str());
  if (kind < 0 || kind > 2 || d0 < 1 || d1 < 1 || n < 1 || d0 > 4 || d1 > 4 || n > 200 || kt < 0 || kt > 1) return "bad-op";
  Array<3, T> bt, tg;
  mk3(bt, tg, kt, d0, d1, n, -1);
  // kind 0: spread<0>(M(d1,n), d0)   1: spread<1>(M(d0,n), d1)   2: spread<2>(M(d0,d1), n)
  long r = kind == 0 ? d1 : d0, c = kind == 2 ? d1 : n;
  Array<2, T> M(r, c);
  for (long i = 0; i < r; ++i) for (long j = 0; j < c; ++j) M(i, j) = va<T>(i * 31 + j);
  std::ostringstream g;
  g << "G asg " << internal::Packet<T>::size << " " << target_token(tg) << " " << (kind == 2 ? "SPL " : "SP0 ") << leaf_token(M);
  std::string status;
  hook_reset();
  if (kind == 0) GUARDED(tg = spread<0>(M, d0), status);
  else if (kind == 1) GUARDED(tg = spread<1>(M, d1), status);
  else GUARDED(tg = spread<2>(M, n), status);
  std::string h = hook_line();
  if (status.empty()) {
    status = "R ok";
    for (long i = 0; i < d0 && status == "R ok"; ++i) for (long j = 0; j < d1 && status == "R ok"; ++j) for (long k = 0; k < n; ++k) {
      T exp = kind == 0 ? va<T>(j * 31 + k) : kind == 1 ? va<T>(i * 31 + k) : va<T>(i * 31 + j);
      if (bits_of(T(tg(i, j, k))) != bits_of(exp)) {
        std::ostringstream os; os << "R bad i=" << i << "," << j << "," << k << " got=" << hex(T(tg(i, j, k))) << " exp=" << hex(exp);
        status = os.str(); break;
      }
    }
  }
  return g.str() + " | H " + h + " | " + status;
}

// ---- reductions
static int nfunc_id(const std::string& f) {
  const char* names[5] = {"sum", "maxval", "minval", "mean", "norm2"};
  for (int i = 0; i < 5; ++i) if (f == names[i]) return i;
  return -1;
}
template <typename T, class E> static T nod_reduce(int func, const E& e) {
  switch (func) {
  case 0: return sum(e);
  case 1: return maxval(e);
  case 2: return minval(e);
  case 3: return mean(e);
  default: return norm2(e);
  }
}
template <typename T> struct NodAcc {
  int func; T tot; long cnt;
  explicit NodAcc(int f) : func(f), cnt(0) {
    tot = (f == 1) ? -std::numeric_limits<T>::infinity() : (f == 2) ? std::numeric_limits<T>::infinity() : T(0);
  }
  void add(T x) {
    ++cnt;
    if (func == 0 || func == 3) tot += x; else if (func == 1) tot = tot < x ? x : tot; else if (func == 2) tot = x < tot ? x : tot;
    else tot += x * x;
  }
  T result() const { if (cnt == 0) return T(0); if (func == 3) return tot / T(cnt); if (func == 4) return std::sqrt(tot); return tot; }
};
static const int NRKINDS = 7;
template <typename T> static std::string nodr(const Words& w) {
  if (w.size() != 8) return "bad-op";
  int func = nfunc_id(w[2]), kind = atoi(w[3].c_str()); long m = atol(w[4].c_str()), n = atol(w[5].c_str()), k1, s1, k2, s2;
  if (func < 0 || kind < 0 || kind >= NRKINDS || m < 1 || n < 1 || m > 40 || n > 200 || !two(w[6], k1, s1) || !two(w[7], k2, s2)
      || s1 < 1 || s2 < 1 || k1 < 0 || k2 < 0 || k1 + s1 * m >= L1 || k2 + s2 * n >= L1)
    return "bad-op";
  Bufs<T>& B = Bufs<T>::get();
  Array<1, T> u = view1(B.ba, k1, s1, m), v = view1(B.bb, k2, s2, n);
  IntVector iv(n);
  for (long j = 0; j < n; ++j) iv(j) = (int)(n - 1 - j);
  Array<2, T> At(n, m);
  for (long i = 0; i < m; ++i) for (long j = 0; j < n; ++j) At(j, i) = vb<T>(i * 29 + j);
  Array<2, T> AtT; AtT >>= At.T();
  // kind 0: spread<1>(u,n)  1: spread<0>(v,m)  2: outer_product(u,v)  3: pow(v,2)  4: v(iv)  5: At.T()  6: spread<0>(v,m) + spread<1>(u,n)
  bool rank1 = kind == 3 || kind == 4;
  std::ostringstream g;
  g << "G red " << internal::Packet<T>::size << " ";
  if (rank1) g << "-:" << n << " "; else g << m << ":" << n << " ";
  switch (kind) {
  case 0: g << "SPL " << leaf_token(u); break;
  case 1: g << "SP0 " << leaf_token(v); break;
  case 2: g << "O " << leaf_token(u) << " " << leaf_token(v); break;
  case 3: g << "UN " << leaf_token(v); break;
  case 4: g << "X"; break;
  case 5: g << leaf_token(AtT); break;
  case 6: g << "B SP0 " << leaf_token(v) << " SPL " << leaf_token(u); break;
  }
  std::string status; T got = T(0);
  hook_reset();
  switch (kind) {
  case 0: GUARDED(got = nod_reduce<T>(func, spread<1>(u, n)), status); break;
  case 1: GUARDED(got = nod_reduce<T>(func, spread<0>(v, m)), status); break;
  case 2: GUARDED(got = nod_reduce<T>(func, outer_product(u, v)), status); break;
  case 3: GUARDED(got = nod_reduce<T>(func, pow(v, T(2))), status); break;
  case 4: GUARDED(got = nod_reduce<T>(func, v(iv)), status); break;
  case 5: GUARDED(got = nod_reduce<T>(func, At.T()), status); break;
  case 6: GUARDED(got = nod_reduce<T>(func, spread<0>(v, m) + spread<1>(u, n)), status); break;
  }
  std::string h = hook_line();
  if (status.empty()) {
    NodAcc<T> r(func);
    for (long i = 0; i < (rank1 ? 1 : m); ++i) for (long j = 0; j < n; ++j) {
      T x = va<T>(k1 + s1 * i), y = vb<T>(k2 + s2 * j);
      switch (kind) {
      case 0: r.add(x); break;
      case 1: r.add(y); break;
      case 2: r.add(x * y); break;
      case 3: r.add(std::pow(y, T(2))); break;
      case 4: r.add(vb<T>(k2 + s2 * (n - 1 - j))); break;
      case 5: r.add(vb<T>(i * 29 + j)); break;
      case 6: r.add(y + x); break;
      }
    }
    if (bits_of(got) == bits_of(r.result())) status = "R ok";
    else status = "R bad got=" + hex(got) + " exp=" + hex(r.result());
  }
  return g.str() + " | H " + h + " | " + status;
}

template <typename T> static std::string dispatch_nod(const Words& w) {
  const std::string& op = w[0];
  if (op == "nod1") return nod1<T>(w);
  if (op == "nod2") return nod2<T>(w);
  if (op == "nod3") return nod3<T>(w);
  if (op == "nodr") return nodr<T>(w);
  return "bad-op";
}
#endif
