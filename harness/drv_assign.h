// Correspondence driver for passive array statements (model M5, property C04): shared declarations.
// See drv_assign.cpp for the op grammar.  Everything is templated on the element type T (int / double holding
// integers); the statement interpreter is additionally templated on the rank of the target and instantiated in
// one translation unit per (rank, type) so that the expression templates compile in parallel.
#ifndef VERIF_DRV_ASSIGN_H
#define VERIF_DRV_ASSIGN_H
#include "spy.h"
#include <map>
#include <cmath>
#include <cstdlib>
#include <memory>
#include <type_traits>
#include <utility>
#include <functional>

namespace c04 {
using namespace adept;

// ---------------------------------------------------------------- world
template <class T> struct VW {            // an Array view of rank 1..3
  int rank = 0; int alloc = -1;
  Array<1, T> a1; Array<2, T> a2; Array<3, T> a3;
};
template <class T> void link_vw(VW<T>& dst, VW<T>& src) {   // never assign VW/Array objects: operator= copies the data
  dst.rank = src.rank; dst.alloc = src.alloc;
  if (src.rank == 1) dst.a1 >>= src.a1; else if (src.rank == 2) dst.a2 >>= src.a2; else dst.a3 >>= src.a3;
}
template <int R, class T> struct Get;
template <class T> struct Get<1, T> { static Array<1, T>& f(VW<T>& v) { return v.a1; } };
template <class T> struct Get<2, T> { static Array<2, T>& f(VW<T>& v) { return v.a2; } };
template <class T> struct Get<3, T> { static Array<3, T>& f(VW<T>& v) { return v.a3; } };

struct BW {                               // a boolArray of rank 1..3
  int rank = 0;
  Array<1, bool> a1; Array<2, bool> a2; Array<3, bool> a3;
};
template <int R> struct GetB;
template <> struct GetB<1> { static Array<1, bool>& f(BW& v) { return v.a1; } };
template <> struct GetB<2> { static Array<2, bool>& f(BW& v) { return v.a2; } };
template <> struct GetB<3> { static Array<3, bool>& f(BW& v) { return v.a3; } };

struct Sel { int kind; int id; int n; };  // kind 0: intVector id; 1: all (`__`); 2: scalar index n
struct IV { int view; int krank; std::vector<Sel> sel; };   // IndexedArray = view(sel...)

template <class T> struct Alloc {
  T* data = 0; Index n = 0;
  int fkind = 0;                          // 0: heap Array; 4, 23, 33: FixedArray<T,false,4> / <2,3> / <3,3>
  std::shared_ptr<void> fixed;            // owns the FixedArray
};

template <class T> struct World {
  std::map<int, Alloc<T> > allocs;
  std::map<int, VW<T> > views;
  std::map<int, intVector> idx;
  std::map<int, BW> bools;
  std::map<int, IV> iviews;
  void clear() { iviews.clear(); bools.clear(); idx.clear(); views.clear(); allocs.clear(); }
};

struct Tok {
  std::vector<std::string> w; size_t p;
  bool more() const { return p < w.size(); }
  const std::string& peek() const { return w[p]; }
  const std::string& next() { return w[p++]; }
};

inline std::string num(double x) {
  char b[64];
  if (x == std::floor(x) && std::fabs(x) < 9.0e15) snprintf(b, sizeof b, "%lld", (long long)x);
  else snprintf(b, sizeof b, "%.17g", x);
  return b;
}
inline int idof(const std::string& s) { return atoi(s.c_str() + 1); }

// ---------------------------------------------------------------- element access through operator() only
template <class T> T rd(VW<T>& v, const int* c) {
  switch (v.rank) {
    case 1: return v.a1(c[0]);
    case 2: return v.a2(c[0], c[1]);
    default: return v.a3(c[0], c[1], c[2]);
  }
}
template <class T> void wr(VW<T>& v, const int* c, T x) {
  switch (v.rank) {
    case 1: v.a1(c[0]) = x; break;
    case 2: v.a2(c[0], c[1]) = x; break;
    default: v.a3(c[0], c[1], c[2]) = x; break;
  }
}
inline bool rdb(BW& v, const int* c) {
  switch (v.rank) {
    case 1: return v.a1(c[0]);
    case 2: return v.a2(c[0], c[1]);
    default: return v.a3(c[0], c[1], c[2]);
  }
}
template <class T> void dims_of(VW<T>& v, int* d) {
  for (int k = 0; k < v.rank; ++k)
    d[k] = v.rank == 1 ? v.a1.dimension(k) : v.rank == 2 ? v.a2.dimension(k) : v.a3.dimension(k);
}

template <class T> bool inb(VW<T>& v, const int* c) {
  int d[3]; dims_of(v, d);
  for (int k = 0; k < v.rank; ++k) if (c[k] < 0 || c[k] >= d[k]) return false;
  return true;
}
// coordinates of the wrapped array for coordinates c of an indexed view
template <class T> bool iv_coords(World<T>& W, IV& iv, const int* c, int* pc) {
  int k = 0;
  VW<T>& v = W.views[iv.view];
  int d[3]; dims_of(v, d);
  for (size_t j = 0; j < iv.sel.size(); ++j) {
    Sel& s = iv.sel[j];
    if (s.kind == 0) { if (!W.idx.count(s.id)) return false; intVector& x = W.idx[s.id]; if (c[k] >= x.dimension(0)) return false; pc[j] = x(c[k]); ++k; }
    else if (s.kind == 1) { pc[j] = c[k]; ++k; }
    else pc[j] = s.n;
    if (pc[j] < 0 || pc[j] >= d[j]) return false;
  }
  return true;
}
template <class T> void iv_dims(World<T>& W, IV& iv, int* d) {
  int k = 0;
  VW<T>& v = W.views[iv.view];
  int pd[3]; dims_of(v, pd);
  for (size_t j = 0; j < iv.sel.size(); ++j) {
    Sel& s = iv.sel[j];
    if (s.kind == 0) d[k++] = W.idx[s.id].dimension(0);
    else if (s.kind == 1) d[k++] = pd[j];
  }
}

// ---------------------------------------------------------------- the oracle's own evaluator (prefix tokens)
// value of the expression starting at t.p at coordinates c; hz is set on a zero / inexact divisor or overflow
template <class T> long long evalE(World<T>& W, Tok& t, const int* c, int rank, bool& hz) {
  if (!t.more()) { hz = true; return 0; }
  std::string s = t.next();
  long long r = 0;
  if (s == "add" || s == "sub" || s == "mul" || s == "div") {
    long long a = evalE(W, t, c, rank, hz), b = evalE(W, t, c, rank, hz);
    if (s == "add") r = a + b; else if (s == "sub") r = a - b; else if (s == "mul") r = a * b;
    else {
      if (b == 0) { hz = true; return 0; }
      if (!std::is_integral<T>::value && a % b != 0) { hz = true; return 0; }
      r = a / b;   // C++ truncation, as for int
    }
  } else if (s == "na") r = evalE(W, t, c, rank, hz);
  else if (s == "spr") {
    int d = atoi(t.next().c_str()); t.next();
    int vid = idof(t.next());
    if (!W.views.count(vid) || W.views[vid].rank != rank - 1 || d < 0 || d >= rank) { hz = true; return 0; }
    VW<T>& v = W.views[vid];
    int cc[3]; int k = 0;
    for (int j = 0; j < rank; ++j) if (j != d) cc[k++] = c[j];
    if (!inb(v, cc)) { hz = true; return 0; }
    r = (long long)rd(v, cc);
  } else if (s == "out") {
    int ia = idof(t.next()), ib = idof(t.next());
    if (rank != 2 || !W.views.count(ia) || !W.views.count(ib) || W.views[ia].rank != 1 || W.views[ib].rank != 1) { hz = true; return 0; }
    VW<T>& a = W.views[ia]; VW<T>& b = W.views[ib];
    if (!inb(a, c) || !inb(b, c + 1)) { hz = true; return 0; }
    r = (long long)rd(a, c) * (long long)rd(b, c + 1);
  } else if (s[0] == 'v') {
    if (!W.views.count(idof(s)) || W.views[idof(s)].rank != rank) { hz = true; return 0; }
    if (!inb(W.views[idof(s)], c)) { hz = true; return 0; }
    r = (long long)rd(W.views[idof(s)], c);
  } else if (s[0] == 'w') {
    if (!W.iviews.count(idof(s)) || W.iviews[idof(s)].krank != rank || !W.views.count(W.iviews[idof(s)].view)) { hz = true; return 0; }
    IV& iv = W.iviews[idof(s)]; int pc[3];
    if (!iv_coords(W, iv, c, pc)) { hz = true; return 0; }
    r = (long long)rd(W.views[iv.view], pc);
  } else if (s[0] == 'c') r = atoll(s.c_str() + 1);
  else { hz = true; return 0; }
  long long lim = std::is_integral<T>::value ? (1LL << 30) : (1LL << 50);
  if (r > lim || r < -lim) hz = true;
  return r;
}
template <class T> bool evalB(World<T>& W, Tok& t, const int* c, int rank, bool& hz) {
  if (!t.more()) { hz = true; return false; }
  std::string s = t.next();
  if (s == "not") return !evalB(W, t, c, rank, hz);
  if (s == "and" || s == "or") { bool a = evalB(W, t, c, rank, hz), b = evalB(W, t, c, rank, hz); return s == "and" ? (a && b) : (a || b); }
  if (s[0] == 'b') {
    if (!W.bools.count(idof(s)) || W.bools[idof(s)].rank != rank) { hz = true; return false; }
    return rdb(W.bools[idof(s)], c);
  }
  long long a = evalE(W, t, c, rank, hz), b = evalE(W, t, c, rank, hz);
  if (s == "gt") return a > b; if (s == "lt") return a < b; if (s == "ge") return a >= b;
  if (s == "le") return a <= b; if (s == "eq") return a == b; if (s == "ne") return a != b;
  hz = true; return false;
}

// ---------------------------------------------------------------- shapes
// an expression in prefix tokens, abstracted to its shape: leaves -> L (Array), W (IndexedArray), S<d> (spread),
// O (outer_product); constants -> c
struct Shape {
  std::string s;                      // e.g. "add mul L L c"
  std::vector<int> L;                 // view ids of L leaves, in order
  std::vector<long> C;                // constants, in order
  std::vector<int> Wl;                // indexed-view ids
  std::vector<int> Sl; int sn = 0;    // spread operand view ids, n
  std::vector<int> Ol;                // outer operands (pairs)
  std::vector<std::string> toks;      // the raw tokens
  int first_view = -1;                // some view the rank can be taken from
  int rank_adj = 0;                   // +1 spread, outer: rank 2
};
// consume exactly one expression (isMask: a boolean expression) starting at t.p
inline bool parse_shape(Tok& t, Shape& sh, bool isMask) {
  if (!t.more()) return false;
  size_t p0 = t.p;
  std::vector<int> need; need.push_back(1);
  std::string out;
  int pending = 1;
  while (pending > 0) {
    if (!t.more()) return false;
    std::string s = t.next();
    --pending;
    if (!out.empty()) out += " ";
    if (s == "add" || s == "sub" || s == "mul" || s == "div" || s == "and" || s == "or" ||
        s == "gt" || s == "lt" || s == "ge" || s == "le" || s == "eq" || s == "ne") { out += s; pending += 2; }
    else if (s == "na" || s == "not") { out += s; pending += 1; }
    else if (s == "spr") {
      if (t.p + 3 > t.w.size()) return false;
      std::string d = t.next(); sh.sn = atoi(t.next().c_str()); int v = idof(t.next());
      out += "S" + d; sh.Sl.push_back(v); if (sh.first_view < 0) { sh.first_view = v; sh.rank_adj = 1; }
    } else if (s == "out") {
      if (t.p + 2 > t.w.size()) return false;
      int a = idof(t.next()), b = idof(t.next());
      out += "O"; sh.Ol.push_back(a); sh.Ol.push_back(b); if (sh.first_view < 0) { sh.first_view = a; sh.rank_adj = 1; }
    } else if (s[0] == 'v') { out += "L"; sh.L.push_back(idof(s)); if (sh.first_view < 0 || sh.rank_adj) { sh.first_view = idof(s); sh.rank_adj = 0; } }
    else if (s[0] == 'w') { out += "W"; sh.Wl.push_back(idof(s)); }
    else if (s[0] == 'c') { out += "c"; sh.C.push_back(atol(s.c_str() + 1)); }
    else if (s[0] == 'b' && isMask) { out += "B"; sh.L.push_back(-1 - idof(s)); }
    else return false;
  }
  sh.s = out;
  sh.toks.assign(t.w.begin() + p0, t.w.begin() + t.p);
  return true;
}

// one statement / reduction on a target (or argument) of rank R; returns false for an op it does not know
template <int R, class T> bool exec_ranked(World<T>& W, std::vector<std::string>& w, std::string& out);

// raw images
template <class T> std::vector<T> snapshot(World<T>& W) {
  std::vector<T> s;
  for (typename std::map<int, Alloc<T> >::iterator it = W.allocs.begin(); it != W.allocs.end(); ++it)
    s.insert(s.end(), it->second.data, it->second.data + it->second.n);
  return s;
}
template <class T> void restore(World<T>& W, const std::vector<T>& s) {
  size_t k = 0;
  for (typename std::map<int, Alloc<T> >::iterator it = W.allocs.begin(); it != W.allocs.end(); ++it)
    for (Index i = 0; i < it->second.n; ++i) it->second.data[i] = s[k++];
}

} // namespace c04
#endif
