// body shared by drv_matmul_f1.cpp / drv_matmul_f2.cpp (fixed-size operands); not a stand-alone header
namespace mm {
#define FM_CASE(R, C) if (r == R && c == C) { build_FM1<double, MM_FIXED_ACT, R, C>(s, v); return true; }
#define FV_CASE(N) if (n == N) { build_FV1<double, MM_FIXED_ACT, N>(s, v); return true; }
bool MM_FIXED_FN(const Spec& s, XVisitor& v) {
  const Words& h = s.head;
  if ((h[0] != "FM" && h[0] != "FV") || s.flt) return false;
  if (h.size() < 3 || (h[1] != "a" && h[1] != "p")) throw BadOp();
  if ((h[1] == "a") != MM_FIXED_ACT) return false;
  if (h[0] == "FM") {
    long r, c; if (h.size() != 4 || !to_long(h[2], r) || !to_long(h[3], c)) throw BadOp();
    FM_CASE(1, 1) FM_CASE(2, 3) FM_CASE(3, 2) FM_CASE(3, 3) FM_CASE(5, 8) FM_CASE(8, 5) FM_CASE(1, 3) FM_CASE(3, 1)
    throw BadOp();
  } else {
    long n; if (h.size() != 3 || !to_long(h[2], n)) throw BadOp();
    FV_CASE(1) FV_CASE(2) FV_CASE(3) FV_CASE(5) FV_CASE(8)
    throw BadOp();
  }
}
}
