// drv_matmul: column-major band matrices (see drv_matmul.h)
#include "drv_matmul.h"
namespace mm {
#define COMMA ,
#define S_CASE(TAG, ENG) if (h[2] == TAG) { if (act) build_S1<ENG, true>(s, v); else build_S1<ENG, false>(s, v); return true; }
bool build_group_band_c(const Spec& s, XVisitor& v) {
  const Words& h = s.head;
  if (h[0] != "S") return false;
  if (h.size() < 4 || (h[1] != "a" && h[1] != "p")) throw BadOp();
  bool act = h[1] == "a";
  S_CASE("cb00", BandEngine<COL_MAJOR COMMA 0 COMMA 0>) S_CASE("cb11", BandEngine<COL_MAJOR COMMA 1 COMMA 1>)
  S_CASE("cb22", BandEngine<COL_MAJOR COMMA 2 COMMA 2>) S_CASE("cb20", BandEngine<COL_MAJOR COMMA 2 COMMA 0>)
  S_CASE("cb02", BandEngine<COL_MAJOR COMMA 0 COMMA 2>) S_CASE("cb12", BandEngine<COL_MAJOR COMMA 1 COMMA 2>)
  return false;
}
}
