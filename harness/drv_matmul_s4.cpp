// drv_matmul: row-major band matrices with equal numbers of sub- and super-diagonals (see drv_matmul.h)
#include "drv_matmul.h"
namespace mm {
bool build_group_s4(const Spec& s, XVisitor& v) {
  S_GROUP_HEAD
  S_P("b00", BandEngine<ROW_MAJOR MM_COMMA 0 MM_COMMA 0>, 0) S_PA("b11", BandEngine<ROW_MAJOR MM_COMMA 1 MM_COMMA 1>, 2, 0)
  S_P("b22", BandEngine<ROW_MAJOR MM_COMMA 2 MM_COMMA 2>, 0)
  return false;
}
}
