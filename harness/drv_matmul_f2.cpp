// drv_matmul: active fixed-size arrays (see drv_matmul.h)
#include "drv_matmul.h"
#define MM_FIXED_ACT true
#define MM_FIXED_FN build_group_fixed_a
#include "drv_matmul_fixed.h"
