// Correspondence driver for the storage life cycle (model M6, property C07).
// usage: drv_storage < ops        (same line protocol as `adept_model storage`, Driver/Storage.lean)
//
// Pool of heap-allocated Array<1,int> objects addressed by handle k, external blocks x owned by the
// harness (plain heap blocks, or FixedArray<int,false,4> objects), all operations are REAL library calls:
//   reset                       delete everything, forget all tables
//   xnew x n v0                 external block x := new int[n] = v0, v0+1, ...
//   fnew x v0                   external block x := new FixedArray<int,false,4> = v0, v0+1, ...
//   xw x i v                    environment writes block[i] = v
//   xend x                      environment ends block x: contents scribbled (-7777), marked dead; the memory itself is
//                               released at reset/EOF only, so the harness never reads unmapped memory
//   new k n v0                  k := new intVector(n)            then filled v0, v0+1, ... (raw memory, harness)
//   newd k                      k := new intVector()
//   ext k x off n               k := new intVector(block+off, dimensions(n))
//   fsl k x lo hi               k := new intVector(F(range(lo,hi)))                     (F a FixedArray block)
//   cp k b | cpc k b | cpm k b  k := new intVector(b)  (Array&) | (const Array&) | (std::move(b): no move ctor)
//   sl k b lo hi st             k := new intVector(b(stride(lo,hi,st)))
//   soft k b                    k := new intVector(b.soft_link())
//   link a b                    a.link(b)          (>>= is the same function)
//   linksl a b lo hi st         a >>= b(stride(lo,hi,st))         (temporary bound to link(Array&&))
//   ac a b                      a = b                                  (copy assignment)
//   acsl a b lo hi st           a = const(b)(stride(lo,hi,st))         (const temporary: copy assignment)
//   am a b                      a = std::move(b)                       (move assignment)
//   amsl a b lo hi st           a = b(stride(lo,hi,st))                (move assignment from a temporary view)
//   amext a x off n             a = intVector(block+off, dimensions(n))
//   amfix a x lo hi             a = F(range(lo,hi))
//   amfresh a n v0              a = make(n, v0)      function returning a fresh array by value
//   amfn a b                    a = share(b)         function returning a shallow copy of its argument by value
//   amdup a b                   a = dup(b)           function returning a deep copy by value
//   fnrs b n                    byval_resize(b, n)   callee resizes its by-value parameter
//   fnw b i v                   byval_write(b, i, v) callee writes through its by-value parameter
//   rs a n v0 | rsi a n v0      a.resize(dimensions(n)) | a.resize(n)   then filled as for `new` (n may be negative)
//   clr a                       a.clear()
//   del a                       delete a
//   w a i v                     a(i) = v
//   end                         delete every live array (ascending handle)
// One observation line per op:
//   <status> | n=<n_storage_objects() since reset> | <k>(st=S# nl=# at=<alloc>+<off> L=<0/1> len=# str=# v=..) ... | X<id>:<live>:<values> ...
// Storage objects are labelled S0, S1, ... in order of first discovery (objects scanned by ascending handle after each op).
// Whether library memory is still allocated is asked from AddressSanitizer (__asan_address_is_poisoned), not from the library.
#include "spy.h"
#include <map>
#include <sanitizer/asan_interface.h>
using namespace adept;
typedef Array<1, int, false> IV;
typedef FixedArray<int, false, 4> FV;

struct Ext { int* base; long n; bool live; FV* fixed; };
struct SRec { int id; Storage<int>* sto; const int* base; long n; bool dead; };

static std::map<long, IV*> pool;
static std::map<long, Ext> exts;
static std::vector<SRec> stos;
static long baseline = 0;

static bool poisoned(const void* p) { return __asan_address_is_poisoned(p) != 0; }
static bool region_bad(const void* p, size_t bytes) { return bytes && __asan_region_is_poisoned(const_cast<void*>(p), bytes) != 0; }

// ---- functions used for "passing to and returning from functions"
static IV make(int n, int v0) { IV r(n); for (int i = 0; i < n; ++i) r(i) = v0 + i; return r; }
static IV share(IV& v) { IV r(v); return r; }
static IV dup(const IV& v) { IV r; r = v; return r; }
static void byval_resize(IV v, int n) { v.resize(n); }
static void byval_write(IV v, int i, int val) { v(i) = val; }

static SRec* find_sto(Storage<int>* sp) {
  for (size_t i = stos.size(); i-- > 0;) if (stos[i].sto == sp && !stos[i].dead) return &stos[i];
  for (size_t i = stos.size(); i-- > 0;) if (stos[i].sto == sp) return &stos[i];
  return 0;
}
static void refresh() {
  for (size_t i = 0; i < stos.size(); ++i) if (!stos[i].dead && (poisoned(stos[i].sto) || poisoned(stos[i].base))) stos[i].dead = true;
}
static void discover() {
  refresh();
  for (std::map<long, IV*>::iterator it = pool.begin(); it != pool.end(); ++it) {
    Storage<int>* sp = it->second->storage();
    if (!sp) continue;
    SRec* r = find_sto(sp);
    if ((!r || r->dead) && !poisoned(sp)) {
      SRec n; n.id = (int)stos.size(); n.sto = sp; n.base = sp->data(); n.n = sp->n_allocated(); n.dead = false;
      stos.push_back(n);
    }
  }
}
// which allocation does p point into?  writes "S3+2" / "X1+0" / "?" and reports liveness
static bool locate(const int* p, bool zero_len, std::string& where, bool& live, bool& physical) {
  std::ostringstream os;
  for (int pass = 0; pass < 2; ++pass)
    for (size_t i = stos.size(); i-- > 0;) {
      SRec& r = stos[i];
      if ((pass == 0) == !r.dead && p >= r.base && (p < r.base + r.n || (zero_len && p == r.base + r.n))) {
        os << "S" << r.id << "+" << (p - r.base); where = os.str(); live = !r.dead; physical = !r.dead; return true;
      }
    }
  for (std::map<long, Ext>::iterator it = exts.begin(); it != exts.end(); ++it) {
    Ext& e = it->second;
    if (p >= e.base && (p < e.base + e.n || (zero_len && p == e.base + e.n))) {
      os << "X" << it->first << "+" << (p - e.base); where = os.str(); live = e.live; physical = true; return true;
    }
  }
  where = "?"; live = false; physical = false; return false;
}

static std::string observe(const std::string& status) {
  discover();
  std::ostringstream os;
  os << status << " | n=" << (n_storage_objects() - baseline) << " |";
  for (std::map<long, IV*>::iterator it = pool.begin(); it != pool.end(); ++it) {
    IV* o = it->second;
    os << " " << it->first << "(";
    Storage<int>* sp = o->storage();
    if (!sp) os << "st=- nl=-";
    else {
      SRec* r = find_sto(sp);
      if (!r) os << "st=? nl=!";
      else if (r->dead) os << "st=S" << r->id << " nl=!";
      else os << "st=S" << r->id << " nl=" << sp->n_links();
    }
    const int* p = o->data();
    long len = o->dimension(0);
    if (!p) os << " at=0 L=- len=" << len;
    else {
      std::string where; bool live, phys;
      locate(p, len == 0, where, live, phys);
      os << " at=" << where << " L=" << (live ? 1 : 0) << " len=" << len;
      if (len > 0) {
        long st = o->offset(0);
        os << " str=" << st << " v=";
        // only read what is certainly addressable
        long span = (len - 1) * st + 1;
        if (!phys || st < 0 || region_bad(p, span * sizeof(int))) os << "!";
        else for (long i = 0; i < len; ++i) os << (i ? "," : "") << p[i * st];
      }
    }
    os << ")";
  }
  os << " |";
  for (std::map<long, Ext>::iterator it = exts.begin(); it != exts.end(); ++it) {
    os << " X" << it->first << ":" << (it->second.live ? 1 : 0) << ":";
    for (long i = 0; i < it->second.n; ++i) os << (i ? "," : "") << it->second.base[i];
  }
  return os.str();
}

static void free_all() {
  for (std::map<long, IV*>::iterator it = pool.begin(); it != pool.end(); ++it) delete it->second;
  pool.clear();
  for (std::map<long, Ext>::iterator it = exts.begin(); it != exts.end(); ++it) {
    if (it->second.fixed) delete it->second.fixed; else delete[] it->second.base;
  }
  exts.clear();
  stos.clear();
}

static bool num(const std::string& s, long& v) {
  if (s.empty()) return false;
  char* e = 0; v = strtol(s.c_str(), &e, 10);
  return *e == 0;
}
static IV* obj(long k) { std::map<long, IV*>::iterator it = pool.find(k); return it == pool.end() ? 0 : it->second; }
// data of an operand that is going to be read or written must be addressable (a stale soft link is the user's fault)
static bool usable(IV* o) {
  if (!o->data() || o->dimension(0) == 0) return true;
  std::string where; bool live, phys;
  locate(o->data(), false, where, live, phys);
  long st = o->offset(0), len = o->dimension(0);
  return phys && st > 0 && !region_bad(o->data(), ((len - 1) * st + 1) * sizeof(int));
}
static bool slice_ok(IV* b, long lo, long hi, long st) {
  long len = b->dimension(0);
  return len > 0 && st >= 1 && st <= 8 && lo >= 0 && lo < len && hi >= 0 && hi < len && lo <= hi + 1;
}
static void fill(IV* o, long v0) {
  long len = o->dimension(0);
  for (long i = 0; i < len; ++i) o->data()[i * o->offset(0)] = (int)(v0 + i);
}

int main() {
  std::string line;
  baseline = n_storage_objects();
  while (std::getline(std::cin, line)) {
    std::vector<std::string> w = verif::words(line);
    if (w.empty()) continue;
    std::vector<long> a(w.size(), 0);
    bool nums = true;
    for (size_t i = 1; i < w.size(); ++i) nums = nums && num(w[i], a[i]);
    const std::string& c = w[0];
    size_t na = w.size() - 1;
    std::string status = "ok";
    if (!nums) { std::cout << "bad-op\n"; continue; }
    try {
      if (c == "reset" && na == 0) { free_all(); baseline = n_storage_objects(); std::cout << "reset\n"; continue; }
      else if (c == "xnew" && na == 3) {
        if (exts.count(a[1]) || a[2] < 1 || a[2] > 16) { std::cout << "bad-op\n"; continue; }
        Ext e; e.n = a[2]; e.base = new int[e.n]; e.live = true; e.fixed = 0;
        for (long i = 0; i < e.n; ++i) e.base[i] = (int)(a[3] + i);
        exts[a[1]] = e;
      } else if (c == "fnew" && na == 2) {
        if (exts.count(a[1])) { std::cout << "bad-op\n"; continue; }
        Ext e; e.n = 4; e.fixed = new FV(); e.base = e.fixed->data(); e.live = true;
        for (long i = 0; i < 4; ++i) (*e.fixed)(i) = (int)(a[2] + i);
        exts[a[1]] = e;
      } else if (c == "xw" && na == 3) {
        if (!exts.count(a[1]) || !exts[a[1]].live || a[2] < 0 || a[2] >= exts[a[1]].n) { std::cout << "bad-op\n"; continue; }
        exts[a[1]].base[a[2]] = (int)a[3];
      } else if (c == "xend" && na == 1) {
        if (!exts.count(a[1]) || !exts[a[1]].live) { std::cout << "bad-op\n"; continue; }
        Ext& e = exts[a[1]];
        for (long i = 0; i < e.n; ++i) e.base[i] = -7777;
        e.live = false;
      } else if (c == "new" && na == 3) {
        if (obj(a[1]) || a[2] < 0 || a[2] > 16) { std::cout << "bad-op\n"; continue; }
        IV* o = new IV((int)a[2]); pool[a[1]] = o; fill(o, a[3]);
      } else if (c == "newd" && na == 1) {
        if (obj(a[1])) { std::cout << "bad-op\n"; continue; }
        pool[a[1]] = new IV();
      } else if (c == "ext" && na == 4) {
        if (obj(a[1]) || !exts.count(a[2]) || exts[a[2]].fixed || a[3] < 0 || a[4] < 0 || a[3] + a[4] > exts[a[2]].n || a[3] >= exts[a[2]].n)
          { std::cout << "bad-op\n"; continue; }
        pool[a[1]] = new IV(exts[a[2]].base + a[3], dimensions((int)a[4]));
      } else if (c == "fsl" && na == 4) {
        if (obj(a[1]) || !exts.count(a[2]) || !exts[a[2]].fixed || a[3] < 0 || a[4] > 3 || a[3] > a[4]) { std::cout << "bad-op\n"; continue; }
        pool[a[1]] = new IV((*exts[a[2]].fixed)(range((int)a[3], (int)a[4])));
      } else if ((c == "cp" || c == "cpc" || c == "cpm") && na == 2) {
        IV* b = obj(a[2]);
        if (obj(a[1]) || !b) { std::cout << "bad-op\n"; continue; }
        if (c == "cp") pool[a[1]] = new IV(*b);
        else if (c == "cpc") pool[a[1]] = new IV(*const_cast<const IV*>(b));
        else pool[a[1]] = new IV(std::move(*b));
      } else if (c == "sl" && na == 5) {
        IV* b = obj(a[2]);
        if (obj(a[1]) || !b || !slice_ok(b, a[3], a[4], a[5])) { std::cout << "bad-op\n"; continue; }
        pool[a[1]] = new IV((*b)(stride((int)a[3], (int)a[4], (int)a[5])));
      } else if (c == "soft" && na == 2) {
        IV* b = obj(a[2]);
        if (obj(a[1]) || !b) { std::cout << "bad-op\n"; continue; }
        pool[a[1]] = new IV(b->soft_link());
      } else if (c == "link" && na == 2) {
        IV* x = obj(a[1]); IV* b = obj(a[2]);
        if (!x || !b) { std::cout << "bad-op\n"; continue; }
        x->link(*b);
      } else if (c == "linksl" && na == 5) {
        IV* x = obj(a[1]); IV* b = obj(a[2]);
        if (!x || !b || !slice_ok(b, a[3], a[4], a[5])) { std::cout << "bad-op\n"; continue; }
        (*x) >>= (*b)(stride((int)a[3], (int)a[4], (int)a[5]));
      } else if ((c == "ac" || c == "am" || c == "amfn" || c == "amdup") && na == 2) {
        IV* x = obj(a[1]); IV* b = obj(a[2]);
        if (!x || !b) { std::cout << "bad-op\n"; continue; }
        if (!usable(x) || !usable(b)) { std::cout << "skip-dangling\n"; continue; }
        if (c == "ac") *x = *const_cast<const IV*>(b);
        else if (c == "am") *x = std::move(*b);
        else if (c == "amfn") *x = share(*b);
        else *x = dup(*b);
      } else if ((c == "acsl" || c == "amsl") && na == 5) {
        IV* x = obj(a[1]); IV* b = obj(a[2]);
        if (!x || !b || !slice_ok(b, a[3], a[4], a[5])) { std::cout << "bad-op\n"; continue; }
        if (!usable(x) || !usable(b)) { std::cout << "skip-dangling\n"; continue; }
        if (c == "acsl") *x = (*const_cast<const IV*>(b))(stride((int)a[3], (int)a[4], (int)a[5]));
        else *x = (*b)(stride((int)a[3], (int)a[4], (int)a[5]));
      } else if (c == "amext" && na == 4) {
        IV* x = obj(a[1]);
        if (!x || !exts.count(a[2]) || exts[a[2]].fixed || a[3] < 0 || a[4] < 0 || a[3] + a[4] > exts[a[2]].n || a[3] >= exts[a[2]].n)
          { std::cout << "bad-op\n"; continue; }
        if (!usable(x)) { std::cout << "skip-dangling\n"; continue; }
        *x = IV(exts[a[2]].base + a[3], dimensions((int)a[4]));
      } else if (c == "amfix" && na == 4) {
        IV* x = obj(a[1]);
        if (!x || !exts.count(a[2]) || !exts[a[2]].fixed || a[3] < 0 || a[4] > 3 || a[3] > a[4]) { std::cout << "bad-op\n"; continue; }
        if (!usable(x)) { std::cout << "skip-dangling\n"; continue; }
        *x = (*exts[a[2]].fixed)(range((int)a[3], (int)a[4]));
      } else if (c == "amfresh" && na == 3) {
        IV* x = obj(a[1]);
        if (!x || a[2] < 0 || a[2] > 16) { std::cout << "bad-op\n"; continue; }
        if (!usable(x)) { std::cout << "skip-dangling\n"; continue; }
        *x = make((int)a[2], (int)a[3]);
      } else if (c == "fnrs" && na == 2) {
        IV* b = obj(a[1]);
        if (!b || a[2] < 0 || a[2] > 16) { std::cout << "bad-op\n"; continue; }
        byval_resize(*b, (int)a[2]);
      } else if (c == "fnw" && na == 3) {
        IV* b = obj(a[1]);
        if (!b || a[2] < 0 || a[2] >= b->dimension(0)) { std::cout << "bad-op\n"; continue; }
        if (!usable(b)) { std::cout << "skip-dangling\n"; continue; }
        byval_write(*b, (int)a[2], (int)a[3]);
      } else if ((c == "rs" || c == "rsi") && na == 3) {
        IV* x = obj(a[1]);
        if (!x || a[2] > 16 || a[2] < -4) { std::cout << "bad-op\n"; continue; }
        if (c == "rs") x->resize(dimensions((int)a[2])); else x->resize((int)a[2]);
        fill(x, a[3]);
      } else if (c == "clr" && na == 1) {
        IV* x = obj(a[1]);
        if (!x) { std::cout << "bad-op\n"; continue; }
        x->clear();
      } else if (c == "del" && na == 1) {
        IV* x = obj(a[1]);
        if (!x) { std::cout << "bad-op\n"; continue; }
        pool.erase(a[1]);
        delete x;
      } else if (c == "w" && na == 3) {
        IV* x = obj(a[1]);
        if (!x || a[2] < 0 || a[2] >= x->dimension(0)) { std::cout << "bad-op\n"; continue; }
        if (!usable(x)) { std::cout << "skip-dangling\n"; continue; }
        (*x)((int)a[2]) = (int)a[3];
      } else if (c == "end" && na == 0) {
        while (!pool.empty()) { IV* x = pool.begin()->second; pool.erase(pool.begin()); delete x; }
      } else { std::cout << "bad-op\n"; continue; }
    }
    catch (const empty_array&) { status = "exc:empty_array"; }
    catch (const size_mismatch&) { status = "exc:size_mismatch"; }
    catch (const invalid_dimension&) { status = "exc:invalid_dimension"; }
    catch (const invalid_operation&) { status = "exc:invalid_operation"; }
    catch (const index_out_of_bounds&) { status = "exc:index_out_of_bounds"; }
    catch (const adept::exception&) { status = "exc:other"; }
    std::cout << observe(status) << "\n";
  }
  free_all();
  return 0;
}
