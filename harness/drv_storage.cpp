// Correspondence driver for the storage life cycle (model M6, property C07).
// usage: drv_storage < ops        (same line protocol as `adept_model storage`, Driver/Storage.lean)
//
// Pool of heap-allocated array objects addressed by handle k, of five KINDS
//   v  Array<1,int,false>      m  Array<2,int,false>      a  Array<1,double,true> (its Storage registers gradients)
//   s  SpecialMatrix<int,SymmEngine<ROW_LOWER_COL_UPPER>,false>      t  SpecialMatrix<int,BandEngine<ROW_MAJOR,1,1>,false>
//   g  SpecialMatrix<int,BandEngine<ROW_MAJOR,0,0>,false> (DiagMatrix)   G  the same, double and ACTIVE   S  active symmetric matrix (double)
//   p  Array<1,double,false> (what value() of an active vector is)
// plus one std::vector<X> per kind whose elements are addressed by handle too, external blocks x owned by the harness
// (plain heap blocks, or FixedArray<int,false,4> objects).  All operations are REAL library calls:
//   reset                       delete everything, forget all tables, new recording
//   xnew x n v0                 external block x := new int[n] = v0, v0+1, ...
//   fnew x v0                   external block x := new FixedArray<int,false,4> = v0, v0+1, ...
//   xw x i v                    environment writes block[i] = v
//   xend x                      environment ends block x: contents scribbled (-7777), marked dead; the memory itself is
//                               released at reset/EOF only, so the harness never reads unmapped memory
//   new|newa|news|newt k n v0   k := new X(n)        (n may be negative: the constructor throws, no object)
//   newm k n0 n1 v0             k := new intMatrix(n0, n1)          then filled v0, v0+1, ... (raw memory, harness)
//   newd|newdm|newda|newds|newdt k     k := new X()
//   newfn<sfx> k n v0           k := new X(make<X>(n, v0))          function returning a local array by value
//   ext k x off n               k := new intVector(block+off, dimensions(n))            (n may be negative: throws)
//   extfn k x off n             k := new intVector(wrap(block+off, n))      function returning Vector(ptr, dims)
//   fsl k x lo hi               k := new intVector(F(range(lo,hi)))                     (F a FixedArray block)
//   cp k b | cpc k b | cpm k b  k := new X(b)  (X&) | (const X&) | (std::move(b): no move ctor)
//   soft k b                    k := new X(b.soft_link())
//   VIEWS of b, <fn args> one of
//     sl lo hi st               b(stride(lo,hi,st))                         (v, a)   — ranges may be reversed
//     row i lo hi st            b(i, stride(lo,hi,st))                      (m)
//     col lo hi st j            b(stride(lo,hi,st), j)                      (m)
//     sub lo hi st lo hi st     b(stride(..), stride(..))                   (m)
//     idx i                     b[i]                                        (m)
//     tr                        b.T()                                       (m)
//     diag k                    b.diag_vector(k)                            (m, s, t) — k may lie beyond the matrix
//     sod i0 i1                 b.submatrix_on_diagonal(i0, i1)             (m, s, t) — bounds may be wrong
//     rsh d0 d1                 b.reshape(d0, d1)                           (v)       — extents may be wrong / negative
//     perm i0 i1                b.permute(i0, i1)                           (m)       — dimensions may repeat
//     dm                        b.diag_matrix()                             (v -> g, a -> G)   a DiagMatrix VIEW of the vector
//     il                        b.inactive_link() / value(b)                (a -> p; v, m, p, s, t, g -> same class)
//   (tr also of s, S; diag / sod also of g, G, S; sl also of p)
//   fdiag k x                   k := new DiagMatrix(F.diag_matrix())        over the FixedArray's own memory: no Storage
//   used as   <fn> k b args         k := new V(view)
//             link<fn> a b args     a >>= view                  (temporary bound to link(X&&))
//             ac<fn> a b args       a = (const V&) view         (copy assignment)
//             am<fn> a b args       a = view                    (move assignment from a temporary view)
//             fnsl k b lo hi st     k := new X(view_of_ref(b, lo, hi, st))    function returning a view of its X& parameter
//             fnvsl k b lo hi st    k := new X(view_of_val(b, lo, hi, st))    ... of its BY-VALUE parameter
//             amfnsl / amfnvsl a b lo hi st     a = view_of_ref(...) / view_of_val(...)
//   link a b                    a.link(b)          (>>= is the same function)
//   ac a b                      a = b                                  (copy assignment)
//   am a b                      a = std::move(b)                       (move assignment; SpecialMatrix has none: copies)
//   amext a x off n             a = intVector(block+off, dimensions(n))
//   amextfn a x off n           a = wrap(block+off, n)
//   amfix a x lo hi             a = F(range(lo,hi))
//   amfresh a n v0              a = make<X>(n, v0)   function returning a fresh array by value
//   amfn a b                    a = share(b)         function returning a shallow copy of its argument by value
//   amdup a b                   a = dup(b)           function returning a deep copy by value
//   sum k b c | amsum a b c     k := new X(sum_of(b, c)) | a = sum_of(b, c)     function returning `b + c` by value (v, a)
//   fnrs b n                    byval_resize(b, n)   callee resizes its by-value parameter
//   fnw b i v                   byval_write(b, i, v) callee writes through its by-value parameter
//   swp a b | stdswp a b        swap(a, b) (the friend, by ADL; arrays only) | std::swap(a, b) (copy + two move assignments)
//   vpush k b | vpop k          std::vector<X>::push_back(b) (new element = handle k; growth copies and destroys the
//                               elements) | pop_back() (k must be the last element)
//   rs a n v0 | rsi a n v0      a.resize(dimensions(n)) | a.resize(n)   (v, a);  s, t: resize(n, n) | resize(n)
//   rs2 a n0 n1 v0 | rsi2 ...   a.resize(dimensions(n0,n1)) | a.resize(n0,n1)   (m);  s, t: resize(n0, n1)
//                               then filled as for `new` (extents may be negative)
//   clr a                       a.clear()
//   del a                       delete a
//   w a i v                     element i (canonical order) of a := v, through operator()
//   inew|inewa|inewp k n v0     k := new X{v0, …, v0+n-1}   (n = 1..4)  the std::initializer_list constructor (vectors)
//   inewm k r v0                k := new intMatrix{{v0,v0+1,v0+2},{v0+3,v0+4,v0+5}} (r=0) | {{v0,v0+1,v0+2},{v0+3}} (r=1, short row zero-filled)
//   fnewl x v0                  external block x := new FixedArray<int,false,4>{v0, v0+1, v0+2, v0+3}
//   ial a n v0                  a = {v0, …, v0+n-1}          assignment of an initializer list to a vector (v, a, p)
//   failnext k                  fault schedule: the k-th next DATA allocation of the library (internal::alloc_aligned: operator
//                               new[] for int, posix_memalign for double, both interposed below) fails once with
//                               std::bad_alloc; the operation that runs into it answers `exc:bad_alloc`
//   end                         clear the std::vectors, delete every live array (ascending handle)
// make/byval_resize use extents (n) for v, a, s, t and (n, 2) for m.
// One observation line per op:
//   <status> | n=<n_storage_objects() since reset> g=<n_gradients_registered()> f=<fault countdown> | <k>(K=<kind> st=S# nl=# sz=<n_allocated()> at=<alloc>+<off>
//        L=<0/1> len=<d0[xd1]> str=<s0[xs1]> [gi=#] [v=..]) ... | X<id>:<live>:<values> ...
// Canonical element order: vector by index, matrix row by row, symmetric matrix its stored (lower) triangle row by
// row, tridiagonal matrix its band row by row.  gi = gradient_index() - storage()->gradient_index() of an active array.
// Storage objects are labelled S0, S1, ... in order of first discovery (objects scanned by ascending handle after each op).
// Whether library memory is still allocated is asked from AddressSanitizer (__asan_address_is_poisoned), not from the library.
#include "spy.h"
#include <map>
#include <utility>
#include <algorithm>
#include <type_traits>
#include <sanitizer/asan_interface.h>
#include <new>
#include <cstdlib>
#include <cerrno>
#include <malloc.h>

// ---- fault injection: the two allocation functions internal::alloc_aligned calls in this build are interposed.
// Only allocations made while a library operation runs (g_in_op) and small enough to be array data (the Stack's own
// buffers are megabytes and allocated before) consult the schedule.
static long g_fail = 0;            // countdown: the g_fail-th next data allocation fails (0: none)
static bool g_in_op = false;
static long g_fired = 0, g_data_allocs = 0;
static bool fault_now(size_t bytes) {
  if (!g_in_op || bytes > 8192) return false;
  ++g_data_allocs;
  if (g_fail > 0 && --g_fail == 0) { ++g_fired; return true; }
  return false;
}
void* operator new[](std::size_t sz) {
  if (fault_now(sz)) throw std::bad_alloc();
  void* p = std::malloc(sz ? sz : 1);
  if (!p) throw std::bad_alloc();
  return p;
}
void operator delete[](void* p) noexcept { std::free(p); }
void operator delete[](void* p, std::size_t) noexcept { std::free(p); }
extern "C" int posix_memalign(void** out, size_t alignment, size_t size) {
  if (fault_now(size)) return ENOMEM;
  void* p = memalign(alignment, size ? size : 1);
  if (!p) return ENOMEM;
  *out = p;
  return 0;
}

using namespace adept;
#define NOINLINE __attribute__((noinline))
typedef Array<1, int, false> IV;
typedef Array<2, int, false> IM;
typedef Array<1, double, true> AV;
typedef SpecialMatrix<int, internal::SymmEngine<ROW_LOWER_COL_UPPER>, false> IS;
typedef SpecialMatrix<int, internal::BandEngine<ROW_MAJOR, 1, 1>, false> IT;
typedef SpecialMatrix<int, internal::BandEngine<ROW_MAJOR, 0, 0>, false> IG;      // DiagMatrix: intVector::diag_matrix()
typedef SpecialMatrix<double, internal::BandEngine<ROW_MAJOR, 0, 0>, true> AG;    // aVector::diag_matrix()
typedef SpecialMatrix<double, internal::SymmEngine<ROW_LOWER_COL_UPPER>, true> AS; // an active special matrix
typedef Array<1, double, false> DV;                                                // value(aVector)
typedef FixedArray<int, false, 4> FV;
enum { KV = 0, KM = 1, KA = 2, KS = 3, KT = 4, KG = 5, KAG = 6, KAS = 7, KP = 8, NKIND = 9 };
static const char KCH[NKIND] = { 'v', 'm', 'a', 's', 't', 'g', 'G', 'S', 'p' };
static bool k_vec(int k) { return k == KV || k == KA || k == KP; }
static bool k_symm(int k) { return k == KS || k == KAS; }
static int k_band(int k) { return k == KT ? 1 : (k == KG || k == KAG) ? 0 : -1; }
static bool k_active(int k) { return k == KA || k == KAG || k == KAS; }
static bool k_special(int k) { return !(k_vec(k) || k == KM); }

struct BadOp {};
struct Geo { long d0, d1, s0, s1; };

// relative memory index (from data()) of every element, canonical order
static std::vector<long> rel_cells(int kind, const Geo& g) {
  std::vector<long> c;
  if (k_vec(kind)) for (long k = 0; k < g.d0; ++k) c.push_back(k * g.s0);
  else if (kind == KM) { for (long i = 0; i < g.d0; ++i) for (long j = 0; j < g.d1; ++j) c.push_back(i * g.s0 + j * g.s1); }
  else if (k_symm(kind)) { for (long i = 0; i < g.d0; ++i) for (long j = 0; j <= i; ++j) c.push_back(i * g.s0 + j); }
  else { long w = k_band(kind);
    for (long i = 0; i < g.d0; ++i) for (long j = 0; j < g.d0; ++j) if (i <= j + w && j <= i + w) c.push_back(i * g.s0 + j); }
  return c;
}
// (i,j) of canonical element idx
static void cell_ij(int kind, const Geo& g, long idx, long& i, long& j) {
  long n = 0;
  if (k_vec(kind)) { i = idx; j = 0; return; }
  if (kind == KM) { i = idx / g.d1; j = idx % g.d1; return; }
  long w = k_band(kind);
  for (i = 0; i < g.d0; ++i) for (j = 0; j < g.d0; ++j) {
    bool in = k_symm(kind) ? j <= i : (i <= j + w && j <= i + w);
    if (in) { if (n == idx) return; ++n; }
  }
  throw BadOp();
}
static long extent_of(int kind, const Geo& g) {
  if (k_vec(kind)) return g.d0 == 0 ? 0 : (g.d0 - 1) * g.s0 + 1;
  if (kind == KM) return (g.d0 == 0 || g.d1 == 0) ? 0 : (g.d0 - 1) * g.s0 + (g.d1 - 1) * g.s1 + 1;
  if (k_symm(kind)) return g.d0 == 0 ? 0 : (g.d0 - 1) * g.s0 + g.d0;
  return g.d0 == 0 ? 0 : (g.d0 - 1) * (g.s0 + 1) + 1;
}

// ---- per-class traits
template <class A> struct Tr;
template <> struct Tr<IV> { enum { kind = KV }; typedef int T;
  static Geo geo(const IV& o) { Geo g = { o.dimension(0), 0, o.offset(0), 0 }; return g; }
  static IV* sized(long n) { return new IV((int)n); }
  static void resize1(IV& o, long n, bool ints) { if (ints) o.resize((int)n); else o.resize(dimensions((int)n)); }
  static void resize2(IV&, long, long, bool) { throw BadOp(); }
  static void put(IV& o, long i, long, long v) { o((int)i) = (int)v; } };
template <> struct Tr<AV> { enum { kind = KA }; typedef double T;
  static Geo geo(const AV& o) { Geo g = { o.dimension(0), 0, o.offset(0), 0 }; return g; }
  static AV* sized(long n) { return new AV((int)n); }
  static void resize1(AV& o, long n, bool ints) { if (ints) o.resize((int)n); else o.resize(dimensions((int)n)); }
  static void resize2(AV&, long, long, bool) { throw BadOp(); }
  static void put(AV& o, long i, long, long v) { o((int)i) = (double)v; } };
template <> struct Tr<IM> { enum { kind = KM }; typedef int T;
  static Geo geo(const IM& o) { Geo g = { o.dimension(0), o.dimension(1), o.offset(0), o.offset(1) }; return g; }
  static IM* sized(long n) { return new IM((int)n, 2); }
  static void resize1(IM& o, long n, bool) { o.resize(dimensions((int)n, 2)); }
  static void resize2(IM& o, long n0, long n1, bool ints) { if (ints) o.resize((int)n0, (int)n1); else o.resize(dimensions((int)n0, (int)n1)); }
  static void put(IM& o, long i, long j, long v) { o((int)i, (int)j) = (int)v; } };
template <> struct Tr<IS> { enum { kind = KS }; typedef int T;
  static Geo geo(const IS& o) { Geo g = { o.dimension(), 0, o.offset(), 0 }; return g; }
  static IS* sized(long n) { return new IS((int)n); }
  static void resize1(IS& o, long n, bool ints) { if (ints) o.resize((int)n); else o.resize((int)n, (int)n); }
  static void resize2(IS& o, long n0, long n1, bool) { o.resize((int)n0, (int)n1); }
  static void put(IS& o, long i, long j, long v) { o((int)i, (int)j) = (int)v; } };
template <> struct Tr<IT> { enum { kind = KT }; typedef int T;
  static Geo geo(const IT& o) { Geo g = { o.dimension(), 0, o.offset(), 0 }; return g; }
  static IT* sized(long n) { return new IT((int)n); }
  static void resize1(IT& o, long n, bool ints) { if (ints) o.resize((int)n); else o.resize((int)n, (int)n); }
  static void resize2(IT& o, long n0, long n1, bool) { o.resize((int)n0, (int)n1); }
  static void put(IT& o, long i, long j, long v) { o((int)i, (int)j) = (int)v; } };

template <> struct Tr<DV> { enum { kind = KP }; typedef double T;
  static Geo geo(const DV& o) { Geo g = { o.dimension(0), 0, o.offset(0), 0 }; return g; }
  static DV* sized(long n) { return new DV((int)n); }
  static void resize1(DV& o, long n, bool ints) { if (ints) o.resize((int)n); else o.resize(dimensions((int)n)); }
  static void resize2(DV&, long, long, bool) { throw BadOp(); }
  static void put(DV& o, long i, long, long v) { o((int)i) = (double)v; } };
#define SPECIAL_TR(TYPE, KIND, ELEM) template <> struct Tr<TYPE> { enum { kind = KIND }; typedef ELEM T; \
  static Geo geo(const TYPE& o) { Geo g = { o.dimension(), 0, o.offset(), 0 }; return g; } \
  static TYPE* sized(long n) { return new TYPE((int)n); } \
  static void resize1(TYPE& o, long n, bool ints) { if (ints) o.resize((int)n); else o.resize((int)n, (int)n); } \
  static void resize2(TYPE& o, long n0, long n1, bool) { o.resize((int)n0, (int)n1); } \
  static void put(TYPE& o, long i, long j, long v) { o((int)i, (int)j) = (ELEM)v; } };
SPECIAL_TR(IG, KG, int)
SPECIAL_TR(AG, KAG, double)
SPECIAL_TR(AS, KAS, double)

template <class A> static std::vector<A>& bag() { static std::vector<A> b; return b; }

struct Slot { int kind; void* p; };
struct Ext { int* base; long n; bool live; FV* fixed; };
struct SRec { int id; void* sto; const char* base; long n; size_t esz; bool dbl; bool dead; };

static std::map<long, Slot> pool;                          // heap objects
static std::map<long, std::pair<int, size_t> > inbag;       // handle -> (kind, index in bag<kind>)
static std::vector<long> bagh[NKIND];                       // handles in each bag, in order
static std::map<long, Ext> exts;
static std::vector<SRec> stos;
static long baseline = 0, baseline_g = 0;
static Stack* the_stack = 0;

static bool poisoned(const void* p) { return __asan_address_is_poisoned(p) != 0; }
static bool region_bad(const void* p, size_t bytes) { return bytes && __asan_region_is_poisoned(const_cast<void*>(p), bytes) != 0; }

#define DISPATCH(K, ...) do { switch (K) { \
  case KV: { typedef IV A; __VA_ARGS__; } break; case KM: { typedef IM A; __VA_ARGS__; } break; \
  case KA: { typedef AV A; __VA_ARGS__; } break; case KS: { typedef IS A; __VA_ARGS__; } break; \
  case KG: { typedef IG A; __VA_ARGS__; } break; case KAG: { typedef AG A; __VA_ARGS__; } break; \
  case KAS: { typedef AS A; __VA_ARGS__; } break; case KP: { typedef DV A; __VA_ARGS__; } break; \
  default: { typedef IT A; __VA_ARGS__; } break; } } while (0)

// ---- functions used for "passing to and returning from functions"
template <class A> static void fill(A& o, long v0) {
  Geo g = Tr<A>::geo(o);
  if (!o.data()) return;
  std::vector<long> c = rel_cells(Tr<A>::kind, g);
  typename Tr<A>::T* p = const_cast<typename Tr<A>::T*>(o.data());
  for (size_t i = 0; i < c.size(); ++i) p[c[i]] = (typename Tr<A>::T)(v0 + (long)i);
}
template <class A> NOINLINE static A make(long n, long v0) { A r; Tr<A>::resize1(r, n, true); fill(r, v0); return r; }
template <class A> NOINLINE static A share(A& v) { A r(v); return r; }
template <class A> NOINLINE static A dup(const A& v) { A r; r = v; return r; }
template <class A> NOINLINE static void byval_resize(A v, long n) { Tr<A>::resize1(v, n, true); }
template <class A> NOINLINE static void byval_write(A v, long i, long j, long val) { Tr<A>::put(v, i, j, val); }
template <class A> NOINLINE static A view_of_ref(A& p, int lo, int hi, int st) { return p(stride(lo, hi, st)); }
template <class A> NOINLINE static A view_of_val(A p, int lo, int hi, int st) { return p(stride(lo, hi, st)); }
template <class A> NOINLINE static A sum_of(const A& a, const A& b) { return a + b; }
NOINLINE static IV wrap(int* p, int n) { return IV(p, dimensions(n)); }
// ---- std::initializer_list: a vector constructed from / assigned the list {v0, v0+1, …} of n = 1..4 values
template <class A> static A* from_list(long n, long v0) {
  typedef typename Tr<A>::T T;
  T a = (T)v0;
  switch (n) {
    case 1: return new A{a};
    case 2: return new A{a, (T)(a + 1)};
    case 3: return new A{a, (T)(a + 1), (T)(a + 2)};
    default: return new A{a, (T)(a + 1), (T)(a + 2), (T)(a + 3)};
  }
}
template <class A> static void assign_list(A& o, long n, long v0) {
  typedef typename Tr<A>::T T;
  T a = (T)v0;
  switch (n) {
    case 1: o = {a}; break;
    case 2: o = {a, (T)(a + 1)}; break;
    case 3: o = {a, (T)(a + 1), (T)(a + 2)}; break;
    default: o = {a, (T)(a + 1), (T)(a + 2), (T)(a + 3)}; break;
  }
}

// ---- storage table
static SRec* find_sto(void* sp) {
  for (size_t i = stos.size(); i-- > 0;) if (stos[i].sto == sp && !stos[i].dead) return &stos[i];
  for (size_t i = stos.size(); i-- > 0;) if (stos[i].sto == sp) return &stos[i];
  return 0;
}
static void refresh() {
  for (size_t i = 0; i < stos.size(); ++i) if (!stos[i].dead && (poisoned(stos[i].sto) || poisoned(stos[i].base))) stos[i].dead = true;
}
static int links_of(const SRec& r) {
  return r.dbl ? static_cast<Storage<double>*>(r.sto)->n_links() : static_cast<Storage<int>*>(r.sto)->n_links();
}
template <class A> static void discover_one(A* o) {
  typedef typename Tr<A>::T T;
  Storage<T>* sp = o->storage();
  if (!sp) return;
  SRec* r = find_sto(sp);
  if ((!r || r->dead) && !poisoned(sp)) {
    SRec n; n.id = (int)stos.size(); n.sto = sp; n.base = reinterpret_cast<const char*>(sp->data()); n.n = sp->n_allocated();
    n.esz = sizeof(T); n.dbl = std::is_same<T, double>::value; n.dead = false;
    stos.push_back(n);
  }
}
// all live objects by ascending handle
static std::map<long, Slot> all_objects() {
  std::map<long, Slot> m(pool);
  for (std::map<long, std::pair<int, size_t> >::iterator it = inbag.begin(); it != inbag.end(); ++it) {
    Slot s; s.kind = it->second.first; s.p = 0;
    DISPATCH(s.kind, s.p = &bag<A>()[it->second.second]);
    m[it->first] = s;
  }
  return m;
}
static bool get(long k, Slot& s) {
  std::map<long, Slot>::iterator it = pool.find(k);
  if (it != pool.end()) { s = it->second; return true; }
  std::map<long, std::pair<int, size_t> >::iterator jt = inbag.find(k);
  if (jt == inbag.end()) return false;
  s.kind = jt->second.first;
  DISPATCH(s.kind, s.p = &bag<A>()[jt->second.second]);
  return true;
}
static bool exists(long k) { return pool.count(k) || inbag.count(k); }
static void discover() {
  refresh();
  std::map<long, Slot> m = all_objects();
  for (std::map<long, Slot>::iterator it = m.begin(); it != m.end(); ++it)
    DISPATCH(it->second.kind, discover_one(static_cast<A*>(it->second.p)));
}
// which allocation does p point into?  writes "S3+2" / "X1+0" / "?" and reports liveness
static bool locate(const char* p, bool zero_len, std::string& where, bool& live, bool& physical) {
  std::ostringstream os;
  for (int pass = 0; pass < 2; ++pass)
    for (size_t i = stos.size(); i-- > 0;) {
      SRec& r = stos[i];
      const char* end = r.base + r.n * r.esz;
      if ((pass == 0) == !r.dead && p >= r.base && (p < end || (zero_len && p == end))) {
        os << "S" << r.id << "+" << (p - r.base) / (long)r.esz; where = os.str(); live = !r.dead; physical = !r.dead; return true;
      }
    }
  for (std::map<long, Ext>::iterator it = exts.begin(); it != exts.end(); ++it) {
    Ext& e = it->second;
    const char* b = reinterpret_cast<const char*>(e.base);
    const char* end = reinterpret_cast<const char*>(e.base + e.n);
    if (p >= b && (p < end || (zero_len && p == end))) {
      os << "X" << it->first << "+" << (p - b) / (long)sizeof(int); where = os.str(); live = e.live; physical = true; return true;
    }
  }
  where = "?"; live = false; physical = false; return false;
}
template <class A> static long grad_delta(A*, void*) { return -1; }
template <> long grad_delta<AV>(AV* o, void* sp) { return (long)o->gradient_index() - (long)static_cast<Storage<double>*>(sp)->gradient_index(); }
template <> long grad_delta<AG>(AG* o, void* sp) { return (long)o->gradient_index() - (long)static_cast<Storage<double>*>(sp)->gradient_index(); }
template <> long grad_delta<AS>(AS* o, void* sp) { return (long)o->gradient_index() - (long)static_cast<Storage<double>*>(sp)->gradient_index(); }

static void put_dims(std::ostream& os, int kind, long a, long b) { os << a; if (kind == KM) os << "x" << b; }

template <class A> static void describe(std::ostream& os, long k, A* o) {
  typedef typename Tr<A>::T T;
  const int kind = Tr<A>::kind;
  os << " " << k << "(K=" << KCH[kind] << " ";
  Storage<T>* sp = o->storage();
  SRec* r = 0;
  if (!sp) os << "st=- nl=-";
  else {
    r = find_sto(sp);
    if (!r) os << "st=? nl=!";
    else if (r->dead) os << "st=S" << r->id << " nl=!";
    else os << "st=S" << r->id << " nl=" << links_of(*r) << " sz=" << sp->n_allocated();
  }
  const T* p = o->data();
  Geo g = Tr<A>::geo(*o);
  if (!p) { os << " at=0 L=- len="; put_dims(os, kind, g.d0, g.d1); }
  else {
    std::vector<long> c = rel_cells(kind, g);
    std::string where; bool live, phys;
    locate(reinterpret_cast<const char*>(p), c.empty(), where, live, phys);
    os << " at=" << where << " L=" << (live ? 1 : 0) << " len="; put_dims(os, kind, g.d0, g.d1);
    os << " str="; put_dims(os, kind, g.s0, g.s1);
    if (k_active(kind) && sp && r && !r->dead) os << " gi=" << grad_delta(o, sp);
    if (!c.empty()) {
      os << " v=";
      // only read what is certainly addressable
      long span = extent_of(kind, g);
      if (!phys || g.s0 < 0 || g.s1 < 0 || region_bad(p, span * sizeof(T))) os << "!";
      else for (size_t i = 0; i < c.size(); ++i) os << (i ? "," : "") << (long)p[c[i]];
    }
  }
  os << ")";
}

static std::string observe(const std::string& status) {
  discover();
  std::ostringstream os;
  os << status << " | n=" << (n_storage_objects() - baseline) << " g=" << ((long)the_stack->n_gradients_registered() - baseline_g) << " f=" << g_fail << " |";
  std::map<long, Slot> m = all_objects();
  for (std::map<long, Slot>::iterator it = m.begin(); it != m.end(); ++it)
    DISPATCH(it->second.kind, describe(os, it->first, static_cast<A*>(it->second.p)));
  os << " |";
  for (std::map<long, Ext>::iterator it = exts.begin(); it != exts.end(); ++it) {
    os << " X" << it->first << ":" << (it->second.live ? 1 : 0) << ":";
    for (long i = 0; i < it->second.n; ++i) os << (i ? "," : "") << it->second.base[i];
  }
  return os.str();
}

template <class A> static void clear_bag() { std::vector<A>().swap(bag<A>()); }
static void clear_bags() {
  for (int k = 0; k < NKIND; ++k) { DISPATCH(k, clear_bag<A>()); bagh[k].clear(); }
  inbag.clear();
}
static void delete_pool() {
  while (!pool.empty()) {
    Slot s = pool.begin()->second; pool.erase(pool.begin());
    DISPATCH(s.kind, delete static_cast<A*>(s.p));
  }
}
static void free_all() {
  clear_bags();
  delete_pool();
  for (std::map<long, Ext>::iterator it = exts.begin(); it != exts.end(); ++it) {
    if (it->second.fixed) delete it->second.fixed; else std::free(it->second.base);
  }
  exts.clear();
  stos.clear();
}

static bool num(const std::string& s, long& v) {
  if (s.empty()) return false;
  char* e = 0; v = strtol(s.c_str(), &e, 10);
  return *e == 0;
}
template <class A> static void add(long k, A* o) { Slot s; s.kind = Tr<A>::kind; s.p = o; pool[k] = s; }

// data of an operand that is going to be read or written must be addressable (a stale soft link is the user's fault)
template <class A> static bool usable_t(A* o) {
  Geo g = Tr<A>::geo(*o);
  if (rel_cells(Tr<A>::kind, g).empty()) return true;
  if (!o->data()) return false;              // extents without data: what a failed allocation leaves of an empty array
  std::string where; bool live, phys;
  locate(reinterpret_cast<const char*>(o->data()), false, where, live, phys);
  return phys && g.s0 >= 0 && g.s1 >= 0 && !region_bad(o->data(), extent_of(Tr<A>::kind, g) * sizeof(typename Tr<A>::T));
}
static bool usable(const Slot& s) { bool r = false; DISPATCH(s.kind, r = usable_t(static_cast<A*>(s.p))); return r; }
static Geo geo_of(const Slot& s) { Geo g = { 0, 0, 0, 0 }; DISPATCH(s.kind, g = Tr<A>::geo(*static_cast<A*>(s.p))); return g; }
static long ncells(const Slot& s) { return (long)rel_cells(s.kind, geo_of(s)).size(); }

// ---- view requests
enum Fn { SL, ROW, COL, SUB, IDX, TR, DIAG, SOD, RSH, PERM, DM, IL, NFN };
static const char* FNAME[NFN] = { "sl", "row", "col", "sub", "idx", "tr", "diag", "sod", "rsh", "perm", "dm", "il" };
static const size_t FARGS[NFN] = { 3, 4, 4, 6, 1, 0, 1, 2, 2, 2, 0, 0 };
struct Req { Fn fn; long a[6]; bool cst; };

static bool range_ok(long len, long lo, long hi, long st) { return st >= 1 && st <= 8 && lo >= 0 && lo < len && hi >= 0 && hi < len; }
static bool small(long x) { return x >= -20 && x <= 20; }
static long labs_(long x) { return x < 0 ? -x : x; }
// the source has elements, the function exists for its class, indices address the source (the library does not test
// them); ranges may be reversed, diagonals / extents / sub-matrix bounds may be wrong
static bool view_ok(const Slot& b, const Req& r) {
  Geo g = geo_of(b);
  const long* a = r.a;
  if (g.d0 == 0 || (b.kind == KM && g.d1 == 0)) return false;
  bool nodata = false;
  DISPATCH(b.kind, nodata = static_cast<A*>(b.p)->data() == 0);
  if (nodata) return false;                 // extents without data (left by a failed allocation): nothing to view
  bool nosto = false;
  DISPATCH(b.kind, nosto = static_cast<A*>(b.p)->storage() == 0);
  if (nosto && !usable(b)) return false;    // an uncounted view (soft link, stale) whose data are not all there: user error
  switch (r.fn) {
    case SL: return k_vec(b.kind) && range_ok(g.d0, a[0], a[1], a[2]);
    case ROW: return b.kind == KM && a[0] >= 0 && a[0] < g.d0 && range_ok(g.d1, a[1], a[2], a[3]);
    case COL: return b.kind == KM && a[3] >= 0 && a[3] < g.d1 && range_ok(g.d0, a[0], a[1], a[2]);
    case SUB: return b.kind == KM && range_ok(g.d0, a[0], a[1], a[2]) && range_ok(g.d1, a[3], a[4], a[5]);
    case IDX: return b.kind == KM && a[0] >= 0 && a[0] < g.d0;
    case TR: return b.kind == KM || k_symm(b.kind);
    case DIAG: if (b.kind == KM) return small(a[0]) && !(g.d0 == g.d1 && labs_(a[0]) == g.d0);
               return k_special(b.kind) && small(a[0]) && labs_(a[0]) != g.d0;
    case SOD: return (b.kind == KM || k_special(b.kind)) && small(a[0]) && small(a[1]);
    case RSH: return b.kind == KV && small(a[0]) && small(a[1]);
    case PERM: return b.kind == KM && small(a[0]) && small(a[1]);
    case DM: return (b.kind == KV || b.kind == KA) && g.s0 >= 1;
    case IL: return b.kind != KAG && b.kind != KAS;      // of an ACTIVE special matrix inactive_link()/value() does not compile
    default: return false;
  }
}
static int view_kind(int src, Fn fn) {
  switch (fn) {
    case SL: case SOD: case TR: return src;
    case ROW: case COL: case IDX: return KV;
    case DIAG: return src == KM ? KV : (k_active(src) ? KA : KV);
    case DM: return src == KA ? KAG : KG;
    case IL: return src == KA ? KP : src;
    default: return KM;
  }
}
// evaluates the view expression as a temporary and hands it to the consumer within the same full expression
template <class C> static void apply_view(const Slot& b, const Req& r, C& c) {
  const long* a = r.a;
  switch (b.kind) {
    case KV: { IV& s = *static_cast<IV*>(b.p);
      if (r.fn == SL) { if (r.cst) c(const_cast<const IV&>(s)(stride((int)a[0], (int)a[1], (int)a[2]))); else c(s(stride((int)a[0], (int)a[1], (int)a[2]))); }
      else if (r.fn == RSH) c(s.reshape((int)a[0], (int)a[1]));
      else if (r.fn == DM) c(s.diag_matrix());
      else if (r.fn == IL) c(s.inactive_link());
      else throw BadOp();
    } break;
    case KA: { AV& s = *static_cast<AV*>(b.p);
      if (r.fn == SL) { if (r.cst) c(const_cast<const AV&>(s)(stride((int)a[0], (int)a[1], (int)a[2]))); else c(s(stride((int)a[0], (int)a[1], (int)a[2]))); }
      else if (r.fn == DM) c(s.diag_matrix());
      else if (r.fn == IL) c(value(s));
      else throw BadOp();
    } break;
    case KP: { DV& s = *static_cast<DV*>(b.p);
      if (r.fn == SL) { if (r.cst) c(const_cast<const DV&>(s)(stride((int)a[0], (int)a[1], (int)a[2]))); else c(s(stride((int)a[0], (int)a[1], (int)a[2]))); }
      else if (r.fn == IL) c(s.inactive_link());
      else throw BadOp();
    } break;
    case KG: { IG& s = *static_cast<IG*>(b.p);
      if (r.fn == DIAG) c(s.diag_vector((int)a[0]));
      else if (r.fn == SOD) c(s.submatrix_on_diagonal((int)a[0], (int)a[1]));
      else if (r.fn == IL) c(s.inactive_link());
      else throw BadOp();
    } break;
    case KAG: { AG& s = *static_cast<AG*>(b.p);
      if (r.fn == DIAG) c(s.diag_vector((int)a[0]));
      else if (r.fn == SOD) c(s.submatrix_on_diagonal((int)a[0], (int)a[1]));
      else throw BadOp();
    } break;
    case KAS: { AS& s = *static_cast<AS*>(b.p);
      if (r.fn == DIAG) c(s.diag_vector((int)a[0]));
      else if (r.fn == SOD) c(s.submatrix_on_diagonal((int)a[0], (int)a[1]));
      else if (r.fn == TR) c(s.T());
      else throw BadOp();
    } break;
    case KM: { IM& s = *static_cast<IM*>(b.p);
      switch (r.fn) {
        case ROW: c(s((int)a[0], stride((int)a[1], (int)a[2], (int)a[3]))); break;
        case COL: c(s(stride((int)a[0], (int)a[1], (int)a[2]), (int)a[3])); break;
        case SUB: c(s(stride((int)a[0], (int)a[1], (int)a[2]), stride((int)a[3], (int)a[4], (int)a[5]))); break;
        case IDX: c(s[(int)a[0]]); break;
        case TR: c(s.T()); break;
        case DIAG: c(s.diag_vector((int)a[0])); break;
        case SOD: c(s.submatrix_on_diagonal((int)a[0], (int)a[1])); break;
        case PERM: c(s.permute((int)a[0], (int)a[1])); break;
        case IL: c(s.inactive_link()); break;
        default: throw BadOp();
      }
    } break;
    case KS: { IS& s = *static_cast<IS*>(b.p);
      if (r.fn == DIAG) c(s.diag_vector((int)a[0]));
      else if (r.fn == SOD) c(s.submatrix_on_diagonal((int)a[0], (int)a[1]));
      else if (r.fn == TR) c(s.T());
      else if (r.fn == IL) c(s.inactive_link());
      else throw BadOp();
    } break;
    default: { IT& s = *static_cast<IT*>(b.p);
      if (r.fn == DIAG) c(s.diag_vector((int)a[0]));
      else if (r.fn == SOD) c(s.submatrix_on_diagonal((int)a[0], (int)a[1]));
      else if (r.fn == IL) c(s.inactive_link());
      else throw BadOp();
    } break;
  }
}
// consumers of a temporary view
struct CNew { long k; template <class V> void operator()(V&& v) { typedef typename std::decay<V>::type VT; add(k, new VT(std::forward<V>(v))); } };
struct CLink { Slot x; template <class V> void operator()(V&& v) { typedef typename std::decay<V>::type VT;
  if ((int)Tr<VT>::kind != x.kind) throw BadOp(); (*static_cast<VT*>(x.p)) >>= std::move(const_cast<VT&>(v)); } };
struct CMove { Slot x; template <class V> void operator()(V&& v) { typedef typename std::decay<V>::type VT;
  if ((int)Tr<VT>::kind != x.kind) throw BadOp(); *static_cast<VT*>(x.p) = std::move(const_cast<VT&>(v)); } };
struct CCopy { Slot x; template <class V> void operator()(V&& v) { typedef typename std::decay<V>::type VT;
  if ((int)Tr<VT>::kind != x.kind) throw BadOp(); *static_cast<VT*>(x.p) = static_cast<const VT&>(v); } };

// ---- generic operations
template <class A> static void op_copy_ctor(const std::string& c, long k, A* b) {
  if (c == "cp") add(k, new A(*b));
  else if (c == "cpc") add(k, new A(*const_cast<const A*>(b)));
  else add(k, new A(std::move(*b)));
}
template <class A> static void op_assign(const std::string& c, A* x, A* b) {
  if (c == "ac") *x = *const_cast<const A*>(b);
  else if (c == "am") *x = std::move(*b);
  else if (c == "amfn") *x = share(*b);
  else *x = dup(*b);
}
template <class A> static void op_std_swap(A* x, A* b) { std::swap(*x, *b); }
template <class A> static void op_adl_swap(A* x, A* b) { swap(*x, *b); }
template <> void op_adl_swap<IS>(IS*, IS*) { throw BadOp(); }
template <> void op_adl_swap<IT>(IT*, IT*) { throw BadOp(); }
template <> void op_adl_swap<IG>(IG*, IG*) { throw BadOp(); }
template <> void op_adl_swap<AG>(AG*, AG*) { throw BadOp(); }
template <> void op_adl_swap<AS>(AS*, AS*) { throw BadOp(); }
template <class A> static void op_vpush(long k, A* b) {
  std::vector<A>& v = bag<A>();
  v.push_back(*b);
  inbag[k] = std::make_pair((int)Tr<A>::kind, v.size() - 1);
  bagh[Tr<A>::kind].push_back(k);
}
template <class A> static void op_vpop(long k) {
  bag<A>().pop_back();
  inbag.erase(k);
  bagh[Tr<A>::kind].pop_back();
}
template <class A> static void op_write(A* x, long idx, long v, bool byval) {
  long i, j; cell_ij(Tr<A>::kind, Tr<A>::geo(*x), idx, i, j);
  if (byval) byval_write<A>(*x, i, j, v); else Tr<A>::put(*x, i, j, v);
}

static int kind_of_sfx(const std::string& sfx, bool allow_m) {
  if (sfx == "") return KV; if (sfx == "m") return allow_m ? KM : -1; if (sfx == "a") return KA; if (sfx == "s") return KS;
  if (sfx == "t") return KT; if (sfx == "g") return KG; if (sfx == "G") return KAG; if (sfx == "S") return KAS; if (sfx == "p") return KP;
  return -1;
}
// function forms of a slice: k := new X(view_of_*(b, ..)) / x = view_of_*(b, ..)
template <class A> static void fn_forms(int form, long k, Slot x, Slot b, const Req& r) {
  A* s = static_cast<A*>(b.p);
  int lo = (int)r.a[0], hi = (int)r.a[1], st = (int)r.a[2];
  if (form == 4) add(k, new A(view_of_ref(*s, lo, hi, st)));
  else if (form == 5) add(k, new A(view_of_val(*s, lo, hi, st)));
  else if (form == 6) *static_cast<A*>(x.p) = view_of_ref(*s, lo, hi, st);
  else *static_cast<A*>(x.p) = view_of_val(*s, lo, hi, st);
}

int main() {
  std::string line;
  Stack stack;
  the_stack = &stack;
  baseline = n_storage_objects();
  baseline_g = (long)stack.n_gradients_registered();
  while (std::getline(std::cin, line)) {
    std::vector<std::string> w = verif::words(line);
    if (w.empty()) continue;
    std::vector<long> a(w.size() + 8, 0);
    bool nums = true;
    for (size_t i = 1; i < w.size(); ++i) nums = nums && num(w[i], a[i]);
    const std::string& c = w[0];
    size_t na = w.size() - 1;
    std::string status = "ok";
    if (!nums) { std::cout << "bad-op\n"; continue; }
#define BAD { g_in_op = false; std::cout << "bad-op\n"; continue; }
#define SKIP { g_in_op = false; std::cout << "skip-dangling\n"; continue; }
    try {
      Slot x, b, b2;
      g_in_op = true;
      if (c == "reset" && na == 0) {
        g_in_op = false; g_fail = 0;
        free_all(); stack.new_recording();
        baseline = n_storage_objects(); baseline_g = (long)stack.n_gradients_registered();
        std::cout << "reset\n"; continue;
      }
      else if (c == "xnew" && na == 3) {
        if (a[1] < 0 || exts.count(a[1]) || a[2] < 1 || a[2] > 16) BAD
        Ext e; e.n = a[2]; e.base = static_cast<int*>(std::malloc(e.n * sizeof(int))); e.live = true; e.fixed = 0;
        for (long i = 0; i < e.n; ++i) e.base[i] = (int)(a[3] + i);
        exts[a[1]] = e;
      } else if (c == "fnew" && na == 2) {
        if (a[1] < 0 || exts.count(a[1])) BAD
        Ext e; e.n = 4; e.fixed = new FV(); e.base = e.fixed->data(); e.live = true;
        for (long i = 0; i < 4; ++i) (*e.fixed)(i) = (int)(a[2] + i);
        exts[a[1]] = e;
      } else if (c == "fnewl" && na == 2) {
        if (a[1] < 0 || exts.count(a[1])) BAD
        int v = (int)a[2];
        Ext e; e.n = 4; e.fixed = new FV{v, v + 1, v + 2, v + 3}; e.base = e.fixed->data(); e.live = true;
        exts[a[1]] = e;
      } else if (c == "inewm" && na == 3) {
        if (a[1] < 0 || exists(a[1]) || a[2] < 0 || a[2] > 1) BAD
        int v = (int)a[3];
        IM* o = a[2] == 0 ? new IM{{v, v + 1, v + 2}, {v + 3, v + 4, v + 5}} : new IM{{v, v + 1, v + 2}, {v + 3}};
        add(a[1], o);
      } else if (c.compare(0, 4, "inew") == 0) {
        std::string sfx = c.substr(4);
        int kd = kind_of_sfx(sfx, false);
        if (kd < 0 || !k_vec(kd) || na != 3 || a[1] < 0 || exists(a[1]) || a[2] < 1 || a[2] > 4) BAD
        if (kd == KV) add(a[1], from_list<IV>(a[2], a[3]));
        else if (kd == KA) add(a[1], from_list<AV>(a[2], a[3]));
        else add(a[1], from_list<DV>(a[2], a[3]));
      } else if (c == "ial" && na == 3) {
        if (!get(a[1], x) || !k_vec(x.kind) || a[2] < 1 || a[2] > 4) BAD
        if (!usable(x)) SKIP
        if (x.kind == KV) assign_list(*static_cast<IV*>(x.p), a[2], a[3]);
        else if (x.kind == KA) assign_list(*static_cast<AV*>(x.p), a[2], a[3]);
        else assign_list(*static_cast<DV*>(x.p), a[2], a[3]);
      } else if (c == "xw" && na == 3) {
        if (!exts.count(a[1]) || !exts[a[1]].live || a[2] < 0 || a[2] >= exts[a[1]].n) BAD
        exts[a[1]].base[a[2]] = (int)a[3];
      } else if (c == "xend" && na == 1) {
        if (!exts.count(a[1]) || !exts[a[1]].live) BAD
        Ext& e = exts[a[1]];
        for (long i = 0; i < e.n; ++i) e.base[i] = -7777;
        e.live = false;
      } else if (c == "newm" && na == 4) {
        if (a[1] < 0 || exists(a[1]) || a[2] < -3 || a[2] > 8 || a[3] < -3 || a[3] > 8) BAD
        IM* o = new IM((int)a[2], (int)a[3]); add(a[1], o); fill(*o, a[4]);
      } else if ((c == "ext" || c == "extfn") && na == 4) {
        if (a[1] < 0 || exists(a[1]) || !exts.count(a[2]) || exts[a[2]].fixed || a[3] < 0 || a[4] < -3 || a[3] + a[4] > exts[a[2]].n || a[3] >= exts[a[2]].n) BAD
        if (c == "ext") add(a[1], new IV(exts[a[2]].base + a[3], dimensions((int)a[4])));
        else add(a[1], new IV(wrap(exts[a[2]].base + a[3], (int)a[4])));
      } else if (c == "fdiag" && na == 2) {
        if (a[1] < 0 || exists(a[1]) || !exts.count(a[2]) || !exts[a[2]].fixed) BAD
        add(a[1], new IG(exts[a[2]].fixed->diag_matrix()));
      } else if (c == "fsl" && na == 4) {
        if (a[1] < 0 || exists(a[1]) || !exts.count(a[2]) || !exts[a[2]].fixed || a[3] < 0 || a[4] > 3 || a[3] > a[4]) BAD
        add(a[1], new IV((*exts[a[2]].fixed)(range((int)a[3], (int)a[4]))));
      } else if ((c == "cp" || c == "cpc" || c == "cpm") && na == 2) {
        if (a[1] < 0 || exists(a[1]) || !get(a[2], b)) BAD
        DISPATCH(b.kind, op_copy_ctor(c, a[1], static_cast<A*>(b.p)));
      } else if (c == "soft" && na == 2) {
        if (a[1] < 0 || exists(a[1]) || !get(a[2], b)) BAD
        DISPATCH(b.kind, add(a[1], new A(static_cast<A*>(b.p)->soft_link())));
      } else if (c == "link" && na == 2) {
        if (!get(a[1], x) || !get(a[2], b) || x.kind != b.kind) BAD
        DISPATCH(x.kind, static_cast<A*>(x.p)->link(*static_cast<A*>(b.p)));
      } else if ((c == "ac" || c == "am" || c == "amfn" || c == "amdup") && na == 2) {
        if (!get(a[1], x) || !get(a[2], b) || x.kind != b.kind) BAD
        if (!usable(x) || !usable(b)) SKIP
        DISPATCH(x.kind, op_assign(c, static_cast<A*>(x.p), static_cast<A*>(b.p)));
      } else if ((c == "amext" || c == "amextfn") && na == 4) {
        if (!get(a[1], x) || !exts.count(a[2]) || exts[a[2]].fixed || a[3] < 0 || a[4] < -3 || a[3] + a[4] > exts[a[2]].n || a[3] >= exts[a[2]].n || x.kind != KV) BAD
        if (!usable(x)) SKIP
        if (c == "amext") *static_cast<IV*>(x.p) = IV(exts[a[2]].base + a[3], dimensions((int)a[4]));
        else *static_cast<IV*>(x.p) = wrap(exts[a[2]].base + a[3], (int)a[4]);
      } else if (c == "amfix" && na == 4) {
        if (!get(a[1], x) || !exts.count(a[2]) || !exts[a[2]].fixed || a[3] < 0 || a[4] > 3 || a[3] > a[4] || x.kind != KV) BAD
        if (!usable(x)) SKIP
        *static_cast<IV*>(x.p) = (*exts[a[2]].fixed)(range((int)a[3], (int)a[4]));
      } else if (c == "amfresh" && na == 3) {
        if (!get(a[1], x) || a[2] < 0 || a[2] > 8) BAD
        if (!usable(x)) SKIP
        DISPATCH(x.kind, *static_cast<A*>(x.p) = make<A>(a[2], a[3]));
      } else if (c == "fnrs" && na == 2) {
        if (!get(a[1], b) || a[2] < -2 || a[2] > 8) BAD
        DISPATCH(b.kind, byval_resize<A>(*static_cast<A*>(b.p), a[2]));
      } else if (c == "fnw" && na == 3) {
        if (!get(a[1], b) || a[2] < 0 || a[2] >= ncells(b)) BAD
        if (!usable(b)) SKIP
        DISPATCH(b.kind, op_write(static_cast<A*>(b.p), a[2], a[3], true));
      } else if (c == "clr" && na == 1) {
        if (!get(a[1], x)) BAD
        DISPATCH(x.kind, static_cast<A*>(x.p)->clear());
      } else if (c == "del" && na == 1) {
        if (!pool.count(a[1])) BAD
        x = pool[a[1]];
        pool.erase(a[1]);
        DISPATCH(x.kind, delete static_cast<A*>(x.p));
      } else if (c == "w" && na == 3) {
        if (!get(a[1], x) || a[2] < 0 || a[2] >= ncells(x)) BAD
        if (!usable(x)) SKIP
        DISPATCH(x.kind, op_write(static_cast<A*>(x.p), a[2], a[3], false));
      } else if (c == "swp" && na == 2) {
        if (!get(a[1], x) || !get(a[2], b) || x.kind != b.kind || k_special(x.kind)) BAD
        DISPATCH(x.kind, op_adl_swap(static_cast<A*>(x.p), static_cast<A*>(b.p)));
      } else if (c == "stdswp" && na == 2) {
        if (!get(a[1], x) || !get(a[2], b) || x.kind != b.kind) BAD
        if (!usable(x) || !usable(b)) SKIP
        DISPATCH(x.kind, op_std_swap(static_cast<A*>(x.p), static_cast<A*>(b.p)));
      } else if (c == "sum" && na == 3) {
        if (a[1] < 0 || exists(a[1]) || !get(a[2], b) || !get(a[3], b2) || b.kind != b2.kind || (b.kind != KV && b.kind != KA)) BAD
        if (!usable(b) || !usable(b2)) SKIP
        if (b.kind == KV) add(a[1], new IV(sum_of(*static_cast<IV*>(b.p), *static_cast<IV*>(b2.p))));
        else add(a[1], new AV(sum_of(*static_cast<AV*>(b.p), *static_cast<AV*>(b2.p))));
      } else if (c == "amsum" && na == 3) {
        if (!get(a[1], x) || !get(a[2], b) || !get(a[3], b2) || b.kind != b2.kind || x.kind != b.kind || (b.kind != KV && b.kind != KA)) BAD
        if (!usable(x) || !usable(b) || !usable(b2)) SKIP
        if (b.kind == KV) *static_cast<IV*>(x.p) = sum_of(*static_cast<IV*>(b.p), *static_cast<IV*>(b2.p));
        else *static_cast<AV*>(x.p) = sum_of(*static_cast<AV*>(b.p), *static_cast<AV*>(b2.p));
      } else if (c == "vpush" && na == 2) {
        if (a[1] < 0 || exists(a[1]) || !get(a[2], b)) BAD
        DISPATCH(b.kind, op_vpush(a[1], static_cast<A*>(b.p)));
      } else if (c == "vpop" && na == 1) {
        if (!inbag.count(a[1])) BAD
        int kd = inbag[a[1]].first;
        if (bagh[kd].empty() || bagh[kd].back() != a[1]) BAD
        DISPATCH(kd, op_vpop<A>(a[1]));
      } else if (c == "failnext" && na == 1) {
        if (a[1] < 0 || a[1] > 6) BAD
        g_fail = a[1];
      } else if (c == "end" && na == 0) {
        clear_bags();
        delete_pool();
      } else if (c.compare(0, 4, "newd") == 0) {
        std::string sfx = c.substr(4);
        int kd = kind_of_sfx(sfx, true);
        if (kd < 0 || na != 1 || a[1] < 0 || exists(a[1])) BAD
        DISPATCH(kd, add(a[1], new A()));
      } else if (c.compare(0, 5, "newfn") == 0) {
        std::string sfx = c.substr(5);
        int kd = kind_of_sfx(sfx, true);
        if (kd < 0 || na != 3 || a[1] < 0 || exists(a[1]) || a[2] < -3 || a[2] > 8) BAD
        DISPATCH(kd, add(a[1], new A(make<A>(a[2], a[3]))));
      } else if (c.compare(0, 3, "new") == 0) {
        std::string sfx = c.substr(3);
        int kd = kind_of_sfx(sfx, false);
        if (kd < 0 || na != 3 || a[1] < 0 || exists(a[1]) || a[2] < -3 || a[2] > 16) BAD
        DISPATCH(kd, { A* o = Tr<A>::sized(a[2]); add(a[1], o); fill(*o, a[3]); });
      } else if ((c == "rs" || c == "rsi") && na == 3) {
        if (!get(a[1], x) || x.kind == KM || a[2] > 16 || a[2] < -4) BAD
        DISPATCH(x.kind, { Tr<A>::resize1(*static_cast<A*>(x.p), a[2], c == "rsi"); fill(*static_cast<A*>(x.p), a[3]); });
      } else if ((c == "rs2" || c == "rsi2") && na == 4) {
        if (!get(a[1], x) || k_vec(x.kind) || a[2] > 8 || a[2] < -4 || a[3] > 8 || a[3] < -4) BAD
        DISPATCH(x.kind, { Tr<A>::resize2(*static_cast<A*>(x.p), a[2], a[3], c == "rsi2"); fill(*static_cast<A*>(x.p), a[4]); });
      } else {
        // <form><fn> x b args
        static const char* FORMS[] = { "", "link", "ac", "am", "fn", "fnv", "amfn", "amfnv" };
        int form = -1, fn = -1;
        for (int f = 0; f < 8 && form < 0; ++f) {
          size_t L = strlen(FORMS[f]);
          if (c.compare(0, L, FORMS[f]) != 0) continue;
          for (int g = 0; g < NFN; ++g) if (c.substr(L) == FNAME[g]) { form = f; fn = g; break; }
        }
        if (form < 0 || na != 2 + FARGS[fn] || !get(a[2], b)) BAD
        Req r; r.fn = (Fn)fn; r.cst = false;
        for (size_t i = 0; i < 6; ++i) r.a[i] = a[3 + i];
        if (!view_ok(b, r)) BAD
        if (form == 0 || form == 4 || form == 5) {
          if ((form == 4 || form == 5) && fn != SL) BAD
          if (a[1] < 0 || exists(a[1])) BAD
          if (form == 0) { CNew cn; cn.k = a[1]; apply_view(b, r, cn); }
          else if (b.kind == KV) fn_forms<IV>(form, a[1], x, b, r);
          else if (b.kind == KA) fn_forms<AV>(form, a[1], x, b, r);
          else fn_forms<DV>(form, a[1], x, b, r);
        } else {
          if (!get(a[1], x)) BAD
          if ((form == 6 || form == 7) && fn != SL) BAD
          if (x.kind != view_kind(b.kind, (Fn)fn)) BAD
          if (form == 1) { CLink cl; cl.x = x; apply_view(b, r, cl); }
          else {
            if (!usable(x) || !usable(b)) SKIP
            if (form == 2) { CCopy cc; cc.x = x; r.cst = true; apply_view(b, r, cc); }
            else if (form == 3) { CMove cm; cm.x = x; apply_view(b, r, cm); }
            else if (b.kind == KV) fn_forms<IV>(form, 0, x, b, r);
            else if (b.kind == KA) fn_forms<AV>(form, 0, x, b, r);
            else fn_forms<DV>(form, 0, x, b, r);
          }
        }
      }
    }
    catch (const BadOp&) { g_in_op = false; std::cout << "bad-op\n"; continue; }
    catch (const std::bad_alloc&) { status = "exc:bad_alloc"; }
    catch (const empty_array&) { status = "exc:empty_array"; }
    catch (const size_mismatch&) { status = "exc:size_mismatch"; }
    catch (const invalid_dimension&) { status = "exc:invalid_dimension"; }
    catch (const invalid_operation&) { status = "exc:invalid_operation"; }
    catch (const index_out_of_bounds&) { status = "exc:index_out_of_bounds"; }
    catch (const adept::exception&) { status = "exc:other"; }
    g_in_op = false;
    std::cout << observe(status) << "\n";
  }
  free_all();
  return 0;
}
