// drv_matmul: symmetric special matrices (see drv_matmul.h)
#include "drv_matmul.h"
namespace mm {
bool build_group_s2(const Spec& s, XVisitor& v) {
  S_GROUP_HEAD
  S_PA("symL", SymmEngine<ROW_LOWER_COL_UPPER>, 3, 0) S_PA("symU", SymmEngine<ROW_UPPER_COL_LOWER>, 1, 0)
  return false;
}
}
