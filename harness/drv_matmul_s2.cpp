// drv_matmul: symmetric and triangular special matrices (see drv_matmul.h)
#include "drv_matmul.h"
namespace mm {
#define S_CASE(TAG, ENG) if (h[2] == TAG) { if (act) build_S1<ENG, true>(s, v); else build_S1<ENG, false>(s, v); return true; }
bool build_group_symtri(const Spec& s, XVisitor& v) {
  const Words& h = s.head;
  if (h[0] != "S") return false;
  if (h.size() < 4 || (h[1] != "a" && h[1] != "p")) throw BadOp();
  bool act = h[1] == "a";
  S_CASE("symL", SymmEngine<ROW_LOWER_COL_UPPER>) S_CASE("symU", SymmEngine<ROW_UPPER_COL_LOWER>)
  S_CASE("lo", LowerEngine<ROW_MAJOR>) S_CASE("loc", LowerEngine<COL_MAJOR>)
  S_CASE("up", UpperEngine<ROW_MAJOR>) S_CASE("upc", UpperEngine<COL_MAJOR>)
  return false;
}
}
