// mini_lapack.cpp -- the harness' own LAPACK for property C16 (solve / inv marshalling).
//
// Implements the Fortran entry points that adept/cpplapack.h declares
//   ?gesv ?sysv ?getrf ?getri ?sytrf ?sytri   (? = d, s)
// with the LAPACK calling convention: column-major storage with leading dimension lda/ldb,
// 1-based ipiv, info, workspace queries (lwork = -1), inputs overwritten with the factors,
// only the `uplo` triangle of a symmetric matrix referenced (structurally: every access to a
// symmetric operand goes through one accessor that can only address that triangle).
//
// It is a test double that meets the contract stated in lean/AdeptModel/Lapack.lean on the
// inputs the check uses:
//   * arithmetic in long double (Gaussian elimination with partial pivoting for the general
//     routines, Bunch-Kaufman diagonal pivoting L*D*L^T / U*D*U^T for the symmetric ones),
//   * EXACT detection of singularity for integer-valued input (determinant modulo three
//     61-bit primes; |det| is far below their product for the sizes used): info > 0 if and
//     only if the matrix is exactly singular,
//   * on info > 0 the right-hand side is left untouched (as in the reference implementation)
//     while A holds the (partial) factorisation.
// Every call is recorded (arguments as received, which triangle was actually read, info).
#include "mini_lapack.h"
#include <vector>
#include <cmath>
#include <limits>
#include <cstddef>
#include <cstdlib>
#include <cstring>

namespace {

typedef long double LD;
typedef unsigned long long u64;
typedef unsigned __int128 u128;

// one log per thread: the C12/C14 drivers call solve()/inv() from several threads at once (the C16 driver has one thread)
thread_local std::vector<MiniLapackCall> g_calls;

// ---------------------------------------------------------------- exact singularity test
const u64 PRIMES[3] = {2305843009213693951ULL /* 2^61-1 */, 2305843009213693921ULL, 2305843009213693907ULL};

u64 mulmod(u64 a, u64 b, u64 p) { return (u64)((u128)a * b % p); }
u64 powmod(u64 a, u64 e, u64 p) { u64 r = 1; a %= p; while (e) { if (e & 1) r = mulmod(r, a, p); a = mulmod(a, a, p); e >>= 1; } return r; }

// M: n*n row-major integer matrix (as long long). returns true iff det == 0 modulo p
bool det_zero_mod(const std::vector<long long>& M, int n, u64 p) {
  std::vector<u64> W(n * n);
  for (int i = 0; i < n * n; ++i) { long long v = M[i] % (long long)p; if (v < 0) v += (long long)p; W[i] = (u64)v; }
  for (int k = 0; k < n; ++k) {
    int piv = -1;
    for (int i = k; i < n; ++i) if (W[i * n + k] != 0) { piv = i; break; }
    if (piv < 0) return true;
    if (piv != k) for (int j = 0; j < n; ++j) { u64 t = W[k * n + j]; W[k * n + j] = W[piv * n + j]; W[piv * n + j] = t; }
    u64 inv = powmod(W[k * n + k], p - 2, p);
    for (int i = k + 1; i < n; ++i) {
      u64 f = mulmod(W[i * n + k], inv, p);
      if (f == 0) continue;
      for (int j = k; j < n; ++j) W[i * n + j] = (W[i * n + j] + p - mulmod(f, W[k * n + j], p)) % p;
    }
  }
  return false;
}

// 1: exactly singular, 0: exactly non-singular, -1: input not integer-valued (no exact verdict)
int exact_singular(const std::vector<LD>& W, int n) {
  std::vector<long long> M(n * n);
  for (int i = 0; i < n * n; ++i) {
    LD v = W[i];
    if (!(fabsl(v) < 1e15L) || v != floorl(v)) return -1;
    M[i] = (long long)v;
  }
  for (int k = 0; k < 3; ++k) if (!det_zero_mod(M, n, PRIMES[k])) return 0;
  return 1;
}

// ---------------------------------------------------------------- general: GEPP on a full working copy
// W: n*n row-major working matrix, overwritten by L\U; piv 0-based; returns info (first zero pivot, 1-based) or 0
int lu_factor(std::vector<LD>& W, int n, std::vector<int>& piv) {
  int info = 0;
  piv.assign(n, 0);
  for (int k = 0; k < n; ++k) {
    int p = k; LD big = fabsl(W[k * n + k]);
    for (int i = k + 1; i < n; ++i) if (fabsl(W[i * n + k]) > big) { big = fabsl(W[i * n + k]); p = i; }
    piv[k] = p;
    if (big == 0) { if (!info) info = k + 1; continue; }
    if (p != k) for (int j = 0; j < n; ++j) { LD t = W[k * n + j]; W[k * n + j] = W[p * n + j]; W[p * n + j] = t; }
    for (int i = k + 1; i < n; ++i) {
      LD f = W[i * n + k] / W[k * n + k];
      W[i * n + k] = f;
      for (int j = k + 1; j < n; ++j) W[i * n + j] -= f * W[k * n + j];
    }
  }
  return info;
}
void lu_solve(const std::vector<LD>& W, int n, const std::vector<int>& piv, std::vector<LD>& x) {
  for (int k = 0; k < n; ++k) { if (piv[k] != k) { LD t = x[k]; x[k] = x[piv[k]]; x[piv[k]] = t; } }
  for (int i = 0; i < n; ++i) for (int j = 0; j < i; ++j) x[i] -= W[i * n + j] * x[j];
  for (int i = n - 1; i >= 0; --i) { for (int j = i + 1; j < n; ++j) x[i] -= W[i * n + j] * x[j]; x[i] /= W[i * n + i]; }
}

// access tracker for a general n*n block
struct Touch {
  bool up, lo;
  Touch() : up(false), lo(false) {}
  void mark(int r, int c) { if (r < c) up = true; else if (r > c) lo = true; }
  char cls() const { return (up && lo) ? 'G' : up ? 'U' : lo ? 'L' : 'D'; }
};

template <typename T> void load_general(const T* a, int n, int lda, std::vector<LD>& W, Touch& t) {
  W.assign((size_t)n * n, 0);
  for (int j = 0; j < n; ++j) for (int i = 0; i < n; ++i) { W[i * n + j] = a[i + (long)j * lda]; t.mark(i, j); }
}
template <typename T> void store_general(T* a, int n, int lda, const std::vector<LD>& W) {
  for (int j = 0; j < n; ++j) for (int i = 0; i < n; ++i) a[i + (long)j * lda] = (T)W[i * n + j];
}

// ---------------------------------------------------------------- symmetric: the only way to the data
// Mirrored coordinates: for uplo = 'L' element (i,j), i >= j, is a[i + j*lda]; for uplo = 'U' the
// algorithm runs on the matrix with both index sets reversed, so (i,j), i >= j, is
// a[(n-1-i) + (n-1-j)*lda], which lies in the upper triangle.  No other element is addressable.
template <typename T> struct SymAcc {
  T* a; int n, lda; bool upper; Touch* t;
  T& at(int i, int j) {           // requires i >= j
    if (i < j) abort();
    int r = upper ? n - 1 - i : i, c = upper ? n - 1 - j : j;
    if (t) t->mark(r, c);
    return a[r + (long)c * lda];
  }
};

// Load the referenced triangle into the lower part of W (mirrored coordinates)
template <typename T> void load_sym(SymAcc<T>& A, std::vector<LD>& W) {
  int n = A.n;
  W.assign((size_t)n * n, 0);
  for (int j = 0; j < n; ++j) for (int i = j; i < n; ++i) W[i * n + j] = A.at(i, j);
}
template <typename T> void store_sym(SymAcc<T>& A, const std::vector<LD>& W) {
  int n = A.n;
  Touch* keep = A.t; A.t = 0;
  for (int j = 0; j < n; ++j) for (int i = j; i < n; ++i) A.at(i, j) = (T)W[i * n + j];
  A.t = keep;
}

// Bunch-Kaufman, lower variant (dsytf2 with UPLO='L'), on the lower part of W. ipiv: LAPACK convention, 1-based,
// in mirrored coordinates.  returns info.
int bk_factor(std::vector<LD>& W, int n, std::vector<int>& ipiv) {
#define L_(i, j) W[(size_t)(i) * n + (j)]
  const LD alpha = (1 + sqrtl(17.0L)) / 8;
  int info = 0;
  ipiv.assign(n, 0);
  int k = 0;
  while (k < n) {
    int kstep = 1, kp = k, imax = -1;
    LD absakk = fabsl(L_(k, k)), colmax = 0;
    for (int i = k + 1; i < n; ++i) if (fabsl(L_(i, k)) > colmax) { colmax = fabsl(L_(i, k)); imax = i; }
    if (absakk == 0 && colmax == 0) {
      if (!info) info = k + 1;
      kp = k;
    } else {
      if (absakk >= alpha * colmax) kp = k;
      else {
        LD rowmax = 0;
        for (int j = k; j < imax; ++j) if (fabsl(L_(imax, j)) > rowmax) rowmax = fabsl(L_(imax, j));
        for (int i = imax + 1; i < n; ++i) if (fabsl(L_(i, imax)) > rowmax) rowmax = fabsl(L_(i, imax));
        if (absakk >= alpha * colmax * (colmax / rowmax)) kp = k;
        else if (fabsl(L_(imax, imax)) >= alpha * rowmax) kp = imax;
        else { kp = imax; kstep = 2; }
      }
      int kk = k + kstep - 1;
      if (kp != kk) {
        for (int i = kp + 1; i < n; ++i) { LD t = L_(i, kk); L_(i, kk) = L_(i, kp); L_(i, kp) = t; }
        for (int j = kk + 1; j < kp; ++j) { LD t = L_(j, kk); L_(j, kk) = L_(kp, j); L_(kp, j) = t; }
        { LD t = L_(kk, kk); L_(kk, kk) = L_(kp, kp); L_(kp, kp) = t; }
        if (kstep == 2) { LD t = L_(k + 1, k); L_(k + 1, k) = L_(kp, k); L_(kp, k) = t; }
      }
      if (kstep == 1) {
        LD r1 = 1 / L_(k, k);
        for (int j = k + 1; j < n; ++j) { LD f = L_(j, k) * r1; for (int i = j; i < n; ++i) L_(i, j) -= L_(i, k) * f; }
        for (int i = k + 1; i < n; ++i) L_(i, k) *= r1;
      } else if (k < n - 2) {
        LD d21 = L_(k + 1, k), d11 = L_(k + 1, k + 1) / d21, d22 = L_(k, k) / d21, t = 1 / (d11 * d22 - 1);
        d21 = t / d21;
        for (int j = k + 2; j < n; ++j) {
          LD wk = d21 * (d11 * L_(j, k) - L_(j, k + 1)), wkp1 = d21 * (d22 * L_(j, k + 1) - L_(j, k));
          for (int i = j; i < n; ++i) L_(i, j) -= L_(i, k) * wk + L_(i, k + 1) * wkp1;
          L_(j, k) = wk; L_(j, k + 1) = wkp1;
        }
      }
    }
    if (kstep == 1) ipiv[k] = kp + 1; else { ipiv[k] = -(kp + 1); ipiv[k + 1] = -(kp + 1); }
    k += kstep;
  }
  return info;
}
// solve with the factors (dsytrs with UPLO='L'); x in mirrored coordinates
void bk_solve(const std::vector<LD>& W, int n, const std::vector<int>& ipiv, std::vector<LD>& x) {
  int k = 0;
  while (k < n) {
    if (ipiv[k] > 0) {
      int kp = ipiv[k] - 1;
      if (kp != k) { LD t = x[k]; x[k] = x[kp]; x[kp] = t; }
      for (int i = k + 1; i < n; ++i) x[i] -= L_(i, k) * x[k];
      x[k] /= L_(k, k);
      k += 1;
    } else {
      int kp = -ipiv[k] - 1;
      if (kp != k + 1) { LD t = x[k + 1]; x[k + 1] = x[kp]; x[kp] = t; }
      for (int i = k + 2; i < n; ++i) x[i] -= L_(i, k) * x[k] + L_(i, k + 1) * x[k + 1];
      LD akm1k = L_(k + 1, k), akm1 = L_(k, k) / akm1k, ak = L_(k + 1, k + 1) / akm1k, denom = akm1 * ak - 1;
      LD bkm1 = x[k] / akm1k, bk = x[k + 1] / akm1k;
      x[k] = (ak * bkm1 - bk) / denom; x[k + 1] = (akm1 * bk - bkm1) / denom;
      k += 2;
    }
  }
  k = n - 1;
  while (k >= 0) {
    if (ipiv[k] > 0) {
      for (int i = k + 1; i < n; ++i) x[k] -= L_(i, k) * x[i];
      int kp = ipiv[k] - 1;
      if (kp != k) { LD t = x[k]; x[k] = x[kp]; x[kp] = t; }
      k -= 1;
    } else {
      for (int i = k + 1; i < n; ++i) { x[k] -= L_(i, k) * x[i]; x[k - 1] -= L_(i, k - 1) * x[i]; }
      int kp = -ipiv[k] - 1;
      if (kp != k) { LD t = x[k]; x[k] = x[kp]; x[kp] = t; }
      k -= 2;
    }
  }
#undef L_
}

// the symmetric matrix denoted by the lower part of W, as a full row-major matrix (for the exact test)
std::vector<LD> sym_full(const std::vector<LD>& W, int n) {
  std::vector<LD> F((size_t)n * n);
  for (int i = 0; i < n; ++i) for (int j = 0; j < n; ++j) F[i * n + j] = i >= j ? W[i * n + j] : W[j * n + i];
  return F;
}

void record(const char* name, int n, int nrhs, int lda, int ldb, char uplo, char rd, int info, int query,
            const void* a, const void* b, long ab, long bb) {
  MiniLapackCall c;
  c.name = name; c.n = n; c.nrhs = nrhs; c.lda = lda; c.ldb = ldb; c.uplo = uplo; c.read = rd; c.info = info;
  c.query = query; c.a = a; c.b = b; c.a_bytes = ab; c.b_bytes = bb;
  g_calls.push_back(c);
}

int max1(int n) { return n > 1 ? n : 1; }

// ---------------------------------------------------------------- the six routines
template <typename T>
void gesv(const char* name, int n, int nrhs, T* a, int lda, int* ipiv, T* b, int ldb, int* info) {
  *info = 0;
  if (n < 0) *info = -1; else if (nrhs < 0) *info = -2; else if (lda < max1(n)) *info = -4; else if (ldb < max1(n)) *info = -7;
  if (*info) { record(name, n, nrhs, lda, ldb, '-', '-', *info, 0, a, b, 0, 0); return; }
  Touch t; std::vector<LD> W, W0; std::vector<int> piv;
  load_general(a, n, lda, W, t);
  W0 = W;
  int st = lu_factor(W, n, piv);
  int ex = exact_singular(W0, n);
  if (ex == 1 && st == 0) st = n;          // rounding hid an exactly zero pivot
  store_general(a, n, lda, W);
  for (int k = 0; k < n; ++k) ipiv[k] = piv[k] + 1;
  if (st == 0) {
    std::vector<LD> x(n);
    for (int c = 0; c < nrhs; ++c) {
      for (int i = 0; i < n; ++i) x[i] = b[i + (long)c * ldb];
      lu_solve(W, n, piv, x);
      for (int i = 0; i < n; ++i) b[i + (long)c * ldb] = (T)x[i];
    }
  }
  *info = st;
  record(name, n, nrhs, lda, ldb, '-', t.cls(), st, 0, a, b,
         n ? (long)sizeof(T) * ((long)(n - 1) * lda + n) : 0, (n && nrhs) ? (long)sizeof(T) * ((long)(nrhs - 1) * ldb + n) : 0);
}

template <typename T>
void getrf(const char* name, int m, int n, T* a, int lda, int* ipiv, int* info) {
  *info = 0;
  if (m != n) { *info = -1; record(name, n, m, lda, 0, '-', '-', *info, 0, a, 0, 0, 0); return; }  // only square used by Adept
  if (lda < max1(n)) { *info = -4; record(name, n, 0, lda, 0, '-', '-', *info, 0, a, 0, 0, 0); return; }
  Touch t; std::vector<LD> W, W0; std::vector<int> piv;
  load_general(a, n, lda, W, t);
  W0 = W;
  int st = lu_factor(W, n, piv);
  if (exact_singular(W0, n) == 1 && st == 0) st = n;
  store_general(a, n, lda, W);
  for (int k = 0; k < n; ++k) ipiv[k] = piv[k] + 1;
  *info = st;
  record(name, n, 0, lda, 0, '-', t.cls(), st, 0, a, 0, n ? (long)sizeof(T) * ((long)(n - 1) * lda + n) : 0, 0);
}

// The routines USE their workspace, as LAPACK's do (WORK is scratch on entry and undefined on exit): a per-call pattern is
// written over it and must still be there when the routine finishes.  A caller that hands the same workspace to two
// concurrent calls (a workspace kept in a static, say) gets its result poisoned (and a data race on the workspace).
template <typename T> struct WorkGuard {
  T* w; int len; T token; T* poison;
  WorkGuard(T* work, int n, T* out) : w(work), len(n > 0 ? n : 0), poison(out) {
    static thread_local unsigned counter = 0;
    token = (T)(1000003.0 + 7.0 * (double)(++counter % 4096) + 0.5 * (double)((reinterpret_cast<std::size_t>(&counter) >> 6) % 1024));
    for (int i = 0; i < len; ++i) w[i] = token;
  }
  ~WorkGuard() {
    bool ok = true;
    for (int i = 0; i < len; ++i) if (!(w[i] == token)) ok = false;
    if (!ok && poison) *poison = std::numeric_limits<T>::quiet_NaN();
    if (len > 0) w[0] = (T)len;
  }
};

template <typename T>
void getri(const char* name, int n, T* a, int lda, const int* ipiv, T* work, int lwork, int* info) {
  *info = 0;
  if (lwork == -1) { work[0] = (T)max1(n); record(name, n, 0, lda, 0, '-', '-', 0, 1, a, 0, 0, 0); return; }
  if (lda < max1(n)) *info = -3; else if (lwork < max1(n)) *info = -6;
  if (*info) { record(name, n, 0, lda, 0, '-', '-', *info, 0, a, 0, 0, 0); return; }
  WorkGuard<T> wg(work, lwork < n ? lwork : n, n > 0 ? a : 0);
  Touch t; std::vector<LD> W; std::vector<int> piv(n);
  load_general(a, n, lda, W, t);           // the factors L\U left by ?getrf
  for (int k = 0; k < n; ++k) piv[k] = ipiv[k] - 1;
  int st = 0;
  for (int k = 0; k < n; ++k) if (W[k * n + k] == 0) { st = k + 1; break; }
  if (st == 0) {
    std::vector<LD> R((size_t)n * n), x(n);
    for (int c = 0; c < n; ++c) {
      for (int i = 0; i < n; ++i) x[i] = (i == c);
      lu_solve(W, n, piv, x);
      for (int i = 0; i < n; ++i) R[i * n + c] = x[i];
    }
    store_general(a, n, lda, R);
  }
  *info = st;
  record(name, n, 0, lda, 0, '-', t.cls(), st, 0, a, 0, n ? (long)sizeof(T) * ((long)(n - 1) * lda + n) : 0, 0);
}

bool uplo_ok(char u) { return u == 'U' || u == 'L' || u == 'u' || u == 'l'; }
bool is_upper(char u) { return u == 'U' || u == 'u'; }

template <typename T>
void sytrf(const char* name, char uplo, int n, T* a, int lda, int* ipiv, T* work, int lwork, int* info) {
  *info = 0;
  if (lwork == -1) { work[0] = (T)max1(n); record(name, n, 0, lda, 0, uplo, '-', 0, 1, a, 0, 0, 0); return; }
  if (!uplo_ok(uplo)) *info = -1; else if (n < 0) *info = -2; else if (lda < max1(n)) *info = -4;
  if (*info) { record(name, n, 0, lda, 0, uplo, '-', *info, 0, a, 0, 0, 0); return; }
  WorkGuard<T> wg(work, lwork < n ? lwork : n, n > 0 ? a + (is_upper(uplo) ? 0 : 0) : 0);
  Touch t; SymAcc<T> A = {a, n, lda, is_upper(uplo), &t};
  std::vector<LD> W; std::vector<int> piv;
  load_sym(A, W);
  int ex = exact_singular(sym_full(W, n), n);
  int st = bk_factor(W, n, piv);
  if (ex == 1 && st == 0) { st = n; W[(size_t)(n - 1) * n + (n - 1)] = 0; }   // D(n,n) is exactly zero
  store_sym(A, W);
  for (int k = 0; k < n; ++k) ipiv[k] = piv[k];
  *info = st;
  record(name, n, 0, lda, 0, uplo, t.cls(), st, 0, a, 0, n ? (long)sizeof(T) * ((long)(n - 1) * lda + n) : 0, 0);
}

template <typename T>
void sytri(const char* name, char uplo, int n, T* a, int lda, const int* ipiv, T* work, int* info) {
  *info = 0;
  if (!uplo_ok(uplo)) *info = -1; else if (n < 0) *info = -2; else if (lda < max1(n)) *info = -4;
  if (*info) { record(name, n, 0, lda, 0, uplo, '-', *info, 0, a, 0, 0, 0); return; }
  WorkGuard<T> wg(work, n, n > 0 ? a : 0);      // ?sytri: WORK has dimension N
  Touch t; SymAcc<T> A = {a, n, lda, is_upper(uplo), &t};
  std::vector<LD> W; std::vector<int> piv(ipiv, ipiv + n);
  load_sym(A, W);                          // the factors left by ?sytrf
  int st = 0;
  for (int k = 0; k < n; ++k) if (piv[k] > 0 && W[(size_t)k * n + k] == 0) { st = k + 1; break; }
  if (st == 0) {
    std::vector<LD> R((size_t)n * n), x(n);
    for (int c = 0; c < n; ++c) {
      for (int i = 0; i < n; ++i) x[i] = (i == c);
      bk_solve(W, n, piv, x);
      for (int i = 0; i < n; ++i) R[i * n + c] = x[i];
    }
    store_sym(A, R);                       // only the referenced triangle of the (symmetric) inverse is written
  }
  *info = st;
  record(name, n, 0, lda, 0, uplo, t.cls(), st, 0, a, 0, n ? (long)sizeof(T) * ((long)(n - 1) * lda + n) : 0, 0);
}

template <typename T>
void sysv(const char* name, char uplo, int n, int nrhs, T* a, int lda, int* ipiv, T* b, int ldb,
          T* work, int lwork, int* info) {
  *info = 0;
  if (lwork == -1) { work[0] = (T)max1(n); record(name, n, nrhs, lda, ldb, uplo, '-', 0, 1, a, b, 0, 0); return; }
  if (!uplo_ok(uplo)) *info = -1; else if (n < 0) *info = -2; else if (nrhs < 0) *info = -3;
  else if (lda < max1(n)) *info = -5; else if (ldb < max1(n)) *info = -8;
  if (*info) { record(name, n, nrhs, lda, ldb, uplo, '-', *info, 0, a, b, 0, 0); return; }
  WorkGuard<T> wg(work, lwork < n ? lwork : n, (n > 0 && nrhs > 0) ? b : 0);
  Touch t; bool up = is_upper(uplo); SymAcc<T> A = {a, n, lda, up, &t};
  std::vector<LD> W; std::vector<int> piv;
  load_sym(A, W);
  int ex = exact_singular(sym_full(W, n), n);
  int st = bk_factor(W, n, piv);
  if (ex == 1 && st == 0) { st = n; W[(size_t)(n - 1) * n + (n - 1)] = 0; }
  store_sym(A, W);                         // A now holds D and the multipliers of L (or U)
  for (int k = 0; k < n; ++k) ipiv[k] = piv[k];
  if (st == 0) {
    std::vector<LD> x(n);
    for (int c = 0; c < nrhs; ++c) {
      for (int i = 0; i < n; ++i) x[i] = b[(up ? n - 1 - i : i) + (long)c * ldb];
      bk_solve(W, n, piv, x);
      for (int i = 0; i < n; ++i) b[(up ? n - 1 - i : i) + (long)c * ldb] = (T)x[i];
    }
  }
  *info = st;
  record(name, n, nrhs, lda, ldb, uplo, t.cls(), st, 0, a, b,
         n ? (long)sizeof(T) * ((long)(n - 1) * lda + n) : 0, (n && nrhs) ? (long)sizeof(T) * ((long)(nrhs - 1) * ldb + n) : 0);
}

} // namespace

extern "C" {
int mini_lapack_ncalls() { return (int)g_calls.size(); }
const MiniLapackCall* mini_lapack_get(int i) { return &g_calls[i]; }
void mini_lapack_clear() { std::vector<MiniLapackCall>().swap(g_calls); }

void sgetrf_(const int* m, const int* n, float* a, const int* lda, int* ipiv, int* info) { getrf("sgetrf", *m, *n, a, *lda, ipiv, info); }
void dgetrf_(const int* m, const int* n, double* a, const int* lda, int* ipiv, int* info) { getrf("dgetrf", *m, *n, a, *lda, ipiv, info); }
void sgetri_(const int* n, float* a, const int* lda, const int* ipiv, float* work, const int* lwork, int* info) { getri("sgetri", *n, a, *lda, ipiv, work, *lwork, info); }
void dgetri_(const int* n, double* a, const int* lda, const int* ipiv, double* work, const int* lwork, int* info) { getri("dgetri", *n, a, *lda, ipiv, work, *lwork, info); }
void ssytrf_(const char* uplo, const int* n, float* a, const int* lda, int* ipiv, float* work, const int* lwork, int* info) { sytrf("ssytrf", *uplo, *n, a, *lda, ipiv, work, *lwork, info); }
void dsytrf_(const char* uplo, const int* n, double* a, const int* lda, int* ipiv, double* work, const int* lwork, int* info) { sytrf("dsytrf", *uplo, *n, a, *lda, ipiv, work, *lwork, info); }
void ssytri_(const char* uplo, const int* n, float* a, const int* lda, const int* ipiv, float* work, int* info) { sytri("ssytri", *uplo, *n, a, *lda, ipiv, work, info); }
void dsytri_(const char* uplo, const int* n, double* a, const int* lda, const int* ipiv, double* work, int* info) { sytri("dsytri", *uplo, *n, a, *lda, ipiv, work, info); }
void ssysv_(const char* uplo, const int* n, const int* nrhs, float* a, const int* lda, int* ipiv, float* b, const int* ldb, float* work, const int* lwork, int* info) { sysv("ssysv", *uplo, *n, *nrhs, a, *lda, ipiv, b, *ldb, work, *lwork, info); }
void dsysv_(const char* uplo, const int* n, const int* nrhs, double* a, const int* lda, int* ipiv, double* b, const int* ldb, double* work, const int* lwork, int* info) { sysv("dsysv", *uplo, *n, *nrhs, a, *lda, ipiv, b, *ldb, work, *lwork, info); }
void sgesv_(const int* n, const int* nrhs, float* a, const int* lda, int* ipiv, float* b, const int* ldb, int* info) { gesv("sgesv", *n, *nrhs, a, *lda, ipiv, b, *ldb, info); }
void dgesv_(const int* n, const int* nrhs, double* a, const int* lda, int* ipiv, double* b, const int* ldb, int* info) { gesv("dgesv", *n, *nrhs, a, *lda, ipiv, b, *ldb, info); }
}
