// drv_matmul: element type float (Pf / Qf lines), square / symmetric / triangular special matrices (see drv_matmul.h)
#define MM_ELT float
#define MM_ELT_IS_FLOAT true
#include "drv_matmul.h"
namespace mm {
bool build_group_flt_s1(const Spec& s, XVisitor& v) {
  S_GROUP_HEAD
  S_PA("sq", SquareEngine<ROW_MAJOR>, 0, 0)
  S_P("symL", SymmEngine<ROW_LOWER_COL_UPPER>, 1) S_P("symU", SymmEngine<ROW_UPPER_COL_LOWER>, 0)
  S_P("lo", LowerEngine<ROW_MAJOR>, 0) S_P("upc", UpperEngine<COL_MAJOR>, 0)
  return false;
}
}
