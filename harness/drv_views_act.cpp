// active arrays Array<r,double,true>, r = 1..3 (see drv_views.cpp)
#include "drv_views.h"
VIEWS_DEFINE_ACTIVE_RANK(1)
VIEWS_DEFINE_ACTIVE_RANK(2)
VIEWS_DEFINE_ACTIVE_RANK(3)
