// Correspondence driver for family `misuse` (C11 part B): documented misuse of passive arrays
// (Vector, Matrix, intVector, intMatrix).  Grammar: see lean/Driver/Misuse.lean.  One line per op:
//   <ok | ok view[dims]=v,… | ok elem=v | EXC <class>> | <handle>:<d|i>[dims]=v,v,… | …     (every array involved, after the op)
//   bad-op      not an operation of the protocol (unknown handle, wrong rank / element type)
//   unmodelled  well-formed but outside the Lean model (never generated; nothing is executed)
// Entries are small integers, so int and double arithmetic (and the BLAS products) are exact.
#include "spy.h"
#include <map>
#include <cmath>
#include <type_traits>
using namespace adept;

struct Entry {
  int ty;    // 0 = int, 1 = Real
  int rank;  // 1 or 2
  Vector* dv; Matrix* dm; intVector* iv; intMatrix* im;
  Entry() : ty(0), rank(0), dv(0), dm(0), iv(0), im(0) {}
  void destroy() { delete dv; delete dm; delete iv; delete im; dv = 0; dm = 0; iv = 0; im = 0; }
};
static std::map<long, Entry> pool;

template <class F> static void with(Entry& e, F&& f) {
  if (e.ty == 1 && e.rank == 1) f(*e.dv);
  else if (e.ty == 1 && e.rank == 2) f(*e.dm);
  else if (e.ty == 0 && e.rank == 1) f(*e.iv);
  else f(*e.im);
}

static std::string excname(const std::exception& e) {
  if (dynamic_cast<const size_mismatch*>(&e)) return "size_mismatch";
  if (dynamic_cast<const inner_dimension_mismatch*>(&e)) return "inner_dimension_mismatch";
  if (dynamic_cast<const empty_array*>(&e)) return "empty_array";
  if (dynamic_cast<const invalid_dimension*>(&e)) return "invalid_dimension";
  if (dynamic_cast<const index_out_of_bounds*>(&e)) return "index_out_of_bounds";
  if (dynamic_cast<const invalid_operation*>(&e)) return "invalid_operation";
  if (dynamic_cast<const matrix_ill_conditioned*>(&e)) return "matrix_ill_conditioned";
  if (dynamic_cast<const feature_not_available*>(&e)) return "feature_not_available";
  if (dynamic_cast<const adept::exception*>(&e)) return std::string("other-adept-exception:") + e.what();
  return std::string("std-exception:") + e.what();
}

static std::string num(double x) {
  char b[64];
  if (x == std::floor(x) && std::fabs(x) < 9.0e15) snprintf(b, sizeof b, "%lld", (long long)x);
  else snprintf(b, sizeof b, "%.17g", x);
  return b;
}

template <class T> static void show1(std::ostream& os, const Array<1, T, false>& a) {
  os << "[" << a.dimension(0) << "]=";
  for (Index i = 0; i < a.dimension(0); ++i) { if (i) os << ","; os << num((double)a(i)); }
}
template <class T> static void show2(std::ostream& os, const Array<2, T, false>& a) {
  os << "[" << a.dimension(0) << "x" << a.dimension(1) << "]=";
  bool first = true;
  for (Index i = 0; i < a.dimension(0); ++i)
    for (Index j = 0; j < a.dimension(1); ++j) { if (!first) os << ","; first = false; os << num((double)a(i, j)); }
}
template <class T> static void show(std::ostream& os, const Array<1, T, false>& a) { show1(os, a); }
template <class T> static void show(std::ostream& os, const Array<2, T, false>& a) { show2(os, a); }

static std::string show_handle(long k) {
  std::ostringstream os;
  os << k << ":";
  if (!pool.count(k)) { os << "-"; return os.str(); }
  Entry& e = pool[k];
  os << (e.ty ? "d" : "i");
  with(e, [&](auto& A) { show(os, A); });
  return os.str();
}

static std::string involved(const std::vector<long>& hs) {
  std::string s;
  std::vector<long> seen;
  for (size_t i = 0; i < hs.size(); ++i) {
    bool dup = false;
    for (size_t j = 0; j < seen.size(); ++j) if (seen[j] == hs[i]) dup = true;
    if (dup) continue;
    seen.push_back(hs[i]);
    s += " | " + show_handle(hs[i]);
  }
  return s;
}

static long pat(long seed, long t) { long v = (seed + 3 * t) % 7; if (v < 0) v += 7; return v - 3; }

template <class T> static void fill_pattern(Array<1, T, false>& a, long seed) {
  for (Index i = 0; i < a.dimension(0); ++i) a(i) = (T)pat(seed, i);
}
template <class T> static void fill_pattern(Array<2, T, false>& a, long seed) {
  for (Index i = 0; i < a.dimension(0); ++i)
    for (Index j = 0; j < a.dimension(1); ++j) a(i, j) = (T)pat(seed, i * a.dimension(1) + j);
}

static bool is_int(const std::string& s) {
  if (s.empty()) return false;
  size_t p = (s[0] == '-' || s[0] == '+') ? 1 : 0;
  if (p >= s.size()) return false;
  for (; p < s.size(); ++p) if (s[p] < '0' || s[p] > '9') return false;
  return true;
}
static bool is_nat(const std::string& s) { return is_int(s) && s[0] != '-' && s[0] != '+'; }

static bool same_kind(const Entry& a, const Entry& b) { return a.ty == b.ty && a.rank == b.rank; }

template <class A> struct rank_of;
template <int R, class T> struct rank_of<Array<R, T, false> > { static const int value = R; };
template <class A> struct elem_of;
template <int R, class T> struct elem_of<Array<R, T, false> > { typedef T type; };

// run-time list of pieces fed to one Allocator
struct Item { bool scalar; long v; long h; };

template <class Alloc, class T>
static void feed_rest(Alloc& al, const std::vector<Item>& items, size_t from, int target_rank) {
  for (size_t t = from; t < items.size(); ++t) {
    if (items[t].scalar) al << (T)items[t].v;
    else with(pool[items[t].h], [&](auto& X) {
      typedef typename std::decay<decltype(X)>::type XT;
      if constexpr (rank_of<XT>::value <= Alloc::target_rank) al << X;
    });
  }
}

template <int R, class A> struct AllocTag : public internal::Allocator<R, A> {
  static const int target_rank = R;
  AllocTag(const internal::Allocator<R, A>& a) : internal::Allocator<R, A>(a) {}
};

template <class A>
static void do_fill(A& arr, const std::vector<Item>& items) {
  typedef typename elem_of<A>::type T;
  static const int R = rank_of<A>::value;
  if (items[0].scalar) {
    AllocTag<R, A> al(arr << (T)items[0].v);
    feed_rest<AllocTag<R, A>, T>(al, items, 1, R);
  } else {
    with(pool[items[0].h], [&](auto& X) {
      typedef typename std::decay<decltype(X)>::type XT;
      if constexpr (rank_of<XT>::value <= R) {
        AllocTag<R, A> al(arr << X);
        feed_rest<AllocTag<R, A>, T>(al, items, 1, R);
      }
    });
  }
}

template <class T> static bool signed_perm(const Array<2, T, false>& a) {
  Index n = a.dimension(0);
  for (Index i = 0; i < n; ++i) {
    int nr = 0, nc = 0;
    for (Index j = 0; j < n; ++j) {
      if (a(i, j) != 0) ++nr;
      if (a(j, i) != 0) ++nc;
      if (!(a(i, j) == 0 || a(i, j) == 1 || a(i, j) == -1)) return false;
    }
    if (nr != 1 || nc != 1) return false;
  }
  return true;
}

static void cleanup() {
  for (std::map<long, Entry>::iterator it = pool.begin(); it != pool.end(); ++it) it->second.destroy();
  pool.clear();
}

#ifdef ADEPT_BOUNDS_CHECKING
static const bool BOUNDS = true;
#else
static const bool BOUNDS = false;
#endif

int main() {
  std::string line;
  while (std::getline(std::cin, line)) {
    std::vector<std::string> w = verif::words(line);
    if (w.empty()) continue;
    std::vector<long> hs;      // handles shown after the op
    std::ostringstream out;    // "ok…" part
    bool numeric_ok = true;
    for (size_t i = 1; i < w.size(); ++i) {
      const std::string& s = w[i];
      bool ok = is_int(s) || (w[0] == "new" && i == 2 && (s == "d" || s == "i")) ||
                ((w[0] == "asg") && i == 3 && (s == "add" || s == "sub" || s == "mul")) ||
                (w[0] == "fill" && i >= 2 && s.size() > 1 && s[0] == 'a' && is_nat(s.substr(1)));
      if (!ok) numeric_ok = false;
    }
    if (!numeric_ok) { std::cout << "bad-op\n"; continue; }
    try {
      if (w[0] == "cfg" && w.size() == 2 && is_nat(w[1])) {
        cleanup(); set_array_row_major_order(true);
        std::cout << (((atol(w[1].c_str()) != 0) == BOUNDS) ? "cfg" : "cfg-mismatch") << "\n";
        continue;
      }
      if (w[0] == "order" && w.size() == 2) { set_array_row_major_order(atol(w[1].c_str()) != 0); std::cout << "ok\n"; continue; }
      // ---------------------------------------------------------------- creation
      if (w[0] == "new" && (w.size() == 5 || w.size() == 6) && is_nat(w[1])) {
        long k = atol(w[1].c_str()), seed = atol(w[3].c_str());
        hs.push_back(k);
        Entry e; e.ty = (w[2] == "d"); e.rank = (int)w.size() - 4;
        Index d0 = atoi(w[4].c_str()), d1 = e.rank == 2 ? atoi(w[5].c_str()) : 0;
        // all extents zero: the default constructor (the usual way to make an empty array; it leaves offset_ unset)
        bool dflt = d0 == 0 && d1 == 0;
        if (e.ty && e.rank == 1) e.dv = dflt ? new Vector() : new Vector(d0);
        else if (e.ty) e.dm = dflt ? new Matrix() : new Matrix(d0, d1);
        else if (e.rank == 1) e.iv = dflt ? new intVector() : new intVector(d0);
        else e.im = dflt ? new intMatrix() : new intMatrix(d0, d1);
        with(e, [&](auto& A) { fill_pattern(A, seed); });
        if (pool.count(k)) pool[k].destroy();
        pool[k] = e;
        std::cout << "ok" << involved(hs) << "\n";
        continue;
      }
      // every other op starts with an existing handle
      if (w.size() < 2 || !is_nat(w[1]) || !pool.count(atol(w[1].c_str()))) { std::cout << "bad-op\n"; continue; }
      long k = atol(w[1].c_str());
      Entry& ek = pool[k];
      hs.push_back(k);
      if ((w[0] == "resize" || w[0] == "resized" || w[0] == "resizerm" || w[0] == "resizecm") && (int)w.size() == 3 + ek.rank) {
        long seed = atol(w[2].c_str());
        Index d0 = atoi(w[3].c_str()), d1 = ek.rank == 2 ? atoi(w[4].c_str()) : 0;
        with(ek, [&](auto& A) {
          typedef typename std::decay<decltype(A)>::type AT;
          if constexpr (rank_of<AT>::value == 1) {
            if (w[0] == "resize") A.resize(d0);
            else if (w[0] == "resized") A.resize(dimensions(d0));
            else if (w[0] == "resizerm") A.resize_row_major(dimensions(d0));
            else A.resize_column_major(dimensions(d0));
          } else {
            if (w[0] == "resize") A.resize(d0, d1);
            else if (w[0] == "resized") A.resize(dimensions(d0, d1));
            else if (w[0] == "resizerm") A.resize_row_major(dimensions(d0, d1));
            else A.resize_column_major(dimensions(d0, d1));
          }
          fill_pattern(A, seed);
        });
        out << "ok";
      } else if (w[0] == "asg" && w.size() == 5 && is_nat(w[2]) && is_nat(w[4])) {
        long i = atol(w[2].c_str()), j = atol(w[4].c_str());
        if (!pool.count(i) || !pool.count(j) || !same_kind(ek, pool[i]) || !same_kind(ek, pool[j])) { std::cout << "bad-op\n"; continue; }
        hs.push_back(i); hs.push_back(j);
        with(ek, [&](auto& A) {
          typedef typename std::decay<decltype(A)>::type AT;
          AT* X = 0; AT* Y = 0;
          with(pool[i], [&](auto& x) { if constexpr (std::is_same<typename std::decay<decltype(x)>::type, AT>::value) X = &x; });
          with(pool[j], [&](auto& y) { if constexpr (std::is_same<typename std::decay<decltype(y)>::type, AT>::value) Y = &y; });
          if (w[3] == "add") A = *X + *Y; else if (w[3] == "sub") A = *X - *Y; else A = *X * *Y;
        });
        out << "ok";
      } else if ((w[0] == "cp" || w[0] == "cadd" || w[0] == "csub" || w[0] == "cmul" || w[0] == "link") && w.size() == 3 && is_nat(w[2])) {
        long i = atol(w[2].c_str());
        if (!pool.count(i) || !same_kind(ek, pool[i])) { std::cout << "bad-op\n"; continue; }
        hs.push_back(i);
        with(ek, [&](auto& A) {
          typedef typename std::decay<decltype(A)>::type AT;
          AT* X = 0;
          with(pool[i], [&](auto& x) { if constexpr (std::is_same<typename std::decay<decltype(x)>::type, AT>::value) X = &x; });
          if (w[0] == "cp") A = *X;
          else if (w[0] == "cadd") A += *X;
          else if (w[0] == "csub") A -= *X;
          else if (w[0] == "cmul") A *= *X;
          else {
            A.link(*X);
            // detach again (deep copy), the pool holds no shared data; sharing is C07's business
            if (&A != X) { A.clear(); A = *X; }
          }
        });
        out << "ok";
      } else if (w[0] == "where" && w.size() == 4 && is_nat(w[2]) && is_nat(w[3])) {
        long m = atol(w[2].c_str()), i = atol(w[3].c_str());
        if (!pool.count(m) || !pool.count(i) || !same_kind(ek, pool[i]) || pool[m].rank != ek.rank) { std::cout << "bad-op\n"; continue; }
        hs.push_back(m); hs.push_back(i);
        with(ek, [&](auto& A) {
          typedef typename std::decay<decltype(A)>::type AT;
          AT* X = 0;
          with(pool[i], [&](auto& x) { if constexpr (std::is_same<typename std::decay<decltype(x)>::type, AT>::value) X = &x; });
          with(pool[m], [&](auto& M) {
            typedef typename std::decay<decltype(M)>::type MT;
            if constexpr (rank_of<MT>::value == rank_of<AT>::value) {
              typedef typename elem_of<MT>::type ME;
              A.where(M > (ME)0) = *X;
            }
          });
        });
        out << "ok";
      } else if (w[0] == "fill" && w.size() >= 3) {
        std::vector<Item> items; bool bad = false;
        for (size_t t = 2; t < w.size(); ++t) {
          Item it;
          if (w[t][0] == 'a') {
            it.scalar = false; it.v = 0; it.h = atol(w[t].c_str() + 1);
            if (!pool.count(it.h) || pool[it.h].rank > ek.rank) bad = true; else hs.push_back(it.h);
          } else { it.scalar = true; it.v = atol(w[t].c_str()); it.h = -1; }
          items.push_back(it);
        }
        if (bad) { std::cout << "bad-op\n"; continue; }
        with(ek, [&](auto& A) { do_fill(A, items); });
        out << "ok";
      } else if (w[0] == "diag" && w.size() == 3 && ek.rank == 2) {
        Index o = atoi(w[2].c_str());
        with(ek, [&](auto& A) {
          typedef typename std::decay<decltype(A)>::type AT;
          if constexpr (rank_of<AT>::value == 2) {
            Array<1, typename elem_of<AT>::type, false> d(A.diag_vector(o));
            out << "ok view"; show1(out, d);
          }
        });
      } else if (w[0] == "subdiag" && w.size() == 4 && ek.rank == 2) {
        Index a = atoi(w[2].c_str()), b = atoi(w[3].c_str());
        with(ek, [&](auto& A) {
          typedef typename std::decay<decltype(A)>::type AT;
          if constexpr (rank_of<AT>::value == 2) {
            AT d(A.submatrix_on_diagonal(a, b));
            out << "ok view"; show2(out, d);
          }
        });
      } else if (w[0] == "inv" && w.size() == 2 && ek.rank == 2 && ek.ty == 1) {
        Matrix& A = *ek.dm;
        if (A.dimension(0) == A.dimension(1) && (A.empty() || !signed_perm(A))) { std::cout << "unmodelled\n"; continue; }
        Matrix B = inv(A);
        out << "ok view"; show2(out, B);
      } else if (w[0] == "matmul" && w.size() == 4 && is_nat(w[2]) && is_nat(w[3])) {
        long i = atol(w[2].c_str()), j = atol(w[3].c_str());
        if (!pool.count(i) || !pool.count(j)) { std::cout << "bad-op\n"; continue; }
        Entry& ei = pool[i]; Entry& ej = pool[j];
        if (!(ek.ty && ei.ty && ej.ty && ei.rank + ej.rank > 2 && ek.rank + 2 == ei.rank + ej.rank)) { std::cout << "bad-op\n"; continue; }
        hs.push_back(i); hs.push_back(j);
        if (ei.rank == 2 && ej.rank == 1) *ek.dv = matmul(*ei.dm, *ej.dv);
        else if (ei.rank == 2 && ej.rank == 2) *ek.dm = matmul(*ei.dm, *ej.dm);
        else *ek.dv = matmul(*ei.dv, *ej.dm);
        out << "ok";
      } else if (w[0] == "permute" && w.size() == 4 && ek.rank == 2) {
        Index a = atoi(w[2].c_str()), b = atoi(w[3].c_str());
        with(ek, [&](auto& A) {
          typedef typename std::decay<decltype(A)>::type AT;
          if constexpr (rank_of<AT>::value == 2) {
            AT d(A.permute(a, b));
            out << "ok view"; show2(out, d);
          }
        });
      } else if (w[0] == "get" && (int)w.size() == 2 + ek.rank) {
        Index a = atoi(w[2].c_str()), b = ek.rank == 2 ? atoi(w[3].c_str()) : 0;
        bool unm = false;
        with(ek, [&](auto& A) {
          typedef typename std::decay<decltype(A)>::type AT;
          bool in = a >= 0 && a < A.dimension(0);
          if constexpr (rank_of<AT>::value == 2) in = in && b >= 0 && b < A.dimension(1);
          if (!in && !BOUNDS) { unm = true; return; }
          if constexpr (rank_of<AT>::value == 1) out << "ok elem=" << num((double)A(a));
          else out << "ok elem=" << num((double)A(a, b));
        });
        if (unm) { std::cout << "unmodelled\n"; continue; }
      } else if (w[0] == "range" && w.size() == 4 && ek.rank == 1) {
        Index a = atoi(w[2].c_str()), b = atoi(w[3].c_str());
        bool unm = false;
        with(ek, [&](auto& A) {
          typedef typename std::decay<decltype(A)>::type AT;
          if constexpr (rank_of<AT>::value == 1) {
            Index n = A.dimension(0);
            if (!(a >= 0 && a < n && b >= 0 && b < n) && !BOUNDS) { unm = true; return; }
            AT d(A(range(a, b)));
            out << "ok view"; show1(out, d);
          }
        });
        if (unm) { std::cout << "unmodelled\n"; continue; }
      } else if (w[0] == "reshape" && w.size() == 4 && ek.rank == 1) {
        Index a = atoi(w[2].c_str()), b = atoi(w[3].c_str());
        with(ek, [&](auto& A) {
          typedef typename std::decay<decltype(A)>::type AT;
          if constexpr (rank_of<AT>::value == 1) {
            Array<2, typename elem_of<AT>::type, false> d(A.reshape(a, b));
            out << "ok view"; show2(out, d);
          }
        });
      } else if (w[0] == "clear" && w.size() == 2) {
        with(ek, [&](auto& A) { A.clear(); });
        out << "ok";
      } else { std::cout << "bad-op\n"; continue; }
      std::cout << out.str() << involved(hs) << "\n";
    } catch (const std::exception& e) {
      std::cout << "EXC " << excname(e) << involved(hs) << "\n";
    }
  }
  cleanup();
  return 0;
}
