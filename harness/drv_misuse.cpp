// Correspondence driver for family `misuse` (C11 part B): documented misuse of arrays.
// Pool objects (handle -> object), kind letter in `new` and in every shown line:
//   d  Array<1..4,Real,false>     i  Array<1..4,int,false>      a  Array<1..2,Real,true> (recorded on the driver's Stack)
//   f  FixedArray<Real,false,3> / FixedArray<Real,false,2,3>     s  SymmMatrix     t  TridiagMatrix
// Grammar: see lean/Driver/Misuse.lean.  One line per op:
//   <ok | ok view[dims]=v,… | ok elem=v | EXC <class>[ rec+dS+dO]> | <handle>:<kind>[dims]=v,v,… | …   (every object involved, after the op)
//   bad-op      not an operation of the protocol (unknown handle, wrong rank / kind)
//   unmodelled  well-formed but outside the Lean model (never generated; nothing is executed)
// ` rec+dS+dO` (only when an active array is involved in a FAILED op): statements / operations the failed op pushed on the stack.
// Entries are small integers, so int and double arithmetic (and the BLAS products) are exact; a non-integral double
// (mean, norm2) is printed as x<16 hex digits of its bit pattern>.
//
// The file is compiled several times (MISUSE_PART = 0..10, one translation unit each, see checks/c11.py build_b):
// part 0 holds main() and the operations on single objects, the other parts the template-heavy operation families.
#include "spy.h"
#include <map>
#include <cmath>
#include <type_traits>
using namespace adept;

#ifndef MISUSE_PART
#define MISUSE_PART -1      // -1: everything in one translation unit
#endif
#define PART(n) (MISUSE_PART == -1 || MISUSE_PART == (n))

enum Kind { K_INT = 0, K_DBL = 1, K_ACT = 2, K_FIX = 3, K_SYM = 4, K_TRI = 5 };
static const char KIND_LETTER[] = "idafst";

typedef FixedArray<Real, false, 3> Fix1;
typedef FixedArray<Real, false, 2, 3> Fix2;

struct Entry {
  int kind; int rank; void* p;
  bool input;      // active array whose identity (gradient indices) is unchanged since the last `rec`
  Entry() : kind(0), rank(0), p(0), input(false) {}
};

// ---- type <-> (kind, rank)
template <class A> struct tr;
template <int R> struct tr<Array<R, int, false> > { static const int kind = K_INT, rank = R; typedef int elem; static const bool dyn = true, act = false; };
template <int R> struct tr<Array<R, Real, false> > { static const int kind = K_DBL, rank = R; typedef Real elem; static const bool dyn = true, act = false; };
template <int R> struct tr<Array<R, Real, true> > { static const int kind = K_ACT, rank = R; typedef Real elem; static const bool dyn = true, act = true; };
template <> struct tr<Fix1> { static const int kind = K_FIX, rank = 1; typedef Real elem; static const bool dyn = false, act = false; };
template <> struct tr<Fix2> { static const int kind = K_FIX, rank = 2; typedef Real elem; static const bool dyn = false, act = false; };
template <> struct tr<SymmMatrix> { static const int kind = K_SYM, rank = 2; typedef Real elem; static const bool dyn = false, act = false; };
template <> struct tr<TridiagMatrix> { static const int kind = K_TRI, rank = 2; typedef Real elem; static const bool dyn = false, act = false; };

template <class A> static A& as(Entry& e) { return *static_cast<A*>(e.p); }
template <class A> static bool is(const Entry& e) { return e.kind == tr<A>::kind && e.rank == tr<A>::rank; }

// dispatch on the dynamic type of an entry; f is a generic lambda, returns false when the (kind, rank) is not in the list
template <class F> static bool withPassiveDyn(Entry& e, F&& f) {
  if (e.kind == K_DBL) switch (e.rank) {
    case 1: f(as<Array<1, Real, false> >(e)); return true; case 2: f(as<Array<2, Real, false> >(e)); return true;
    case 3: f(as<Array<3, Real, false> >(e)); return true; case 4: f(as<Array<4, Real, false> >(e)); return true; }
  if (e.kind == K_INT) switch (e.rank) {
    case 1: f(as<Array<1, int, false> >(e)); return true; case 2: f(as<Array<2, int, false> >(e)); return true;
    case 3: f(as<Array<3, int, false> >(e)); return true; case 4: f(as<Array<4, int, false> >(e)); return true; }
  return false;
}
template <class F> static bool withDbl(Entry& e, F&& f) {
  if (e.kind == K_DBL) switch (e.rank) {
    case 1: f(as<Array<1, Real, false> >(e)); return true; case 2: f(as<Array<2, Real, false> >(e)); return true;
    case 3: f(as<Array<3, Real, false> >(e)); return true; case 4: f(as<Array<4, Real, false> >(e)); return true; }
  return false;
}
template <class F> static bool withInt(Entry& e, F&& f) {
  if (e.kind == K_INT) switch (e.rank) {
    case 1: f(as<Array<1, int, false> >(e)); return true; case 2: f(as<Array<2, int, false> >(e)); return true;
    case 3: f(as<Array<3, int, false> >(e)); return true; case 4: f(as<Array<4, int, false> >(e)); return true; }
  return false;
}
template <class F> static bool withAct(Entry& e, F&& f) {
  if (e.kind == K_ACT) switch (e.rank) { case 1: f(as<aVector>(e)); return true; case 2: f(as<aMatrix>(e)); return true; }
  return false;
}
template <class F> static bool withOther(Entry& e, F&& f) {
  if (e.kind == K_FIX && e.rank == 1) { f(as<Fix1>(e)); return true; }
  if (e.kind == K_FIX && e.rank == 2) { f(as<Fix2>(e)); return true; }
  if (e.kind == K_SYM) { f(as<SymmMatrix>(e)); return true; }
  if (e.kind == K_TRI) { f(as<TridiagMatrix>(e)); return true; }
  return false;
}
template <class F> static bool withAny(Entry& e, F&& f) { return withPassiveDyn(e, f) || withAct(e, f) || withOther(e, f); }

typedef std::vector<std::string> Words;
struct Ctx {
  std::vector<long> hs;      // handles shown after the op
  std::ostringstream out;    // "ok…" part
  uIndex ns0, no0;           // statements / operations on the stack when the (failing part of the) op began
  Ctx() : ns0(0), no0(0) {}
};
enum { R_NOTMINE = 0, R_DONE = 1, R_BAD = 2, R_UNMODELLED = 3 };

#if PART(0)
std::map<long, Entry> pool;
verif::SpyStack* g_stack = 0;
#else
extern std::map<long, Entry> pool;
extern verif::SpyStack* g_stack;
#endif
// a function that returns an array or a scalar by value (sum(x,dim), diag_vector(expr), sum(expr)) has been evaluated into
// a temporary, recording its own complete statements; what follows is the assignment of that temporary
static void rebase(Ctx& c) { c.ns0 = g_stack->n_statements(); c.no0 = g_stack->n_operations(); }

static std::string num(double x) {
  char b[64];
  if (x == std::floor(x) && std::fabs(x) < 9.0e15) snprintf(b, sizeof b, "%lld", (long long)x);
  else { unsigned long long u; memcpy(&u, &x, 8); snprintf(b, sizeof b, "x%016llx", u); }
  return b;
}

static long pat(long seed, long t) { long v = (seed + 3 * t) % 7; if (v < 0) v += 7; return v - 3; }

// ---- logical content in row-major index order
template <int R, class T, bool Act, class F> static void each_raw(Array<R, T, Act>& a, F&& f) {
  if (a.empty()) return;
  Index idx[R]; for (int d = 0; d < R; ++d) { idx[d] = 0; if (a.dimension(d) <= 0) return; }
  long t = 0;
  for (;;) {
    Index off = 0; for (int d = 0; d < R; ++d) off += idx[d] * a.offset(d);
    f(t++, a.data()[off]);
    int d = R - 1;
    while (d >= 0 && ++idx[d] >= a.dimension(d)) { idx[d] = 0; --d; }
    if (d < 0) break;
  }
}
template <int R, class T, bool Act> static void show_arr(std::ostream& os, Array<R, T, Act>& a) {
  os << "[";
  for (int d = 0; d < R; ++d) { if (d) os << "x"; os << a.dimension(d); }
  os << "]=";
  each_raw(a, [&](long t, T& v) { if (t) os << ","; os << num((double)v); });
}
static void show_arr(std::ostream& os, Fix1& a) {
  os << "[3]="; for (int i = 0; i < 3; ++i) { if (i) os << ","; os << num(a(i)); }
}
static void show_arr(std::ostream& os, Fix2& a) {
  os << "[2x3]="; for (int i = 0; i < 2; ++i) for (int j = 0; j < 3; ++j) { if (i + j) os << ","; os << num(a(i, j)); }
}
template <class E> static void show_arr(std::ostream& os, SpecialMatrix<Real, E, false>& a) {
  const SpecialMatrix<Real, E, false>& c = a;
  Index n = c.dimension();
  os << "[" << n << "x" << n << "]=";
  for (Index i = 0; i < n; ++i) for (Index j = 0; j < n; ++j) { if (i + j) os << ","; os << num(c(i, j)); }
}
// an array-valued result (a temporary the library returned): shown as a view
template <class A> static void show_view(Ctx& c, A& a) { c.out << "ok view"; show_arr(c.out, a); }

template <int R, class T> static void fill_pattern(Array<R, T, false>& a, long seed) {
  each_raw(a, [&](long t, T& v) { v = (T)pat(seed, t); });
}
// active arrays are assigned element by element (each a recorded statement without right-hand side), so that the
// gradient indices they may have inherited from dead objects are defined by the recording
static void fill_pattern(aVector& a, long seed) { for (Index i = 0; i < a.dimension(0); ++i) a(i) = (Real)pat(seed, i); }
static void fill_pattern(aMatrix& a, long seed) {
  for (Index i = 0; i < a.dimension(0); ++i) for (Index j = 0; j < a.dimension(1); ++j) a(i, j) = (Real)pat(seed, i * a.dimension(1) + j);
}
static void fill_pattern(Fix1& a, long seed) { for (int i = 0; i < 3; ++i) a(i) = (Real)pat(seed, i); }
static void fill_pattern(Fix2& a, long seed) { for (int i = 0; i < 2; ++i) for (int j = 0; j < 3; ++j) a(i, j) = (Real)pat(seed, i * 3 + j); }
static void fill_pattern(SymmMatrix& a, long seed) {
  Index n = a.dimension();
  for (Index i = 0; i < n; ++i) for (Index j = 0; j <= i; ++j) a(i, j) = (Real)pat(seed, i * n + j);
}
static void fill_pattern(TridiagMatrix& a, long seed) {
  Index n = a.dimension();
  for (Index i = 0; i < n; ++i) for (Index j = (i ? i - 1 : 0); j <= i + 1 && j < n; ++j) a(i, j) = (Real)pat(seed, i * n + j);
}

static void destroy(Entry& e) { if (e.p) withAny(e, [&](auto& A) { delete &A; }); e.p = 0; }

static std::string show_handle(long k) {
  std::ostringstream os;
  os << k << ":";
  if (!pool.count(k)) { os << "-"; return os.str(); }
  Entry& e = pool[k];
  os << KIND_LETTER[e.kind];
  withAny(e, [&](auto& A) { show_arr(os, A); });
  return os.str();
}
static std::string involved(const std::vector<long>& hs) {
  std::string s;
  std::vector<long> seen;
  for (size_t i = 0; i < hs.size(); ++i) {
    bool dup = false;
    for (size_t j = 0; j < seen.size(); ++j) if (seen[j] == hs[i]) dup = true;
    if (dup) continue;
    seen.push_back(hs[i]);
    s += " | " + show_handle(hs[i]);
  }
  return s;
}

static bool is_int(const std::string& s) {
  if (s.empty()) return false;
  size_t p = (s[0] == '-' || s[0] == '+') ? 1 : 0;
  if (p >= s.size()) return false;
  for (; p < s.size(); ++p) if (s[p] < '0' || s[p] > '9') return false;
  return true;
}
static bool is_nat(const std::string& s) { return is_int(s) && s[0] != '-' && s[0] != '+'; }
static bool same_kind(const Entry& a, const Entry& b) { return a.kind == b.kind && a.rank == b.rank; }
static long L(const std::string& s) { return atol(s.c_str()); }
// the entry of an operand word, or 0
static Entry* ent(const std::string& s) { if (!is_nat(s) || !pool.count(L(s))) return 0; return &pool[L(s)]; }
// the object of an operand word if it is an A, else 0
template <class A> static A* obj(const std::string& s) { Entry* e = ent(s); return (e && is<A>(*e)) ? &as<A>(*e) : 0; }
template <class A> static bool same_dims(const A& x, const A& y) {
  for (int d = 0; d < tr<A>::rank; ++d) if (x.dimension(d) != y.dimension(d)) return false;
  return true;
}
static int binop(const std::string& s) { return s == "add" ? 0 : s == "sub" ? 1 : s == "mul" ? 2 : -1; }

#ifdef ADEPT_BOUNDS_CHECKING
static const bool BOUNDS = true;
#else
static const bool BOUNDS = false;
#endif

int exec_elementwise(const Words& w, Ctx& c);     // part 1: asg cp cadd csub cmul where wherex eor on passive dynamic arrays
int exec_reduce_d(const Words& w, Ctx& c);        // part 2: red / redd on Real arrays
int exec_reduce_i(const Words& w, Ctx& c);        // part 3: red / redd on int arrays, all/any/count on both
int exec_expand(const Words& w, Ctx& c);          // part 4: loc find dot outer spread diagv diagm
int exec_special(const Words& w, Ctx& c);         // part 5: FixedArray / SymmMatrix / TridiagMatrix targets and operands
int exec_active(const Words& w, Ctx& c);          // part 6: active arrays
int exec_fill(const Words& w, Ctx& c);            // part 7: fill (<<), matmul, inv, solve

// =====================================================================================================================
#if PART(1) || PART(8)
template <class A> static int elementwise_on(const Words& w, Ctx& c) {
  typedef typename tr<A>::elem T;
  A& t = as<A>(pool[L(w[1])]);
  if (w[0] == "asg" && w.size() == 5) {
    A* x = obj<A>(w[2]); A* y = obj<A>(w[4]); int op = binop(w[3]);
    if (!x || !y || op < 0) return R_BAD;
    c.hs.push_back(L(w[2])); c.hs.push_back(L(w[4]));
    if (op == 0) t = *x + *y; else if (op == 1) t = *x - *y; else t = *x * *y;
    c.out << "ok"; return R_DONE;
  }
  if ((w[0] == "cp" || w[0] == "cadd" || w[0] == "csub" || w[0] == "cmul") && w.size() == 3) {
    A* x = obj<A>(w[2]);
    if (!x) return R_BAD;
    c.hs.push_back(L(w[2]));
    if (w[0] == "cp") t = *x; else if (w[0] == "cadd") t += *x; else if (w[0] == "csub") t -= *x; else t *= *x;
    c.out << "ok"; return R_DONE;
  }
  if (w[0] == "where" && w.size() == 4) {
    A* x = obj<A>(w[3]); Entry* em = ent(w[2]);
    if (!x || !em || em->rank != tr<A>::rank) return R_BAD;
    c.hs.push_back(L(w[2])); c.hs.push_back(L(w[3]));
    bool ok = withPassiveDyn(*em, [&](auto& M) {
      typedef typename std::decay<decltype(M)>::type MT;
      if constexpr (tr<MT>::rank == tr<A>::rank) t.where(M > (typename tr<MT>::elem)0) = *x;
    });
    if (!ok) return R_BAD;
    c.out << "ok"; return R_DONE;
  }
  if (w[0] == "wherex" && w.size() == 6) {       // T.where(M1 > M2) = X + Y
    A* m1 = obj<A>(w[2]); A* m2 = obj<A>(w[3]); A* x = obj<A>(w[4]); A* y = obj<A>(w[5]);
    if (!m1 || !m2 || !x || !y) return R_BAD;
    for (int q = 2; q < 6; ++q) c.hs.push_back(L(w[q]));
    t.where(*m1 > *m2) = *x + *y;
    c.out << "ok"; return R_DONE;
  }
  if (w[0] == "eor" && w.size() == 5) {          // T.where(M > 0) = either_or(C, D)
    A* m = obj<A>(w[2]); A* cc = obj<A>(w[3]); A* dd = obj<A>(w[4]);
    if (!m || !cc || !dd) return R_BAD;
    for (int q = 2; q < 5; ++q) c.hs.push_back(L(w[q]));
    t.where(*m > (T)0) = either_or(*cc, *dd);
    c.out << "ok"; return R_DONE;
  }
  return R_NOTMINE;
}
#endif
int elementwise_d(const Words& w, Ctx& c);        // part 1
int elementwise_i(const Words& w, Ctx& c);        // part 8
#if PART(1)
int elementwise_d(const Words& w, Ctx& c) {
  int r = R_BAD;
  withDbl(pool[L(w[1])], [&](auto& A) { r = elementwise_on<typename std::decay<decltype(A)>::type>(w, c); });
  return r;
}
int exec_elementwise(const Words& w, Ctx& c) {
  if (!(w[0] == "asg" || w[0] == "cp" || w[0] == "cadd" || w[0] == "csub" || w[0] == "cmul" || w[0] == "where" ||
        w[0] == "wherex" || w[0] == "eor")) return R_NOTMINE;
  Entry& ek = pool[L(w[1])];
  if (ek.kind != K_INT && ek.kind != K_DBL) return R_NOTMINE;
  // operands of another kind than the target: the mixed forms of part 5
  for (size_t q = 2; q < w.size(); ++q) {
    if (w[0] == "asg" && q == 3) continue;
    if (w[0] == "where" && q == 2) continue;
    Entry* e = ent(w[q]);
    if (!e) return R_BAD;
    if (!same_kind(*e, ek)) return (w[0] == "asg" || w[0] == "cp") ? R_NOTMINE : R_BAD;
  }
  int r = ek.kind == K_DBL ? elementwise_d(w, c) : elementwise_i(w, c);
  return r == R_NOTMINE ? R_BAD : r;
}
#endif
#if PART(8)
int elementwise_i(const Words& w, Ctx& c) {
  int r = R_BAD;
  withInt(pool[L(w[1])], [&](auto& A) { r = elementwise_on<typename std::decay<decltype(A)>::type>(w, c); });
  return r;
}
#endif

// =====================================================================================================================
// reductions of the expression (X op Y): whole, and along a dimension
template <class A, class E> static int reduce_expr(const std::string& fn, const E& e, bool has_dim, int dim, Ctx& c) {
  typedef typename tr<A>::elem T;
  static const int R = tr<A>::rank;
  static const bool REAL = std::is_same<T, Real>::value;
  int f = fn == "sum" ? 0 : fn == "mean" ? 1 : fn == "product" ? 2 : fn == "minval" ? 3 : fn == "maxval" ? 4 : fn == "norm2" ? 5 : -1;
  if (f < 0 || (!REAL && (f == 1 || f == 5))) return R_BAD;      // mean / norm2: Real arrays only
  if (!has_dim || R == 1) {
    double v = 0;
#define RED1(F) (has_dim ? (double)F(e, dim) : (double)F(e))
    if constexpr (R == 1) {
      switch (f) { case 0: v = RED1(sum); break; case 2: v = RED1(product); break; case 3: v = RED1(minval); break; case 4: v = RED1(maxval); break;
        case 1: if constexpr (REAL) v = RED1(mean); break; case 5: if constexpr (REAL) v = RED1(norm2); break; }
    } else {
      switch (f) { case 0: v = (double)sum(e); break; case 2: v = (double)product(e); break; case 3: v = (double)minval(e); break;
        case 4: v = (double)maxval(e); break; case 1: if constexpr (REAL) v = (double)mean(e); break; case 5: if constexpr (REAL) v = (double)norm2(e); break; }
    }
#undef RED1
    c.out << "ok elem=" << num(v); return R_DONE;
  }
  if constexpr (R > 1) {
    Array<R - 1, T, false> r;
    switch (f) { case 0: r = sum(e, dim); break; case 2: r = product(e, dim); break; case 3: r = minval(e, dim); break; case 4: r = maxval(e, dim); break;
      case 1: if constexpr (REAL) r = mean(e, dim); break; case 5: if constexpr (REAL) r = norm2(e, dim); break; }
    show_view(c, r); return R_DONE;
  }
  return R_BAD;
}
template <class A> static int reduce_on(const Words& w, Ctx& c) {
  bool has_dim = w[0] == "redd";
  if (w.size() != (has_dim ? 6u : 5u) || (has_dim && !is_int(w[5]))) return R_BAD;
  A* x = obj<A>(w[2]); A* y = obj<A>(w[4]); int op = binop(w[3]);
  if (!x || !y || op < 0 || op == 1) return R_BAD;            // reductions of X+Y and X*Y
  int dim = has_dim ? atoi(w[5].c_str()) : 0;
  if (op == 0) return reduce_expr<A>(w[1], *x + *y, has_dim, dim, c);
  return reduce_expr<A>(w[1], *x * *y, has_dim, dim, c);
}
template <class A> static int boolreduce_on(const Words& w, Ctx& c) {
  static const int R = tr<A>::rank;
  bool has_dim = w[0] == "redd";
  if (w.size() != (has_dim ? 6u : 5u) || (has_dim && !is_int(w[5])) || w[3] != "gt") return R_BAD;
  A* x = obj<A>(w[2]); A* y = obj<A>(w[4]);
  if (!x || !y) return R_BAD;
  int dim = has_dim ? atoi(w[5].c_str()) : 0;
  int f = w[1] == "all" ? 0 : w[1] == "any" ? 1 : 2;
  if (!has_dim) {
    long v = f == 0 ? (long)all(*x > *y) : f == 1 ? (long)any(*x > *y) : (long)count(*x > *y);
    c.out << "ok elem=" << v; return R_DONE;
  }
  if constexpr (R > 1) {
    if (f == 2) { Array<R - 1, Index, false> r; r = count(*x > *y, dim); show_view(c, r); }
    else { Array<R - 1, bool, false> r; if (f == 0) r = all(*x > *y, dim); else r = any(*x > *y, dim); show_view(c, r); }
    return R_DONE;
  }
  return R_BAD;       // the library has no (bool vector, dim) form
}
static bool is_boolred(const std::string& s) { return s == "all" || s == "any" || s == "count"; }
// red <fn> <i> <op> <j>     redd <fn> <i> <op> <j> <dim>
int reduce_d_low(const Words& w, Ctx& c);         // part 2: Real arrays of rank 1, 2
int reduce_d_high(const Words& w, Ctx& c);        // part 9: Real arrays of rank 3, 4
#if PART(2)
int reduce_d_low(const Words& w, Ctx& c) {
  Entry& e = pool[L(w[2])];
  return e.rank == 1 ? reduce_on<Vector>(w, c) : reduce_on<Matrix>(w, c);
}
int exec_reduce_d(const Words& w, Ctx& c) {
  if (!(w[0] == "red" || w[0] == "redd") || w.size() < 5) return R_NOTMINE;
  Entry& e = pool[L(w[2])];
  if (e.kind != K_DBL || is_boolred(w[1])) return R_NOTMINE;
  if (ent(w[4])) c.hs.push_back(L(w[4]));
  return e.rank <= 2 ? reduce_d_low(w, c) : reduce_d_high(w, c);
}
#endif
#if PART(9)
int reduce_d_high(const Words& w, Ctx& c) {
  Entry& e = pool[L(w[2])];
  return e.rank == 3 ? reduce_on<Array<3, Real, false> >(w, c) : reduce_on<Array<4, Real, false> >(w, c);
}
#endif
int reduce_bool(const Words& w, Ctx& c);          // part 10: all / any / count on Real and int arrays
#if PART(3)
int exec_reduce_i(const Words& w, Ctx& c) {
  if (!(w[0] == "red" || w[0] == "redd") || w.size() < 5) return R_NOTMINE;
  Entry& e = pool[L(w[2])];
  if (!(e.kind == K_INT || (e.kind == K_DBL && is_boolred(w[1])))) return R_NOTMINE;
  if (ent(w[4])) c.hs.push_back(L(w[4]));
  int r = R_BAD;
  if (is_boolred(w[1])) return reduce_bool(w, c);
  withInt(e, [&](auto& A) { r = reduce_on<typename std::decay<decltype(A)>::type>(w, c); });
  return r;
}
#endif
#if PART(10)
int reduce_bool(const Words& w, Ctx& c) {
  int r = R_BAD;
  withPassiveDyn(pool[L(w[2])], [&](auto& A) { r = boolreduce_on<typename std::decay<decltype(A)>::type>(w, c); });
  return r;
}
#endif

// =====================================================================================================================
#if PART(4)
template <class T> static int expand_on(const Words& w, Ctx& c) {
  typedef Array<1, T, false> V; typedef Array<2, T, false> M; typedef Array<3, T, false> A3;
  if (w[0] == "loc" && w.size() == 5) {                       // loc minloc|maxloc <i> <op> <j>
    V* x = obj<V>(w[2]); V* y = obj<V>(w[4]); int op = binop(w[3]);
    if (!x || !y || op < 0 || !(w[1] == "minloc" || w[1] == "maxloc")) return R_BAD;
    c.hs.push_back(L(w[4]));
    Index r;
    if (w[1] == "minloc") r = op == 0 ? minloc(*x + *y) : op == 1 ? minloc(*x - *y) : minloc(*x * *y);
    else r = op == 0 ? maxloc(*x + *y) : op == 1 ? maxloc(*x - *y) : maxloc(*x * *y);
    c.out << "ok elem=" << r; return R_DONE;
  }
  if (w[0] == "find" && w.size() == 3) {                      // find <i> <j>: find(X > Y)
    V* x = obj<V>(w[1]); V* y = obj<V>(w[2]);
    if (!x || !y) return R_BAD;
    c.hs.push_back(L(w[2]));
    IntVector r; r = find(*x > *y);
    show_view(c, r); return R_DONE;
  }
  if (w[0] == "dot" && w.size() == 3) {                       // dot <i> <j>
    V* x = obj<V>(w[1]); V* y = obj<V>(w[2]);
    if (!x || !y) return R_BAD;
    c.hs.push_back(L(w[2]));
    c.out << "ok elem=" << num((double)dot_product(*x, *y)); return R_DONE;
  }
  if (w[0] == "outer" && w.size() == 5) {                     // outer <k> <i> <j> <z>: T = outer_product(X + Y, Z)
    M* t = obj<M>(w[1]); V* x = obj<V>(w[2]); V* y = obj<V>(w[3]); V* z = obj<V>(w[4]);
    if (!t || !x || !y || !z) return R_BAD;
    for (int q = 2; q < 5; ++q) c.hs.push_back(L(w[q]));
    *t = outer_product(*x + *y, *z);
    c.out << "ok"; return R_DONE;
  }
  if (w[0] == "spread" && w.size() == 6 && is_nat(w[2]) && is_int(w[5])) {   // spread <k> <D> <i> <j> <n>: T = spread<D>(X + Y, n)
    int D = atoi(w[2].c_str()); Index n = atoi(w[5].c_str());
    c.hs.push_back(L(w[3])); if (ent(w[4])) c.hs.push_back(L(w[4]));
    if (M* t = obj<M>(w[1])) {
      V* x = obj<V>(w[3]); V* y = obj<V>(w[4]);
      if (!x || !y || D > 1) return R_BAD;
      if (D == 0) *t = spread<0>(*x + *y, n); else *t = spread<1>(*x + *y, n);
      c.out << "ok"; return R_DONE;
    }
    if (A3* t = obj<A3>(w[1])) {
      M* x = obj<M>(w[3]); M* y = obj<M>(w[4]);
      if (!x || !y || D > 2) return R_BAD;
      if (D == 0) *t = spread<0>(*x + *y, n); else if (D == 1) *t = spread<1>(*x + *y, n); else *t = spread<2>(*x + *y, n);
      c.out << "ok"; return R_DONE;
    }
    return R_BAD;
  }
  if (w[0] == "diagv" && w.size() == 4 && is_int(w[3])) {     // diagv <i> <j> <o>: diag_vector(X + Y, o)
    M* x = obj<M>(w[1]); M* y = obj<M>(w[2]);
    if (!x || !y) return R_BAD;
    c.hs.push_back(L(w[2]));
    V r; r = diag_vector(*x + *y, atoi(w[3].c_str()));
    show_view(c, r); return R_DONE;
  }
  if (w[0] == "diagm" && w.size() == 3) {                     // diagm <i> <j>: diag_matrix(X + Y)
    V* x = obj<V>(w[1]); V* y = obj<V>(w[2]);
    if (!x || !y) return R_BAD;
    c.hs.push_back(L(w[2]));
    M r; r = diag_matrix(*x + *y);
    show_view(c, r); return R_DONE;
  }
  return R_NOTMINE;
}
int exec_expand(const Words& w, Ctx& c) {
  if (!(w[0] == "loc" || w[0] == "find" || w[0] == "dot" || w[0] == "outer" || w[0] == "spread" || w[0] == "diagv" || w[0] == "diagm"))
    return R_NOTMINE;
  Entry& e = pool[L(w[w[0] == "loc" ? 2 : 1])];
  if (e.kind == K_DBL) { int r = expand_on<Real>(w, c); return r == R_NOTMINE ? R_BAD : r; }
  if (e.kind == K_INT) { int r = expand_on<int>(w, c); return r == R_NOTMINE ? R_BAD : r; }
  return R_NOTMINE;
}
#endif

// =====================================================================================================================
#if PART(5)
// targets f / s / t with Real operands of the same rank; s+s, t+t into s / t / Matrix; Fix + Array into an Array
template <class TA, class XA> static int special_asg(TA& t, const Words& w, Ctx& c) {
  if (w[0] == "asg" && w.size() == 5) {
    XA* x = obj<XA>(w[2]); XA* y = obj<XA>(w[4]); int op = binop(w[3]);
    if (!x || !y || op < 0) return R_BAD;
    c.hs.push_back(L(w[2])); c.hs.push_back(L(w[4]));
    if (op == 0) t = *x + *y; else if (op == 1) t = *x - *y; else t = *x * *y;
    c.out << "ok"; return R_DONE;
  }
  if ((w[0] == "cp" || w[0] == "cadd" || w[0] == "csub" || w[0] == "cmul") && w.size() == 3) {
    XA* x = obj<XA>(w[2]);
    if (!x) return R_BAD;
    c.hs.push_back(L(w[2]));
    if (w[0] == "cp") t = *x; else if (w[0] == "cadd") t += *x; else if (w[0] == "csub") t -= *x; else t *= *x;
    c.out << "ok"; return R_DONE;
  }
  return R_BAD;
}
template <class TA, class XA> static int fixed_where(TA& t, const Words& w, Ctx& c) {
  XA* m = obj<XA>(w[2]); XA* x = obj<XA>(w[3]);
  if (!m || !x) return R_BAD;
  c.hs.push_back(L(w[2])); c.hs.push_back(L(w[3]));
  t.where(*m > 0.0) = *x;
  c.out << "ok"; return R_DONE;
}
int exec_special(const Words& w, Ctx& c) {
  Entry& ek = pool[L(w[1])];
  bool ew = w[0] == "asg" || w[0] == "cp" || w[0] == "cadd" || w[0] == "csub" || w[0] == "cmul";
  if (ew && w.size() >= 3) {
    Entry* e2 = ent(w[2]);
    if (!e2) return R_BAD;
    if (ek.kind == K_FIX && e2->kind == K_DBL) {
      if (ek.rank == 1) return special_asg<Fix1, Vector>(as<Fix1>(ek), w, c);
      return special_asg<Fix2, Matrix>(as<Fix2>(ek), w, c);
    }
    if (ek.kind == K_SYM && e2->kind == K_DBL) return special_asg<SymmMatrix, Matrix>(as<SymmMatrix>(ek), w, c);
    if (ek.kind == K_TRI && e2->kind == K_DBL) return special_asg<TridiagMatrix, Matrix>(as<TridiagMatrix>(ek), w, c);
    if (ek.kind == K_SYM && e2->kind == K_SYM) return special_asg<SymmMatrix, SymmMatrix>(as<SymmMatrix>(ek), w, c);
    if (ek.kind == K_TRI && e2->kind == K_TRI) return special_asg<TridiagMatrix, TridiagMatrix>(as<TridiagMatrix>(ek), w, c);
    if (ek.kind == K_DBL && ek.rank == 2 && e2->kind == K_SYM && (w[0] == "asg" || w[0] == "cp")) return special_asg<Matrix, SymmMatrix>(as<Matrix>(ek), w, c);
    if (ek.kind == K_DBL && ek.rank == 2 && e2->kind == K_TRI && (w[0] == "asg" || w[0] == "cp")) return special_asg<Matrix, TridiagMatrix>(as<Matrix>(ek), w, c);
    if (ek.kind == K_DBL && e2->kind == K_FIX && w[0] == "asg" && w.size() == 5) {
      // A = F op X: a FixedArray operand next to a dynamic one
      int op = binop(w[3]);
      if (op < 0) return R_BAD;
      c.hs.push_back(L(w[2])); if (ent(w[4])) c.hs.push_back(L(w[4]));
      if (ek.rank == 1) {
        Fix1* f = obj<Fix1>(w[2]); Vector* y = obj<Vector>(w[4]); Vector& t = as<Vector>(ek);
        if (!f || !y) return R_BAD;
        if (op == 0) t = *f + *y; else if (op == 1) t = *f - *y; else t = *f * *y;
      } else if (ek.rank == 2) {
        Fix2* f = obj<Fix2>(w[2]); Matrix* y = obj<Matrix>(w[4]); Matrix& t = as<Matrix>(ek);
        if (!f || !y) return R_BAD;
        if (op == 0) t = *f + *y; else if (op == 1) t = *f - *y; else t = *f * *y;
      } else return R_BAD;
      c.out << "ok"; return R_DONE;
    }
    return R_NOTMINE;
  }
  if (w[0] == "where" && w.size() == 4 && ek.kind == K_FIX) {
    if (ek.rank == 1) return fixed_where<Fix1, Vector>(as<Fix1>(ek), w, c);
    return fixed_where<Fix2, Matrix>(as<Fix2>(ek), w, c);
  }
  if ((w[0] == "diag" || w[0] == "subdiag") && ek.kind == K_FIX && ek.rank == 2) {
    Fix2& A = as<Fix2>(ek);
    if (w[0] == "diag" && w.size() == 3) { Vector d(A.diag_vector(atoi(w[2].c_str()))); show_view(c, d); return R_DONE; }
    if (w[0] == "subdiag" && w.size() == 4) { Matrix d(A.submatrix_on_diagonal(atoi(w[2].c_str()), atoi(w[3].c_str()))); show_view(c, d); return R_DONE; }
    return R_BAD;
  }
  if (w[0] == "subdiag" && w.size() == 4 && (ek.kind == K_SYM || ek.kind == K_TRI)) {
    Index a = atoi(w[2].c_str()), b = atoi(w[3].c_str());
    if (ek.kind == K_SYM) { SymmMatrix d(as<SymmMatrix>(ek).submatrix_on_diagonal(a, b)); show_view(c, d); }
    else { TridiagMatrix d(as<TridiagMatrix>(ek).submatrix_on_diagonal(a, b)); show_view(c, d); }
    return R_DONE;
  }
  if (w[0] == "link" && w.size() == 3 && (ek.kind == K_SYM || ek.kind == K_TRI)) {
    Entry* e2 = ent(w[2]);
    if (!e2 || e2->kind != ek.kind) return R_BAD;
    c.hs.push_back(L(w[2]));
    if (ek.kind == K_SYM) { SymmMatrix& A = as<SymmMatrix>(ek); SymmMatrix& X = as<SymmMatrix>(*e2); A.link(X); if (&A != &X) { A.clear(); A = X; } }
    else { TridiagMatrix& A = as<TridiagMatrix>(ek); TridiagMatrix& X = as<TridiagMatrix>(*e2); A.link(X); if (&A != &X) { A.clear(); A = X; } }
    c.out << "ok"; return R_DONE;
  }
  return R_NOTMINE;
}
#endif

// =====================================================================================================================
#if PART(6)
template <class A> static int active_on(const Words& w, Ctx& c) {
  A& t = as<A>(pool[L(w[1])]);
  if (w[0] == "asg" && w.size() == 5) {
    A* x = obj<A>(w[2]); A* y = obj<A>(w[4]); int op = binop(w[3]);
    if (!x || !y || op < 0) return R_BAD;
    c.hs.push_back(L(w[2])); c.hs.push_back(L(w[4]));
    bool was_empty = t.empty();
    if (op == 0) t = *x + *y; else if (op == 1) t = *x - *y; else t = *x * *y;
    if (was_empty) pool[L(w[1])].input = false;
    c.out << "ok"; return R_DONE;
  }
  if ((w[0] == "cp" || w[0] == "cadd" || w[0] == "csub" || w[0] == "cmul") && w.size() == 3) {
    A* x = obj<A>(w[2]);
    if (!x) return R_BAD;
    c.hs.push_back(L(w[2]));
    bool was_empty = t.empty();
    if (w[0] == "cp") t = *x; else if (w[0] == "cadd") t += *x; else if (w[0] == "csub") t -= *x; else t *= *x;
    if (was_empty) pool[L(w[1])].input = false;
    c.out << "ok"; return R_DONE;
  }
  if (w[0] == "where" && w.size() == 4) {            // mask: an active array of the same rank
    A* m = obj<A>(w[2]); A* x = obj<A>(w[3]);
    if (!m || !x) return R_BAD;
    c.hs.push_back(L(w[2])); c.hs.push_back(L(w[3]));
    t.where(*m > 0.0) = *x;
    c.out << "ok"; return R_DONE;
  }
  if (w[0] == "reda" && w.size() == 6) {             // reda <k> <fn> <i> <op> <j>: T = fn(X op Y) (scalar assigned to every element)
    int op = binop(w[4]);
    const std::string& fn = w[2];
    int f = fn == "sum" ? 0 : fn == "product" ? 2 : fn == "minval" ? 3 : fn == "maxval" ? 4 : fn == "mean" ? 1 : fn == "norm2" ? 5 : -1;
    if (op < 0 || op == 1 || f < 0) return R_BAD;
    Entry* ex = ent(w[3]); Entry* ey = ent(w[5]);
    if (!ex || !ey || ex->kind != K_ACT || !same_kind(*ex, *ey)) return R_BAD;
    c.hs.push_back(L(w[3])); c.hs.push_back(L(w[5]));
    int r = R_BAD;
    withAct(*ex, [&](auto& X) {
      typedef typename std::decay<decltype(X)>::type XT;
      XT& Y = as<XT>(*ey);
      // mean and norm2 have non-integer derivatives: only their failure is inside the model
      if ((f == 1 || f == 5) && same_dims(X, Y)) { r = R_UNMODELLED; return; }
      aReal s;
      // (the scalar is evaluated first, as in `t = sum(x + y)`; then it is assigned to every element)
      if (op == 0) { switch (f) { case 0: s = sum(X + Y); break; case 1: s = mean(X + Y); break; case 2: s = product(X + Y); break;
                       case 3: s = minval(X + Y); break; case 4: s = maxval(X + Y); break; default: s = norm2(X + Y); } }
      else { switch (f) { case 0: s = sum(X * Y); break; case 1: s = mean(X * Y); break; case 2: s = product(X * Y); break;
                       case 3: s = minval(X * Y); break; case 4: s = maxval(X * Y); break; default: s = norm2(X * Y); } }
      rebase(c);
      t = s;
      r = R_DONE;
    });
    if (r == R_DONE) c.out << "ok";
    return r;
  }
  if (w[0] == "redda" && w.size() == 7 && is_int(w[6])) {     // redda <k> <fn> <i> <op> <j> <dim>: T = fn(X op Y, dim); X, Y matrices, T a vector
    if constexpr (tr<A>::rank == 1) {
      int op = binop(w[4]); int dim = atoi(w[6].c_str());
      const std::string& fn = w[2];
      int f = fn == "sum" ? 0 : fn == "product" ? 2 : fn == "minval" ? 3 : fn == "maxval" ? 4 : -1;
      aMatrix* X = obj<aMatrix>(w[3]); aMatrix* Y = obj<aMatrix>(w[5]);
      if (op != 0 || f < 0 || !X || !Y) return R_BAD;
      c.hs.push_back(L(w[3])); c.hs.push_back(L(w[5]));
      aVector tmp;
      switch (f) { case 0: tmp = sum(*X + *Y, dim); break; case 2: tmp = product(*X + *Y, dim); break;
                   case 3: tmp = minval(*X + *Y, dim); break; default: tmp = maxval(*X + *Y, dim); }
      rebase(c);
      t = std::move(tmp);                 // may swap storage (and gradient indices) with the temporary
      pool[L(w[1])].input = false;
      c.out << "ok"; return R_DONE;
    }
    return R_BAD;
  }
  if (w[0] == "diagva" && w.size() == 5 && is_int(w[4])) {    // diagva <k> <i> <j> <o>: T = diag_vector(X + Y, o)
    if constexpr (tr<A>::rank == 1) {
      aMatrix* X = obj<aMatrix>(w[2]); aMatrix* Y = obj<aMatrix>(w[3]);
      if (!X || !Y) return R_BAD;
      c.hs.push_back(L(w[2])); c.hs.push_back(L(w[3]));
      aVector tmp; tmp = diag_vector(*X + *Y, atoi(w[4].c_str()));
      rebase(c);
      t = std::move(tmp);                 // may swap storage (and gradient indices) with the temporary
      pool[L(w[1])].input = false;
      c.out << "ok"; return R_DONE;
    }
    return R_BAD;
  }
  return R_NOTMINE;
}
int exec_active(const Words& w, Ctx& c) {
  Entry& ek = pool[L(w[1])];
  if (ek.kind != K_ACT) return R_NOTMINE;
  if (w[0] == "jac" && w.size() == 3) {              // jac <k> <i>: d(elements of K) / d(initial values of the input array I)
    Entry* ei = ent(w[2]);
    if (!ei || ei->kind != K_ACT) return R_BAD;
    c.hs.push_back(L(w[2]));
    bool unm = !ei->input;
    withAct(ek, [&](auto& K) { if (K.empty()) unm = true; });
    withAct(*ei, [&](auto& I) { if (I.empty()) unm = true; });
    if (unm) return R_UNMODELLED;
    g_stack->clear_independents(); g_stack->clear_dependents();
    withAct(*ei, [&](auto& I) { g_stack->independent(I); });
    withAct(ek, [&](auto& K) { g_stack->dependent(K); });
    Matrix J; J >>= g_stack->jacobian();
    show_view(c, J);
    return R_DONE;
  }
  int r = R_NOTMINE;
  withAct(ek, [&](auto& A) { r = active_on<typename std::decay<decltype(A)>::type>(w, c); });
  return r;
}
#endif

// =====================================================================================================================
#if PART(7)
template <class A> struct rank_of { static const int value = tr<A>::rank; };
struct Item { bool scalar; long v; long h; };
template <class Alloc, class T>
static void feed_rest(Alloc& al, const std::vector<Item>& items, size_t from) {
  for (size_t t = from; t < items.size(); ++t) {
    if (items[t].scalar) al << (T)items[t].v;
    else withPassiveDyn(pool[items[t].h], [&](auto& X) {
      typedef typename std::decay<decltype(X)>::type XT;
      if constexpr (rank_of<XT>::value <= Alloc::target_rank) al << X;
    });
  }
}
template <int R, class A> struct AllocTag : public internal::Allocator<R, A> {
  static const int target_rank = R;
  AllocTag(const internal::Allocator<R, A>& a) : internal::Allocator<R, A>(a) {}
};
template <class A>
static void do_fill(A& arr, const std::vector<Item>& items) {
  typedef typename tr<A>::elem T;
  static const int R = rank_of<A>::value;
  if (items[0].scalar) {
    AllocTag<R, A> al(arr << (T)items[0].v);
    feed_rest<AllocTag<R, A>, T>(al, items, 1);
  } else {
    withPassiveDyn(pool[items[0].h], [&](auto& X) {
      typedef typename std::decay<decltype(X)>::type XT;
      if constexpr (rank_of<XT>::value <= R) {
        AllocTag<R, A> al(arr << X);
        feed_rest<AllocTag<R, A>, T>(al, items, 1);
      }
    });
  }
}
static bool signed_perm(const Matrix& a) {
  Index n = a.dimension(0);
  for (Index i = 0; i < n; ++i) {
    int nr = 0, nc = 0;
    for (Index j = 0; j < n; ++j) {
      if (a(i, j) != 0) ++nr;
      if (a(j, i) != 0) ++nc;
      if (!(a(i, j) == 0 || a(i, j) == 1 || a(i, j) == -1)) return false;
    }
    if (nr != 1 || nc != 1) return false;
  }
  return true;
}
int exec_fill(const Words& w, Ctx& c) {
  Entry& ek = pool[L(w[1])];
  if (w[0] == "fill" && w.size() >= 3) {
    if (!(ek.kind == K_INT || ek.kind == K_DBL) || ek.rank > 2) return R_BAD;
    std::vector<Item> items;
    for (size_t t = 2; t < w.size(); ++t) {
      Item it;
      if (w[t][0] == 'a') {
        it.scalar = false; it.v = 0; it.h = L(w[t].substr(1));
        if (!pool.count(it.h) || pool[it.h].rank > ek.rank || !(pool[it.h].kind == K_INT || pool[it.h].kind == K_DBL)) return R_BAD;
        c.hs.push_back(it.h);
      } else { it.scalar = true; it.v = L(w[t]); it.h = -1; }
      items.push_back(it);
    }
    withPassiveDyn(ek, [&](auto& A) {
      typedef typename std::decay<decltype(A)>::type AT;
      if constexpr (tr<AT>::rank <= 2) do_fill(A, items);
    });
    c.out << "ok"; return R_DONE;
  }
  if (w[0] == "inv" && w.size() == 2) {
    Matrix* A = obj<Matrix>(w[1]);
    if (!A) return R_BAD;
    if (A->dimension(0) == A->dimension(1) && (A->empty() || !signed_perm(*A))) return R_UNMODELLED;
    Matrix B = inv(*A);
    show_view(c, B); return R_DONE;
  }
  if (w[0] == "solve" && w.size() == 3) {            // solve <A> <b>: solve(A, b), b a vector or a matrix
    Matrix* A = obj<Matrix>(w[1]);
    Entry* eb = ent(w[2]);
    if (!A || !eb || eb->kind != K_DBL || eb->rank > 2) return R_BAD;
    c.hs.push_back(L(w[2]));
    Index nb = eb->rank == 1 ? as<Vector>(*eb).dimension(0) : as<Matrix>(*eb).dimension(0);
    if (A->dimension(0) == A->dimension(1) && A->dimension(0) == nb && (A->empty() || !signed_perm(*A))) return R_UNMODELLED;
    if (eb->rank == 1) { Vector x = solve(*A, as<Vector>(*eb)); show_view(c, x); }
    else { Matrix x = solve(*A, as<Matrix>(*eb)); show_view(c, x); }
    return R_DONE;
  }
  if (w[0] == "matmul" && w.size() == 4) {
    Entry* ei = ent(w[2]); Entry* ej = ent(w[3]);
    if (!ei || !ej) return R_BAD;
    if (!(ek.kind == K_DBL && ei->kind == K_DBL && ej->kind == K_DBL && ei->rank <= 2 && ej->rank <= 2 && ei->rank + ej->rank > 2 &&
          ek.rank + 2 == ei->rank + ej->rank)) return R_BAD;
    c.hs.push_back(L(w[2])); c.hs.push_back(L(w[3]));
    if (ei->rank == 2 && ej->rank == 1) as<Vector>(ek) = matmul(as<Matrix>(*ei), as<Vector>(*ej));
    else if (ei->rank == 2 && ej->rank == 2) as<Matrix>(ek) = matmul(as<Matrix>(*ei), as<Matrix>(*ej));
    else as<Vector>(ek) = matmul(as<Vector>(*ei), as<Matrix>(*ej));
    c.out << "ok"; return R_DONE;
  }
  return R_NOTMINE;
}
#endif

// =====================================================================================================================
#if PART(0)
static void cleanup() {
  for (std::map<long, Entry>::iterator it = pool.begin(); it != pool.end(); ++it) destroy(it->second);
  pool.clear();
}

template <int R, class T, bool Act> static Array<R, T, Act>* make_array(const Index* d) {
  typedef Array<R, T, Act> A;
  bool dflt = true; for (int q = 0; q < R; ++q) if (d[q] != 0) dflt = false;
  // all extents zero: the default constructor (the usual way to make an empty array; it leaves offset_ unset)
  if (dflt) return new A();
  if constexpr (R == 1) return new A(d[0]);
  else if constexpr (R == 2) return new A(d[0], d[1]);
  else if constexpr (R == 3) return new A(d[0], d[1], d[2]);
  else return new A(d[0], d[1], d[2], d[3]);
}
template <class A> static void do_resize(A& a, const std::string& form, const Index* d) {
  static const int R = tr<A>::rank;
  ExpressionSize<R> ds; for (int q = 0; q < R; ++q) ds[q] = d[q];
  if (form == "resize") {
    if constexpr (R == 1) a.resize(d[0]); else if constexpr (R == 2) a.resize(d[0], d[1]);
    else if constexpr (R == 3) a.resize(d[0], d[1], d[2]); else a.resize(d[0], d[1], d[2], d[3]);
  }
  else if (form == "resized") a.resize(ds);
  else if (form == "resizerm") a.resize_row_major(ds);
  else a.resize_column_major(ds);
}

// operations on single objects; returns as the exec_* functions
static int exec_basic(const Words& w, Ctx& c) {
  long k = L(w[1]);
  Entry& ek = pool[k];
  bool resz = w[0] == "resize" || w[0] == "resized" || w[0] == "resizerm" || w[0] == "resizecm";
  if (resz && w.size() >= 4) {
    long seed = L(w[2]);
    int nd = (int)w.size() - 3;
    Index d[4] = {0, 0, 0, 0}; for (int q = 0; q < nd && q < 4; ++q) d[q] = atoi(w[3 + q].c_str());
    if (ek.kind == K_SYM || ek.kind == K_TRI) {
      if (w[0] != "resize" || nd > 2) return R_BAD;
      withOther(ek, [&](auto& A) {
        typedef typename std::decay<decltype(A)>::type AT;
        if constexpr (tr<AT>::kind == K_SYM || tr<AT>::kind == K_TRI) { if (nd == 1) A.resize(d[0]); else A.resize(d[0], d[1]); fill_pattern(A, seed); }
      });
      c.out << "ok"; return R_DONE;
    }
    if (ek.kind == K_FIX || nd != ek.rank) return R_BAD;
    bool ok = withPassiveDyn(ek, [&](auto& A) { do_resize(A, w[0], d); fill_pattern(A, seed); }) ||
              withAct(ek, [&](auto& A) { do_resize(A, w[0], d); ek.input = false; fill_pattern(A, seed); });
    if (!ok) return R_BAD;
    c.out << "ok"; return R_DONE;
  }
  if (w[0] == "clear" && w.size() == 2) {
    if (ek.kind == K_FIX) return R_BAD;
    withAny(ek, [&](auto& A) { typedef typename std::decay<decltype(A)>::type AT; if constexpr (tr<AT>::kind != K_FIX) A.clear(); });
    ek.input = false;
    c.out << "ok"; return R_DONE;
  }
  if (w[0] == "link" && w.size() == 3 && (ek.kind == K_INT || ek.kind == K_DBL)) {
    Entry* ei = ent(w[2]);
    if (!ei || !same_kind(ek, *ei)) return R_BAD;
    c.hs.push_back(L(w[2]));
    withPassiveDyn(ek, [&](auto& A) {
      typedef typename std::decay<decltype(A)>::type AT;
      AT& X = as<AT>(*ei);
      A.link(X);
      // detach again (deep copy), the pool holds no shared data; sharing is C07's business
      if (&A != &X) { A.clear(); A = X; }
    });
    c.out << "ok"; return R_DONE;
  }
  if (w[0] == "diag" && w.size() == 3 && ek.rank == 2 && (ek.kind == K_INT || ek.kind == K_DBL)) {
    Index o = atoi(w[2].c_str());
    withPassiveDyn(ek, [&](auto& A) {
      typedef typename std::decay<decltype(A)>::type AT;
      if constexpr (tr<AT>::rank == 2) { Array<1, typename tr<AT>::elem, false> d(A.diag_vector(o)); show_view(c, d); }
    });
    return R_DONE;
  }
  if (w[0] == "subdiag" && w.size() == 4 && ek.rank == 2 && (ek.kind == K_INT || ek.kind == K_DBL)) {
    Index a = atoi(w[2].c_str()), b = atoi(w[3].c_str());
    withPassiveDyn(ek, [&](auto& A) {
      typedef typename std::decay<decltype(A)>::type AT;
      if constexpr (tr<AT>::rank == 2) { AT d(A.submatrix_on_diagonal(a, b)); show_view(c, d); }
    });
    return R_DONE;
  }
  if (w[0] == "permute" && w.size() == 4 && ek.rank == 2 && (ek.kind == K_INT || ek.kind == K_DBL)) {
    Index a = atoi(w[2].c_str()), b = atoi(w[3].c_str());
    withPassiveDyn(ek, [&](auto& A) {
      typedef typename std::decay<decltype(A)>::type AT;
      if constexpr (tr<AT>::rank == 2) { AT d(A.permute(a, b)); show_view(c, d); }
    });
    return R_DONE;
  }
  if (w[0] == "get" && (int)w.size() == 2 + ek.rank && (ek.kind == K_INT || ek.kind == K_DBL)) {
    Index ix[4] = {0, 0, 0, 0}; for (int q = 0; q < ek.rank; ++q) ix[q] = atoi(w[2 + q].c_str());
    bool unm = false;
    withPassiveDyn(ek, [&](auto& A) {
      typedef typename std::decay<decltype(A)>::type AT;
      static const int R = tr<AT>::rank;
      bool in = true; for (int q = 0; q < R; ++q) in = in && ix[q] >= 0 && ix[q] < A.dimension(q);
      if (!in && !BOUNDS) { unm = true; return; }
      double v;
      if constexpr (R == 1) v = (double)A(ix[0]); else if constexpr (R == 2) v = (double)A(ix[0], ix[1]);
      else if constexpr (R == 3) v = (double)A(ix[0], ix[1], ix[2]); else v = (double)A(ix[0], ix[1], ix[2], ix[3]);
      c.out << "ok elem=" << num(v);
    });
    return unm ? R_UNMODELLED : R_DONE;
  }
  if (w[0] == "range" && w.size() == 4 && ek.rank == 1 && (ek.kind == K_INT || ek.kind == K_DBL)) {
    Index a = atoi(w[2].c_str()), b = atoi(w[3].c_str());
    bool unm = false;
    withPassiveDyn(ek, [&](auto& A) {
      typedef typename std::decay<decltype(A)>::type AT;
      if constexpr (tr<AT>::rank == 1) {
        Index n = A.dimension(0);
        if (!(a >= 0 && a < n && b >= 0 && b < n) && !BOUNDS) { unm = true; return; }
        AT d(A(range(a, b)));
        show_view(c, d);
      }
    });
    return unm ? R_UNMODELLED : R_DONE;
  }
  if (w[0] == "reshape" && w.size() == 4 && ek.rank == 1 && (ek.kind == K_INT || ek.kind == K_DBL)) {
    Index a = atoi(w[2].c_str()), b = atoi(w[3].c_str());
    withPassiveDyn(ek, [&](auto& A) {
      typedef typename std::decay<decltype(A)>::type AT;
      if constexpr (tr<AT>::rank == 1) { Array<2, typename tr<AT>::elem, false> d(A.reshape(a, b)); show_view(c, d); }
    });
    return R_DONE;
  }
  return R_NOTMINE;
}

static int exec_new(const Words& w, Ctx& c) {
  long k = L(w[1]), seed = L(w[3]);
  int nd = (int)w.size() - 4;
  c.hs.push_back(k);
  Index d[4] = {0, 0, 0, 0}; for (int q = 0; q < nd && q < 4; ++q) d[q] = atoi(w[4 + q].c_str());
  Entry e;
  const std::string& ty = w[2];
  if (ty == "d" || ty == "i") {
    if (nd < 1 || nd > 4) return R_BAD;
    e.kind = ty == "d" ? K_DBL : K_INT; e.rank = nd;
    if (ty == "d") e.p = nd == 1 ? (void*)make_array<1, Real, false>(d) : nd == 2 ? (void*)make_array<2, Real, false>(d) :
                         nd == 3 ? (void*)make_array<3, Real, false>(d) : (void*)make_array<4, Real, false>(d);
    else e.p = nd == 1 ? (void*)make_array<1, int, false>(d) : nd == 2 ? (void*)make_array<2, int, false>(d) :
               nd == 3 ? (void*)make_array<3, int, false>(d) : (void*)make_array<4, int, false>(d);
  } else if (ty == "a") {
    if (nd < 1 || nd > 2) return R_BAD;
    e.kind = K_ACT; e.rank = nd;
    e.p = nd == 1 ? (void*)make_array<1, Real, true>(d) : (void*)make_array<2, Real, true>(d);
  } else if (ty == "f") {
    e.kind = K_FIX; e.rank = nd;
    if (nd == 1 && d[0] == 3) e.p = new Fix1();
    else if (nd == 2 && d[0] == 2 && d[1] == 3) e.p = new Fix2();
    else return R_BAD;
  } else if (ty == "s" || ty == "t") {
    if (nd < 1 || nd > 2) return R_BAD;
    e.kind = ty == "s" ? K_SYM : K_TRI; e.rank = 2;
    if (ty == "s") e.p = nd == 1 ? (d[0] == 0 ? new SymmMatrix() : new SymmMatrix(d[0])) : new SymmMatrix(d[0], d[1]);
    else e.p = nd == 1 ? (d[0] == 0 ? new TridiagMatrix() : new TridiagMatrix(d[0])) : new TridiagMatrix(d[0], d[1]);
  } else return R_BAD;
  // the old object dies before the new one is filled (an active one frees its gradient indices first)
  Entry old; bool had = pool.count(k) != 0; if (had) old = pool[k];
  pool[k] = e;
  if (had) destroy(old);
  withAny(pool[k], [&](auto& A) { fill_pattern(A, seed); });
  c.out << "ok"; return R_DONE;
}

int main() {
  std::string line;
  g_stack = new verif::SpyStack();
  while (std::getline(std::cin, line)) {
    Words w = verif::words(line);
    if (w.empty()) continue;
    Ctx c;
    try {
      if (w[0] == "cfg" && w.size() == 2 && is_nat(w[1])) {
        cleanup(); set_array_row_major_order(true);
        g_stack->new_recording();
        std::cout << (((L(w[1]) != 0) == BOUNDS) ? "cfg" : "cfg-mismatch") << "\n";
        continue;
      }
      if (w[0] == "order" && w.size() == 2 && is_nat(w[1])) { set_array_row_major_order(L(w[1]) != 0); std::cout << "ok\n"; continue; }
      if (w[0] == "rec" && w.size() == 1) {           // new_recording: every active array of the pool becomes an input
        g_stack->new_recording();
        for (std::map<long, Entry>::iterator it = pool.begin(); it != pool.end(); ++it) it->second.input = it->second.kind == K_ACT;
        std::cout << "ok\n"; continue;
      }
      rebase(c);
      int r = R_NOTMINE;
      if (w[0] == "new") {
        if (!((w.size() >= 5 && w.size() <= 8) && is_nat(w[1]) && is_int(w[3]))) { std::cout << "bad-op\n"; continue; }
        bool okd = true; for (size_t q = 4; q < w.size(); ++q) okd = okd && is_int(w[q]);
        if (!okd) { std::cout << "bad-op\n"; continue; }
        r = exec_new(w, c);
      } else {
        // every other op starts with an existing handle; all further words are integers, a<handle> items or keywords
        // (red / redd / loc name the function first)
        bool fn_first = w[0] == "red" || w[0] == "redd" || w[0] == "loc";
        size_t hp = fn_first ? 2 : 1;
        if (w.size() < hp + 1 || !is_nat(w[hp]) || !pool.count(L(w[hp]))) { std::cout << "bad-op\n"; continue; }
        c.hs.push_back(L(w[hp]));
        if (fn_first) {
          r = exec_reduce_d(w, c);
          if (r == R_NOTMINE) r = exec_reduce_i(w, c);
          if (r == R_NOTMINE) r = exec_expand(w, c);
        } else {
          r = exec_basic(w, c);
          if (r == R_NOTMINE) r = exec_fill(w, c);
          if (r == R_NOTMINE) r = exec_elementwise(w, c);
          if (r == R_NOTMINE) r = exec_special(w, c);
          if (r == R_NOTMINE) r = exec_expand(w, c);
          if (r == R_NOTMINE) r = exec_active(w, c);
        }
      }
      if (r == R_UNMODELLED) { std::cout << "unmodelled\n"; continue; }
      if (r != R_DONE) { std::cout << "bad-op\n"; continue; }
      std::cout << c.out.str() << involved(c.hs) << "\n";
    } catch (const std::exception& e) {
      if (w[0] == "new" && c.hs.empty()) c.hs.push_back(L(w[1]));
      std::string name;
      if (dynamic_cast<const size_mismatch*>(&e)) name = "size_mismatch";
      else if (dynamic_cast<const inner_dimension_mismatch*>(&e)) name = "inner_dimension_mismatch";
      else if (dynamic_cast<const empty_array*>(&e)) name = "empty_array";
      else if (dynamic_cast<const invalid_dimension*>(&e)) name = "invalid_dimension";
      else if (dynamic_cast<const index_out_of_bounds*>(&e)) name = "index_out_of_bounds";
      else if (dynamic_cast<const invalid_operation*>(&e)) name = "invalid_operation";
      else if (dynamic_cast<const matrix_ill_conditioned*>(&e)) name = "matrix_ill_conditioned";
      else if (dynamic_cast<const feature_not_available*>(&e)) name = "feature_not_available";
      else if (dynamic_cast<const adept::exception*>(&e)) name = std::string("other-adept-exception:") + e.what();
      else name = std::string("std-exception:") + e.what();
      bool act = false;
      for (size_t q = 0; q < c.hs.size(); ++q) if (pool.count(c.hs[q]) && pool[c.hs[q]].kind == K_ACT) act = true;
      if (w[0] == "new" && w.size() > 2 && w[2] == "a") act = true;
      std::cout << "EXC " << name;
      if (act) std::cout << " rec+" << (long)(g_stack->n_statements() - c.ns0) << "+" << (long)(g_stack->n_operations() - c.no0);
      std::cout << involved(c.hs) << "\n";
    }
  }
  cleanup();
  delete g_stack;
  return 0;
}
#endif
