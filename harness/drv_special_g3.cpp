// engine pair 3 of the special-matrix correspondence driver (see drv_special.cpp, drv_special_ops.h)
#define VERIF_GROUP 3
#include "drv_special_ops.h"
