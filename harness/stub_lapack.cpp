// LAPACK entry points referenced by adept/solve.cpp and adept/inv.cpp in a HAVE_LAPACK build.  The matmul driver
// (property C15) never calls solve() or inv(); these stubs only satisfy the linker so that the driver needs no
// external library, and abort loudly if they are ever reached.  (C16 supplies real implementations of its own.)
#include <cstdio>
#include <cstdlib>
static void unreachable(const char* name) { std::fprintf(stderr, "stub_lapack: %s called\n", name); std::abort(); }
extern "C" {
#define STUB(name) void name() { unreachable(#name); }
STUB(sgetrf_) STUB(dgetrf_) STUB(sgetri_) STUB(dgetri_) STUB(ssytrf_) STUB(dsytrf_)
STUB(ssytri_) STUB(dsytri_) STUB(ssysv_) STUB(dsysv_) STUB(sgesv_) STUB(dgesv_)
}
