// integer-vector indexing of rank-3 views: entry point, and the patterns starting with a scalar (see drv_views_idx.h)
#define IX_FIRST_MASK 0x03
#include "drv_views_idx.h"
std::string ix_op(Array<3,int>& a, const std::vector<std::string>& w) {
  std::vector<ISel> t = ix_parse<3>(w);
  if (t[0].letter == L_V || t[0].letter >= L_U0) return ix_op3_vec_first(a, t);
  if (t[0].letter == L_R || t[0].letter == L_A) return ix_op3_range_first(a, t);
  return ix_go<3>(a, t);
}
