// integer-vector indexing of rank-3 views, patterns not starting with an index vector (see drv_views_idx.h)
#define IX_FIRST_MASK 0x1f
#include "drv_views_idx.h"
std::string ix_op(Array<3,int>& a, const std::vector<std::string>& w) {
  std::vector<ISel> t = ix_parse<3>(w);
  if (t[0].letter == L_V) return ix_op3_vec_first(a, t);
  return ix_go<3>(a, t);
}
