// rank-2 views indexed with rich index expressions (first XMENU2 shapes of the menu; roles scalar, begin, end),
// the other argument being end-k / RangeIndex<end-k,end-k,int> / __; operator(), subset, operator[]
#include "drv_views.h"
typedef Array<2,int> A2;
VBase* rich_slice(A2& a, const Call& c) { return rich_slice_t<A2, XMENU2, ROLE_S | ROLE_B | ROLE_E, FAM_END>(a, c); }
struct Subset2Cont {
  typedef VBase* result_type;
  A2& a; const std::vector<Tok>& t; bool cf; int pos;
  Subset2Cont(A2& a_, const std::vector<Tok>& t_, bool cf_, int pos_) : a(a_), t(t_), cf(cf_), pos(pos_) {}
  template <class X> VBase* operator()(const X& x) {
    int l0 = a.dimension(0), l1 = a.dimension(1);
    const A2& ca = a;
#define E0 via_end(t[0], l0)
#define E1 via_end(t[1], l0)
#define E2 via_end(t[2], l1)
#define E3 via_end(t[3], l1)
    switch (pos) {
      case 0: if (cf) return wrapc(ca.subset(x, E1, E2, E3)); return wrap(a.subset(x, E1, E2, E3));
      case 1: if (cf) return wrapc(ca.subset(E0, x, E2, E3)); return wrap(a.subset(E0, x, E2, E3));
      case 2: if (cf) return wrapc(ca.subset(E0, E1, x, E3)); return wrap(a.subset(E0, E1, x, E3));
      default: if (cf) return wrapc(ca.subset(E0, E1, E2, x)); return wrap(a.subset(E0, E1, E2, x));
    }
#undef E0
#undef E1
#undef E2
#undef E3
  }
};
VBase* rich_subset(A2& a, const std::vector<Tok>& t, bool cf) {
  int pos = -1;
  for (size_t k = 0; k < t.size(); ++k) if (t[k].cls == 2) { if (pos >= 0) throw BadOp(); pos = (int)k; }
  Subset2Cont f(a, t, cf, pos);
  return with_xscalar<XMENU2>(t[pos], f);
}
struct Idx2Cont {
  typedef VBase* result_type;
  A2& a; bool cf;
  Idx2Cont(A2& a_, bool cf_) : a(a_), cf(cf_) {}
  template <class X> VBase* operator()(const X& x) { return IdxC<true>::go(a, x, cf); }
};
VBase* rich_idx(A2& a, const Tok& t, bool cf) { Idx2Cont f(a, cf); return with_xscalar<XMENU2>(t, f); }
