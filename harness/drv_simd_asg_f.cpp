// C05 driver: asg family for float (split over translation units to keep compile time down)
#include "drv_simd_asg.h"
namespace simd { std::string asg_f(const Words& w) { return dispatch_asg<float>(w); } }
