// rank-5 operator() with end-k-family arguments (see drv_views.cpp)
#include "drv_views.h"
VBase* slice5_end(Array<5,int>& a, const std::vector<Arg>& t) { return SliceDisp<5, 0, FAM_END>::go(a, t); }
