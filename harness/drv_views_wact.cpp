// whole-view operations on ACTIVE views of rank 1..3 (see drv_views_w.h)
#include "drv_views_w.h"
VIEWS_DEFINE_WHOLE_ACTIVE(1)
VIEWS_DEFINE_WHOLE_ACTIVE(2)
VIEWS_DEFINE_WHOLE_ACTIVE(3)
