// rank-4 operator() with int-family arguments, const and non-const (see drv_views.cpp)
#include "drv_views.h"
VIEWS_DEFINE_SLICE_FAMILY(4, slice_int, FAM_INT)
