// ELEMENT access (operator() with only scalar arguments) of the views driver, see drv_views.cpp / drv_views.h.
//
// Array.h and FixedArray.h have one element accessor per rank and per const-ness (plus the rank-1 operator[] pair), each
// resolving index k (an int or an `end` expression) against the length of dimension k.  drv_views.h (ElemDisp) passes every
// argument as an int or end-k.  This header adds
//   * calls in which ONE argument, in any position, is a rich index expression (`end`, end/k, k-end, k/end, (end-k)/m, ...:
//     the first ELMENU<rank> shapes of the menu XSHAPES), the others int / end-k exactly as written (ranks 1..4) or all int /
//     all end-k (ranks 5..6; an int k is then passed as end-(len-1-k)), for EVERY kind of object, const and non-const;
//   * objects of which only the element accessors are driven (class VE): FixedArray<int,false,..> of rank 4..6 with pairwise
//     different extents and ACTIVE FixedArray<double,true,..> of rank 1..4 (all-scalar operator(), rank 1 also operator[]).
#ifndef VERIF_DRV_VIEWS_EL_H
#define VERIF_DRV_VIEWS_EL_H
#include "drv_views.h"

template <int R> struct ElMenu { enum { n = (R == 1 ? XMENU1 : (R == 2 ? XMENU2 : 5)) }; };

// Mode 0: the plain arguments as written (int or end-k per position); 1: all int; 2: all end-k
template <class AR, int K, class XA, bool Used, int Mode, bool Done, typename... As> struct ElemXDisp;
template <int Mode> struct ElemPlain;
#define EL_NEXT(T, val) ElemXDisp<AR, K + 1, XA, Used, MODE, (K + 1 == ArT<AR>::rank), As..., T>::go(a, c, x, as..., val)
template <> struct ElemPlain<0> {
  enum { MODE = 0 };
  template <class AR, int K, class XA, bool Used, typename... As> static VBase* go(AR& a, const Call& c, const XA& x, As... as) {
    const Tok& t = c.t[K].b;
    if (t.cls == 0) return EL_NEXT(int, t.k);
    return EL_NEXT(EndX, endx(t.k));
  }
};
template <> struct ElemPlain<1> {
  enum { MODE = 1 };
  template <class AR, int K, class XA, bool Used, typename... As> static VBase* go(AR& a, const Call& c, const XA& x, As... as) {
    const Tok& t = c.t[K].b;
    if (t.cls != 0) throw BadOp();
    return EL_NEXT(int, t.k);
  }
};
template <> struct ElemPlain<2> {
  enum { MODE = 2 };
  template <class AR, int K, class XA, bool Used, typename... As> static VBase* go(AR& a, const Call& c, const XA& x, As... as) {
    return EL_NEXT(EndX, via_end(c.t[K].b, a.dimension(K)));
  }
};
#undef EL_NEXT
// the rich argument at its position (once)
template <bool Used> struct ElemXPut {
  template <class AR, int K, class XA, int Mode, typename... As> static VBase* go(AR& a, const Call& c, const XA& x, As... as) {
    return ElemXDisp<AR, K + 1, XA, true, Mode, (K + 1 == ArT<AR>::rank), As..., XA>::go(a, c, x, as..., x);
  }
};
template <> struct ElemXPut<true> {
  template <class AR, int K, class XA, int Mode, typename... As> static VBase* go(AR&, const Call&, const XA&, As...) { throw BadOp(); }
};
template <class AR, int K, class XA, bool Used, int Mode, bool Done, typename... As> struct ElemXDisp {
  static VBase* go(AR& a, const Call& c, const XA& x, As... as) {
    if (K == c.xpos) return ElemXPut<Used>::template go<AR, K, XA, Mode, As...>(a, c, x, as...);
    return ElemPlain<Mode>::template go<AR, K, XA, Used, As...>(a, c, x, as...);
  }
};
template <class AR, int K, class XA, bool Used, int Mode, typename... As> struct ElemXDisp<AR, K, XA, Used, Mode, true, As...> {
  static VBase* go(AR& a, const Call& c, const XA&, As... as) { return Terminal<Used>::go(a, c, as...); }
};
template <class AR, int Mode> struct ElemCont {
  typedef VBase* result_type;
  AR& a; const Call& c;
  ElemCont(AR& a_, const Call& c_) : a(a_), c(c_) {}
  template <class XA> VBase* operator()(const XA& x) { return ElemXDisp<AR, 0, XA, false, Mode, false>::go(a, c, x); }
};
template <bool Low> struct RichElemSel {                       // ranks 1..4: every mixture of int / end-k around the rich argument
  template <class AR> static VBase* go(AR& a, const Call& c) {
    ElemCont<AR, 0> f(a, c);
    return with_xscalar<ElMenu<ArT<AR>::rank>::n>(c.t[c.xpos].b, f);
  }
};
template <> struct RichElemSel<false> {                        // ranks 5..6: all int, or all end-k
  template <class AR> static VBase* go(AR& a, const Call& c) {
    bool all_int = true;
    for (int k = 0; k < (int)c.t.size(); ++k) if (k != c.xpos && c.t[k].b.cls != 0) all_int = false;
    if (all_int) { ElemCont<AR, 1> f(a, c); return with_xscalar<ElMenu<ArT<AR>::rank>::n>(c.t[c.xpos].b, f); }
    ElemCont<AR, 2> f(a, c);
    return with_xscalar<ElMenu<ArT<AR>::rank>::n>(c.t[c.xpos].b, f);
  }
};
template <class AR> inline VBase* rich_elem_t(AR& a, const Call& c) {
  if (c.xpos < 0 || c.t[c.xpos].kind != 0 || c.t[c.xpos].b.cls != 2) throw BadOp();
  return RichElemSel<(ArT<AR>::rank <= 4)>::go(a, c);
}
#define VIEWS_DEFINE_RICH_ELEM(TYPE) VBase* rich_elem(TYPE& a, const Call& c) { return rich_elem_t(a, c); }

template <bool Rank1> struct IdxOnly {
  template <class FA> static VBase* go(FA& a, const std::vector<std::string>& w, bool cf) { return op_idx(a, w, cf); }
};
template <> struct IdxOnly<false> {
  template <class FA> static VBase* go(FA&, const std::vector<std::string>&, bool) { throw BadOp(); }
};
// an object of which only the element accessors are driven; it owns the FixedArray
template <class FA> struct VE : VBase {
  FA* f;
  explicit VE(FA* x) : f(x) {}
  ~VE() { delete f; }
  int rank() const { return ArT<FA>::rank; }
  int contig() { throw BadOp(); }
  std::string indexed(const std::vector<std::string>&) { throw BadOp(); }
  std::string describe() { return describe_arr(*f); }
  VBase* apply(const std::vector<std::string>& w0) {
    std::vector<std::string> w(w0);
    bool cf = false;
    if (w[0].size() > 1 && w[0][0] == 'c') { cf = true; w[0] = w[0].substr(1); }
    if (w[0] == "slice") {
      enum { R = ArT<FA>::rank };
      if ((int)w.size() != R + 1) throw BadOp();
      Call c; c.t.resize(R); c.xpos = -1; c.cf = cf;
      for (int k = 0; k < R; ++k) {
        if (!parse_arg(w[k + 1], c.t[k]) || c.t[k].kind != 0) throw BadOp();      // element access only
        if (arg_rich(c.t[k])) { if (c.xpos >= 0) throw BadOp(); c.xpos = k; }
      }
      if (c.xpos >= 0) return rich_elem(*f, c);
      return ElemDisp<FA, 0, false>::go(*f, c);
    }
    if (w[0] == "idx") return IdxOnly<(ArT<FA>::rank == 1)>::go(*f, w, cf);
    throw BadOp();
  }
};
template <class FA> inline VBase* make_elem_only() {
  typedef typename ArT<FA>::elem T;
  FA* keep = new FA;
  T* p = keep->data();
  set_base(p);
  g_gbase = keep->gradient_index();
  g_vol = 1;
  for (int k = 0; k < ArT<FA>::rank; ++k) g_vol *= keep->dimension(k);
  for (long c = 0; c < g_vol; ++c) p[c] = (T)c;
  return new VE<FA>(keep);
}
#endif
