#define VR 1
#define VT double
#include "drv_assign_impl.h"
