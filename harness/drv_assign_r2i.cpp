#define VR 2
#define VT int
#include "drv_assign_impl.h"
