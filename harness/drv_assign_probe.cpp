// Compile probe of checks/c04.py (never linked, -fsyntax-only): does `A.where(mask) OP= rhs` instantiate on the tree under test?
// On the pinned tree it does not (where.h ADEPT_WHERE_OPERATOR: noalias(*this) with *this the Where proxy).
#include <adept_arrays.h>
using namespace adept;
void probe(intVector& a, const intVector& b, FixedArray<double, false, 4>& f, const Vector& c) {
  a.where(b > 2) += b;  a.where(b > 2) -= 1;  a.where(b > 2) *= b + 1;  a.where(b > 2) /= 2;
  f.where(c > 2.0) += c; f.where(c > 2.0) *= 2.0;
  a.where(b > 2) += either_or(b, 1);
}
