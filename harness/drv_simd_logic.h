// Shared helpers of the logic half of the C05 driver (included by drv_simd_asg.h and drv_simd_red.h).
#ifndef VERIF_DRV_SIMD_LOGIC_H
#define VERIF_DRV_SIMD_LOGIC_H
#include "drv_simd.h"
using namespace adept;
using namespace simd;

static const int L1 = 512;  // length of the over-allocated rank-1 buffers
static const double SENT = -7777.0;

static bool two(const std::string& s, long& a, long& b) {
  size_t c = s.find(',');
  if (c == std::string::npos) return false;
  a = atol(s.substr(0, c).c_str()); b = atol(s.substr(c + 1).c_str());
  return true;
}
static std::vector<long> csv(const std::string& s) {
  std::vector<long> v; std::istringstream is(s); std::string t;
  while (std::getline(is, t, ',')) if (!t.empty() && t != "-") v.push_back(atol(t.c_str()));
  return v;
}

template <typename T> T va(long i) { return T(1 + (i * 7) % 13); }
template <typename T> T vb(long i) { return T(2 + (i * 5) % 11); }
template <typename T> T vc(long i) { return T(1 + (i * 3) % 7); }
// powers of two whose running product stays in [1/4, 4]
template <typename T> T vp(long i) { static const double p[4] = {2.0, 0.5, 0.5, 2.0}; return T(p[i & 3]); }

// scalar semantics of each statement shape on elements (x,y,z)
template <typename T> T shape_value(int shape, T x, T y, T z) {
  switch (shape) {
  case 0: return x + y;
  case 1: return x;
  case 2: return x * T(3);
  case 3: return T(2) - x;
  case 4: return -x;
  case 5: return x * y + z;
  case 6: return std::sqrt(x);
  case 7: return x < y ? y : x;
  case 8: return x < y ? x : y;
  case 9: return x + y;            // noalias(a+b)
  case 10: return (x - y) / z;
  }
  return T(0);
}
static const char* shape_expr(int shape, bool& ok) {
  ok = true;
  switch (shape) {
  case 0: return "B %a %b";
  case 1: return "%a";
  case 2: case 3: case 4: case 6: return "U %a";
  case 5: return "B B %a %b %c";
  case 7: case 8: return "B %a %b";
  case 9: return "U B %a %b";
  case 10: return "B B %a %b %c";
  }
  ok = false; return "";
}
static std::string subst(const char* pat, const std::string& a, const std::string& b, const std::string& c) {
  std::string out;
  for (const char* p = pat; *p; ++p) {
    if (*p == '%' && p[1]) { ++p; out += (*p == 'a' ? a : *p == 'b' ? b : c); }
    else out += *p;
  }
  return out;
}

template <int R, typename T, class A, class B, class C>
static void do_assign(int shape, Array<R, T>& tg, const A& a, const B& b, const C& c) {
  switch (shape) {
  case 0: tg = a + b; break;
  case 1: tg = a; break;
  case 2: tg = a * T(3); break;
  case 3: tg = T(2) - a; break;
  case 4: tg = -a; break;
  case 5: tg = a * b + c; break;
  case 6: tg = sqrt(a); break;
  case 7: tg = max(a, b); break;
  case 8: tg = min(a, b); break;
  case 9: tg = noalias(a + b); break;
  case 10: tg = (a - b) / c; break;
  }
}

template <typename T> struct Bufs {
  Array<1, T> bt, ba, bb, bc;
  Bufs() : bt(L1), ba(L1), bb(L1), bc(L1) {
    for (int i = 0; i < L1; ++i) { ba(i) = va<T>(i); bb(i) = vb<T>(i); bc(i) = vc<T>(i); }
  }
  static Bufs& get() { static Bufs* b = new Bufs(); return *b; }
};

template <typename T> static Array<1, T> view1(Array<1, T>& big, long k, long s, long n) {
  if (n <= 0) return Array<1, T>();
  if (s == 1) return big(range(k, k + n - 1));
  return big(stride(k, k + s * (n - 1), s));
}

// run one statement with fault recovery; returns "" or "FAULT sig=…"
#define GUARDED(stmt, status)                                                     \
  do {                                                                            \
    int sig_ = sigsetjmp(g_jb, 1);                                                \
    if (sig_ == 0) {                                                              \
      g_armed = 1;                                                                \
      try { stmt; } catch (const std::exception& e) { status = "R exc"; }         \
      g_armed = 0;                                                                \
    } else {                                                                      \
      std::ostringstream os_; os_ << "FAULT sig=" << sig_; status = os_.str();    \
    }                                                                             \
  } while (0)

// ---- rank 2
template <typename T> struct Mat {
  Array<2, T> big, v;
  long k, P, m, n;
  // P == 0: fresh Array(m,n);  P > 0: columns [k,k+n) of a contiguous m x P array
  Mat(long m_, long n_, long k_, long P_, int which) : k(k_), P(P_), m(m_), n(n_) {
    if (P == 0) { big.resize(m, n); k = 0; }
    else big.resize_contiguous(m, P);
    long pitch = big.offset(0);
    T* d = big.data();
    for (long i = 0; i < m; ++i) for (long j = 0; j < pitch; ++j) d[i * pitch + j] = T(SENT);
    if (P == 0) v >>= big; else v >>= big(__, range(k, k + n - 1));
    if (which >= 0)
      for (long i = 0; i < m; ++i) for (long j = 0; j < n; ++j) v(i, j) = val(which, i, j);
  }
  static T val(int which, long i, long j) { long q = i * 31 + j; return which == 0 ? va<T>(q) : which == 1 ? vb<T>(q) : vc<T>(q); }
};

// ---- FixedArray leaves, placed at a chosen alignment offset inside an over-aligned buffer
template <typename T, class FA> struct Placed {
  char* raw; FA* f;
  explicit Placed(long kf) {
    raw = new char[sizeof(FA) + 256];
    std::size_t p = reinterpret_cast<std::size_t>(raw);
    p = (p + 127) & ~std::size_t(127);
    f = new (reinterpret_cast<char*>(p) + kf * sizeof(T)) FA();
  }
  ~Placed() { f->~FA(); delete[] raw; }
};
template <typename T, class FA> static std::string fixed_token(const FA& f, const std::vector<long>& dims) {
  std::ostringstream os; os << "F:" << addr_units(f.const_data()) << ":" << join(dims); return os.str();
}


#endif
