// Spy BLAS for the matmul correspondence check (property C15).
//
// Implements the Fortran symbols declared in adept/cppblas.cpp
//     ?gemm_ ?gemv_ ?symm_ ?symv_ ?gbmv_      (? = d, s)
// as naive loops whose *semantics* are transcribed from the Netlib reference BLAS (dgemm.f, dgemv.f,
// dsymm.f, dsymv.f, dgbmv.f): column-major storage with leading dimension, the TRANS / SIDE / UPLO
// flags, the increment convention (for inc < 0 logical element i of a vector of length n lives at
// x[(n-1-i)*|inc|]), the argument checks in the reference order (first illegal parameter number is
// reported as an "xerbla" event and the routine returns without touching anything), the quick returns,
// and beta == 0 meaning "C / y is not read".
//
// Every call is appended to verif::blas_log with all its arguments and with the exact list of element
// indices it read from A and B/x and wrote to C/y.  Only the elements the BLAS contract allows to be
// referenced are touched (e.g. only the UPLO triangle of a symmetric matrix, only the band of a band
// matrix), so AddressSanitizer reports any access outside the caller's allocation and the driver can
// compare the touched set with the operand's element addresses.
//
// Accumulation is over the inner index in ascending order starting from zero; with alpha = 1, beta = 0
// and integer-valued data every result is exact, so the order is immaterial in the regime the check uses.
#include "spy_blas.h"
#include <algorithm>

namespace verif {
std::vector<BlasCall> blas_log;
}

namespace {
using verif::BlasCall;

inline bool is_n(char c) { return c == 'N' || c == 'n'; }
inline bool is_t(char c) { return c == 'T' || c == 't' || c == 'C' || c == 'c'; }
inline bool is_u(char c) { return c == 'U' || c == 'u'; }
inline bool is_l(char c) { return c == 'L' || c == 'l'; }
inline bool is_r(char c) { return c == 'R' || c == 'r'; }
inline int max1(int a) { return a > 1 ? a : 1; }

template <class T> struct Nm { };
template <> struct Nm<double> { static const char* p() { return "d"; } };
template <> struct Nm<float> { static const char* p() { return "s"; } };

template <class T>
BlasCall& begin(const char* name, const std::string& flags, const T* a, const T* b, const T* c, T alpha, T beta) {
  verif::blas_log.push_back(BlasCall());
  BlasCall& L = verif::blas_log.back();
  L.routine = std::string(Nm<T>::p()) + name;
  L.flags = flags;
  L.p[0] = a; L.p[1] = b; L.p[2] = c;
  L.alpha = alpha; L.beta = beta;
  L.elsize = sizeof(T);
  return L;
}

// read / write with logging
template <class T> inline T rd(BlasCall& L, int k, const T* p, long i) { L.touched[k].push_back(i); return p[i]; }
template <class T> inline void wr(BlasCall& L, T* p, long i, T v) { L.touched[2].push_back(i); p[i] = v; }

// ---- xGEMM: C := alpha*op(A)*op(B) + beta*C, op(A) m x k, op(B) k x n, C m x n
template <class T>
void gemm(const char* ta, const char* tb, const int* pm, const int* pn, const int* pk, const T* palpha,
          const T* A, const int* plda, const T* B, const int* pldb, const T* pbeta, T* C, const int* pldc) {
  int m = *pm, n = *pn, k = *pk, lda = *plda, ldb = *pldb, ldc = *pldc;
  T alpha = *palpha, beta = *pbeta;
  BlasCall& L = begin<T>("gemm", std::string(1, *ta) + *tb, A, B, C, alpha, beta);
  int iv[] = {m, n, k, lda, ldb, ldc};
  L.iv.assign(iv, iv + 6);
  bool nota = is_n(*ta), notb = is_n(*tb);
  int nrowa = nota ? m : k, nrowb = notb ? k : n;
  int info = 0;
  if (!nota && !is_t(*ta)) info = 1;
  else if (!notb && !is_t(*tb)) info = 2;
  else if (m < 0) info = 3;
  else if (n < 0) info = 4;
  else if (k < 0) info = 5;
  else if (lda < max1(nrowa)) info = 8;
  else if (ldb < max1(nrowb)) info = 10;
  else if (ldc < max1(m)) info = 13;
  if (info) { L.xerbla = info; return; }
  if (m == 0 || n == 0 || ((alpha == T(0) || k == 0) && beta == T(1))) return;
  for (int j = 0; j < n; ++j)
    for (int i = 0; i < m; ++i) {
      T temp = 0;
      if (alpha != T(0))
        for (int l = 0; l < k; ++l) {
          T a = nota ? rd(L, 0, A, (long)i + (long)l * lda) : rd(L, 0, A, (long)l + (long)i * lda);
          T b = notb ? rd(L, 1, B, (long)l + (long)j * ldb) : rd(L, 1, B, (long)j + (long)l * ldb);
          temp += a * b;
        }
      long ic = (long)i + (long)j * ldc;
      T old = beta == T(0) ? T(0) : beta * C[ic];
      wr(L, C, ic, alpha * temp + old);
    }
}

// start index of a strided vector of logical length len (0-based): Netlib KX = 1 - (LENX-1)*INCX for INCX < 0
inline long kstart(int len, int inc) { return inc > 0 ? 0 : -(long)(len - 1) * inc; }

// ---- xGEMV: y := alpha*op(A)*x + beta*y, A m x n
template <class T>
void gemv(const char* tr, const int* pm, const int* pn, const T* palpha, const T* A, const int* plda,
          const T* X, const int* pincx, const T* pbeta, T* Y, const int* pincy) {
  int m = *pm, n = *pn, lda = *plda, incx = *pincx, incy = *pincy;
  T alpha = *palpha, beta = *pbeta;
  BlasCall& L = begin<T>("gemv", std::string(1, *tr), A, X, Y, alpha, beta);
  int iv[] = {m, n, lda, incx, incy};
  L.iv.assign(iv, iv + 5);
  bool notr = is_n(*tr);
  int info = 0;
  if (!notr && !is_t(*tr)) info = 1;
  else if (m < 0) info = 2;
  else if (n < 0) info = 3;
  else if (lda < max1(m)) info = 6;
  else if (incx == 0) info = 8;
  else if (incy == 0) info = 11;
  if (info) { L.xerbla = info; return; }
  if (m == 0 || n == 0 || (alpha == T(0) && beta == T(1))) return;
  int lenx = notr ? n : m, leny = notr ? m : n;
  long kx = kstart(lenx, incx), ky = kstart(leny, incy);
  for (int i = 0; i < leny; ++i) {
    T temp = 0;
    if (alpha != T(0))
      for (int j = 0; j < lenx; ++j) {
        T a = notr ? rd(L, 0, A, (long)i + (long)j * lda) : rd(L, 0, A, (long)j + (long)i * lda);
        temp += a * rd(L, 1, X, kx + (long)j * incx);
      }
    long iy = ky + (long)i * incy;
    T old = beta == T(0) ? T(0) : beta * Y[iy];
    wr(L, Y, iy, alpha * temp + old);
  }
}

// element (p,q) of a symmetric matrix of which only the UPLO triangle is stored / referenced
template <class T>
inline T symel(BlasCall& L, const T* A, int lda, bool upper, int p, int q) {
  bool stored = upper ? (p <= q) : (p >= q);
  return stored ? rd(L, 0, A, (long)p + (long)q * lda) : rd(L, 0, A, (long)q + (long)p * lda);
}

// ---- xSYMM: C := alpha*A*B + beta*C (SIDE = L, A m x m) or alpha*B*A + beta*C (SIDE = R, A n x n); C, B m x n
template <class T>
void symm(const char* side, const char* uplo, const int* pm, const int* pn, const T* palpha, const T* A,
          const int* plda, const T* B, const int* pldb, const T* pbeta, T* C, const int* pldc) {
  int m = *pm, n = *pn, lda = *plda, ldb = *pldb, ldc = *pldc;
  T alpha = *palpha, beta = *pbeta;
  BlasCall& L = begin<T>("symm", std::string(1, *side) + *uplo, A, B, C, alpha, beta);
  int iv[] = {m, n, lda, ldb, ldc};
  L.iv.assign(iv, iv + 5);
  bool left = is_l(*side), upper = is_u(*uplo);
  int nrowa = left ? m : n;
  int info = 0;
  if (!left && !is_r(*side)) info = 1;
  else if (!upper && !is_l(*uplo)) info = 2;
  else if (m < 0) info = 3;
  else if (n < 0) info = 4;
  else if (lda < max1(nrowa)) info = 7;
  else if (ldb < max1(m)) info = 9;
  else if (ldc < max1(m)) info = 12;
  if (info) { L.xerbla = info; return; }
  if (m == 0 || n == 0 || (alpha == T(0) && beta == T(1))) return;
  for (int j = 0; j < n; ++j)
    for (int i = 0; i < m; ++i) {
      T temp = 0;
      if (alpha != T(0)) {
        if (left)
          for (int l = 0; l < m; ++l) {
            T a = symel(L, A, lda, upper, i, l);
            temp += a * rd(L, 1, B, (long)l + (long)j * ldb);
          }
        else
          for (int l = 0; l < n; ++l) {
            T b = rd(L, 1, B, (long)i + (long)l * ldb);
            temp += b * symel(L, A, lda, upper, l, j);
          }
      }
      long ic = (long)i + (long)j * ldc;
      T old = beta == T(0) ? T(0) : beta * C[ic];
      wr(L, C, ic, alpha * temp + old);
    }
}

// ---- xSYMV: y := alpha*A*x + beta*y, A n x n symmetric
template <class T>
void symv(const char* uplo, const int* pn, const T* palpha, const T* A, const int* plda, const T* X,
          const int* pincx, const T* pbeta, T* Y, const int* pincy) {
  int n = *pn, lda = *plda, incx = *pincx, incy = *pincy;
  T alpha = *palpha, beta = *pbeta;
  BlasCall& L = begin<T>("symv", std::string(1, *uplo), A, X, Y, alpha, beta);
  int iv[] = {n, lda, incx, incy};
  L.iv.assign(iv, iv + 4);
  bool upper = is_u(*uplo);
  int info = 0;
  if (!upper && !is_l(*uplo)) info = 1;
  else if (n < 0) info = 2;
  else if (lda < max1(n)) info = 5;
  else if (incx == 0) info = 7;
  else if (incy == 0) info = 10;
  if (info) { L.xerbla = info; return; }
  if (n == 0 || (alpha == T(0) && beta == T(1))) return;
  long kx = kstart(n, incx), ky = kstart(n, incy);
  for (int i = 0; i < n; ++i) {
    T temp = 0;
    if (alpha != T(0))
      for (int j = 0; j < n; ++j) {
        T a = symel(L, A, lda, upper, i, j);
        temp += a * rd(L, 1, X, kx + (long)j * incx);
      }
    long iy = ky + (long)i * incy;
    T old = beta == T(0) ? T(0) : beta * Y[iy];
    wr(L, Y, iy, alpha * temp + old);
  }
}

// ---- xGBMV: y := alpha*op(A)*x + beta*y, A m x n band matrix with kl sub- and ku super-diagonals,
//      element (i,j) (0-based, max(0,j-ku) <= i <= min(m-1,j+kl)) stored at A[(ku+i-j) + j*lda]
template <class T>
void gbmv(const char* tr, const int* pm, const int* pn, const int* pkl, const int* pku, const T* palpha,
          const T* A, const int* plda, const T* X, const int* pincx, const T* pbeta, T* Y, const int* pincy) {
  int m = *pm, n = *pn, kl = *pkl, ku = *pku, lda = *plda, incx = *pincx, incy = *pincy;
  T alpha = *palpha, beta = *pbeta;
  BlasCall& L = begin<T>("gbmv", std::string(1, *tr), A, X, Y, alpha, beta);
  int iv[] = {m, n, kl, ku, lda, incx, incy};
  L.iv.assign(iv, iv + 7);
  bool notr = is_n(*tr);
  int info = 0;
  if (!notr && !is_t(*tr)) info = 1;
  else if (m < 0) info = 2;
  else if (n < 0) info = 3;
  else if (kl < 0) info = 4;
  else if (ku < 0) info = 5;
  else if (lda < kl + ku + 1) info = 8;
  else if (incx == 0) info = 10;
  else if (incy == 0) info = 13;
  if (info) { L.xerbla = info; return; }
  if (m == 0 || n == 0 || (alpha == T(0) && beta == T(1))) return;
  int lenx = notr ? n : m, leny = notr ? m : n;
  long kx = kstart(lenx, incx), ky = kstart(leny, incy);
  for (int r = 0; r < leny; ++r) {
    T temp = 0;
    if (alpha != T(0)) {
      if (notr) {
        // y(i) = sum over the columns j of row i = r that lie inside the band
        int i = r;
        for (int j = std::max(0, i - kl); j <= std::min(n - 1, i + ku); ++j)
          temp += rd(L, 0, A, (long)(ku + i - j) + (long)j * lda) * rd(L, 1, X, kx + (long)j * incx);
      } else {
        // y(j) = sum over the rows i of column j = r that lie inside the band
        int j = r;
        for (int i = std::max(0, j - ku); i <= std::min(m - 1, j + kl); ++i)
          temp += rd(L, 0, A, (long)(ku + i - j) + (long)j * lda) * rd(L, 1, X, kx + (long)i * incx);
      }
    }
    long iy = ky + (long)r * incy;
    T old = beta == T(0) ? T(0) : beta * Y[iy];
    wr(L, Y, iy, alpha * temp + old);
  }
}

} // namespace

extern "C" {
void dgemm_(const char* ta, const char* tb, const int* m, const int* n, const int* k, const double* alpha, const double* A,
            const int* lda, const double* B, const int* ldb, const double* beta, double* C, const int* ldc)
{ gemm<double>(ta, tb, m, n, k, alpha, A, lda, B, ldb, beta, C, ldc); }
void sgemm_(const char* ta, const char* tb, const int* m, const int* n, const int* k, const float* alpha, const float* A,
            const int* lda, const float* B, const int* ldb, const float* beta, float* C, const int* ldc)
{ gemm<float>(ta, tb, m, n, k, alpha, A, lda, B, ldb, beta, C, ldc); }
void dgemv_(const char* tr, const int* m, const int* n, const double* alpha, const double* A, const int* lda,
            const double* X, const int* incx, const double* beta, double* Y, const int* incy)
{ gemv<double>(tr, m, n, alpha, A, lda, X, incx, beta, Y, incy); }
void sgemv_(const char* tr, const int* m, const int* n, const float* alpha, const float* A, const int* lda,
            const float* X, const int* incx, const float* beta, float* Y, const int* incy)
{ gemv<float>(tr, m, n, alpha, A, lda, X, incx, beta, Y, incy); }
void dsymm_(const char* side, const char* uplo, const int* m, const int* n, const double* alpha, const double* A,
            const int* lda, const double* B, const int* ldb, const double* beta, double* C, const int* ldc)
{ symm<double>(side, uplo, m, n, alpha, A, lda, B, ldb, beta, C, ldc); }
void ssymm_(const char* side, const char* uplo, const int* m, const int* n, const float* alpha, const float* A,
            const int* lda, const float* B, const int* ldb, const float* beta, float* C, const int* ldc)
{ symm<float>(side, uplo, m, n, alpha, A, lda, B, ldb, beta, C, ldc); }
void dsymv_(const char* uplo, const int* n, const double* alpha, const double* A, const int* lda, const double* X,
            const int* incx, const double* beta, double* Y, const int* incy)
{ symv<double>(uplo, n, alpha, A, lda, X, incx, beta, Y, incy); }
void ssymv_(const char* uplo, const int* n, const float* alpha, const float* A, const int* lda, const float* X,
            const int* incx, const float* beta, float* Y, const int* incy)
{ symv<float>(uplo, n, alpha, A, lda, X, incx, beta, Y, incy); }
void dgbmv_(const char* tr, const int* m, const int* n, const int* kl, const int* ku, const double* alpha, const double* A,
            const int* lda, const double* X, const int* incx, const double* beta, double* Y, const int* incy)
{ gbmv<double>(tr, m, n, kl, ku, alpha, A, lda, X, incx, beta, Y, incy); }
void sgbmv_(const char* tr, const int* m, const int* n, const int* kl, const int* ku, const float* alpha, const float* A,
            const int* lda, const float* X, const int* incx, const float* beta, float* Y, const int* incy)
{ gbmv<float>(tr, m, n, kl, ku, alpha, A, lda, X, incx, beta, Y, incy); }
}
