// Shared declarations for the C05 (SIMD) correspondence / exploration driver.
#ifndef VERIF_DRV_SIMD_H
#define VERIF_DRV_SIMD_H
#include "spy.h"
#include <csetjmp>
#include <csignal>
#include <stdint.h>
#include <cmath>
#include <limits>

namespace simd {

typedef std::vector<std::string> Words;

// ---- hook H2 (the accessor exists only in a tree that carries the hook patch)
#ifdef VERIF_HAVE_H2
inline int* hook() { return adept::internal::verif_simd_(); }
#else
inline int* hook() { static int none[8] = {0, 0, 0, 0, 0, 0, 0, 0}; return none; }
#endif
inline void hook_reset() { int* h = hook(); for (int i = 0; i < 8; ++i) h[i] = 0; }
inline std::string hook_line() {
  int* h = hook();
  std::ostringstream os;
  os << "site=" << h[0] << " vec=" << (h[4] > 0 ? 1 : 0) << " is=" << h[1] << " ie=" << h[2] << " pk=" << h[3];
  return os.str();
}

// ---- fault recovery: a misaligned aligned-load/store raises SIGSEGV (general protection); the driver
// reports it as the result of the case and carries on with the next one
extern sigjmp_buf g_jb;
extern volatile sig_atomic_t g_armed;
void install_fault_handlers();

// ---- bit patterns
inline uint64_t bits_of(double x) { uint64_t u; std::memcpy(&u, &x, 8); return u; }
inline uint64_t bits_of(float x) { uint32_t u; std::memcpy(&u, &x, 4); return u; }
inline void from_bits(uint64_t u, double& x) { std::memcpy(&x, &u, 8); }
inline void from_bits(uint64_t u, float& x) { uint32_t v = (uint32_t)u; std::memcpy(&x, &v, 4); }
template <typename T> inline std::string hex(T x) {
  char buf[24];
  if (sizeof(T) == 8) snprintf(buf, sizeof buf, "%016llx", (unsigned long long)bits_of(x));
  else snprintf(buf, sizeof buf, "%08llx", (unsigned long long)bits_of(x));
  return buf;
}
template <typename T> struct tname;
template <> struct tname<float> { static const char* s() { return "f"; } };
template <> struct tname<double> { static const char* s() { return "d"; } };

// address in units of sizeof(T), reduced mod 64 (a multiple of every packet size) so that output is reproducible
template <typename T> inline long addr_units(const T* p) {
  return (long)((reinterpret_cast<std::size_t>(p) / sizeof(T)) % 64);
}

inline std::string join(const std::vector<long>& v) {
  if (v.empty()) return "-";
  std::ostringstream os;
  for (size_t i = 0; i < v.size(); ++i) { if (i) os << ","; os << v[i]; }
  return os.str();
}

// geometry token of an Array leaf as the library itself reports it: A:<addr>:<inner offset>:<outer offsets>
template <int R, typename T> std::string leaf_token(const adept::Array<R, T, false>& v) {
  std::ostringstream os;
  std::vector<long> outer;
  if (v.empty()) { os << "A:0:0:-"; return os.str(); }
  for (int i = 0; i + 1 < R; ++i) outer.push_back(v.offset(i));
  os << "A:" << addr_units(v.const_data()) << ":" << v.offset(R - 1) << ":" << join(outer);
  return os.str();
}
// target token: T:<addr>:<inner>:<outer offsets>:<outer extents>:<last extent>
template <int R, typename T> std::string target_token(const adept::Array<R, T, false>& v) {
  std::ostringstream os;
  if (v.empty()) { os << "T:0:0:-:-:0"; return os.str(); }
  std::vector<long> outer, od;
  for (int i = 0; i + 1 < R; ++i) { outer.push_back(v.offset(i)); od.push_back(v.dimension(i)); }
  os << "T:" << addr_units(v.const_data()) << ":" << v.offset(R - 1) << ":" << join(outer) << ":" << join(od) << ":"
     << v.dimension(R - 1);
  return os.str();
}

// numerics / fastexp half of the driver (drv_simd_num.cpp)
bool numerics_op(const Words& w);
// logic half, one translation unit per family and element type
std::string asg_f(const Words& w);
std::string asg_d(const Words& w);
std::string red_f(const Words& w);
std::string red_d(const Words& w);
std::string nod_f(const Words& w);
std::string nod_d(const Words& w);

} // namespace simd
#endif
