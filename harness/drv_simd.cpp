// Correspondence driver for the SIMD loop-partition logic (model AdeptModel/Simd.lean, property C05).
// usage: drv_simd < ops        one output line per op, flushed (a case may fault: that is a result)
//
//   info                                          packet sizes and hook presence
//   pack  <T> <d0,d1,..>                           offsets of a fresh Array resized to these extents (rank 2, 3)
//   packc <T> <d0,d1,..>                           same with resize_contiguous
//   asg1 <T> <shape> <n> <t>,<ts> <k1>,<s1> <k2>,<s2> <k3>,<s3>
//         rank-1 statement  tgt = shape(a,b,c)  on sub-views  big(range/stride(k, .., s))  of over-allocated
//         arrays: t,k1,k2,k3 = first element (= alignment offset of the view), ts,s1.. = stride
//   asg2 <T> <shape> <m> <n> <tk>,<tP> <k1>,<P1> <k2>,<P2>
//         rank-2 statement on m x n views: P = 0: a fresh Array(m,n) (the library's own padding rule, k ignored);
//         P > 0: columns [k, k+n) of a resize_contiguous(m,P) array (row pitch P, no padding)
//   asg3 <T> <shape> <d0> <d1> <n> <kind_t> <kind_a>   rank-3: kind 0 fresh Array(d0,d1,n); 1 resize_contiguous;
//         2 = resize_contiguous(d1,d0,n).permute(1,0,2) (same extents, outer offsets swapped)
//   asgf <T> <shape> <N> <t> <kf> <k1>             rank-1, FixedArray<T,false,N> leaf placed at alignment offset kf
//         (N in {8,19,35,67}); shape 0: f+a  1: f  2: a+f
//   asgf2 <T> <m>x<n> <kf> <tP>                    rank-2 FixedArray<T,false,m,n> leaf (3x5, 3x8, 2x19, 2x32), tgt = f + 1
//   red1 <T> <func> <shape> <n> <k1>,<s1> <k2>,<s2>   whole-array reduction of a rank-1 expression
//   red2 <T> <func> <shape> <m> <n> <k1>,<P1> <k2>,<P2>
//   redf <T> <func> <N> <kf>      redf2 <T> <func> <m>x<n> <kf>     reductions of a FixedArray
//         func: sum product maxval minval mean norm2
//   nod1 / nod2 / nod3 / nodr                      statements over nodes that are not element-wise packet operations (spread,
//         outer_product, pow, comparisons, IndexedArray, transposes, where ...): see drv_simd_node.h
// output:  G <model input line> | H site= vec= is= ie= pk= | R ok    (or R bad .. / R guard .. / R exc / FAULT)
// Everything is evaluated on small integers (powers of two for products), so any correct evaluation order
// gives bit-identical results and "R ok" means: every element equals the plain scalar loop, nothing outside
// the target view was written.
#include "drv_simd.h"
using namespace adept;

namespace simd {
sigjmp_buf g_jb;
volatile sig_atomic_t g_armed = 0;
static void on_fault(int sig) {
  if (g_armed) { g_armed = 0; siglongjmp(g_jb, sig); }
  _exit(100 + sig);
}
void install_fault_handlers() {
  struct sigaction sa;
  std::memset(&sa, 0, sizeof sa);
  sa.sa_handler = on_fault;
  sa.sa_flags = SA_NODEFER;
  sigaction(SIGSEGV, &sa, 0);
  sigaction(SIGBUS, &sa, 0);
}
} // namespace simd
using namespace simd;

static std::string dispatch(const Words& w) {
  const std::string& op = w[0];
  bool f = w[1] == "f", d = w[1] == "d";
  if (!f && !d) return "bad-op";
#ifndef VERIF_SIMD_NUM_ONLY   // the scalar reference and the default-flags fastexp builds link the numerics half only
  if (op.compare(0, 3, "asg") == 0 || op == "pack" || op == "packc") return f ? asg_f(w) : asg_d(w);
  if (op.compare(0, 3, "red") == 0) return f ? red_f(w) : red_d(w);
  if (op.compare(0, 3, "nod") == 0) return f ? nod_f(w) : nod_d(w);
#endif
  return "bad-op";
}

int main() {
  install_fault_handlers();
  std::string line;
  while (std::getline(std::cin, line)) {
    Words w = verif::words(line);
    if (w.empty()) continue;
    std::string out;
    if (w[0] == "info") {
      std::ostringstream os;
      os << "info Wf=" << internal::Packet<float>::size << " Wd=" << internal::Packet<double>::size << " hook="
#ifdef VERIF_HAVE_H2
         << 1;
#else
         << 0;
#endif
      out = os.str();
    } else if (numerics_op(w)) {
      continue;   // the numerics half prints its own line
    } else if (w.size() >= 2) out = dispatch(w);
    else out = "bad-op";
    std::cout << out << std::endl;
  }
  return 0;
}
