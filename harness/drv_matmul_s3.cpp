// drv_matmul: row-major band matrices (see drv_matmul.h)
#include "drv_matmul.h"
namespace mm {
#define COMMA ,
#define S_CASE(TAG, ENG) if (h[2] == TAG) { if (act) build_S1<ENG, true>(s, v); else build_S1<ENG, false>(s, v); return true; }
bool build_group_band_r(const Spec& s, XVisitor& v) {
  const Words& h = s.head;
  if (h[0] != "S") return false;
  if (h.size() < 4 || (h[1] != "a" && h[1] != "p")) throw BadOp();
  bool act = h[1] == "a";
  S_CASE("b00", BandEngine<ROW_MAJOR COMMA 0 COMMA 0>) S_CASE("b11", BandEngine<ROW_MAJOR COMMA 1 COMMA 1>)
  S_CASE("b22", BandEngine<ROW_MAJOR COMMA 2 COMMA 2>) S_CASE("b20", BandEngine<ROW_MAJOR COMMA 2 COMMA 0>)
  S_CASE("b02", BandEngine<ROW_MAJOR COMMA 0 COMMA 2>) S_CASE("b12", BandEngine<ROW_MAJOR COMMA 1 COMMA 2>)
  return false;
}
}
