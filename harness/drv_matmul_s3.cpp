// drv_matmul: triangular special matrices (see drv_matmul.h)
#include "drv_matmul.h"
namespace mm {
bool build_group_s3(const Spec& s, XVisitor& v) {
  S_GROUP_HEAD
  S_PA("lo", LowerEngine<ROW_MAJOR>, 1, 1) S_PA("loc", LowerEngine<COL_MAJOR>, 0, 0)
  S_PA("up", UpperEngine<ROW_MAJOR>, 0, 0) S_PA("upc", UpperEngine<COL_MAJOR>, 0, 0)
  return false;
}
}
