// rank-6 part of the views driver (see drv_views.cpp): the view class; operator() is in drv_views_r6i.cpp / _r6e.cpp
#include "drv_views.h"
VIEWS_DEFINE_RANK(6)
