// FixedArray<int,false,..> objects of rank 4..6 (pairwise different extents) driven through their element accessors only
// (op `efparent`; see drv_views_el.h)
#include "drv_views_el.h"
VIEWS_DEFINE_RICH_ELEM(EFix4)
VIEWS_DEFINE_RICH_ELEM(EFix5)
VIEWS_DEFINE_RICH_ELEM(EFix6)
static bool same(const std::vector<int>& d, int n, const int* e) {
  if ((int)d.size() != n) return false;
  for (int k = 0; k < n; ++k) if (d[k] != e[k]) return false;
  return true;
}
VBase* make_efixed(const std::vector<int>& d) {
  static const int e4[] = {3, 2, 5, 4}, e5[] = {2, 3, 1, 4, 5}, e6[] = {3, 1, 4, 2, 6, 5};
  if (same(d, 4, e4)) return make_elem_only<EFix4>();
  if (same(d, 5, e5)) return make_elem_only<EFix5>();
  if (same(d, 6, e6)) return make_elem_only<EFix6>();
  return 0;
}
