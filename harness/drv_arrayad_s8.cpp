#define AAD_FN_PART 1
#include "drv_arrayad_fn.h"
