// whole-view operations on passive views of rank 4..6 (see drv_views_w.h)
#include "drv_views_w.h"
VIEWS_DEFINE_WHOLE(4)
VIEWS_DEFINE_WHOLE(5)
VIEWS_DEFINE_WHOLE(6)
