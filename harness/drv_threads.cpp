// drv_threads.cpp -- C12 / C14 workloads on the real library under ThreadSanitizer.
//
//   drv_threads c12     <T> <seed> <rounds>    T threads, each with its own adept::Stack, recording and
//                                              differentiating its own scalar + array programs
//   drv_threads c14ts   <T> <seed> <rounds>    (build with -DADEPT_STORAGE_THREAD_SAFE) threads copy-construct, link,
//                                              slice and destroy views of ONE shared array + private arrays
//   drv_threads c14soft <T> <seed> <rounds>    (default build) the same through soft links only
//
//   (c12: every worker also runs Stack constructors with an injected allocation fault, c14soft: soft links of every class)
//   drv_threads sched                          line protocol on stdin (same lines as `adept_model threads`): every operation is
//                                              handed to the named REAL thread, one at a time (deterministic schedule), and the
//                                              observable (active_stack() of that thread, n_links(), n_storage_objects()) is
//                                              printed; compared line by line with the Lean machine
//
// Output (stdout), canonical, one record per line:
//   solo <k> n=<count> h=<fnv64 of the result bits>      result of workload k run alone (main thread, before any thread exists)
//   par  <k> n=<count> h=<...> eq=<0|1>                  result of workload k in its own thread, all T threads concurrently;
//                                                        eq = bitwise equal to the solo run (compared word by word here, and
//                                                        again by hash in the python check)
//   act  ...                                             active_stack() observations (see below)
//   stor ...                                             storage counters / link counts
//   done
// A ThreadSanitizer report goes to stderr (parsed by checks/threadcommon.py).  No OpenMP anywhere.
#include "spy.h"
#include <thread>
#include <mutex>
#include <condition_variable>
#include <map>
#include <atomic>
#include <cstdint>
#include <cstdlib>
#include <cmath>
#ifdef _OPENMP
#include <omp.h>
#endif

using namespace adept;

// ---- allocation faults (C12): operator new[] is interposed; in the thread that armed it, the (t_fail_in+1)-th array
// allocation fails ONCE with std::bad_alloc (the three arrays StackStorageOrig::initialize allocates are the first three
// array allocations of a Stack constructor).  Thread-local: arming a fault in one thread never disturbs another.
static thread_local int t_fail_in = -1;
static thread_local long t_fired = 0;
// (linked with -Wl,--wrap=_Znam: the sanitizer runtimes define operator new[] themselves, so it cannot be replaced; every
// reference to operator new[](size_t) in the driver and in the library objects is routed here instead.)
extern "C" void* __real__Znam(std::size_t sz);
extern "C" void* __wrap__Znam(std::size_t sz) {
  if (t_fail_in >= 0 && t_fail_in-- == 0) { ++t_fired; throw std::bad_alloc(); }
  return __real__Znam(sz);
}

namespace verif {

struct Rng {
  uint64_t s;
  explicit Rng(uint64_t seed) : s(seed * 0x9E3779B97F4A7C15ull + 0x1234567ull) {}
  uint64_t next() {
    uint64_t z = (s += 0x9E3779B97F4A7C15ull);
    z = (z ^ (z >> 30)) * 0xBF58476D1CE4E5B9ull;
    z = (z ^ (z >> 27)) * 0x94D049BB133111EBull;
    return z ^ (z >> 31);
  }
  int below(int n) { return (int)(next() % (uint64_t)n); }
  double unit() { return (double)(next() >> 11) / 9007199254740992.0; }   // [0,1)
  double val() { return 0.25 + 1.5 * unit(); }                              // [0.25,1.75): log, sqrt, division are safe
};

struct Result {
  std::vector<uint64_t> bits;
  long wrong_active = 0;     // active_stack() != own stack while it should be the own stack
  long wrong_null = 0;       // active_stack() != 0 while this thread has no active stack
  long samples_active = 0, samples_null = 0;
  long max_alloc_ops = 0;                    // largest n_allocated_operations() seen (growth beyond ADEPT_INITIAL_STACK_LENGTH)
  long fault_samples = 0, fault_wrong = 0;   // after a Stack constructor that threw std::bad_alloc: active_stack() changed
  long links_changed = 0, links_samples = 0; // C14: n_links() of shared data changed by a soft link / something derived from it
  std::string exception;     // what() of an exception that escaped the workload
  void push(double d) { uint64_t u; std::memcpy(&u, &d, 8); bits.push_back(u); }
  void pushi(long v) { bits.push_back((uint64_t)v); }
  void pushs(const char* t) { for (; *t; ++t) bits.push_back((uint64_t)(unsigned char)*t); bits.push_back(0); }
  uint64_t hash() const {
    uint64_t h = 1469598103934665603ull;
    for (size_t i = 0; i < bits.size(); ++i) { h ^= bits[i]; h *= 1099511628211ull; }
    return h;
  }
};

// spin barrier on an atomic (TSan understands atomics; gives the threads a common start)
struct Barrier {
  std::atomic<int> waiting; int n;
  explicit Barrier(int n_) : waiting(0), n(n_) {}
  void arrive_and_wait() {
    waiting.fetch_add(1);
    while (waiting.load() < n) std::this_thread::yield();
  }
};

// ---------------------------------------------------------------------------------------------------------------
// C12 workload: everything it touches is private to the calling thread
// ---------------------------------------------------------------------------------------------------------------
static void check_active(Result& r, const Stack* mine) {
  r.samples_active++;
  if (active_stack() != mine) r.wrong_active++;
}
static void check_null(Result& r) {
  r.samples_null++;
  if (active_stack() != 0) r.wrong_null++;
}

// A Stack constructor whose `step`-th array allocation (0,1,2: multiplier_, index_, statement_ of
// StackStorageOrig::initialize) fails.  Whatever the step, the thread's active pointer must be what it was before: the
// object never existed, so it cannot be this thread's active stack.  `expect` = the stack active before (0 = none).
static void faulted_construction(Result& r, int step, bool activate, const Stack* expect) {
  bool threw = false;
  long fired0 = t_fired;
  t_fail_in = step;
  try { Stack doomed(activate); } catch (const std::bad_alloc&) { threw = true; } catch (const stack_already_active&) { }
  t_fail_in = -1;
  r.fault_samples++;
  r.pushi(threw ? 1 : 0); r.pushi(t_fired - fired0);
  if (active_stack() != expect) r.fault_wrong++;
}

static adouble scalar_program(Rng& g, std::vector<adouble>& x) {
  int n = (int)x.size();
  adouble y = 0.0;
  int len = 3 + g.below(6);
  for (int s = 0; s < len; ++s) {
    int i = g.below(n), j = g.below(n);
    switch (g.below(7)) {
    case 0: y += sin(x[i]) * x[j]; break;
    case 1: y += exp(x[i] * 0.125) / (1.0 + x[j] * x[j]); break;
    case 2: y = y * x[i] + log(x[j]); break;
    case 3: y -= sqrt(x[i]) * 2.5; break;
    case 4: { adouble t = x[i] * x[j] - y; y = t * t * 0.5; } break;
    case 5: y += pow(x[i], 3.0) + cos(x[j] + y); break;
    default: y = y / (x[i] + 2.0) + tanh(x[j]); break;
    }
  }
  return y;
}

// `given`: a stack CONSTRUCTED BY ANOTHER THREAD (the main thread, `Stack(false)`: not activated there) that this thread takes
// over: it activates it here, owns it for the whole workload and deactivates it at the end.  Which thread ran the constructor
// must not matter: the results are compared with the solo run like the others.
static void c12_workload(uint64_t seed, int k, int rounds, Result& r, Stack* given = 0) {
  Rng g(seed * 1000003ull + (uint64_t)k * 7919ull + 17ull);
  check_null(r);                         // before this thread owns a stack
  // allocation faults in Stack constructors of this thread BEFORE it owns a stack (every fault point, activating and not)
  for (int f = 0; f < 2; ++f) faulted_construction(r, g.below(3), g.below(4) != 0, 0);
  check_null(r);
  {
    struct Owner {
      Stack* p; bool mine;
      Owner(Stack* gv) : p(gv), mine(gv == 0) { if (mine) p = new Stack; else p->activate(); }   // `new Stack` activates it in THIS thread
      ~Owner() { if (mine) delete p; else p->deactivate(); }
    } owner(given);
    Stack& stack = *owner.p;
    check_active(r, &stack);
    // a per-stack setting: what one thread asks of ITS stack must not change what another thread's stack answers
    const int want_threads = (k % 2) ? 1 : 3;
    r.push((double)stack.set_max_jacobian_threads(want_threads));
    for (int round = 0; round < rounds; ++round) {
      int n = 2 + g.below(5);
      if (g.below(4) == 0) stack.set_max_jacobian_threads(want_threads);
      r.push((double)stack.max_jacobian_threads());
      // ---- scalars: reverse, forward, Jacobian both ways
      {
        std::vector<adouble> x(n);
        for (int i = 0; i < n; ++i) x[i] = g.val();
        stack.new_recording();
        adouble y = scalar_program(g, x);
        adouble z = scalar_program(g, x) + y * 0.5;
        r.push(value(y)); r.push(value(z));
        y.set_gradient(1.0);
        stack.compute_adjoint();
        for (int i = 0; i < n; ++i) r.push(x[i].get_gradient());
        stack.clear_gradients();
        int i0 = g.below(n);
        x[i0].set_gradient(1.0);
        stack.compute_tangent_linear();
        r.push(y.get_gradient()); r.push(z.get_gradient());
        stack.independent(&x[0], n);
        stack.dependent(y); stack.dependent(z);
        std::vector<Real> jf(2 * n), jr(2 * n);
        stack.jacobian_forward(&jf[0]);
        stack.jacobian_reverse(&jr[0]);
        for (int i = 0; i < 2 * n; ++i) { r.push(jf[i]); r.push(jr[i]); }
        r.pushi(stack.n_statements()); r.pushi(stack.n_operations()); r.pushi(stack.max_gradients());
        check_active(r, &stack);
      }
      // ---- arrays: allocation (Storage constructor/destructor), views of own data, array statements, Jacobian
      {
        int m = 2 + g.below(8);                   // up to 9 dependents: more than one block of ADEPT_MULTIPASS_SIZE in the Jacobians
        aVector X(n); aMatrix A(m, n);
        Vector xv(n); Matrix av(m, n);
        for (int i = 0; i < n; ++i) xv(i) = g.val();
        for (int i = 0; i < m; ++i) for (int j = 0; j < n; ++j) av(i, j) = g.val();
        X = xv; A = av;
        stack.new_recording();
        aVector Y(m);
        for (int i = 0; i < m; ++i) {
          aVector row = A(i, __);                 // view of own data: add_link/remove_link on own storage
          Y(i) = sum(row * X) + exp(X(i % n) * 0.25);
        }
        aVector Z = sin(Y) * Y + sum(X * X);      // temporary + new storage
        aVector Xs = X(range(0, n - 1));          // slice
        Z(0) += sum(sqrt(Xs));
        for (int i = 0; i < m; ++i) r.push(value(Z(i)));
        stack.independent(X); stack.dependent(Z);
        Matrix J = stack.jacobian();
        for (int i = 0; i < m; ++i) for (int j = 0; j < n; ++j) r.push(J(i, j));
        Matrix Jr(m, n);
        stack.jacobian_reverse(Jr);
        for (int i = 0; i < m; ++i) for (int j = 0; j < n; ++j) r.push(Jr(i, j));
        stack.clear_gradients();
        Vector seedv(m); for (int i = 0; i < m; ++i) seedv(i) = 1.0 + i;
        for (int i = 0; i < m; ++i) Z(i).set_gradient(seedv(i));
        stack.compute_adjoint();
        Vector gx = X.get_gradient();
        for (int j = 0; j < n; ++j) r.push(gx(j));
        // passive arrays of this thread
        Matrix P(m, n); P = av * 2.0 + 1.0;
        Vector q = P(__, g.below(n));
        Matrix C(P);                              // shallow copy of own data
        Matrix L; L >>= P;                        // link
        r.push(sum(q)); r.push(sum(C)); r.push(maxval(L));
        // explicit storage orders on private matrices: the layout of THIS thread's arrays must not depend on what other
        // threads are doing (the default order is library state that every array construction reads)
        {
          Matrix Rm, Cm;
          Rm.resize_row_major(dimensions(m, n)); Cm.resize_column_major(dimensions(m, n));
          Rm = av; Cm = av;
          Matrix D(m, n + 5); D = 1.5;           // default order, padded rows
          r.pushi(Rm.offset(1)); r.pushi(Cm.offset(0)); r.pushi(D.offset(1)); r.pushi(D.offset(0) >= n + 5 ? 1 : 0);
          r.push(sum(Rm - Cm)); r.push(sum(D));
        }
#ifdef HAVE_LAPACK
        // linear algebra of this thread's own matrices (general and symmetric solve / inverse): whatever workspace the
        // library keeps for LAPACK must be this call's own
        {
          int q = 2 + g.below(4);
          Matrix G(q, q); SymmMatrix S(q); Vector rhs(q);
          for (int i = 0; i < q; ++i) {
            rhs(i) = g.val();
            for (int j = 0; j < q; ++j) G(i, j) = (i == j ? 6.0 : 0.0) + g.val() * 0.3;
            for (int j = 0; j <= i; ++j) S(i, j) = (i == j ? 6.0 : 0.0) + g.val() * 0.3;
          }
          Matrix Gi = inv(G); Vector sol = solve(G, rhs);
          SymmMatrix Si = inv(S); Vector sol2 = solve(S, rhs);
          Matrix Si2 = Si;
          for (int i = 0; i < q; ++i) { r.push(sol(i)); r.push(sol2(i)); for (int j = 0; j < q; ++j) { r.push(Gi(i, j)); r.push(Si2(i, j)); } }
        }
#endif
        // misuse raised and caught inside this thread (three different sites): the exception, its class and its message with
        // the source location are this thread's own business — what() must read exactly as when the workload runs alone
        {
          Vector wrong(n + 1); wrong = 1.0;
          try { Vector t2 = xv + wrong; r.pushi(-1); }
          catch (const adept::exception& e) { r.pushs(e.what()); }
          try { Matrix t3; t3.resize(-1 - g.below(3), 2); r.pushi(-2); }
          catch (const adept::exception& e) { r.pushs(e.what()); }
          try {
            adouble u1 = 1.0, u2 = 2.0;
            u1.add_derivative_dependence(X(0), 1.0);
            u2.append_derivative_dependence(X(0), 1.0);      // u2 is not the variable of the last add_derivative_dependence
            r.pushi(-3);
          } catch (const adept::exception& e) { r.pushs(e.what()); }
        }
        r.pushi(stack.n_statements()); r.pushi(stack.n_operations()); r.pushi(stack.n_gradients_registered());
        // how far THIS stack's buffers have grown is a function of this thread's recordings only
        r.pushi((long)stack.n_allocated_operations()); r.pushi((long)stack.n_allocated_statements());
        if ((long)stack.n_allocated_operations() > r.max_alloc_ops) r.max_alloc_ops = (long)stack.n_allocated_operations();
        check_active(r, &stack);
      }
      if (g.below(3) == 0) {
        stack.deactivate();
        check_null(r);                    // no active stack in this thread now
        std::this_thread::yield();
        check_null(r);
        if (round < 24 || g.below(8) == 0) {
          faulted_construction(r, g.below(3), true, 0);      // a second stack of this thread fails to come into being
          check_null(r);
        }
        stack.activate();                 // ... which must not prevent the thread from using its own stack again
        check_active(r, &stack);
      }
    }
    check_active(r, &stack);
    // while this thread's stack is active: the doomed constructor may fail with bad_alloc (allocation comes first) and
    // must leave the owner's stack active
    faulted_construction(r, g.below(3), true, &stack);
    check_active(r, &stack);
  }
  check_null(r);                         // ~Stack cleared this thread's pointer
  faulted_construction(r, g.below(3), true, 0);
  {                                      // after a failed construction a new Stack can be created and works
    Stack again;
    check_active(r, &again);
    adouble x = 1.5; again.new_recording(); adouble y = x * x; y.set_gradient(1.0); again.compute_adjoint();
    r.push(x.get_gradient());
  }
  check_null(r);
}

static int run_c12(int T, uint64_t seed, int rounds) {
  std::vector<Result> solo(T), par(T);
  for (int k = 0; k < T; ++k) {
    try { c12_workload(seed, k, rounds, solo[k]); }
    catch (const std::exception& e) { std::printf("exc solo %d %s\n", k, e.what()); }
    std::printf("solo %d n=%zu h=%016llx\n", k, solo[k].bits.size(), (unsigned long long)solo[k].hash());
  }
  // the main thread and two extra threads own no stack: they sample active_stack() while the workers run
  Barrier bar(T + 2);
  std::atomic<int> finished(0);
  std::vector<long> idle_bad(2, 0), idle_samples(2, 0);
  long main_bad = 0, main_samples = 0;
  std::vector<std::thread> th;
  // every second worker takes over a stack the MAIN thread constructed without activating it (a pool of stacks built up front)
  std::vector<Stack*> pool(T, (Stack*)0);
  for (int k = 1; k < T; k += 2) pool[k] = new Stack(false);
  std::printf("pool main_made=%d main_ptr_null=%d\n", T / 2, active_stack() == 0 ? 1 : 0);
  for (int k = 0; k < T; ++k)
    th.emplace_back([&, k] {
      bar.arrive_and_wait();
      try { c12_workload(seed, k, rounds, par[k], pool[k]); }
      catch (const std::exception& e) { par[k].exception = e.what(); }
      finished.fetch_add(1);
    });
  for (int e = 0; e < 2; ++e)
    th.emplace_back([&, e] {
      bar.arrive_and_wait();
      do {
        idle_samples[e]++;
        if (active_stack() != 0) idle_bad[e]++;
        std::this_thread::yield();
      } while (finished.load() < T);
    });
  do {
    main_samples++;
    if (active_stack() != 0) main_bad++;
    std::this_thread::yield();
  } while (finished.load() < T);
  for (size_t i = 0; i < th.size(); ++i) th[i].join();
  for (int k = 0; k < T; ++k) delete pool[k];     // destroyed by main, deactivated by the worker: main's pointer must stay null
  if (active_stack() != 0) main_bad++;
  int bad = 0;
  for (int k = 0; k < T; ++k) {
    bool eq = (par[k].bits == solo[k].bits);
    if (!eq) bad++;
    std::printf("par %d n=%zu h=%016llx eq=%d\n", k, par[k].bits.size(), (unsigned long long)par[k].hash(), eq ? 1 : 0);
    if (!par[k].exception.empty()) std::printf("exc %d %s\n", k, par[k].exception.c_str());
  }
  long wa = 0, wn = 0, sa = 0, sn = 0, fs = 0, fw = 0, mo = 0;
  for (int k = 0; k < T; ++k) {
    wa += par[k].wrong_active + solo[k].wrong_active; wn += par[k].wrong_null + solo[k].wrong_null;
    sa += par[k].samples_active + solo[k].samples_active; sn += par[k].samples_null + solo[k].samples_null;
    fs += par[k].fault_samples + solo[k].fault_samples; fw += par[k].fault_wrong + solo[k].fault_wrong;
    if (par[k].max_alloc_ops > mo) mo = par[k].max_alloc_ops;
  }
  std::printf("flt fault_samples=%ld fault_active_changed=%ld initial_stack_length=%ld max_allocated_operations=%ld\n", fs, fw,
              (long)ADEPT_INITIAL_STACK_LENGTH, mo);
  std::printf("act owner_samples=%ld owner_wrong=%ld stackless_samples=%ld stackless_nonzero=%ld idle_threads_samples=%ld idle_threads_nonzero=%ld main_samples=%ld main_nonzero=%ld\n",
              sa, wa, sn, wn, idle_samples[0] + idle_samples[1], idle_bad[0] + idle_bad[1], main_samples, main_bad);
  std::printf("stor live=%ld\n", (long)n_storage_objects());
  return bad;
}

#ifdef _OPENMP
// The same workloads run by the members of ONE OpenMP team (g++ -fopenmp build, no ThreadSanitizer: libgomp is not
// instrumented): inside a user's parallel region every library call is made from a team member, so a work-sharing construct or
// a barrier inside the library would split one thread's own loop over the team or deadlock it.
static int run_c12omp(int T, uint64_t seed, int rounds) {
  std::vector<Result> solo(T), par(T);
  for (int k = 0; k < T; ++k) {
    try { c12_workload(seed, k, rounds, solo[k]); }
    catch (const std::exception& e) { std::printf("exc solo %d %s\n", k, e.what()); }
    std::printf("solo %d n=%zu h=%016llx\n", k, solo[k].bits.size(), (unsigned long long)solo[k].hash());
  }
  long created0 = (long)n_storage_objects_created(), deleted0 = (long)n_storage_objects_deleted();
  #pragma omp parallel num_threads(T)
  {
    int k = omp_get_thread_num();
    // team members make different numbers of library calls (different rounds), as in real applications
    if (k < T) {
      try { c12_workload(seed, k, rounds, par[k]); }
      catch (const std::exception& e) { par[k].exception = e.what(); }
    }
  }
  int bad = 0;
  for (int k = 0; k < T; ++k) {
    bool eq = (par[k].bits == solo[k].bits);
    if (!eq) bad++;
    std::printf("par %d n=%zu h=%016llx eq=%d\n", k, par[k].bits.size(), (unsigned long long)par[k].hash(), eq ? 1 : 0);
    if (!par[k].exception.empty()) std::printf("exc %d %s\n", k, par[k].exception.c_str());
  }
  long wa = 0, wn = 0, sa = 0, sn = 0, fs = 0, fw = 0, mo = 0;
  for (int k = 0; k < T; ++k) {
    wa += par[k].wrong_active + solo[k].wrong_active; wn += par[k].wrong_null + solo[k].wrong_null;
    sa += par[k].samples_active + solo[k].samples_active; sn += par[k].samples_null + solo[k].samples_null;
    fs += par[k].fault_samples + solo[k].fault_samples; fw += par[k].fault_wrong + solo[k].fault_wrong;
    if (par[k].max_alloc_ops > mo) mo = par[k].max_alloc_ops;
  }
  std::printf("flt fault_samples=%ld fault_active_changed=%ld initial_stack_length=%ld max_allocated_operations=%ld\n", fs, fw,
              (long)ADEPT_INITIAL_STACK_LENGTH, mo);
  std::printf("act owner_samples=%ld owner_wrong=%ld stackless_samples=%ld stackless_nonzero=%ld idle_threads_samples=0 idle_threads_nonzero=0 main_samples=0 main_nonzero=0\n",
              sa, wa, sn, wn);
  // the global bookkeeping counters are exact after the join: the parallel phase created and deleted exactly as many
  // Storage objects as the same workloads did when run alone
  std::printf("stor live=%ld created_par=%ld deleted_par=%ld created_solo=%ld\n", (long)n_storage_objects(),
              (long)n_storage_objects_created() - created0, (long)n_storage_objects_deleted() - deleted0, created0);
  return bad;
}
#endif

// ---------------------------------------------------------------------------------------------------------------
// C14 workloads: views of ONE shared storage + private arrays
// ---------------------------------------------------------------------------------------------------------------
// `own` is this thread's handle on the shared data (created by main before the threads start; in the soft build it is a
// soft link).  All further views are made from `own` (an Array object is not itself shared between threads, its Storage is).
// One object of every class that has a soft_link() member (Array of rank 1..3, every SpecialMatrix kind), created by
// the main thread and only READ by the workers: each worker takes its own soft links from the shared OBJECTS, through
// const and non-const receivers (two different member functions), and derives links, copies and views from them.
struct Zoo {
  Vector V; Matrix M; Array3D C;
  SquareMatrix Q; DiagMatrix D; TridiagMatrix Tr; PentadiagMatrix Pe; SymmMatrix Sy; LowerMatrix Lo; UpperMatrix Up;
  explicit Zoo(int n) : V(n), M(n, n), C(3, n, 4), Q(n), D(n), Tr(n), Pe(n), Sy(n), Lo(n), Up(n) {
    for (int i = 0; i < n; ++i) {
      V(i) = 1.0 + i * 0.5;
      D(i, i) = 3.0 + i;
      for (int j = 0; j < n; ++j) { M(i, j) = 1.0 + i * 0.25 + j * 0.125; Q(i, j) = 2.0 + i - j * 0.5; }
      for (int j = 0; j <= i; ++j) { Sy(i, j) = 1.0 + i + j * 0.125; Lo(i, j) = 4.0 + i * 0.5 - j; Up(j, i) = 5.0 - i * 0.25 + j; }
      for (int j = (i > 1 ? i - 1 : 0); j <= i + 1 && j < n; ++j) Tr(i, j) = 6.0 + i + j * 0.5;
      for (int j = (i > 2 ? i - 2 : 0); j <= i + 2 && j < n; ++j) Pe(i, j) = 7.0 + i * 0.5 + j;
      for (int a = 0; a < 3; ++a) for (int b = 0; b < 4; ++b) C(a, i, b) = a + i * 0.5 + b * 0.25;
    }
  }
  template <class A> static long nl(const A& a) { A& m = const_cast<A&>(a); return m.storage() ? (long)m.storage()->n_links() : -1; }
  long links() const { return nl(V) + nl(M) + nl(C) + nl(Q) + nl(D) + nl(Tr) + nl(Pe) + nl(Sy) + nl(Lo) + nl(Up); }
  static const int N = 10;
};

// single-threaded invariant, sampled everywhere: a soft link and everything derived from it never changes n_links() of the
// data it refers to, and owns no Storage itself
template <class A> static void expect_links(Result& r, const A& shared, long before) {
  r.links_samples++;
  if (Zoo::nl(shared) != before) r.links_changed++;
}
template <class A> static void expect_soft(Result& r, const A& a) {
  r.links_samples++;
  if (const_cast<A&>(a).storage() != 0) r.links_changed++;
}

template <class M>
static void soft_special(Rng& g, M& shared, Result& r) {
  long before = Zoo::nl(shared);
  int dim = shared.dimension(0);
  {
    const M& cshared = shared;
    const M sc = cshared.soft_link();            // const receiver:     const SpecialMatrix soft_link() const
    M sn = shared.soft_link();                   // non-const receiver: SpecialMatrix soft_link()
    expect_links(r, shared, before); expect_soft(r, sc); expect_soft(r, sn);
    M& base = g.below(2) ? const_cast<M&>(sc) : sn;
    M l; l >>= base;                             // link to a soft link
    M l2; l2 >>= const_cast<M&>(static_cast<const M&>(cshared.soft_link()));   // link to the temporary of the const overload
    M c(base);                                   // copy (shares)
    const M& cbase = base; M c2(cbase);          // copy through the const copy constructor
    Vector d = base.diag_vector();               // views of the soft link
    int i0 = 1 + g.below(2);
    M sub = base.submatrix_on_diagonal(i0, dim - 2);
    expect_links(r, shared, before);
    expect_soft(r, l); expect_soft(r, l2); expect_soft(r, c); expect_soft(r, c2); expect_soft(r, d); expect_soft(r, sub);
    r.push(sum(d)); r.push(l(0, 0)); r.push(l2(1, 1)); r.push(c(dim - 1, dim - 1)); r.push(c2(2, 2)); r.push(sub(0, 0));
    try { M bad = base.submatrix_on_diagonal(3, dim + 2); r.pushi(-1); }        // rejected view: takes nothing
    catch (const adept::exception&) { r.pushi(1); }
    expect_links(r, shared, before);
  }
  expect_links(r, shared, before);
}

template <int Rank>
static void soft_array(Rng& g, Array<Rank, Real, false>& shared, Result& r) {
  typedef Array<Rank, Real, false> A;
  long before = Zoo::nl(shared);
  {
    const A& cshared = shared;
    const A sc = cshared.soft_link();            // const receiver
    A sn = shared.soft_link();                   // non-const receiver
    expect_links(r, shared, before); expect_soft(r, sc); expect_soft(r, sn);
    A& base = g.below(2) ? const_cast<A&>(sc) : sn;
    A l; l >>= base;
    A l2; l2 >>= const_cast<A&>(static_cast<const A&>(cshared.soft_link()));
    A c(base);
    const A& cbase = base; A c2(cbase);
    expect_links(r, shared, before);
    expect_soft(r, l); expect_soft(r, l2); expect_soft(r, c); expect_soft(r, c2);
    r.push(sum(l)); r.push(sum(c2)); r.push(maxval(l2)); r.push(minval(c));
    expect_links(r, shared, before);
  }
  expect_links(r, shared, before);
}

// views of soft links that differ per rank (slices, empty and rejected views)
static void soft_views(Rng& g, Zoo& z, Result& r) {
  long before = z.links();
  int n = z.V.dimension(0);
  {
    Vector sv = z.V.soft_link(); const Matrix sm = static_cast<const Matrix&>(z.M).soft_link(); Array3D sc = z.C.soft_link();
    Matrix& m = const_cast<Matrix&>(sm);
    int i = g.below(n - 2);
    Vector a = sv(range(i, i + 2)); Vector e = sv(range(i + 1, i));           // slice, EMPTY slice
    Vector col = m(__, i); Vector row = m(i, range(1, n - 2)); Matrix blk = m(range(i, i + 1), range(0, 2));
    Matrix eb = m(range(i, i + 1), range(2, 1));                               // empty in the second position
    Matrix face = sc(g.below(3), __, __); Vector line = sc(1, i, __); Matrix mt = m.T(); Vector dg = m.diag_vector();
    expect_soft(r, a); expect_soft(r, e); expect_soft(r, col); expect_soft(r, row); expect_soft(r, blk); expect_soft(r, eb);
    expect_soft(r, face); expect_soft(r, line); expect_soft(r, mt); expect_soft(r, dg);
    r.push(sum(a)); r.pushi(e.empty() ? 1 : 0); r.pushi(eb.empty() ? 1 : 0); r.push(sum(col) + sum(row) + sum(blk));
    r.push(sum(face) + sum(line) + sum(mt(0, __)) + sum(dg));
    try { Vector neg = sv(range(i + 2, i)); r.pushi(-1); } catch (const adept::exception&) { r.pushi(1); }   // negative extent: rejected
    r.links_samples++; if (z.links() != before) r.links_changed++;
  }
  r.links_samples++; if (z.links() != before) r.links_changed++;
}

static void soft_zoo(Rng& g, Zoo& z, Result& r) {
  switch (g.below(Zoo::N + 1)) {
  case 0: soft_array<1>(g, z.V, r); break;
  case 1: soft_array<2>(g, z.M, r); break;
  case 2: soft_array<3>(g, z.C, r); break;
  case 3: soft_special(g, z.Q, r); break;
  case 4: soft_special(g, z.D, r); break;
  case 5: soft_special(g, z.Tr, r); break;
  case 6: soft_special(g, z.Pe, r); break;
  case 7: soft_special(g, z.Sy, r); break;
  case 8: soft_special(g, z.Lo, r); break;
  case 9: soft_special(g, z.Up, r); break;
  default: soft_views(g, z, r); break;
  }
}

template <bool Soft>
static void c14_workload(uint64_t seed, int k, int rounds, Matrix& own, SymmMatrix& owns, int T, Result& r, Zoo* zoo) {
  Rng g(seed * 2000003ull + (uint64_t)k * 104729ull + 5ull);
  int n = own.dimension(0);
  // rows [0,T) of the shared matrix: row k is WRITTEN by thread k only (through a view); rows [T,n) are read-only
  // while the threads run, every read below stays inside them (the array DATA is the user's business, the
  // reference count is the library's)
  int lo = T, hi = n - 1;
  for (int round = 0; round < rounds; ++round) {
    if (Soft && zoo && g.below(3) == 0) { soft_zoo(g, *zoo, r); continue; }
    switch (g.below(9)) {
    case 7: {                                                       // EMPTY views of the shared data (zero extent) and copies of them
      int i = lo + g.below(n - T - 1);
      Vector e = own(range(i + 1, i), g.below(n)); Vector e2(e); Vector e3;
      try { e3 >>= e; } catch (const adept::exception&) { r.pushi(-7); }
      Matrix eb = own(range(lo, hi), range(3, 2)); Matrix eb2 = eb(__, __);
      SymmMatrix es; es >>= owns;
      r.pushi((e.empty() ? 1 : 0) + (e2.empty() ? 2 : 0) + (e3.empty() ? 4 : 0) + (eb.empty() ? 8 : 0) + (eb2.empty() ? 16 : 0));
    } break;
    case 8: {                                                       // REJECTED views (negative extent / out of range): exception caught here
      int i = lo + g.below(n - T - 2);
      try { Vector neg = own(range(i + 2, i), 0); r.pushi(-1); } catch (const adept::exception&) { r.pushi(1); }
      try { Matrix neg2 = own(range(lo, hi), range(4, 1)); r.pushi(-2); } catch (const adept::exception&) { r.pushi(2); }
      try { SymmMatrix bad = owns.submatrix_on_diagonal(2, n + 3); r.pushi(-3); } catch (const adept::exception&) { r.pushi(3); }
      Vector okv = own(range(i, i + 1), 1); r.push(sum(okv));
    } break;
    case 0: { Matrix B(own); r.push(B(lo + g.below(n - T), g.below(n))); } break;                // copy-construct (shares)
    case 1: { Matrix L; L >>= own; Matrix L2; L2 >>= L; r.push(L2(lo + g.below(n - T), g.below(n))); } break;   // link, link of link
    case 2: { Vector c = own(range(lo, hi), g.below(n)); Vector c2 = c(range(0, 3)); r.push(sum(c) + sum(c2)); } break;   // slices
    case 3: { Vector d = owns.diag_vector(); r.push(sum(d)); SymmMatrix S2; S2 >>= owns; r.push(S2(0, 0)); } break;
    case 4: {                                                                                   // private arrays
      int m = 1 + g.below(6);
      Matrix P(m, m); P = g.val(); Vector v(m); v = 2.0;
      Vector w = P(0, __) * v; r.push(sum(w));
      Matrix P2(P); P2.clear();
    } break;
    case 5: {                                                                                   // write own row through a view
      Vector row = own(k, __);
      row = row + 1.0;
      r.push(sum(row));
    } break;
    default: {
      std::vector<Matrix> many(1 + g.below(4), own);     // several copies, destroyed in vector order
      Matrix sub = many[0](range(lo, lo + 3), range(n / 2, n - 1));
      r.push(sum(sub(0, __)));
    } break;
    }
    if (g.below(8) == 0) std::this_thread::yield();
  }
}


// "last link" stress (thread-safe build): per round one shared array with exactly T views, one per thread, the creator
// already gone; all threads destroy their view at the same moment, so T remove_link calls race for the last link.
// The storage must be freed exactly once per round (a second `delete this` is a double free: glibc abort / TSan report,
// a missed one shows as a live storage object).
struct RoundBarrier {
  std::atomic<int> count; std::atomic<int> gen; int n;
  explicit RoundBarrier(int n_) : count(0), gen(0), n(n_) {}
  void wait() {
    int g = gen.load();
    if (count.fetch_add(1) + 1 == n) { count.store(0); gen.fetch_add(1); }
    else while (gen.load() == g) std::this_thread::yield();
  }
};

static int drop_race(int T, int rounds, long base) {
  std::vector<Matrix> own(T);
  RoundBarrier bar(T + 1);
  std::atomic<int> excs(0);
  int bad = 0;
  std::vector<std::thread> th;
  for (int k = 0; k < T; ++k)
    th.emplace_back([&, k] {
      for (int r = 0; r < rounds; ++r) {
        bar.wait();                       // views handed out
        try { own[k].clear(); } catch (const std::exception&) { excs.fetch_add(1); }
        bar.wait();                       // all dropped
      }
    });
  long leaked = 0;
  for (int r = 0; r < rounds; ++r) {
    {
      Matrix A(3, 3); A = 1.0;
      for (int k = 0; k < T; ++k) own[k] >>= A;
    }                                     // creator leaves: exactly T links
    bar.wait();
    bar.wait();
    if (n_storage_objects() != base) leaked++;
  }
  for (size_t i = 0; i < th.size(); ++i) th[i].join();
  std::printf("stor drop_rounds=%d not_freed_exactly_once=%ld exceptions=%d\n", rounds, leaked, excs.load());
  if (leaked || excs.load()) bad++;
  return bad;
}

template <bool Soft>
static int run_c14(int T, uint64_t seed, int rounds) {
  int n = T + 8;
  int bad = 0;
  long base = n_storage_objects(), created0 = n_storage_objects_created(), deleted0 = n_storage_objects_deleted();
  std::vector<Result> solo(T), par(T);
  // phase 0 = every workload alone (sequentially, main thread); phase 1 = all threads at once.
  // In phase 1 the creator's own handle is dropped while the threads are running (variant chosen by the seed), so the
  // last referring object can disappear in any thread.
  for (int phase = 0; phase < 2; ++phase) {
    Matrix* A = new Matrix(n, n);
    SymmMatrix* S = new SymmMatrix(n);
    for (int i = 0; i < n; ++i) for (int j = 0; j < n; ++j) (*A)(i, j) = 1.0 + i * 0.5 + j * 0.25;
    for (int i = 0; i < n; ++i) for (int j = 0; j <= i; ++j) (*S)(i, j) = 2.0 + i + j * 0.125;
    std::vector<Matrix> own(T); std::vector<SymmMatrix> owns(T);
    for (int k = 0; k < T; ++k) {
      // soft links through a const reference too (the const overload is a separate function)
      if (Soft) {
        if (k % 2) { const Matrix sl = static_cast<const Matrix&>(*A).soft_link(); own[k] >>= const_cast<Matrix&>(sl); }
        else own[k] >>= A->soft_link();
        if (k % 2 == 0) { const SymmMatrix ss = static_cast<const SymmMatrix&>(*S).soft_link(); owns[k] >>= const_cast<SymmMatrix&>(ss); }
        else owns[k] >>= S->soft_link();
      }
      else      { own[k] >>= *A;            owns[k] >>= *S; }
    }
    long links_before = A->storage()->n_links();
    std::printf("stor phase=%d links_before=%ld expect=%d\n", phase, links_before, Soft ? 1 : T + 1);
    if (links_before != (Soft ? 1 : T + 1)) bad++;
    long slinks_before = S->storage()->n_links();
    std::printf("stor phase=%d symm_links_before=%ld expect=%d\n", phase, slinks_before, Soft ? 1 : T + 1);
    if (slinks_before != (Soft ? 1 : T + 1)) bad++;
    Zoo* zoo = Soft ? new Zoo(n) : 0;
    bool drop_early = !Soft && ((seed >> 1) & 1);
    if (phase == 0) {
      for (int k = 0; k < T; ++k) c14_workload<Soft>(seed, k, rounds, own[k], owns[k], T, solo[k], zoo);
      for (int k = 0; k < T; ++k) { own[k].clear(); owns[k].clear(); }
    } else {
      Barrier bar(T + 1);
      std::vector<std::thread> th;
      for (int k = 0; k < T; ++k)
        th.emplace_back([&, k] {
          bar.arrive_and_wait();
          try {
            c14_workload<Soft>(seed, k, rounds, own[k], owns[k], T, par[k], zoo);
            if (!Soft) { own[k].clear(); owns[k].clear(); }    // drop this thread's handle in the thread
          } catch (const std::exception& e) { par[k].exception = e.what(); }
        });
      bar.arrive_and_wait();
      if (drop_early) { delete A; A = 0; delete S; S = 0; }     // the creator leaves while views are alive
      for (size_t i = 0; i < th.size(); ++i) th[i].join();
      if (Soft) for (int k = 0; k < T; ++k) { own[k].clear(); owns[k].clear(); }
    }
    if (zoo) {
      std::printf("stor phase=%d zoo_links_after=%ld expect=%d\n", phase, zoo->links(), Zoo::N);
      if (zoo->links() != Zoo::N) bad++;
      delete zoo;
    }
    if (A) {
      long links_after = A->storage()->n_links();
      std::printf("stor phase=%d links_after=%ld expect=1\n", phase, links_after);
      if (links_after != 1) bad++;
      long slinks_after = S->storage()->n_links();
      std::printf("stor phase=%d symm_links_after=%ld expect=1\n", phase, slinks_after);
      if (slinks_after != 1) bad++;
      delete A; delete S;
    } else {
      std::printf("stor phase=%d creator_left_early=1\n", phase);
    }
    long live = n_storage_objects();
    std::printf("stor phase=%d live_after=%ld expect=%ld\n", phase, live, base);
    if (live != base) bad++;
  }
  for (int k = 0; k < T; ++k)
    std::printf("solo %d n=%zu h=%016llx\n", k, solo[k].bits.size(), (unsigned long long)solo[k].hash());
  for (int k = 0; k < T; ++k) {
    bool eq = (par[k].bits == solo[k].bits);
    if (!eq) bad++;
    std::printf("par %d n=%zu h=%016llx eq=%d\n", k, par[k].bits.size(), (unsigned long long)par[k].hash(), eq ? 1 : 0);
    if (!par[k].exception.empty()) std::printf("exc %d %s\n", k, par[k].exception.c_str());
  }
  if (Soft) {
    long ch = 0, sm = 0, chs = 0;
    for (int k = 0; k < T; ++k) { ch += par[k].links_changed; chs += solo[k].links_changed; sm += par[k].links_samples + solo[k].links_samples; }
    std::printf("stor soft_invariant_samples=%ld soft_links_changed_solo=%ld soft_links_changed_par=%ld\n", sm, chs, ch);
    if (ch || chs) bad++;
  }
  if (!Soft) bad += drop_race(T, rounds > 400 ? 400 : rounds, base);
  std::printf("stor created=%ld deleted=%ld\n", (long)n_storage_objects_created() - created0, (long)n_storage_objects_deleted() - deleted0);
  return bad;
}


// ---------------------------------------------------------------------------------------------------------------
// `sched` mode: deterministic schedules on real threads (protocol of lean/Driver/Threads.lean)
// ---------------------------------------------------------------------------------------------------------------
struct Worker {
  std::thread th; std::mutex m; std::condition_variable cv;
  bool has_cmd = false, done = false, quit = false;
  std::vector<std::string> cmd; std::string out;
  // touched by the worker thread only (and by main before start / after join)
  std::map<int, Stack*> stacks;
  std::vector<Vector*> priv;
  std::vector<Matrix*> views;
  Matrix soft;                 // soft link to the shared data (storage_ == 0)
  int nlk = 0;
};

struct Sched {
  std::vector<Worker*> w;
  std::map<const Stack*, int> number;     // Stack* -> stack number + 1 (accessed by one thread at a time: hand-off)
  bool shared = false;

  std::string ptr() {
    const Stack* p = active_stack();
    std::ostringstream os;
    if (p && !number.count(p)) os << "ptr=not-a-live-stack";      // the thread's pointer designates no Stack object of this run
    else os << "ptr=" << (p ? number[p] : 0);
    return os.str();
  }
  std::string stor() {
    long links = 0;
    for (size_t i = 0; i < w.size(); ++i) if (!w[i]->views.empty()) { links = w[i]->views.back()->storage()->n_links(); break; }
    std::ostringstream os; os << "links=" << links << " live=" << (long)n_storage_objects(); return os.str();
  }
  // executed IN worker `me`
  std::string exec(Worker* me, const std::vector<std::string>& c) {
    const std::string& op = c[1];
    int a = c.size() > 2 ? std::atoi(c[2].c_str()) : 0;
    if (op == "ns") {
      std::string st = "ok ";
      if (me->stacks.count(a)) return "bad-op";
      try { Stack* p = new Stack; me->stacks[a] = p; number[p] = a + 1; } catch (const stack_already_active&) { st = "err "; }
      return st + ptr();
    }
    if (op == "nsf") {                    // Stack constructor whose f-th array allocation fails (f = 0,1,2)
      if (c.size() != 4 || me->stacks.count(a)) return "bad-op";
      std::string st = "ok ";
      t_fail_in = std::atoi(c[3].c_str());
      try { Stack* p = new Stack; me->stacks[a] = p; number[p] = a + 1; }
      catch (const std::bad_alloc&) { st = "fail "; } catch (const stack_already_active&) { st = "fail "; }
      t_fail_in = -1;
      return st + ptr();
    }
    if (op == "act" || op == "deact" || op == "del") {
      if (!me->stacks.count(a)) return "bad-op";
      Stack* p = me->stacks[a];
      std::string st = "ok ";
      if (op == "act") { try { p->activate(); } catch (const stack_already_active&) { st = "err "; } }
      else if (op == "deact") p->deactivate();
      else { number.erase(p); delete p; me->stacks.erase(a); }
      return st + ptr();
    }
    if (op == "ra") return ptr();
    if (op == "nr") { if (active_stack()) active_stack()->new_recording(); return ptr(); }
    if (op == "rec") {
      if (!active_stack()) return "bad-op";
      adouble x = (double)a; adouble y = x * 2.0 + 1.0; (void)y;
      return ptr();
    }
    if (op == "na") { me->priv.push_back(new Vector(3)); *me->priv.back() = 1.0; return stor(); }
    if (op == "da") { if (!me->priv.empty()) { delete me->priv.back(); me->priv.pop_back(); } return stor(); }
    if (op == "vo") { if (!me->priv.empty()) { Vector v = (*me->priv.back())(range(0, 1)); Vector u; u >>= v; } return stor(); }
    if (op == "lk") {
      if (me->views.empty()) return "bad-op";
      Matrix& src = *me->views.back();
      Matrix* v;
      switch (me->nlk++ % 3) {
      case 0: v = new Matrix(src); break;                                   // copy-construct
      case 1: v = new Matrix; (*v) >>= src; break;                          // link
      default: v = new Matrix(src(range(0, 1), __)); break;                 // slice
      }
      me->views.push_back(v);
      return stor();
    }
    if (op == "ul") {
      if (me->views.empty()) return "bad-op";
      delete me->views.back(); me->views.pop_back();
      return stor();
    }
    if (op == "sv") {
      if (shared) { Matrix s2; s2 >>= me->soft; Vector col = s2(__, 0); Matrix s3(s2); }
      return stor();
    }
    return "bad-op";
  }
  static void loop(Sched* S, Worker* me) {
    std::unique_lock<std::mutex> lk(me->m);
    for (;;) {
      me->cv.wait(lk, [me] { return me->has_cmd || me->quit; });
      if (me->quit) break;
      try { me->out = S->exec(me, me->cmd); } catch (const std::exception& e) { me->out = std::string("exception ") + e.what(); }
      me->has_cmd = false; me->done = true;
      me->cv.notify_all();
    }
    // the thread frees what it owns
    for (size_t i = 0; i < me->priv.size(); ++i) delete me->priv[i];
    for (size_t i = 0; i < me->views.size(); ++i) delete me->views[i];
    me->soft.clear();
    for (std::map<int, Stack*>::iterator it = me->stacks.begin(); it != me->stacks.end(); ++it) delete it->second;
  }
  void teardown() {
    for (size_t i = 0; i < w.size(); ++i) {
      { std::lock_guard<std::mutex> g(w[i]->m); w[i]->quit = true; }
      w[i]->cv.notify_all();
      w[i]->th.join();
      delete w[i];
    }
    w.clear(); number.clear(); shared = false;
  }
  std::string reset(const std::vector<std::string>& c) {
    teardown();
    int T = std::atoi(c[1].c_str());
    if (T < 1 || T > 16 || (int)c.size() != T + 2) return "bad-op";
    long total = 0;
    std::vector<int> h0(T);
    for (int t = 0; t < T; ++t) { h0[t] = std::atoi(c[2 + t].c_str()); if (h0[t] < 0) return "bad-op"; total += h0[t]; }
    Matrix* A = 0;
    if (total > 0) { A = new Matrix(4, 4); *A = 2.0; shared = true; }
    for (int t = 0; t < T; ++t) {
      Worker* x = new Worker;
      for (int i = 0; i < h0[t]; ++i) x->views.push_back(new Matrix(*A));
      if (A) x->soft >>= A->soft_link();
      w.push_back(x);
    }
    if (A) delete A;                                 // the creator leaves: exactly `total` links
    for (int t = 0; t < T; ++t) w[t]->th = std::thread(loop, this, w[t]);
    std::ostringstream os; os << "reset links=" << total << " live=" << (long)n_storage_objects();
    return os.str();
  }
  std::string dispatch(const std::vector<std::string>& c) {
    if (c[0] == "reset") return reset(c);
    if (c.size() < 2) return "bad-op";
    char* e = 0; long t = std::strtol(c[0].c_str(), &e, 10);
    if (*e || t < 0 || t >= (long)w.size()) return "bad-op";
    Worker* x = w[t];
    std::unique_lock<std::mutex> lk(x->m);
    x->cmd = c; x->has_cmd = true; x->done = false;
    x->cv.notify_all();
    x->cv.wait(lk, [x] { return x->done; });
    return x->out;
  }
};

static int run_sched() {
  Sched S;
  std::string line;
  while (std::getline(std::cin, line)) {
    std::vector<std::string> c = words(line);
    if (c.empty()) continue;
    if (c[0] == "cfg") { std::printf("cfg\n"); continue; }       // the model's configuration line: nothing to do here
    std::printf("%s\n", S.dispatch(c).c_str());
  }
  S.teardown();
  std::printf("end live=%ld\n", (long)n_storage_objects());
  return 0;
}

} // namespace verif

int main(int argc, char** argv) {
  if (argc >= 2 && std::string(argv[1]) == "sched") return verif::run_sched();
  if (argc < 5) { std::printf("bad-op\n"); return 2; }
  std::string mode = argv[1];
  int T = std::atoi(argv[2]);
  uint64_t seed = std::strtoull(argv[3], 0, 10);
  int rounds = std::atoi(argv[4]);
  if (T < 1 || T > 64 || rounds < 1) { std::printf("bad-op\n"); return 2; }
  int bad = 0;
  try {
    if (mode == "c12") bad = verif::run_c12(T, seed, rounds);
#ifdef _OPENMP
    else if (mode == "c12omp") bad = verif::run_c12omp(T, seed, rounds);
#endif
#ifdef ADEPT_STORAGE_THREAD_SAFE
    else if (mode == "c14ts") bad = verif::run_c14<false>(T, seed, rounds);
#else
    else if (mode == "c14soft") bad = verif::run_c14<true>(T, seed, rounds);
    else if (mode == "c14ts") {
      // asked for the counted-link workload in a build in which the headers did not leave ADEPT_STORAGE_THREAD_SAFE in effect
      // (only reachable when some other configuration switch cancels it): run it all the same, the race is the finding
      std::printf("note ADEPT_STORAGE_THREAD_SAFE is not in effect in this build\n");
      bad = verif::run_c14<false>(T, seed, rounds);
    }
#endif
    else { std::printf("bad-op\n"); return 2; }
  } catch (const std::exception& e) {
    std::printf("exception %s\n", e.what());
    return 3;
  }
  std::printf("done bad=%d\n", bad);
  return 0;
}
