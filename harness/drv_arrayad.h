// Shared declarations of the array-AD correspondence driver (family `arrayad`, properties C03 and C09).
// The statement menu is split over drv_arrayad_s1..s10.cpp so that the translation units compile in parallel.
#ifndef VERIF_DRV_ARRAYAD_H
#define VERIF_DRV_ARRAYAD_H
#include "spy.h"
#include <map>
#include <cmath>
#include <set>

namespace aad {
using namespace adept;

typedef FixedArray<double, true, 4> FA4;       // active fixed vector
typedef FixedArray<double, true, 2, 3> FA23;   // active fixed matrix
typedef FixedArray<double, true, 2, 3, 4> FA234;     // active fixed rank-3 array (advance_index wraps an inner dimension)
typedef FixedArray<double, true, 2, 2, 3, 2> FA2232; // active fixed rank-4 array

// kind of pool object
enum Kind { K_ARR = 0, K_FA4 = 1, K_FA23 = 2, K_SCAL = 3, K_IVEC = 4, K_FA234 = 5, K_FA2232 = 6 };

struct Obj {
  int kind; int rank; bool active;
  void* p;
  long root;            // handle of the object that owns the memory this one looks at
  double* base; long n; // roots only: first cell of the allocation and its size in elements
  long gbase;           // roots only: gradient index of cell 0 (-1 if passive)
};

extern verif::SpyStack* st;
extern std::map<long, Obj> pool;

template <int R, bool A> struct ArrT { typedef Array<R, double, A> type; };
template <int R, bool A> inline typename ArrT<R, A>::type& as(Obj& o) { return *static_cast<typename ArrT<R, A>::type*>(o.p); }
inline adouble& asS(Obj& o) { return *static_cast<adouble*>(o.p); }
inline intVector& asI(Obj& o) { return *static_cast<intVector*>(o.p); }
inline FA4& asF4(Obj& o) { return *static_cast<FA4*>(o.p); }
inline FA23& asF23(Obj& o) { return *static_cast<FA23*>(o.p); }
inline FA234& asF234(Obj& o) { return *static_cast<FA234*>(o.p); }
inline FA2232& asF2232(Obj& o) { return *static_cast<FA2232*>(o.p); }

std::string num(double x);
Obj* get(const std::string& w);                 // handle word -> object or 0
Obj* getk(const std::string& w, int kind);      // ... of the given kind
Obj* geta(const std::string& w, int rank);      // ... an Array of the given rank
Obj* getat(const std::string& w, int rank);     // ... an ACTIVE Array of the given rank

// call f(x) with x the typed array of rank R behind o (active or passive)
template <int R, class F> inline bool with(Obj* o, F&& f) {
  if (!o || o->kind != K_ARR || o->rank != R) return false;
  if (o->active) return f(as<R, true>(*o)); else return f(as<R, false>(*o));
}

// statement context: `pre` prints the geometry / memory of target and operands before the statement runs
struct Ctx {
  std::vector<long> objs;       // target first
  std::string before;           // accumulated text
  bool pre_done;
  long newh;                    // handle created by the statement (rdim), or -1
  Ctx() : pre_done(false), newh(-1) {}
  void pre(const std::vector<Obj*>& os);
};

long handle_of(Obj* o);
// register an array created by a statement as a new root
template <int R, bool A> void add_root(long h, Array<R, double, A>* a);

typedef std::vector<std::string> Words;
// each returns 1 = executed, 0 = not my kind, -1 = malformed
int exec_s1(const Words& w, Ctx& c);
int exec_s2(const Words& w, Ctx& c);
int exec_s3(const Words& w, Ctx& c);
int exec_s4(const Words& w, Ctx& c);
int exec_s5(const Words& w, Ctx& c);
int exec_s6(const Words& w, Ctx& c);
int exec_s7(const Words& w, Ctx& c);
int exec_s8(const Words& w, Ctx& c);
int exec_s9(const Words& w, Ctx& c);
int exec_s10(const Words& w, Ctx& c);

template <int R, bool A> void add_root(long h, Array<R, double, A>* a) {
  Obj o; o.kind = K_ARR; o.rank = R; o.active = A; o.p = a; o.root = h;
  o.base = a->data(); o.n = a->storage() ? a->storage()->n_allocated() : 0; o.gbase = A ? (long)a->gradient_index() : -1;
  pool[h] = o;
}

} // namespace aad
#endif
