#define VR 3
#define VT double
#include "drv_assign_impl.h"
