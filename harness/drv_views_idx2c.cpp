// integer-vector indexing of rank-2 views: the patterns whose first letter is in the mask 0x000000c0 (see drv_views_idx.h)
#define IX_FIRST_MASK 0x000000c0
#include "drv_views_idx.h"
std::string ix_op2_c(Array<2,int>& a, const std::vector<ISel>& t) { return ix_go<2>(a, t); }
