#define AAD_FN_PART 0
#include "drv_arrayad_fn.h"
