// Numerics half of the C05 driver (exploration, not proof): the same statements evaluated on generated
// finite values; results are printed as bit patterns and compared by checks/c05.py between an ISA build and
// the scalar build (packet size 1) of the same sources.
//
//   num  <T> <shape> <n> <t> <k1> <k2> <k3> <cls> <seed>    tgt = shape(a,b,c) on rank-1 views at these alignment
//          offsets; prints  H <hook> | V <hex of every result element>
//   rnum <T> <func> <n> <k> <cls> <seed>                    whole-array reduction; prints H | V <hex result>
//          A <hex double: sum |x_i|>  (long double accumulation) N <n>
//   fexp <T> <n> <k> <cls> <seed>    (structured classes 0..2: seed = page number)  y = fastexp(x) through the array (packet) path and element by element through
//          the scalar adept::fastexp; prints H | X <inputs> | S <scalar results> | P <array results> |
//          E <error of the array result against expl() in 1/1000 ulp, -1 where the reference is not a normal number>
//   fexpd <n> <cls> <seed>           active:  y = fastexp(x) on an aVector and on adoubles; prints the values and
//          the multipliers recorded on the tape:  V <values> | M <multipliers> | SV <scalar values> | SM <scalar multipliers>
// value classes (bit patterns built with integer arithmetic only, so every build sees identical inputs):
//   0 grid of special finite values (zeros, subnormals, extremes, near-1, near-overflow under the operation)
//   1 random finite bit patterns     2 random sign/mantissa with exponent in [-20,20]
//   3 like 2, and c = -(a*b) rounded (an un-fused a*b+c gives exactly 0 or a rounding residue; a fused one differs)
//   4 subnormal / tiny magnitudes    5 large magnitudes near overflow
// fastexp classes: 0 every binade  1 neighbourhoods of k*ln2/2  2 range ends  3 uniform random  4 tiny |x|
#include "drv_simd.h"
using namespace adept;
using namespace simd;

static uint64_t splitmix(uint64_t& s) {
  uint64_t z = (s += 0x9E3779B97F4A7C15ULL);
  z = (z ^ (z >> 30)) * 0xBF58476D1CE4E5B9ULL;
  z = (z ^ (z >> 27)) * 0x94D049BB133111EBULL;
  return z ^ (z >> 31);
}

template <typename T> struct fmt;
template <> struct fmt<double> {
  static const int mant = 52, ebits = 11, bias = 1023;
  static uint64_t make(uint64_t sign, uint64_t e, uint64_t m) { return (sign << 63) | (e << 52) | (m & ((1ULL << 52) - 1)); }
};
template <> struct fmt<float> {
  static const int mant = 23, ebits = 8, bias = 127;
  static uint64_t make(uint64_t sign, uint64_t e, uint64_t m) { return (sign << 31) | (e << 23) | (m & ((1ULL << 23) - 1)); }
};

template <typename T> static T mk(uint64_t sign, long e_unbiased, uint64_t m) {
  typedef fmt<T> F;
  long e = e_unbiased + F::bias;
  if (e < 0) e = 0;
  if (e > (1 << F::ebits) - 2) e = (1 << F::ebits) - 2;
  T x; from_bits(F::make(sign, (uint64_t)e, m), x); return x;
}
template <typename T> static std::vector<T> special_grid() {
  typedef fmt<T> F;
  std::vector<T> v;
  const uint64_t full = (1ULL << F::mant) - 1;
  const long emax = F::bias, emin = 1 - F::bias;
  for (uint64_t s = 0; s < 2; ++s) {
    T x;
    from_bits(F::make(s, 0, 0), x); v.push_back(x);            // +-0
    from_bits(F::make(s, 0, 1), x); v.push_back(x);            // smallest subnormal
    from_bits(F::make(s, 0, full), x); v.push_back(x);         // largest subnormal
    from_bits(F::make(s, 0, 1ULL << (F::mant - 1)), x); v.push_back(x);
    v.push_back(mk<T>(s, emin, 0)); v.push_back(mk<T>(s, emin, 1));        // smallest normals
    v.push_back(mk<T>(s, emax, full)); v.push_back(mk<T>(s, emax, 0));     // largest finite, 2^emax
    v.push_back(mk<T>(s, emax / 2, 0)); v.push_back(mk<T>(s, emax / 2, full)); v.push_back(mk<T>(s, emin / 2, 0));
    v.push_back(mk<T>(s, 0, 0)); v.push_back(mk<T>(s, 0, 1)); v.push_back(mk<T>(s, -1, full));  // 1, 1+eps, 1-eps/2
    v.push_back(mk<T>(s, 1, 0)); v.push_back(mk<T>(s, -1, 0)); v.push_back(mk<T>(s, 1, 1ULL << (F::mant - 1)));  // 2, .5, 3
    v.push_back(mk<T>(s, -2, 0x5555555555555555ULL & full));   // ~1/3
    v.push_back(mk<T>(s, 1, 0x921FB54442D18ULL >> (52 - F::mant)));  // ~pi
    v.push_back(mk<T>(s, 30, 12345)); v.push_back(mk<T>(s, -30, 54321));
    v.push_back(mk<T>(s, F::mant, 0)); v.push_back(mk<T>(s, F::mant + 1, 1));   // integers at the end of the exact range
  }
  return v;
}

template <typename T> static T gen(int cls, uint64_t& s, long i, int which, const std::vector<T>& grid) {
  typedef fmt<T> F;
  const long m = (long)grid.size();
  switch (cls) {
  case 0: return which == 0 ? grid[i % m] : which == 1 ? grid[(i / m) % m] : grid[(i * 7 + 3 + i / (m * m)) % m];
  case 1: {
    uint64_t r = splitmix(s);
    uint64_t e = (r >> 52) & ((1ULL << F::ebits) - 1);
    if (e == (1ULL << F::ebits) - 1) e -= 1 + (r & 7);
    T x; from_bits(F::make(r >> 63, e, r), x); return x;
  }
  case 2: case 3: { uint64_t r = splitmix(s); return mk<T>(r >> 63, (long)((r >> 52) % 41) - 20, r); }
  case 4: {
    uint64_t r = splitmix(s); T x;
    if (r & (1ULL << 60)) from_bits(F::make(r >> 63, 0, r), x); else x = mk<T>(r >> 63, 1 - F::bias + (long)((r >> 52) % 4), r);
    return x;
  }
  default: { uint64_t r = splitmix(s); return mk<T>(r >> 63, F::bias - (long)((r >> 52) % 4), r); }
  }
}

template <typename T> static void emit_hex(std::ostream& os, const T* p, long n) {
  for (long i = 0; i < n; ++i) { os << (i ? "," : "") << hex(p[i]); }
  if (n == 0) os << "-";
}

static const long LN = 8192 + 64;
template <typename T> struct NBufs {
  Array<1, T> bt, ba, bb, bc;
  NBufs() : bt(LN), ba(LN), bb(LN), bc(LN) {}
  static NBufs& get() { static NBufs* b = new NBufs(); return *b; }
};

template <class A, class B, class C, typename T>
static void num_assign(int shape, Array<1, T>& tg, const A& a, const B& b, const C& c) {
  switch (shape) {
  case 0: tg = a + b; break;
  case 1: tg = a - b; break;
  case 2: tg = a * b; break;
  case 3: tg = a / b; break;
  case 4: tg = sqrt(a); break;
  case 5: tg = min(a, b); break;
  case 6: tg = max(a, b); break;
  case 7: tg = a * b + c; break;
  case 8: tg = -a; break;
  case 9: tg = sqrt(a * a + b * b) / (c * c + T(1)); break;
  case 10: tg = max(a, T(0.5)) - min(b, c) * T(3); break;
  case 11: tg = c - a * b; break;
  }
}

template <typename T> static bool num(const Words& w) {
  if (w.size() != 10) return false;
  int shape = atoi(w[2].c_str()); long n = atol(w[3].c_str()), t = atol(w[4].c_str()), k1 = atol(w[5].c_str()),
      k2 = atol(w[6].c_str()), k3 = atol(w[7].c_str()); int cls = atoi(w[8].c_str());
  uint64_t seed = strtoull(w[9].c_str(), 0, 10);
  if (shape < 0 || shape > 11 || n < 0 || n > 8192 || t < 0 || t >= 64 || k1 < 0 || k1 >= 64 || k2 < 0 || k2 >= 64 || k3 < 0 || k3 >= 64
      || cls < 0 || cls > 5) return false;
  static const std::vector<T> grid = special_grid<T>();
  NBufs<T>& B = NBufs<T>::get();
  Array<1, T> tg, a, b, c;
  if (n > 0) { tg >>= B.bt(range(t, t + n - 1)); a >>= B.ba(range(k1, k1 + n - 1)); b >>= B.bb(range(k2, k2 + n - 1)); c >>= B.bc(range(k3, k3 + n - 1)); }
  uint64_t s = seed * 0x2545F4914F6CDD1DULL + 77;
  for (long i = 0; i < n; ++i) {
    a(i) = gen<T>(cls, s, i, 0, grid); b(i) = gen<T>(cls, s, i, 1, grid); c(i) = gen<T>(cls, s, i, 2, grid);
    if (cls == 3) { volatile T p = T(a(i)) * T(b(i)); c(i) = -p; }
    tg(i) = T(0);
  }
  std::string status;
  hook_reset();
  int sig = sigsetjmp(g_jb, 1);
  if (sig == 0) { g_armed = 1; try { num_assign(shape, tg, a, b, c); } catch (const std::exception&) { status = "R exc"; } g_armed = 0; }
  else { std::ostringstream os; os << "FAULT sig=" << sig; status = os.str(); }
  std::cout << "H " << hook_line() << " | ";
  if (!status.empty()) std::cout << status;
  else { std::cout << "V "; emit_hex(std::cout, n > 0 ? tg.const_data() : (const T*)0, n); }
  std::cout << std::endl;
  return true;
}

template <typename T> static bool rnum(const Words& w) {
  if (w.size() != 7) return false;
  int func = -1; const char* names[6] = {"sum", "product", "maxval", "minval", "mean", "norm2"};
  for (int i = 0; i < 6; ++i) if (w[2] == names[i]) func = i;
  long n = atol(w[3].c_str()), k = atol(w[4].c_str()); int cls = atoi(w[5].c_str());
  uint64_t seed = strtoull(w[6].c_str(), 0, 10);
  if (func < 0 || n < 1 || n > 8192 || k < 0 || k >= 64 || cls < 0 || cls > 5) return false;
  static const std::vector<T> grid = special_grid<T>();
  NBufs<T>& B = NBufs<T>::get();
  Array<1, T> a; a >>= B.ba(range(k, k + n - 1));
  uint64_t s = seed * 0x2545F4914F6CDD1DULL + 99;
  long double sumabs = 0, sumsq = 0;
  for (long i = 0; i < n; ++i) {
    T x = gen<T>(cls, s, i, 0, grid);
    if (func == 1 && cls == 2) x = mk<T>(bits_of(x) >> (sizeof(T) * 8 - 1), (long)(splitmix(s) % 2) - 1, bits_of(x));  // keep products in range
    a(i) = x; sumabs += fabsl((long double)x); sumsq += (long double)x * (long double)x;
  }
  T got = T(0); std::string status;
  hook_reset();
  int sig = sigsetjmp(g_jb, 1);
  if (sig == 0) {
    g_armed = 1;
    try {
      switch (func) {
      case 0: got = sum(a); break; case 1: got = product(a); break; case 2: got = maxval(a); break;
      case 3: got = minval(a); break; case 4: got = mean(a); break; default: got = norm2(a); break;
      }
    } catch (const std::exception&) { status = "R exc"; }
    g_armed = 0;
  } else { std::ostringstream os; os << "FAULT sig=" << sig; status = os.str(); }
  std::cout << "H " << hook_line() << " | ";
  if (!status.empty()) std::cout << status;
  else std::cout << "V " << hex(got) << " A " << hex((double)sumabs) << " Q " << hex((double)sumsq) << " N " << n;
  std::cout << std::endl;
  return true;
}

// ---- fastexp
template <typename T> struct exprange;   // |x| <= lim: result is a normal number well inside the range of T
template <> struct exprange<double> { static double lim() { return 700.0; } static double hard() { return 712.0; } };
template <> struct exprange<float> { static double lim() { return 86.0; } static double hard() { return 90.0; } };

template <typename T> static T fexp_input(int cls, uint64_t& s, long i) {
  typedef fmt<T> F;
  const double lim = exprange<T>::lim(), hard = exprange<T>::hard();
  switch (cls) {
  case 0: {   // every binade, 8 points each, both signs
    long per = 16, e = -(long)(F::bias - 2) + i / per; long j = i % per;
    if (e > 9) e = 9;
    T x = mk<T>(j >= 8, e, (uint64_t)(j & 7) << (F::mant - 3));
    if (std::fabs((double)x) > hard) x = (T)(x < 0 ? -hard : hard);
    return x;
  }
  case 1: {   // k*ln2/2 and its neighbours: the breakpoints of r = round(x*log2(e)), where |x - r ln2| is largest
    long kmax = (long)(hard / 0.34657359027997264); long k = (i / 7) % (2 * kmax + 1) - kmax; long d = i % 7 - 3;
    T x = (T)((long double)k * 0.346573590279972654708616060729088284L);
    for (long q = 0; q < (d < 0 ? -d : d); ++q) x = d < 0 ? std::nextafter(x, -std::numeric_limits<T>::infinity()) : std::nextafter(x, std::numeric_limits<T>::infinity());
    return x;
  }
  case 2: {   // range ends: around +-lim, around the cut-offs coded in quick_e.h, around the hard ends
    static const double pts_d[8] = {700.0, -700.0, 709.70, -708.39, 709.78271289338397, -708.39641853226408, -745.13321910194122, 88.0};
    static const double pts_f[8] = {86.0, -86.0, 89.0, -87.3, 88.72283905206835, -87.33654475055310, -103.27892990343184, 80.0};
    const double* pts = sizeof(T) == 8 ? pts_d : pts_f;
    T x = (T)pts[(i / 33) % 8]; long d = i % 33 - 16;
    for (long q = 0; q < (d < 0 ? -d : d); ++q) x = d < 0 ? std::nextafter(x, -std::numeric_limits<T>::infinity()) : std::nextafter(x, std::numeric_limits<T>::infinity());
    return x;
  }
  case 3: {   // uniform in [-lim, lim], built from integer bits
    uint64_t r = splitmix(s); double u = (double)(r >> 11) * (1.0 / 9007199254740992.0);
    return (T)((2 * u - 1) * lim);
  }
  default: { uint64_t r = splitmix(s); return mk<T>(r >> 63, -(long)((r >> 52) % 60) - 1, r); }
  }
}

template <typename T> static bool fexp(const Words& w) {
  if (w.size() != 6) return false;
  long n = atol(w[2].c_str()), k = atol(w[3].c_str()); int cls = atoi(w[4].c_str());
  uint64_t seed = strtoull(w[5].c_str(), 0, 10);
  if (n < 1 || n > 8192 || k < 0 || k >= 64 || cls < 0 || cls > 4) return false;
  NBufs<T>& B = NBufs<T>::get();
  Array<1, T> x, y; x >>= B.ba(range(k, k + n - 1)); y >>= B.bt(range(k, k + n - 1));
  std::vector<T> sc(n);
  uint64_t s = seed * 0x2545F4914F6CDD1DULL + 1234;
  for (long i = 0; i < n; ++i) { x(i) = fexp_input<T>(cls, s, cls <= 2 ? i + (long)seed * n : i); y(i) = T(0); }
  hook_reset();
  y = fastexp(x);
  std::string h = hook_line();
  for (long i = 0; i < n; ++i) { volatile T xi = x(i); sc[i] = adept::fastexp(T(xi)); }
  std::cout << "H " << h << " | X "; emit_hex(std::cout, x.const_data(), n);
  std::cout << " | S "; emit_hex(std::cout, &sc[0], n);
  std::cout << " | P "; emit_hex(std::cout, y.const_data(), n);
  std::cout << " | E ";
  const int p = std::numeric_limits<T>::digits;
  for (long i = 0; i < n; ++i) {
    long double ref = expl((long double)x(i));
    long me = -1;
    T refT = (T)ref;
    if (std::isfinite(refT) && std::fabs(refT) >= std::numeric_limits<T>::min() && std::isfinite((T)y(i))) {
      int e; frexpl(ref, &e);
      long double ulp = ldexpl(1.0L, e - p);
      long double err = fabsl((long double)y(i) - ref) / ulp;
      me = err > 1e9L ? 1000000000L : (long)llroundl(err * 1000.0L);
    }
    std::cout << (i ? "," : "") << me;
  }
  std::cout << std::endl;
  return true;
}

static bool fexpd(const Words& w) {
  if (w.size() != 4) return false;
  long n = atol(w[1].c_str()); int cls = atoi(w[2].c_str()); uint64_t seed = strtoull(w[3].c_str(), 0, 10);
  if (n < 1 || n > 4096 || cls < 0 || cls > 4) return false;
  verif::SpyStack stack;
  uint64_t s = seed * 0x2545F4914F6CDD1DULL + 4321;
  std::vector<double> xin(n);
  for (long i = 0; i < n; ++i) xin[i] = fexp_input<double>(cls, s, cls <= 2 ? i + (long)seed * n : i);
  std::vector<double> val(n), mul(n), sval(n), smul(n);
  {
    aVector x(n), y(n);
    for (long i = 0; i < n; ++i) x(i).set_value(xin[i]);
    stack.new_recording();
    y = fastexp(x);
    // statement i+1 (statement 0 is the stack's dummy) has exactly one operation: d y_i = m * d x_i
    bool shape_ok = (long)stack.n_statements() == n + 1 && (long)stack.n_operations() == n;
    for (long i = 0; i < n; ++i) { val[i] = y(i).value(); mul[i] = shape_ok ? stack.op_mult(i) : std::numeric_limits<double>::quiet_NaN(); }
    stack.new_recording();
    for (long i = 0; i < n; ++i) {
      adouble xs = xin[i];
      long before = stack.n_operations();
      adouble ys = fastexp(xs);
      sval[i] = ys.value();
      smul[i] = ((long)stack.n_operations() == before + 1) ? stack.op_mult(before) : std::numeric_limits<double>::quiet_NaN();
    }
  }
  std::cout << "V "; emit_hex(std::cout, &val[0], n); std::cout << " | M "; emit_hex(std::cout, &mul[0], n);
  std::cout << " | SV "; emit_hex(std::cout, &sval[0], n); std::cout << " | SM "; emit_hex(std::cout, &smul[0], n);
  std::cout << std::endl;
  return true;
}

namespace simd {
bool numerics_op(const Words& w) {
  const std::string& op = w[0];
  bool f = w.size() >= 2 && w[1] == "f", d = w.size() >= 2 && w[1] == "d";
  bool done = false;
  if (op == "num") done = f ? num<float>(w) : d ? num<double>(w) : false;
  else if (op == "rnum") done = f ? rnum<float>(w) : d ? rnum<double>(w) : false;
  else if (op == "fexp") done = f ? fexp<float>(w) : d ? fexp<double>(w) : false;
  else if (op == "fexpd") done = fexpd(w);
  else return false;
  if (!done) std::cout << "bad-op" << std::endl;
  return true;
}
}
