// C05 driver: asg family for double (split over translation units to keep compile time down)
#include "drv_simd_asg.h"
namespace simd { std::string asg_d(const Words& w) { return dispatch_asg<double>(w); } }
