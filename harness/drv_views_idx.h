// Integer-vector indexing part of the views driver (IndexedArray.h; property C06).  See drv_views.cpp.
//   ix S0 S1 ...      one selector per dimension of the current view (rank 1..4), at least one index vector
//     S = i:E | r:E,E | s:E,E,S | _        as for `slice`          E = k | eK (eK is `end - K`)
//       | v:a,b,c      intVector holding a,b,c                      (v: alone is the empty vector)
//       | x:a,b,c      the integer expression  tmp + 2  with tmp = (a-2,b-2,c-2)
//       | w:K0,K1,..   the integer expression  end - tmp  with tmp = (K0,K1,..): entries len-1-K
//       | u:VE:a,b,c   the integer expression VE over the intVector v = (a,b,c), e.g. u:(9-v):1,3,0  (menu VSHAPES below)
//     a scalar selector i:E may be a rich expression of the first XMENU2 shapes of drv_views.h (letter Y)
//       | f:a,b,c      a FixedArray<int,false,3> holding a,b,c (its value_with_len_ is a separate copy of the accessor)
//     the entry list of v: x: w: u: may carry a LAYOUT prefix `L|a,b,c`: the intVector is then not a dense vector but a
//     VIEW holding these entries in index order (Array::value_with_len_ must step with the view's own offset):
//       sOFF.STR  big(stride(OFF, OFF+(n-1)*STR, STR)) of a larger intVector (STR < 0: reversed; OFF > 0: offset)
//       cK.NC     column K of an n x NC intMatrix, IM(__,K)        rK.NR   row K of an NR x n intMatrix, IM(K,__)
//     (the cells of the larger object that are not entries hold other entries of the list, so that a wrong step still
//      reads valid indices); the selector denotes exactly the listed entries whatever the layout
//   cix S0 S1 ...     the same call made on a const reference to the view (const overload of operator())
// The op does not change the current view (an IndexedArray is an expression, not an Array).  Answer:
//   err <class>                                  the constructor of the IndexedArray threw
//   ok r=<rank> d=<extents> e=<E> w=<W> z=<Z>
//     E  values read by `B = A(S0,S1,...)` in index order (= parent cell numbers), or !<class>
//     W  parent cells changed by `A(S0,...) = V` with V(j) = -(j+1) (j = position in index order), as cell:value;...
//        followed by !<class> when the assignment threw (cells written before the exception are listed);
//        empty when some extent is 0 (no Array has such extents; the scalar assignment below is still made)
//     Z  the same for the scalar assignment `A(S0,...) = -7`
// Each position's C++ type is chosen at run time from a menu compiled once (letters):
//   I int   E end-k   r RangeIndex<int,int,int>   R RangeIndex<end-k,end-k,int>   A __   V intVector   X tmp+2   W end-tmp
//   U<n> the vector expression number n of VSHAPES   Y<n> the rich scalar expression number n of XSHAPES   F FixedArray<int,false,3>
// rank 1: V X W F and every U;  rank 2: every mixture of the eight plain letters, the first NVMENU2 U's with a partner
// out of I E R A V (either order), F with the same partners, a Y with the partner V (either order);  rank 3: every mixture of I E R A V (a plain
// range is passed as R through end-(len-1-k)) and one of the first NVMENU2 U's between two scalars I / E;  rank 4: the fixed menu IX_MENU4 (letters I E R A V).
#ifndef VERIF_DRV_VIEWS_IDX_H
#define VERIF_DRV_VIEWS_IDX_H
#include "drv_views.h"
#include <type_traits>

// rank-1 integer expressions over one intVector V (constants K): the first NVMENU2 are also compiled for rank 2
#define VS_0 "(#-v)"
#define VE_0(V, K) ((K)[0] - (V))                            // BinaryOpScalarLeft<Subtract>: the reversal idiom (n-1)-idx
#define VS_1 "(v*#)"
#define VE_1(V, K) ((V) * (K)[0])
#define VS_2 "((end-v)/#)"
#define VE_2(V, K) ((adept::end - (V)) / (K)[0])
#define VS_3 "(v+v)"
#define VE_3(V, K) ((V) + (V))                               // BinaryOperation of two arrays
#define VS_4 "(#+v)"
#define VE_4(V, K) ((K)[0] + (V))
#define VS_5 "(#*v)"
#define VE_5(V, K) ((K)[0] * (V))
#define VS_6 "(v/#)"
#define VE_6(V, K) ((V) / (K)[0])
#define VS_7 "(v-#)"
#define VE_7(V, K) ((V) - (K)[0])
#define VS_8 "(end-(v*#))"
#define VE_8(V, K) (adept::end - ((V) * (K)[0]))
#define VS_9 "((#-v)-end)"
#define VE_9(V, K) (((K)[0] - (V)) - adept::end)
#define VS_10 "(#/v)"
#define VE_10(V, K) ((K)[0] / (V))                           // BinaryOpScalarLeft<Divide>
#define VS_11 "(v<#)"
#define VE_11(V, K) (adept::min((V), (K)[0]))
#define VS_12 "(#>v)"
#define VE_12(V, K) (adept::max((K)[0], (V)))
#define VSHAPES(X) X(0) X(1) X(2) X(3) X(4) X(5) X(6) X(7) X(8) X(9) X(10) X(11) X(12)
enum { NVMENU = 13, NVMENU2 = 4 };
inline const char* const* vshape_table() {
#define X(ID) VS_##ID,
  static const char* const t[] = { VSHAPES(X) 0 };
#undef X
  return t;
}

enum { L_I = 0, L_E = 1, L_r = 2, L_R = 3, L_A = 4, L_V = 5, L_X = 6, L_W = 7, L_U0 = 8, L_Y0 = L_U0 + NVMENU, L_F = L_Y0 + XMENU2, L_END = L_F + 1 };
typedef FixedArray<int,false,3> FixIdx;

struct ISel {
  int letter;            // L_*
  Tok b, e; int s;       // scalar: b; range: b, e, s
  std::vector<int> ent;  // V: entries; X: entries; W: the K's; U: the entries of v; F: the three entries
  int c[3];              // U: the constants of the expression
  char lay; int lp, lq;  // layout of the intVector: 0 dense, 's' OFF.STR, 'c' K.NC, 'r' K.NR
};
inline bool& ix_cf() { static bool v = false; return v; }   // the current call goes through the const overload

inline bool parse_entries(const std::string& t0, std::vector<int>& out, ISel* lay = 0) {
  out.clear();
  std::string t = t0;
  size_t bar = t.find('|');
  if (bar != std::string::npos) {
    if (!lay || bar < 4) return false;
    std::vector<std::string> q = split(t.substr(1, bar - 1), '.');
    if ((t[0] != 's' && t[0] != 'c' && t[0] != 'r') || q.size() != 2 || !parse_int(q[0], lay->lp) || !parse_int(q[1], lay->lq)) return false;
    lay->lay = t[0];
    t = t.substr(bar + 1);
  }
  if (t.empty()) return true;
  std::vector<std::string> p = split(t, ',');
  for (size_t k = 0; k < p.size(); ++k) { int v; if (!parse_int(p[k], v)) return false; out.push_back(v); }
  return true;
}

// rank: the rank of the indexed array decides which range letter a plain range gets
inline bool parse_isel(const std::string& t, int rank, ISel& o) {
  o.s = 1; o.c[0] = o.c[1] = o.c[2] = 0; o.lay = 0; o.lp = o.lq = 0;
  if (t.size() >= 2 && t[1] == ':' && (t[0] == 'v' || t[0] == 'x' || t[0] == 'w')) {
    o.letter = t[0] == 'v' ? L_V : t[0] == 'x' ? L_X : L_W;
    return parse_entries(t.substr(2), o.ent, &o);
  }
  if (t.size() >= 2 && t[0] == 'f' && t[1] == ':') {
    o.letter = L_F;
    return parse_entries(t.substr(2), o.ent) && o.ent.size() == 3;
  }
  if (t.size() >= 2 && t[0] == 'u' && t[1] == ':') {
    std::vector<std::string> p = split(t.substr(2), ':');
    std::string shape; std::vector<int> consts;
    if (p.size() != 2 || !parse_shape(p[0], shape, consts) || consts.size() > 3) return false;
    if (shape.find('v') == std::string::npos) return false;
    const char* const* tab = vshape_table();
    for (int id = 0; tab[id]; ++id)
      if (shape == tab[id]) {
        o.letter = L_U0 + id;
        for (size_t j = 0; j < consts.size(); ++j) o.c[j] = consts[j];
        return parse_entries(p[1], o.ent, &o);
      }
    throw BadOp();
  }
  Arg a;
  if (!parse_arg(t, a)) return false;
  o.b = a.b; o.e = a.e;
  if (a.kind == 3) { o.letter = L_A; return true; }
  if (a.kind == 0) {
    if (a.b.cls == 2) { if (a.b.shape >= XMENU2) throw BadOp(); o.letter = L_Y0 + a.b.shape; return true; }
    o.letter = a.b.cls == 1 ? L_E : L_I;
    return true;
  }
  if (arg_rich(a)) throw BadOp();          // rich end points / strides are driven through `slice`, not through `ix`
  o.s = a.s.k;
  bool any_end = a.b.cls == 1 || a.e.cls == 1;
  o.letter = (rank <= 2 && !any_end) ? L_r : L_R;
  return true;
}

// the intVector of a selector: dense, or a view (strided / reversed / offset part of a larger intVector, a column or a row
// of an intMatrix) holding the entries x.ent[j] + add in index order; the returned Array links to the storage it came from
inline intVector make_iv(const ISel& x, int add) {
  int n = (int)x.ent.size();
  if (x.lay == 0 || n == 0) {
    intVector v(n);
    for (int j = 0; j < n; ++j) v(j) = x.ent[j] + add;
    return v;
  }
  if (x.lay == 's') {
    int off = x.lp, str = x.lq, last = off + (n - 1) * str;
    if (str == 0 || off < 0 || last < 0 || off > 4096 || last > 4096) throw BadOp();
    int size = (off > last ? off : last) + 3;
    intVector big(size);
    for (int k = 0; k < size; ++k) big(k) = x.ent[(k * 5 + 1) % n] + add;      // not entries of the view
    for (int j = 0; j < n; ++j) big(off + j * str) = x.ent[j] + add;
    return big(stride(off, last, str));
  }
  int k0 = x.lp, m = x.lq;
  if (m < 1 || m > 64 || k0 < 0 || k0 >= m) throw BadOp();
  if (x.lay == 'c') {
    intMatrix im(n, m);
    for (int j = 0; j < n; ++j) for (int k = 0; k < m; ++k) im(j, k) = x.ent[(j * 3 + k + 1) % n] + add;
    for (int j = 0; j < n; ++j) im(j, k0) = x.ent[j] + add;
    return im(__, k0);
  }
  intMatrix im(m, n);
  for (int k = 0; k < m; ++k) for (int j = 0; j < n; ++j) im(k, j) = x.ent[(j + 2 * k + 1) % n] + add;
  for (int j = 0; j < n; ++j) im(k0, j) = x.ent[j] + add;
  return im(k0, __);
}

// the rank-4 menu, as base-32 numbers with position 0 in the lowest digit
#define IX_CODE4(a, b, c, d) ((a) + 32 * (b) + 1024 * (c) + 32768 * (d))
#define IX_MENU4_LIST \
  M4(L_I, L_E, L_V, L_A) M4(L_E, L_I, L_E, L_V) M4(L_V, L_I, L_E, L_I) M4(L_A, L_V, L_I, L_E) \
  M4(L_I, L_V, L_R, L_E) M4(L_V, L_V, L_V, L_V) M4(L_E, L_A, L_V, L_V) M4(L_R, L_V, L_A, L_I) \
  M4(L_I, L_I, L_E, L_V) M4(L_V, L_E, L_E, L_I) M4(L_A, L_I, L_V, L_E) M4(L_V, L_R, L_A, L_V)
#define M4(a, b, c, d) IX_CODE4(a, b, c, d),
constexpr int ix_menu4[] = { IX_MENU4_LIST -1 };
#undef M4
constexpr int ix_pow8(int k) { return k == 0 ? 1 : 32 * ix_pow8(k - 1); }
constexpr bool ix_prefix_in_menu4(int code, int k, int i = 0) {
  return ix_menu4[i] < 0 ? false : (ix_menu4[i] % ix_pow8(k) == code ? true : ix_prefix_in_menu4(code, k, i + 1));
}
// a translation unit may restrict itself to some first letters (bit L of IX_FIRST_MASK) to split the compile time
// (the mask is a template argument of the dispatcher: differently restricted instantiations are different types)
#ifndef IX_FIRST_MASK
#define IX_FIRST_MASK 0x7fffffff
#endif
// is letter L compiled at position K (K letters `code` chosen so far) of a rank-R pattern?
constexpr bool ix_is_u2(int L) { return L >= L_U0 && L < L_U0 + NVMENU2; }
constexpr bool ix_is_y(int L) { return L >= L_Y0 && L < L_END; }
constexpr bool ix_partner(int L) { return L == L_I || L == L_E || L == L_R || L == L_A || L == L_V; }
constexpr bool ix_pair_ok(int F, int L) {
  return (F < L_U0 && L < L_U0) || ((ix_is_u2(F) || F == L_F) && ix_partner(L)) || ((ix_is_u2(L) || L == L_F) && ix_partner(F))
      || (ix_is_y(F) && L == L_V) || (ix_is_y(L) && F == L_V);
}
constexpr bool ix_is_vec(int L) { return (L >= L_V && L < L_Y0) || L == L_F; }
// rank 3: every mixture of I E R A V, and one vector expression U<n> (n < NVMENU2) between two scalars I / E
constexpr bool ix_base5(int L) { return L == L_I || L == L_E || L == L_R || L == L_A || L == L_V; }
constexpr bool ix_scal(int L) { return L == L_I || L == L_E; }
constexpr int ix_digit(int code, int k) { return (code / ix_pow8(k)) % 32; }
constexpr bool ix_rank3_ok(int K, int code, int L) {
  return K == 0 ? (ix_base5(L) || ix_is_u2(L))
       : K == 1 ? (ix_is_u2(ix_digit(code, 0)) ? ix_scal(L) : (ix_base5(L) || (ix_is_u2(L) && ix_scal(ix_digit(code, 0)))))
       : ((ix_is_u2(ix_digit(code, 0)) || ix_is_u2(ix_digit(code, 1))) ? ix_scal(L)
          : (ix_base5(L) || (ix_is_u2(L) && ix_scal(ix_digit(code, 0)) && ix_scal(ix_digit(code, 1)))));
}
constexpr bool ix_letter_ok(int Mask, int R, int K, int code, int L) {
  return (K == 0 && !((Mask >> L) & 1)) ? false
       : R == 1 ? ix_is_vec(L)
       : R == 2 ? (K == 0 ? true : ix_pair_ok(code, L))
       : R == 3 ? ix_rank3_ok(K, code, L)
       : (L < L_U0 && ix_prefix_in_menu4(code + L * ix_pow8(K), K + 1));
}

// ------------------------------------------------------------------ the three uses of one IndexedArray expression
template <int N> inline std::string dims_str(const ExpressionSize<N>& d) {
  std::ostringstream os;
  for (int k = 0; k < N; ++k) os << (k ? "," : "") << d[k];
  return os.str();
}
#define IX_CATCH(os) \
  catch (index_out_of_bounds&) { os << "!index_out_of_bounds"; } \
  catch (size_mismatch&) { os << "!size_mismatch"; } \
  catch (invalid_operation&) { os << "!invalid_operation"; } \
  catch (invalid_dimension&) { os << "!invalid_dimension"; } \
  catch (empty_array&) { os << "!empty_array"; } \
  catch (adept::exception&) { os << "!adept_exception"; }

template <class IA> std::string describe_ix(IA&& ia) {
  typedef typename std::remove_reference<IA>::type IAT;
  enum { N = IAT::rank };
  ExpressionSize<N> d;
  ia.get_dimensions(d);
  std::ostringstream os;
  os << "ok r=" << N << " d=" << dims_str(d) << " e=";
  long n = 1;
  for (int k = 0; k < N; ++k) n *= (d[k] > 0 ? d[k] : 0);
  try {
    Array<N,int> B;
    B = ia;                                             // read path (set_location_ / next_value)
    std::ostringstream es;
    if (n > 0) {
      int ix[N];
      for (int k = 0; k < N; ++k) ix[k] = 0;
      long j = 0;
      for (;;) {
        es << (j ? "," : "") << El<N>::nc(B, ix);
        ++j;
        int k = N - 1;
        while (k >= 0 && ++ix[k] == d[k]) { ix[k] = 0; --k; }
        if (k < 0) break;
      }
    }
    os << es.str();
  }
  IX_CATCH(os)
  dump_changes();                                       // (a read must not have changed anything: see below)
  os << " w=";
  if (n > 0) {   // (an Array cannot have the extents of an indexed array with a zero extent: only Z is probed then)
    Array<N,int> V(d);                                  // fresh values -(j+1) in index order (row-major, contiguous)
    for (long j = 0; j < n; ++j) V.data()[j] = (int)(-(j + 1));
    std::string err;
    try { ia = V; }                                     // assign_expression_
    catch (index_out_of_bounds&) { err = "!index_out_of_bounds"; }
    catch (size_mismatch&) { err = "!size_mismatch"; }
    catch (adept::exception&) { err = "!adept_exception"; }
    os << dump_changes() << err;
  }
  os << " z=";
  {
    std::string err;
    try { ia = -7; }                                    // assign_inactive_scalar_
    catch (index_out_of_bounds&) { err = "!index_out_of_bounds"; }
    catch (size_mismatch&) { err = "!size_mismatch"; }
    catch (adept::exception&) { err = "!adept_exception"; }
    os << dump_changes() << err;
  }
  return os.str();
}

// ------------------------------------------------------------------ run-time choice of the argument types
struct IxBad {
  template <typename... As> static std::string go(const As&...) { throw BadOp(); }
};
template <int Mask, int R, int K, int Code, bool HasVec, typename... As> struct IxDisp;
template <int Mask, int R, int K, int Code, bool HasVec, int L, typename... As> struct IxNext {
  // the dispatcher for the next position when letter L is compiled here, IxBad otherwise
  typedef typename std::conditional<ix_letter_ok(Mask, R, K, Code, L),
            IxDisp<Mask, R, K + 1, Code + L * ix_pow8(K), (HasVec || ix_is_vec(L)), As...>, IxBad>::type type;
};
template <int Mask, int R, int K, int Code, bool HasVec, typename... As> struct IxDisp {
  static std::string go(Array<R,int>& a, const std::vector<ISel>& t, const As&... as) {
    const ISel& x = t[K];
    int len = a.dimension(K);
    switch (x.letter) {
      case L_I: { int v = x.b.k; return IxNext<Mask, R, K, Code, HasVec, L_I, As..., int>::type::go(a, t, as..., v); }
      case L_E: { EndX v = endx(x.b.k); return IxNext<Mask, R, K, Code, HasVec, L_E, As..., EndX>::type::go(a, t, as..., v); }
      case L_r: { RII v = stride(x.b.k, x.e.k, x.s); return IxNext<Mask, R, K, Code, HasVec, L_r, As..., RII>::type::go(a, t, as..., v); }
      case L_R: { REE v = stride(via_end(x.b, len), via_end(x.e, len), x.s);
                  return IxNext<Mask, R, K, Code, HasVec, L_R, As..., REE>::type::go(a, t, as..., v); }
      case L_A: return IxNext<Mask, R, K, Code, HasVec, L_A, As..., internal::AllIndex>::type::go(a, t, as..., __);
      case L_V: {
        intVector v(make_iv(x, 0));
        return IxNext<Mask, R, K, Code, HasVec, L_V, As..., intVector>::type::go(a, t, as..., v);
      }
      case L_X: {
        intVector tmp(make_iv(x, -2));
        auto v = tmp + 2;
        return IxNext<Mask, R, K, Code, HasVec, L_X, As..., decltype(v)>::type::go(a, t, as..., v);
      }
      case L_W: {
        intVector tmp(make_iv(x, 0));
        auto v = adept::end - tmp;
        return IxNext<Mask, R, K, Code, HasVec, L_W, As..., decltype(v)>::type::go(a, t, as..., v);
      }
      // vector expressions and rich scalars are built inside the call expression (nested expression objects refer to temporaries)
#define X(ID) case L_U0 + ID: { \
        intVector tmp(make_iv(x, 0)); \
        typedef decltype(VE_##ID(tmp, x.c)) VT; \
        return IxNext<Mask, R, K, Code, HasVec, L_U0 + ID, As..., VT>::type::go(a, t, as..., VE_##ID(tmp, x.c)); }
      VSHAPES(X)
#undef X
#define X(ID) case L_Y0 + ID: { \
        typedef decltype(XE_##ID(x.b.c)) XT; \
        return IxNext<Mask, R, K, Code, HasVec, L_Y0 + ID, As..., XT>::type::go(a, t, as..., XE_##ID(x.b.c)); }
      XSHAPES2(X)
#undef X
      case L_F: {
        FixIdx fv;
        for (int j = 0; j < 3; ++j) fv(j) = x.ent[j];
        return IxNext<Mask, R, K, Code, HasVec, L_F, As..., FixIdx>::type::go(a, t, as..., fv);
      }
      default: throw BadOp();
    }
  }
};
template <class IA> inline std::string describe_ix_c(const IA& ia) { return describe_ix(const_cast<IA&>(ia)); }
template <int Mask, int R, int Code, typename... As> struct IxDisp<Mask, R, R, Code, true, As...> {
  static std::string go(Array<R,int>& a, const std::vector<ISel>&, const As&... as) {
    try {
      if (ix_cf()) { const Array<R,int>& ca = a; return describe_ix_c(ca(as...)); }
      return describe_ix(a(as...));
    }
    catch (index_out_of_bounds&) { return "err index_out_of_bounds"; }     // thrown by the constructor
  }
};
template <int Mask, int R, int Code, typename... As> struct IxDisp<Mask, R, R, Code, false, As...> {   // no index vector: a slice
  static std::string go(Array<R,int>&, const std::vector<ISel>&, const As&...) { throw BadOp(); }
};

template <int R> inline std::vector<ISel> ix_parse(const std::vector<std::string>& w) {
  if ((int)w.size() != R + 1) throw BadOp();
  ix_cf() = (w[0] == "cix");
  std::vector<ISel> t(R);
  for (int k = 0; k < R; ++k) if (!parse_isel(w[k + 1], R, t[k])) throw BadOp();
  return t;
}
// (Mask is a template parameter here too: translation units with different IX_FIRST_MASK must not share one ix_go<R>)
template <int R, int Mask = IX_FIRST_MASK> inline std::string ix_go(Array<R,int>& a, const std::vector<ISel>& t) { return IxDisp<Mask, R, 0, 0, false>::go(a, t); }
// rank 3 is split over three translation units by the first letter, rank 2 over four
std::string ix_op3_vec_first(Array<3,int>& a, const std::vector<ISel>& t);
std::string ix_op3_range_first(Array<3,int>& a, const std::vector<ISel>& t);
std::string ix_op2_a(Array<2,int>& a, const std::vector<ISel>& t);
std::string ix_op2_b(Array<2,int>& a, const std::vector<ISel>& t);
std::string ix_op2_c(Array<2,int>& a, const std::vector<ISel>& t);
std::string ix_op2_d(Array<2,int>& a, const std::vector<ISel>& t);
#endif
