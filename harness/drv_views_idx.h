// Integer-vector indexing part of the views driver (IndexedArray.h; property C06).  See drv_views.cpp.
//   ix S0 S1 ...      one selector per dimension of the current view (rank 1..4), at least one index vector
//     S = i:E | r:E,E | s:E,E,S | _        as for `slice`          E = k | eK (eK is `end - K`)
//       | v:a,b,c      intVector holding a,b,c                      (v: alone is the empty vector)
//       | x:a,b,c      the integer expression  tmp + 2  with tmp = (a-2,b-2,c-2)
//       | w:K0,K1,..   the integer expression  end - tmp  with tmp = (K0,K1,..): entries len-1-K
// The op does not change the current view (an IndexedArray is an expression, not an Array).  Answer:
//   err <class>                                  the constructor of the IndexedArray threw
//   ok r=<rank> d=<extents> e=<E> w=<W> z=<Z>
//     E  values read by `B = A(S0,S1,...)` in index order (= parent cell numbers), or !<class>
//     W  parent cells changed by `A(S0,...) = V` with V(j) = -(j+1) (j = position in index order), as cell:value;...
//        followed by !<class> when the assignment threw (cells written before the exception are listed);
//        empty when some extent is 0 (no Array has such extents; the scalar assignment below is still made)
//     Z  the same for the scalar assignment `A(S0,...) = -7`
// Each position's C++ type is chosen at run time from a menu compiled once (letters):
//   I int   E end-k   r RangeIndex<int,int,int>   R RangeIndex<end-k,end-k,int>   A __   V intVector   X tmp+2   W end-tmp
// rank 1: V X W;  rank 2: every mixture of the eight;  rank 3: every mixture of I E R A V (a plain range is passed
// as R through end-(len-1-k));  rank 4: the fixed menu IX_MENU4 (letters I E R A V).
#ifndef VERIF_DRV_VIEWS_IDX_H
#define VERIF_DRV_VIEWS_IDX_H
#include "drv_views.h"
#include <type_traits>

enum { L_I = 0, L_E = 1, L_r = 2, L_R = 3, L_A = 4, L_V = 5, L_X = 6, L_W = 7 };

struct ISel {
  int letter;            // L_*
  Tok b, e; int s;       // scalar: b; range: b, e, s
  std::vector<int> ent;  // V: entries; X: entries; W: the K's
};

inline bool parse_entries(const std::string& t, std::vector<int>& out) {
  out.clear();
  if (t.empty()) return true;
  std::vector<std::string> p = split(t, ',');
  for (size_t k = 0; k < p.size(); ++k) { int v; if (!parse_int(p[k], v)) return false; out.push_back(v); }
  return true;
}

// rank: the rank of the indexed array decides which range letter a plain range gets
inline bool parse_isel(const std::string& t, int rank, ISel& o) {
  o.s = 1;
  if (t.size() >= 2 && t[1] == ':' && (t[0] == 'v' || t[0] == 'x' || t[0] == 'w')) {
    o.letter = t[0] == 'v' ? L_V : t[0] == 'x' ? L_X : L_W;
    return parse_entries(t.substr(2), o.ent);
  }
  Arg a;
  if (!parse_arg(t, a)) return false;
  o.b = a.b; o.e = a.e; o.s = a.s;
  if (a.kind == 3) { o.letter = L_A; return true; }
  if (a.kind == 0) { o.letter = a.b.from_end ? L_E : L_I; return true; }
  bool any_end = a.b.from_end || a.e.from_end;
  o.letter = (rank <= 2 && !any_end) ? L_r : L_R;
  return true;
}

// the rank-4 menu, as base-8 numbers with position 0 in the lowest digit
#define IX_CODE4(a, b, c, d) ((a) + 8 * (b) + 64 * (c) + 512 * (d))
#define IX_MENU4_LIST \
  M4(L_I, L_E, L_V, L_A) M4(L_E, L_I, L_E, L_V) M4(L_V, L_I, L_E, L_I) M4(L_A, L_V, L_I, L_E) \
  M4(L_I, L_V, L_R, L_E) M4(L_V, L_V, L_V, L_V) M4(L_E, L_A, L_V, L_V) M4(L_R, L_V, L_A, L_I) \
  M4(L_I, L_I, L_E, L_V) M4(L_V, L_E, L_E, L_I) M4(L_A, L_I, L_V, L_E) M4(L_V, L_R, L_A, L_V)
#define M4(a, b, c, d) IX_CODE4(a, b, c, d),
constexpr int ix_menu4[] = { IX_MENU4_LIST -1 };
#undef M4
constexpr int ix_pow8(int k) { return k == 0 ? 1 : 8 * ix_pow8(k - 1); }
constexpr bool ix_prefix_in_menu4(int code, int k, int i = 0) {
  return ix_menu4[i] < 0 ? false : (ix_menu4[i] % ix_pow8(k) == code ? true : ix_prefix_in_menu4(code, k, i + 1));
}
// a translation unit may restrict itself to some first letters (bit L of IX_FIRST_MASK) to split the compile time
// (the mask is a template argument of the dispatcher: differently restricted instantiations are different types)
#ifndef IX_FIRST_MASK
#define IX_FIRST_MASK 0xff
#endif
// is letter L compiled at position K (K letters `code` chosen so far) of a rank-R pattern?
constexpr bool ix_letter_ok(int Mask, int R, int K, int code, int L) {
  return (K == 0 && !((Mask >> L) & 1)) ? false
       : R == 1 ? (L >= L_V)
       : R == 2 ? true
       : R == 3 ? (L == L_I || L == L_E || L == L_R || L == L_A || L == L_V)
       : ix_prefix_in_menu4(code + L * ix_pow8(K), K + 1);
}

// ------------------------------------------------------------------ the three uses of one IndexedArray expression
template <int N> inline std::string dims_str(const ExpressionSize<N>& d) {
  std::ostringstream os;
  for (int k = 0; k < N; ++k) os << (k ? "," : "") << d[k];
  return os.str();
}
#define IX_CATCH(os) \
  catch (index_out_of_bounds&) { os << "!index_out_of_bounds"; } \
  catch (size_mismatch&) { os << "!size_mismatch"; } \
  catch (invalid_operation&) { os << "!invalid_operation"; } \
  catch (invalid_dimension&) { os << "!invalid_dimension"; } \
  catch (empty_array&) { os << "!empty_array"; } \
  catch (adept::exception&) { os << "!adept_exception"; }

template <class IA> std::string describe_ix(IA&& ia) {
  typedef typename std::remove_reference<IA>::type IAT;
  enum { N = IAT::rank };
  ExpressionSize<N> d;
  ia.get_dimensions(d);
  std::ostringstream os;
  os << "ok r=" << N << " d=" << dims_str(d) << " e=";
  long n = 1;
  for (int k = 0; k < N; ++k) n *= (d[k] > 0 ? d[k] : 0);
  try {
    Array<N,int> B;
    B = ia;                                             // read path (set_location_ / next_value)
    std::ostringstream es;
    if (n > 0) {
      int ix[N];
      for (int k = 0; k < N; ++k) ix[k] = 0;
      long j = 0;
      for (;;) {
        es << (j ? "," : "") << elem(B, ix);
        ++j;
        int k = N - 1;
        while (k >= 0 && ++ix[k] == d[k]) { ix[k] = 0; --k; }
        if (k < 0) break;
      }
    }
    os << es.str();
  }
  IX_CATCH(os)
  dump_changes();                                       // (a read must not have changed anything: see below)
  os << " w=";
  if (n > 0) {   // (an Array cannot have the extents of an indexed array with a zero extent: only Z is probed then)
    Array<N,int> V(d);                                  // fresh values -(j+1) in index order (row-major, contiguous)
    for (long j = 0; j < n; ++j) V.data()[j] = (int)(-(j + 1));
    std::string err;
    try { ia = V; }                                     // assign_expression_
    catch (index_out_of_bounds&) { err = "!index_out_of_bounds"; }
    catch (size_mismatch&) { err = "!size_mismatch"; }
    catch (adept::exception&) { err = "!adept_exception"; }
    os << dump_changes() << err;
  }
  os << " z=";
  {
    std::string err;
    try { ia = -7; }                                    // assign_inactive_scalar_
    catch (index_out_of_bounds&) { err = "!index_out_of_bounds"; }
    catch (size_mismatch&) { err = "!size_mismatch"; }
    catch (adept::exception&) { err = "!adept_exception"; }
    os << dump_changes() << err;
  }
  return os.str();
}

// ------------------------------------------------------------------ run-time choice of the argument types
struct IxBad {
  template <typename... As> static std::string go(As&...) { throw BadOp(); }
};
template <int Mask, int R, int K, int Code, bool HasVec, typename... As> struct IxDisp;
template <int Mask, int R, int K, int Code, bool HasVec, int L, typename... As> struct IxNext {
  // the dispatcher for the next position when letter L is compiled here, IxBad otherwise
  typedef typename std::conditional<ix_letter_ok(Mask, R, K, Code, L),
            IxDisp<Mask, R, K + 1, Code + L * ix_pow8(K), (HasVec || L >= L_V), As...>, IxBad>::type type;
};
template <int Mask, int R, int K, int Code, bool HasVec, typename... As> struct IxDisp {
  static std::string go(Array<R,int>& a, const std::vector<ISel>& t, const As&... as) {
    const ISel& x = t[K];
    int len = a.dimension(K);
    switch (x.letter) {
      case L_I: { int v = x.b.k; return IxNext<Mask, R, K, Code, HasVec, L_I, As..., int>::type::go(a, t, as..., v); }
      case L_E: { EndX v = endx(x.b.k); return IxNext<Mask, R, K, Code, HasVec, L_E, As..., EndX>::type::go(a, t, as..., v); }
      case L_r: { RII v = stride(x.b.k, x.e.k, x.s); return IxNext<Mask, R, K, Code, HasVec, L_r, As..., RII>::type::go(a, t, as..., v); }
      case L_R: { REE v = stride(via_end(x.b, len), via_end(x.e, len), x.s);
                  return IxNext<Mask, R, K, Code, HasVec, L_R, As..., REE>::type::go(a, t, as..., v); }
      case L_A: return IxNext<Mask, R, K, Code, HasVec, L_A, As..., internal::AllIndex>::type::go(a, t, as..., __);
      case L_V: {
        intVector v((int)x.ent.size());
        for (size_t j = 0; j < x.ent.size(); ++j) v((int)j) = x.ent[j];
        return IxNext<Mask, R, K, Code, HasVec, L_V, As..., intVector>::type::go(a, t, as..., v);
      }
      case L_X: {
        intVector tmp((int)x.ent.size());
        for (size_t j = 0; j < x.ent.size(); ++j) tmp((int)j) = x.ent[j] - 2;
        auto v = tmp + 2;
        return IxNext<Mask, R, K, Code, HasVec, L_X, As..., decltype(v)>::type::go(a, t, as..., v);
      }
      case L_W: {
        intVector tmp((int)x.ent.size());
        for (size_t j = 0; j < x.ent.size(); ++j) tmp((int)j) = x.ent[j];
        auto v = adept::end - tmp;
        return IxNext<Mask, R, K, Code, HasVec, L_W, As..., decltype(v)>::type::go(a, t, as..., v);
      }
      default: throw BadOp();
    }
  }
};
template <int Mask, int R, int Code, typename... As> struct IxDisp<Mask, R, R, Code, true, As...> {
  static std::string go(Array<R,int>& a, const std::vector<ISel>&, const As&... as) {
    try { return describe_ix(a(as...)); }
    catch (index_out_of_bounds&) { return "err index_out_of_bounds"; }     // thrown by the constructor
  }
};
template <int Mask, int R, int Code, typename... As> struct IxDisp<Mask, R, R, Code, false, As...> {   // no index vector: a slice
  static std::string go(Array<R,int>&, const std::vector<ISel>&, const As&...) { throw BadOp(); }
};

template <int R> inline std::vector<ISel> ix_parse(const std::vector<std::string>& w) {
  if ((int)w.size() != R + 1) throw BadOp();
  std::vector<ISel> t(R);
  for (int k = 0; k < R; ++k) if (!parse_isel(w[k + 1], R, t[k])) throw BadOp();
  return t;
}
// (Mask is a template parameter here too: translation units with different IX_FIRST_MASK must not share one ix_go<R>)
template <int R, int Mask = IX_FIRST_MASK> inline std::string ix_go(Array<R,int>& a, const std::vector<ISel>& t) { return IxDisp<Mask, R, 0, 0, false>::go(a, t); }
// rank 3 is split over two translation units by the first letter
std::string ix_op3_vec_first(Array<3,int>& a, const std::vector<ISel>& t);
#endif
