// element access with a rich index expression in one position: Array<4,int>, FixedArray<int,false,2,3,4,5> (see drv_views_el.h)
#include "drv_views_el.h"
typedef Array<4,int> P4;
VIEWS_DEFINE_RICH_ELEM(P4)
VIEWS_DEFINE_RICH_ELEM(Fix4)
