// engine pair 4 of the special-matrix correspondence driver (see drv_special.cpp, drv_special_ops.h)
#define VERIF_GROUP 4
#include "drv_special_ops.h"
