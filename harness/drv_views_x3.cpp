// rank-3 views indexed with rich index expressions (first XMENU3 shapes of the menu; roles scalar and begin),
// the other arguments being end-k / __
#include "drv_views.h"
typedef Array<3,int> A3;
VBase* rich_slice(A3& a, const Call& c) { return rich_slice_t<A3, XMENU3, ROLE_S | ROLE_B, FAM_XT>(a, c); }
