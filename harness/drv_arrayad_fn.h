// arrayad driver, statement menu parts 7 and 8 (one source, two translation units: AAD_FN_PART 0 / 1 select half of the
// function list each, so that they compile in parallel): the element-wise FUNCTIONS of UnaryOperation.h
// (ADEPT_DEF_UNARY_FUNC) and the binary pow / atan2 of BinaryOperation.h applied to active arrays.  Float regime:
// judged by the oracle only (relative tolerance), arguments are kept inside the open domain by the generator.
//   ffn <name> T A         T = name(A)                 A active, rank 1..2
//   ffnn <name> T A B      T = name(A * B) * B         A, B active, rank 1..2   (function of an expression, times an array:
//                                                       the multiplier forms of calc_gradient_)
//   ffb <pow|atan2> T A B  T = f(A, B)                 A, B active or passive in any combination, rank 1..2     (part 1)
//   ffbl <pow|atan2> T c A T = f(c, A)                 ffbr pow T A c    T = pow(A, c)       A active              (part 1)
//   ffbn <pow|atan2> T A B T = f(A, B) * B             A, B active (the multiplier forms of Pow / Atan2::calc_left/right) (part 1)
#include "drv_arrayad.h"
#include <type_traits>
namespace aad {
using namespace adept;

#if AAD_FN_PART == 0
#define AAD_FN_LIST(X) X(log) X(log10) X(log2) X(log1p) X(cos) X(tan) X(asin) X(acos) X(atan) X(sinh) X(cosh) X(tanh) X(sin) X(ceil) X(floor)
#define AAD_EXEC exec_s7
#else
#define AAD_FN_LIST(X) X(expm1) X(exp2) X(cbrt) X(erf) X(erfc) X(asinh) X(acosh) X(atanh) X(exp) X(sqrt) X(round) X(trunc) X(rint) X(nearbyint)
#define AAD_EXEC exec_s8
#endif

template <class F> static int by_rank12f(int r, F&& f) {
  switch (r) {
    case 1: return f(std::integral_constant<int, 1>());
    case 2: return f(std::integral_constant<int, 2>());
  }
  return -1;
}
static Obj* ftarget(const std::string& w) { Obj* T = get(w); return (T && T->kind == K_ARR && T->active) ? T : 0; }
static bool fn_known(const std::string& n) {
#define AAD_K(NAME) if (n == #NAME) return true;
  AAD_FN_LIST(AAD_K)
#undef AAD_K
  return false;
}

int AAD_EXEC(const Words& w, Ctx& c) {
  const std::string& k = w[0];
  if ((k == "ffn" && w.size() == 4) || (k == "ffnn" && w.size() == 5)) {
    const std::string& n = w[1];
    if (!fn_known(n)) return 0;                 // the other part may know it
    bool nested = k == "ffnn";
    Obj* T = ftarget(w[2]); if (!T) return -1;
    return by_rank12f(T->rank, [&](auto Rc) {
      constexpr int R = decltype(Rc)::value;
      Obj* A = getat(w[3], R); Obj* B = nested ? getat(w[4], R) : A; if (!A || !B) return -1;
      if (nested) c.pre({T, A, B}); else c.pre({T, A});
      auto& t = as<R, true>(*T); auto& a = as<R, true>(*A); auto& b = as<R, true>(*B);
#define AAD_C(NAME) if (n == #NAME) { if (nested) t = NAME(a * b) * b; else t = NAME(a); return 1; }
      AAD_FN_LIST(AAD_C)
#undef AAD_C
      return -1;
    });
  }
#if AAD_FN_PART == 1
  if (k == "ffb" && w.size() == 5) {
    bool p = w[1] == "pow"; Obj* T = ftarget(w[2]); if ((!p && w[1] != "atan2") || !T) return -1;
    return by_rank12f(T->rank, [&](auto Rc) {
      constexpr int R = decltype(Rc)::value;
      Obj* A = geta(w[3], R); Obj* B = geta(w[4], R); if (!A || !B) return -1;
      c.pre({T, A, B});
      auto& t = as<R, true>(*T);
      return with<R>(A, [&](auto& a) { return with<R>(B, [&](auto& b) {
        if (p) t = pow(a, b); else t = atan2(a, b); return true; }); }) ? 1 : -1;
    });
  }
  if (k == "ffbn" && w.size() == 5) {
    bool p = w[1] == "pow"; Obj* T = ftarget(w[2]); if ((!p && w[1] != "atan2") || !T) return -1;
    return by_rank12f(T->rank, [&](auto Rc) {
      constexpr int R = decltype(Rc)::value;
      Obj* A = getat(w[3], R); Obj* B = getat(w[4], R); if (!A || !B) return -1;
      c.pre({T, A, B});
      auto& t = as<R, true>(*T); auto& a = as<R, true>(*A); auto& b = as<R, true>(*B);
      if (p) t = pow(a, b) * b; else t = atan2(a, b) * b;
      return 1;
    });
  }
  if ((k == "ffbl" || k == "ffbr") && w.size() == 5) {
    bool p = w[1] == "pow"; bool left = k == "ffbl"; Obj* T = ftarget(w[2]);
    if ((!p && w[1] != "atan2") || !T || (!left && !p)) return -1;
    double cv = atof(w[left ? 3 : 4].c_str());
    return by_rank12f(T->rank, [&](auto Rc) {
      constexpr int R = decltype(Rc)::value;
      Obj* A = getat(w[left ? 4 : 3], R); if (!A) return -1;
      c.pre({T, A});
      auto& t = as<R, true>(*T); auto& a = as<R, true>(*A);
      if (left) { if (p) t = pow(cv, a); else t = atan2(cv, a); } else t = pow(a, cv);
      return 1;
    });
  }
#endif
  return 0;
}

} // namespace aad
