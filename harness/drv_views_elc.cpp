// element access with a rich index expression in one position: Array<5,int>, Array<6,int>, the FixedArray parents of rank 1..3
// (see drv_views_el.h)
#include "drv_views_el.h"
typedef Array<5,int> P5; typedef Array<6,int> P6;
VIEWS_DEFINE_RICH_ELEM(P5)
VIEWS_DEFINE_RICH_ELEM(P6)
VIEWS_DEFINE_RICH_ELEM(Fix1)
VIEWS_DEFINE_RICH_ELEM(Fix2)
VIEWS_DEFINE_RICH_ELEM(Fix2s)
VIEWS_DEFINE_RICH_ELEM(Fix3)
