// C05 driver: non-element-wise expression nodes, float (split over translation units to keep compile time down)
#include "drv_simd_asg.h"
#include "drv_simd_node.h"
namespace simd { std::string nod_f(const Words& w) { return dispatch_nod<float>(w); } }
