// whole-view operations on passive views of rank 1..3 (see drv_views_w.h)
#include "drv_views_w.h"
VIEWS_DEFINE_WHOLE(1)
VIEWS_DEFINE_WHOLE(2)
VIEWS_DEFINE_WHOLE(3)
