// arrayad driver, statement menu part 5: recording sites that have no C03 model (exercised by C09: event streams, sanitizers)
//   dvx N A B k        N (new handle) = diag_vector(A*B + A, k)   A active rank 2, B rank 2 (active or passive)
//   elg S A B : i.. : j..   S = A.get_rvalue(i)*B.get_rvalue(j)*A.get_rvalue(i)     (three Active temporaries)
//   fxg S F i j        S = F.get_rvalue(i)*F.get_rvalue(j)        F an active FixedArray<double,true,4>
//   outx <form> T a b [c|X]   outer_product(a,b) as a SUB-expression (the enclosing operation hands it a multiplier):
//        sl c: T = c*outer   sr c: T = outer*c   neg: T = -outer   al X: T = X*outer   ar X: T = X - outer   (X rank 2)
//        cadd|csub|cmul: T op= outer            fexp: T = exp(outer)
#include "drv_arrayad.h"
#include <type_traits>
using namespace adept;
namespace aad {

static bool parse_idx5(const Words& w, size_t from, std::vector<Index>& a, std::vector<Index>& b) {
  size_t i = from;
  if (i >= w.size() || w[i] != ":") return false;
  for (++i; i < w.size() && w[i] != ":"; ++i) a.push_back(atoi(w[i].c_str()));
  if (i < w.size()) for (++i; i < w.size(); ++i) b.push_back(atoi(w[i].c_str()));
  return true;
}
template <int R> static ExpressionSize<R> es(const std::vector<Index>& i) { ExpressionSize<R> e; for (int k = 0; k < R; ++k) e[k] = i[k]; return e; }

// outer_product of two PASSIVE vectors as a sub-expression of an active statement does not compile in the unchanged library
// (OuterProduct::value_at_location_store_ indexes a ScratchVector<0>): those combinations are not instantiated
#define BOTH_PASSIVE(a, b) (!std::decay_t<decltype(a)>::is_active && !std::decay_t<decltype(b)>::is_active)

int exec_s5(const Words& w, Ctx& c) {
  const std::string& k = w[0];
  if (k == "dvx" && w.size() == 5) {
    Obj* A = getat(w[2], 2); Obj* B = geta(w[3], 2); int od = atoi(w[4].c_str());
    if (get(w[1]) || !A || !B) return -1;
    long nh = atol(w[1].c_str());
    c.pre({A, A, B});
    Array<1, double, true>* n = 0;
    if (!with<2>(B, [&](auto& b) { n = new Array<1, double, true>(diag_vector(as<2, true>(*A) * b + as<2, true>(*A), od)); return true; })) return -1;
    add_root<1, true>(nh, n); c.newh = nh; return 1;
  }
  if (k == "elg" && w.size() >= 7) {
    Obj* S = getk(w[1], K_SCAL); Obj* A = get(w[2]); Obj* B = get(w[3]); std::vector<Index> i, j;
    if (!S || !A || !B || A->kind != K_ARR || B->kind != K_ARR || !A->active || !B->active || A->rank != B->rank || A->rank > 3
        || !parse_idx5(w, 4, i, j) || (int)i.size() != A->rank || (int)j.size() != A->rank) return -1;
    c.pre({S, A, B});
    switch (A->rank) {
      case 1: asS(*S) = as<1, true>(*A).get_rvalue(es<1>(i)) * as<1, true>(*B).get_rvalue(es<1>(j)) * as<1, true>(*A).get_rvalue(es<1>(i)); break;
      case 2: asS(*S) = as<2, true>(*A).get_rvalue(es<2>(i)) * as<2, true>(*B).get_rvalue(es<2>(j)) * as<2, true>(*A).get_rvalue(es<2>(i)); break;
      default: asS(*S) = as<3, true>(*A).get_rvalue(es<3>(i)) * as<3, true>(*B).get_rvalue(es<3>(j)) * as<3, true>(*A).get_rvalue(es<3>(i)); break;
    }
    return 1;
  }
  if (k == "outx" && w.size() >= 5) {
    const std::string& f = w[1];
    Obj* T = getat(w[2], 2); Obj* A = geta(w[3], 1); Obj* B = geta(w[4], 1); if (!T || !A || !B) return -1;
    auto& t = as<2, true>(*T);
    if ((f == "sl" || f == "sr") && w.size() == 6) {
      double cst = atof(w[5].c_str());
      c.pre({T, A, B});
      return with<1>(A, [&](auto& a) { return with<1>(B, [&](auto& b) {
        if constexpr (BOTH_PASSIVE(a, b)) return false; else {
        if (f == "sl") t = cst * outer_product(a, b); else t = outer_product(a, b) * cst; return true; } }); }) ? 1 : -1;
    }
    if ((f == "neg" || f == "cadd" || f == "csub" || f == "cmul" || f == "fexp") && w.size() == 5) {
      c.pre({T, A, B});
      return with<1>(A, [&](auto& a) { return with<1>(B, [&](auto& b) {
        if constexpr (BOTH_PASSIVE(a, b)) return false; else {
        if (f == "neg") t = -outer_product(a, b);
        else if (f == "cadd") t += outer_product(a, b);
        else if (f == "csub") t -= outer_product(a, b);
        else if (f == "cmul") t *= outer_product(a, b);
        else t = exp(outer_product(a, b));
        return true; } }); }) ? 1 : -1;
    }
    if ((f == "al" || f == "ar") && w.size() == 6) {
      Obj* X = geta(w[5], 2); if (!X) return -1;
      c.pre({T, A, B, X});
      return with<1>(A, [&](auto& a) { return with<1>(B, [&](auto& b) { return with<2>(X, [&](auto& x) {
        if constexpr (BOTH_PASSIVE(a, b)) return false; else {
        if (f == "al") t = x * outer_product(a, b); else t = x - outer_product(a, b); return true; } }); }); }) ? 1 : -1;
    }
    return -1;
  }
  if (k == "fxg" && w.size() == 5) {
    Obj* S = getk(w[1], K_SCAL); Obj* F = getk(w[2], K_FA4); int i = atoi(w[3].c_str()), j = atoi(w[4].c_str());
    if (!S || !F || i < 0 || i > 3 || j < 0 || j > 3) return -1;
    c.pre({S, F});
    asS(*S) = asF4(*F).get_rvalue(ExpressionSize<1>(i)) * asF4(*F).get_rvalue(ExpressionSize<1>(j));
    return 1;
  }
  return 0;
}

} // namespace aad
