// Shared harness helpers: a Stack subclass that can see the protected members,
// and line-protocol utilities.  Included by every driver.
#ifndef VERIF_SPY_H
#define VERIF_SPY_H
#include <adept_arrays.h>
#include <cstdio>
#include <cstring>
#include <string>
#include <vector>
#include <sstream>
#include <iostream>
#include <iterator>

namespace verif {

class SpyStack : public adept::Stack {
public:
  SpyStack(bool activate_immediately = true) : adept::Stack(activate_immediately) {}
  // position of most_recent_gap_ in gap_list_, -1 for end()
  int cursor_pos() {
    if (most_recent_gap_ == gap_list_.end()) return -1;
    int p = 0;
    for (GapListIterator it = gap_list_.begin(); it != gap_list_.end(); ++it, ++p)
      if (it == most_recent_gap_) return p;
    return -2; // dangling iterator
  }
  std::string alloc_line(long ret, bool has_ret) {
    std::ostringstream os;
    if (has_ret) os << ret; else os << "-";
    os << " ig=" << i_gradient_ << " mg=" << max_gradient_ << " nr=" << n_gradients_registered_ << " gaps=[";
    bool first = true;
    for (GapListIterator it = gap_list_.begin(); it != gap_list_.end(); ++it) {
      if (!first) os << ",";
      first = false;
      os << it->start << "-" << it->end;
    }
    os << "] cur=";
    int c = cursor_pos();
    if (c == -1) os << "e"; else os << c;
    return os.str();
  }
  // tape access
  adept::uIndex st_index(adept::uIndex i) const { return statement_[i].index; }
  adept::uIndex st_end(adept::uIndex i) const { return statement_[i].end_plus_one; }
  adept::Real op_mult(adept::uIndex i) const { return multiplier_[i]; }
  adept::uIndex op_index(adept::uIndex i) const { return index_[i]; }
  bool grads_init() const { return gradients_initialized_; }
  adept::uIndex n_alloc_grad() const { return n_allocated_gradients_; }
};

inline std::vector<std::string> words(const std::string& line) {
  std::istringstream is(line);
  return std::vector<std::string>((std::istream_iterator<std::string>(is)), std::istream_iterator<std::string>());
}

} // namespace verif
#endif
