// Shared harness helpers: a Stack subclass that can see the protected members,
// and line-protocol utilities.  Included by every driver.
#ifndef VERIF_SPY_H
#define VERIF_SPY_H
#include <adept_arrays.h>
#include <cstdio>
#include <cstring>
#include <string>
#include <vector>
#include <sstream>
#include <iostream>
#include <iterator>

namespace verif {

class SpyStack : public adept::Stack {
public:
  SpyStack(bool activate_immediately = true) : adept::Stack(activate_immediately) {}
  // position of most_recent_gap_ in gap_list_, -1 for end()
  int cursor_pos() {
    if (most_recent_gap_ == gap_list_.end()) return -1;
    int p = 0;
    for (GapListIterator it = gap_list_.begin(); it != gap_list_.end(); ++it, ++p)
      if (it == most_recent_gap_) return p;
    return -2; // dangling iterator
  }
  std::string alloc_line(long ret, bool has_ret) {
    std::ostringstream os;
    if (has_ret) os << ret; else os << "-";
    os << " ig=" << i_gradient_ << " mg=" << max_gradient_ << " nr=" << n_gradients_registered_ << " gaps=[";
    bool first = true;
    for (GapListIterator it = gap_list_.begin(); it != gap_list_.end(); ++it) {
      if (!first) os << ",";
      first = false;
      os << it->start << "-" << it->end;
    }
    os << "] cur=";
    int c = cursor_pos();
    if (c == -1) os << "e"; else os << c;
    return os.str();
  }
  // tape access
  adept::uIndex st_index(adept::uIndex i) const { return statement_[i].index; }
  adept::uIndex st_end(adept::uIndex i) const { return statement_[i].end_plus_one; }
  adept::Real op_mult(adept::uIndex i) const { return multiplier_[i]; }
  adept::uIndex op_index(adept::uIndex i) const { return index_[i]; }
  bool grads_init() const { return gradients_initialized_; }
  adept::uIndex indep_idx(std::size_t i) const { return independent_index_[i]; }
  adept::uIndex dep_idx(std::size_t i) const { return dependent_index_[i]; }
  adept::uIndex n_alloc_grad() const { return n_allocated_gradients_; }
};

inline std::vector<std::string> words(const std::string& line) {
  std::istringstream is(line);
  return std::vector<std::string>((std::istream_iterator<std::string>(is)), std::istream_iterator<std::string>());
}

} // namespace verif

// ---- hook H1: event log of the recording buffers (only when built with the verification guard) ----
#ifdef RJHOGAN_ADEPT_2_VERIF
namespace verif {
struct EventLog {
  static std::string& buf() { static std::string b; return b; }
  static long& faults() { static long f = 0; return f; }
  static void cb(char kind, long a, long b) {
    std::string& s = buf();
    char tmp[64];
    switch (kind) {
      case 'c': snprintf(tmp, sizeof tmp, " c%ld", a); s += tmp; break;
      case 'p': s += " p"; break;
      case 'i': snprintf(tmp, sizeof tmp, " i%ldx%ld", a, b); s += tmp; break;
      case 'l': s += " l"; break;
      case 'r': snprintf(tmp, sizeof tmp, " r%ld", a); s += tmp; break;
      case 'g': case 's': break;   // growth is a consequence, not an input, of the model
      case 'F': faults()++; snprintf(tmp, sizeof tmp, " F%ld/%ld", a, b); s += tmp; break;
      default: break;
    }
  }
  static void install() { adept::internal::verif_event_ = &EventLog::cb; }
  static void uninstall() { adept::internal::verif_event_ = 0; }
  // "E <nOps>/<allocOps> <nSt>/<allocSt> :<events since the last call>"
  static std::string take(const adept::Stack& st) {
    std::ostringstream os;
    os << "E " << st.n_operations() << "/" << st.n_allocated_operations() << " "
       << st.n_statements() << "/" << st.n_allocated_statements() << " :" << buf();
    buf().clear();
    return os.str();
  }
};
} // namespace verif
#endif
#endif
