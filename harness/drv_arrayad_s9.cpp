// arrayad driver, statement menu part 9: RANK-4 targets / operands (the theorems of C03 are rank-generic; parts 1..8 stop at
// rank 3).  Same op words and argument order as the rank 1..3 menu; dispatched first, answers 0 ("not mine") unless the
// statement's array is of rank 4.
//   copy T A     neg T A     bin <op> T A B     binsl <op> T c A     binsr <op> T A c     cmp <op> T A     n1 T A B C (A*B + C)
//   mm <fn> T A B            red <f> S A        rdim <f> N A d  (N of rank 3)             spr <d> T a n  (a of rank 3)
#include "drv_arrayad.h"
#include <type_traits>
namespace aad {
using namespace adept;

static int opcode(const std::string& s) { return s == "add" ? 0 : s == "sub" ? 1 : s == "mul" ? 2 : s == "div" ? 3 : -1; }
static int fcode(const std::string& s) { return s == "sum" ? 0 : s == "mean" ? 1 : s == "product" ? 2 : s == "minval" ? 3 : s == "maxval" ? 4 : s == "norm2" ? 5 : -1; }
static Obj* target4(const std::string& w) { Obj* T = get(w); return (T && T->kind == K_ARR && T->active && T->rank == 4) ? T : 0; }

int exec_s9(const Words& w, Ctx& c) {
  const std::string& k = w[0];
  if ((k == "copy" || k == "neg") && w.size() == 3) {
    Obj* T = target4(w[1]); if (!T) return 0;
    Obj* A = geta(w[2], 4); if (!A) return -1;
    c.pre({T, A});
    auto& t = as<4, true>(*T); bool ng = k == "neg";
    return with<4>(A, [&](auto& a) { if (ng) t = -a; else t = a; return true; }) ? 1 : -1;
  }
  if (k == "bin" && w.size() == 5) {
    Obj* T = target4(w[2]); if (!T) return 0;
    int op = opcode(w[1]); Obj* A = geta(w[3], 4); Obj* B = geta(w[4], 4); if (op < 0 || !A || !B) return -1;
    c.pre({T, A, B});
    auto& t = as<4, true>(*T);
    return with<4>(A, [&](auto& a) { return with<4>(B, [&](auto& b) {
      switch (op) { case 0: t = a + b; break; case 1: t = a - b; break; case 2: t = a * b; break; default: t = a / b; }
      return true; }); }) ? 1 : -1;
  }
  if ((k == "binsl" || k == "binsr") && w.size() == 5) {
    Obj* T = target4(w[2]); if (!T) return 0;
    int op = opcode(w[1]); bool left = k == "binsl"; double cv = atof(w[left ? 3 : 4].c_str());
    Obj* A = getat(w[left ? 4 : 3], 4); if (op < 0 || !A) return -1;
    c.pre({T, A});
    auto& t = as<4, true>(*T); auto& a = as<4, true>(*A);
    if (left) switch (op) { case 0: t = cv + a; break; case 1: t = cv - a; break; case 2: t = cv * a; break; default: t = cv / a; }
    else switch (op) { case 0: t = a + cv; break; case 1: t = a - cv; break; case 2: t = a * cv; break; default: t = a / cv; }
    return 1;
  }
  if (k == "cmp" && w.size() == 4) {
    Obj* T = target4(w[2]); if (!T) return 0;
    int op = opcode(w[1]); Obj* A = geta(w[3], 4); if (op < 0 || !A) return -1;
    c.pre({T, A});
    auto& t = as<4, true>(*T);
    return with<4>(A, [&](auto& a) {
      switch (op) { case 0: t += a; break; case 1: t -= a; break; case 2: t *= a; break; default: t /= a; }
      return true; }) ? 1 : -1;
  }
  if (k == "n1" && w.size() == 5) {
    Obj* T = target4(w[1]); if (!T) return 0;
    Obj* A = getat(w[2], 4); Obj* B = geta(w[3], 4); Obj* C = geta(w[4], 4); if (!A || !B || !C) return -1;
    c.pre({T, A, B, C});
    auto& t = as<4, true>(*T); auto& a = as<4, true>(*A);
    return with<4>(B, [&](auto& b) { return with<4>(C, [&](auto& cc) { t = a * b + cc; return true; }); }) ? 1 : -1;
  }
  if (k == "mm" && w.size() == 5) {
    Obj* T = target4(w[2]); if (!T) return 0;
    bool mn = w[1] == "min" || w[1] == "fmin"; if (!mn && w[1] != "max" && w[1] != "fmax") return -1;
    Obj* A = geta(w[3], 4); Obj* B = geta(w[4], 4); if (!A || !B) return -1;
    c.pre({T, A, B});
    auto& t = as<4, true>(*T);
    return with<4>(A, [&](auto& a) { return with<4>(B, [&](auto& b) {
      if (mn) t = adept::fmin(a, b); else t = adept::fmax(a, b); return true; }); }) ? 1 : -1;
  }
  if (k == "red" && w.size() == 4) {
    Obj* A = get(w[3]); if (!A || A->kind != K_ARR || A->rank != 4) return 0;
    int f = fcode(w[1]); Obj* S = getk(w[2], K_SCAL); if (f < 0 || !S || !A->active) return -1;
    c.pre({S, A});
    adouble& s = asS(*S); auto& a = as<4, true>(*A);
    switch (f) { case 0: s = sum(a); break; case 1: s = mean(a); break; case 2: s = product(a); break;
                 case 3: s = minval(a); break; case 4: s = maxval(a); break; default: s = norm2(a); }
    return 1;
  }
  if (k == "rdim" && w.size() == 5) {
    Obj* A = get(w[3]); if (!A || A->kind != K_ARR || A->rank != 4) return 0;
    int f = fcode(w[1]); int d = atoi(w[4].c_str()); if (f < 0 || get(w[2]) || !A->active) return -1;
    long nh = atol(w[2].c_str());
    c.pre({A, A});
    auto& a = as<4, true>(*A);
    Array<3, double, true>* n = new Array<3, double, true>();
    try {
      switch (f) { case 0: *n = sum(a, d); break; case 1: *n = mean(a, d); break; case 2: *n = product(a, d); break;
                   case 3: *n = minval(a, d); break; case 4: *n = maxval(a, d); break; default: *n = norm2(a, d); }
    } catch (...) { delete n; throw; }
    add_root<3, true>(nh, n); c.newh = nh; return 1;
  }
  if (k == "spr" && w.size() == 5) {
    Obj* T = target4(w[2]); if (!T) return 0;
    int d = atoi(w[1].c_str()); Obj* A = geta(w[3], 3); Index n = atoi(w[4].c_str()); if (!A || d < 0 || d > 3) return -1;
    c.pre({T, A});
    auto& t = as<4, true>(*T);
    return with<3>(A, [&](auto& a) {
      switch (d) { case 0: t = spread<0>(a, n); break; case 1: t = spread<1>(a, n); break; case 2: t = spread<2>(a, n); break;
                   default: t = spread<3>(a, n); }
      return true; }) ? 1 : -1;
  }
  return 0;
}

} // namespace aad
