// drv_matmul: passive fixed-size arrays (see drv_matmul.h)
#include "drv_matmul.h"
#define MM_FIXED_ACT false
#define MM_FIXED_FN build_group_fixed_p
#include "drv_matmul_fixed.h"
