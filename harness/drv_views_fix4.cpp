// the rank-4 FixedArray parent FixedArray<int,false,2,3,4,5> (pairwise different extents; see drv_views_fix.cpp)
#include "drv_views.h"
VBase* make_fixed4(Fix4*& f4) { return make_fixed_one(f4); }
