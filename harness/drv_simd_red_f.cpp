// C05 driver: red family for float (split over translation units to keep compile time down)
#include "drv_simd_red.h"
namespace simd { std::string red_f(const Words& w) { return dispatch_red<float>(w); } }
