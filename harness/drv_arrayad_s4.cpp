// arrayad driver, statement menu part 4: reductions, products, element access, Float-regime functions, FixedArrays.
//   red <f> S A        S = f(A)         rede <f> S A B   S = f(A*B)        f in sum mean product minval maxval norm2; S an adouble
//   rdim <f> N A d     N (new handle) = f(A, d)          rdime <f> N A B d   N = f(A*B, d)        rank(A) in 2..3
//   dot S a b          S = dot_product(a, b)             outer T a b   T = outer_product(a, b)
//   spr <d> T a n      T = spread<d>(a, n)               spre <d> T a n B    T = spread<d>(a, n) * B      rank(a) in 1..2
//   elr S A : i..      S = A(i..)  (ActiveReference)     elrc S A : i..      S = const(A)(i..)  (ActiveConstReference)
//   elw A S1 S2 : i..  A(i..) = S1*S2                    elc <op> A S : i..  A(i..) op= S
//   elcp A B : i.. : j..   A(i..) = const(B)(j..)        elx S A B : i.. : j..   S = A(i..)*const(B)(j..)
//   fsin T A   T = sin(A)      fexpm T A B   T = exp(A)*B      fsqrt T A   T = sqrt(A)          (Float regime; oracle only)
//   fxcopy F A   F = A      fxbin <op> F A B   F = A op B      fxsrc <op> T F A   T = F op A      fxff <op> F F1 F2   F = F1 op F2
//   fxbcp F c    F = c      fxbca F s          F = s           fxcmp <op> F A     F op= A         fxred <f> S F       S = f(F)
#include "drv_arrayad.h"
#include <type_traits>
using namespace adept;
namespace aad {

template <class F> static int by_rank(int r, F&& f) {
  switch (r) {
    case 1: return f(std::integral_constant<int, 1>());
    case 2: return f(std::integral_constant<int, 2>());
    case 3: return f(std::integral_constant<int, 3>());
  }
  return -1;
}
static int opcode(const std::string& s) { return s == "add" ? 0 : s == "sub" ? 1 : s == "mul" ? 2 : s == "div" ? 3 : -1; }
static int fcode(const std::string& s) { return s == "sum" ? 0 : s == "mean" ? 1 : s == "product" ? 2 : s == "minval" ? 3 : s == "maxval" ? 4 : s == "norm2" ? 5 : -1; }
static Obj* target(const std::string& w) { Obj* T = get(w); return (T && T->kind == K_ARR && T->active) ? T : 0; }

template <class E> static void reduce_to(adouble& s, int f, const E& e) {
  switch (f) { case 0: s = sum(e); break; case 1: s = mean(e); break; case 2: s = product(e); break;
               case 3: s = minval(e); break; case 4: s = maxval(e); break; default: s = norm2(e); }
}
template <int R, class E> static Array<R - 1, double, true>* reduce_dim(int f, const E& e, int d) {
  Array<R - 1, double, true>* n = new Array<R - 1, double, true>();
  try {
    switch (f) { case 0: *n = sum(e, d); break; case 1: *n = mean(e, d); break; case 2: *n = product(e, d); break;
                 case 3: *n = minval(e, d); break; case 4: *n = maxval(e, d); break; default: *n = norm2(e, d); }
  } catch (...) { delete n; throw; }
  return n;
}

static bool parse_idx(const Words& w, size_t from, std::vector<Index>& a, std::vector<Index>& b) {
  size_t i = from;
  if (i >= w.size() || w[i] != ":") return false;
  for (++i; i < w.size() && w[i] != ":"; ++i) a.push_back(atoi(w[i].c_str()));
  if (i < w.size()) for (++i; i < w.size(); ++i) b.push_back(atoi(w[i].c_str()));
  return true;
}
template <int R, class A> static auto at(A& a, const std::vector<Index>& i) -> decltype(a(i[0])) ;
template <class A> static decltype(auto) at1(A& a, const std::vector<Index>& i) { return a(i[0]); }
template <class A> static decltype(auto) at2(A& a, const std::vector<Index>& i) { return a(i[0], i[1]); }
template <class A> static decltype(auto) at3(A& a, const std::vector<Index>& i) { return a(i[0], i[1], i[2]); }
#define AT(R, a, i) [&]() -> decltype(auto) { if constexpr (R == 1) return at1(a, i); else if constexpr (R == 2) return at2(a, i); else return at3(a, i); }()

template <class Fn> static bool withF(Obj* o, Fn&& f) {
  if (!o) return false;
  if (o->kind == K_FA4) return f(asF4(*o), std::integral_constant<int, 1>());
  if (o->kind == K_FA23) return f(asF23(*o), std::integral_constant<int, 2>());
  return false;
}

int exec_s4(const Words& w, Ctx& c) {
  const std::string& k = w[0];
  if (k == "red" && w.size() == 4) {
    int f = fcode(w[1]); Obj* S = getk(w[2], K_SCAL); Obj* A = get(w[3]); if (f < 0 || !S || !A || A->kind != K_ARR || !A->active) return -1;
    c.pre({S, A});
    return by_rank(A->rank, [&](auto Rc) { constexpr int R = decltype(Rc)::value; reduce_to(asS(*S), f, as<R, true>(*A)); return 1; });
  }
  if ((k == "rede" && w.size() == 5) || (k == "dot" && w.size() == 4)) {
    bool dot = k == "dot";
    int f = dot ? 0 : fcode(w[1]); Obj* S = getk(w[dot ? 1 : 2], K_SCAL); Obj* A = get(w[dot ? 2 : 3]);
    if (f < 0 || !S || !A || A->kind != K_ARR || !A->active || (dot && A->rank != 1)) return -1;
    return by_rank(A->rank, [&](auto Rc) {
      constexpr int R = decltype(Rc)::value;
      Obj* B = geta(w[dot ? 3 : 4], R); if (!B) return -1;
      c.pre({S, A, B});
      auto& a = as<R, true>(*A);
      return with<R>(B, [&](auto& b) {
        if constexpr (R == 1) { if (dot) { asS(*S) = dot_product(a, b); return true; } }
        reduce_to(asS(*S), f, a * b); return true; }) ? 1 : -1;
    });
  }
  if ((k == "rdim" && w.size() == 5) || (k == "rdime" && w.size() == 6)) {
    bool ex = k == "rdime";
    int f = fcode(w[1]); Obj* A = get(w[3]); int d = atoi(w[ex ? 5 : 4].c_str());
    if (f < 0 || get(w[2]) || !A || A->kind != K_ARR || !A->active || A->rank < 2) return -1;
    long nh = atol(w[2].c_str());
    if (A->rank == 2) {
      Obj* B = ex ? geta(w[4], 2) : 0; if (ex && !B) return -1;
      if (ex) c.pre({A, A, B}); else c.pre({A, A});
      Array<1, double, true>* n = 0;
      if (ex) { if (!with<2>(B, [&](auto& b) { n = reduce_dim<2>(f, as<2, true>(*A) * b, d); return true; })) return -1; }
      else n = reduce_dim<2>(f, as<2, true>(*A), d);
      add_root<1, true>(nh, n); c.newh = nh; return 1;
    } else {
      Obj* B = ex ? geta(w[4], 3) : 0; if (ex && !B) return -1;
      if (ex) c.pre({A, A, B}); else c.pre({A, A});
      Array<2, double, true>* n = 0;
      if (ex) { if (!with<3>(B, [&](auto& b) { n = reduce_dim<3>(f, as<3, true>(*A) * b, d); return true; })) return -1; }
      else n = reduce_dim<3>(f, as<3, true>(*A), d);
      add_root<2, true>(nh, n); c.newh = nh; return 1;
    }
  }
  if (k == "outer" && w.size() == 4) {
    Obj* T = getat(w[1], 2); Obj* A = geta(w[2], 1); Obj* B = geta(w[3], 1); if (!T || !A || !B) return -1;
    c.pre({T, A, B});
    return with<1>(A, [&](auto& a) { return with<1>(B, [&](auto& b) { as<2, true>(*T) = outer_product(a, b); return true; }); }) ? 1 : -1;
  }
  if ((k == "spr" && w.size() == 5) || (k == "spre" && w.size() == 6)) {
    bool ex = k == "spre";
    int d = atoi(w[1].c_str()); Obj* T = target(w[2]); Obj* A = get(w[3]); Index n = atoi(w[4].c_str());
    if (!T || !A || A->kind != K_ARR || A->rank + 1 != T->rank || d < 0 || d > A->rank) return -1;
    if (A->rank == 1) {
      Obj* B = ex ? geta(w[5], 2) : 0; if (ex && !B) return -1;
      if (ex) c.pre({T, A, B}); else c.pre({T, A});
      auto& t = as<2, true>(*T);
      return with<1>(A, [&](auto& a) {
        if (!ex) { if (d == 0) t = spread<0>(a, n); else t = spread<1>(a, n); return true; }
        return with<2>(B, [&](auto& b) { if (d == 0) t = spread<0>(a, n) * b; else t = spread<1>(a, n) * b; return true; }); }) ? 1 : -1;
    } else if (A->rank == 2 && !ex) {
      c.pre({T, A});
      auto& t = as<3, true>(*T);
      return with<2>(A, [&](auto& a) { if (d == 0) t = spread<0>(a, n); else if (d == 1) t = spread<1>(a, n); else t = spread<2>(a, n); return true; }) ? 1 : -1;
    }
    return -1;
  }
  // ---- element access
  if ((k == "elr" || k == "elrc") && w.size() >= 5) {
    Obj* S = getk(w[1], K_SCAL); Obj* A = get(w[2]); std::vector<Index> i, j;
    if (!S || !A || A->kind != K_ARR || !A->active || !parse_idx(w, 3, i, j) || (int)i.size() != A->rank) return -1;
    c.pre({S, A});
    bool cst = k == "elrc";
    return by_rank(A->rank, [&](auto Rc) {
      constexpr int R = decltype(Rc)::value; auto& a = as<R, true>(*A); const auto& ca = a;
      if (cst) asS(*S) = AT(R, ca, i); else asS(*S) = AT(R, a, i);
      return 1; });
  }
  if (k == "elw" && w.size() >= 6) {
    Obj* A = get(w[1]); Obj* S1 = getk(w[2], K_SCAL); Obj* S2 = getk(w[3], K_SCAL); std::vector<Index> i, j;
    if (!S1 || !S2 || !A || A->kind != K_ARR || !A->active || !parse_idx(w, 4, i, j) || (int)i.size() != A->rank) return -1;
    c.pre({A, S1, S2});
    return by_rank(A->rank, [&](auto Rc) { constexpr int R = decltype(Rc)::value; auto& a = as<R, true>(*A); AT(R, a, i) = asS(*S1) * asS(*S2); return 1; });
  }
  if (k == "elc" && w.size() >= 6) {
    int op = opcode(w[1]); Obj* A = get(w[2]); Obj* S = getk(w[3], K_SCAL); std::vector<Index> i, j;
    if (op < 0 || !S || !A || A->kind != K_ARR || !A->active || !parse_idx(w, 4, i, j) || (int)i.size() != A->rank) return -1;
    c.pre({A, S});
    return by_rank(A->rank, [&](auto Rc) {
      constexpr int R = decltype(Rc)::value; auto& a = as<R, true>(*A); const adouble& s = asS(*S);
      switch (op) { case 0: AT(R, a, i) += s; break; case 1: AT(R, a, i) -= s; break; case 2: AT(R, a, i) *= s; break; default: AT(R, a, i) /= s; }
      return 1; });
  }
  if ((k == "elcp" || k == "elx") && w.size() >= 7) {
    bool x = k == "elx";
    Obj* S = x ? getk(w[1], K_SCAL) : 0; Obj* A = get(w[x ? 2 : 1]); Obj* B = get(w[x ? 3 : 2]); std::vector<Index> i, j;
    if ((x && !S) || !A || !B || A->kind != K_ARR || B->kind != K_ARR || !A->active || !B->active || A->rank != B->rank
        || !parse_idx(w, x ? 4 : 3, i, j) || (int)i.size() != A->rank || (int)j.size() != A->rank) return -1;
    if (x) c.pre({S, A, B}); else c.pre({A, B});
    return by_rank(A->rank, [&](auto Rc) {
      constexpr int R = decltype(Rc)::value; auto& a = as<R, true>(*A); const auto& cb = as<R, true>(*B);
      if (x) asS(*S) = AT(R, a, i) * AT(R, cb, j); else AT(R, a, i) = AT(R, cb, j);
      return 1; });
  }
  // ---- Float regime
  if ((k == "fsin" || k == "fsqrt") && w.size() == 3) {
    Obj* T = target(w[1]); if (!T || T->rank > 2) return -1;
    Obj* A = getat(w[2], T->rank); if (!A) return -1;
    c.pre({T, A});
    bool s = k == "fsin";
    return by_rank(T->rank, [&](auto Rc) {
      constexpr int R = decltype(Rc)::value;
      if constexpr (R <= 2) { if (s) as<R, true>(*T) = sin(as<R, true>(*A)); else as<R, true>(*T) = sqrt(as<R, true>(*A)); }
      return 1; });
  }
  if (k == "fexpm" && w.size() == 4) {
    Obj* T = target(w[1]); if (!T || T->rank > 2) return -1;
    Obj* A = getat(w[2], T->rank); Obj* B = geta(w[3], T->rank); if (!A || !B) return -1;
    c.pre({T, A, B});
    return by_rank(T->rank, [&](auto Rc) {
      constexpr int R = decltype(Rc)::value;
      if constexpr (R <= 2) return with<R>(B, [&](auto& b) { as<R, true>(*T) = exp(as<R, true>(*A)) * b; return true; }) ? 1 : -1;
      return -1; });
  }
  // ---- FixedArray targets and sources
  if (k == "fxcopy" && w.size() == 3) {
    Obj* F = get(w[1]);
    return withF(F, [&](auto& f, auto Rc) {
      constexpr int R = decltype(Rc)::value; Obj* A = geta(w[2], R); if (!A) return false;
      c.pre({F, A});
      return with<R>(A, [&](auto& a) { f = a; return true; }); }) ? 1 : -1;
  }
  if (k == "fxbin" && w.size() == 5) {
    int op = opcode(w[1]); Obj* F = get(w[2]); if (op < 0) return -1;
    return withF(F, [&](auto& f, auto Rc) {
      constexpr int R = decltype(Rc)::value; Obj* A = getat(w[3], R); Obj* B = geta(w[4], R); if (!A || !B) return false;
      c.pre({F, A, B});
      auto& a = as<R, true>(*A);
      return with<R>(B, [&](auto& b) {
        switch (op) { case 0: f = a + b; break; case 1: f = a - b; break; case 2: f = a * b; break; default: f = a / b; }
        return true; }); }) ? 1 : -1;
  }
  if (k == "fxsrc" && w.size() == 5) {
    int op = opcode(w[1]); Obj* T = target(w[2]); Obj* F = get(w[3]); if (op < 0 || !T) return -1;
    return withF(F, [&](auto& f, auto Rc) {
      constexpr int R = decltype(Rc)::value; Obj* A = geta(w[4], R); if (!A || T->rank != R) return false;
      c.pre({T, F, A});
      auto& t = as<R, true>(*T);
      return with<R>(A, [&](auto& a) {
        switch (op) { case 0: t = f + a; break; case 1: t = f - a; break; case 2: t = f * a; break; default: t = f / a; }
        return true; }); }) ? 1 : -1;
  }
  if (k == "fxff" && w.size() == 5) {
    int op = opcode(w[1]); Obj* F = get(w[2]); Obj* F1 = get(w[3]); Obj* F2 = get(w[4]);
    if (op < 0 || !F || !F1 || !F2 || F1->kind != F->kind || F2->kind != F->kind) return -1;
    return withF(F, [&](auto& f, auto Rc) {
      typedef typename std::remove_reference<decltype(f)>::type FT;
      FT& f1 = *static_cast<FT*>(F1->p); FT& f2 = *static_cast<FT*>(F2->p);
      c.pre({F, F1, F2});
      switch (op) { case 0: f = f1 + f2; break; case 1: f = f1 - f2; break; case 2: f = f1 * f2; break; default: f = f1 / f2; }
      return true; }) ? 1 : -1;
  }
  if (k == "fxbcp" && w.size() == 3) {
    Obj* F = get(w[1]); double cv = atof(w[2].c_str());
    return withF(F, [&](auto& f, auto) { c.pre({F}); f = cv; return true; }) ? 1 : -1;
  }
  if (k == "fxbca" && w.size() == 3) {
    Obj* F = get(w[1]); Obj* S = getk(w[2], K_SCAL); if (!S) return -1;
    return withF(F, [&](auto& f, auto) { c.pre({F, S}); f = asS(*S); return true; }) ? 1 : -1;
  }
  if (k == "fxcmp" && w.size() == 4) {
    int op = opcode(w[1]); Obj* F = get(w[2]); if (op < 0) return -1;
    return withF(F, [&](auto& f, auto Rc) {
      constexpr int R = decltype(Rc)::value; Obj* A = geta(w[3], R); if (!A) return false;
      c.pre({F, A});
      return with<R>(A, [&](auto& a) {
        switch (op) { case 0: f += a; break; case 1: f -= a; break; case 2: f *= a; break; default: f /= a; }
        return true; }); }) ? 1 : -1;
  }
  if (k == "fxred" && w.size() == 4) {
    int fn = fcode(w[1]); Obj* S = getk(w[2], K_SCAL); Obj* F = get(w[3]); if (fn < 0 || !S) return -1;
    return withF(F, [&](auto& f, auto) { c.pre({S, F}); reduce_to(asS(*S), fn, f); return true; }) ? 1 : -1;
  }
  return 0;
}

} // namespace aad
