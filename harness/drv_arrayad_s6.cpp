// arrayad driver, statement menu part 6: element-wise binary FUNCTIONS max/min/fmax/fmin (policy classes Max, Min of
// BinaryOperation.h) and abs/fabs, in the exact regime (integers; the tie rule of Max/Min::is_left is part of the model
// and of the oracle).  <fn> in max min fmax fmin.
//   mm <fn> T A B        T = fn(A, B)                  A, B active or passive in any combination, rank 1..3
//   mmsl <fn> T c A      T = fn(c, A)                  passive scalar on the left     mmsr <fn> T A c   T = fn(A, c)
//   mmal <fn> T s A      T = fn(s, A)                  s an adouble                   mmar <fn> T A s   T = fn(A, s)
//   mmn1 <fn> T A B C    T = C * fn(A - B, C)          (multiplier form; four array slots)          rank 1..2, A active
//   mmn2 <fn> T A B C    T = fn'(fn(A, B), C)          fn' = the opposite of fn (a clamp)            rank 1..2, A active
//   mmred <fn> S A B     S = sum(fn(A, B))             rank 1..2, A active
//   ab <abs|fabs> T A    T = fn(A)                     abn <abs|fabs> T A B   T = B * fn(A - B)      rank 1..3, A active
#include "drv_arrayad.h"
#include <type_traits>
namespace aad {
using namespace adept;

template <class F> static int by_rank(int r, int maxr, F&& f) {
  if (r > maxr) return -1;
  switch (r) {
    case 1: return f(std::integral_constant<int, 1>());
    case 2: return f(std::integral_constant<int, 2>());
    case 3: return f(std::integral_constant<int, 3>());
  }
  return -1;
}
// 0 max, 1 min, 2 fmax, 3 fmin
static int fncode(const std::string& s) { return s == "max" ? 0 : s == "min" ? 1 : s == "fmax" ? 2 : s == "fmin" ? 3 : -1; }
static Obj* target(const std::string& w) { Obj* T = get(w); return (T && T->kind == K_ARR && T->active) ? T : 0; }

int exec_s6(const Words& w, Ctx& c) {
  const std::string& k = w[0];
  if (k == "mm" && w.size() == 5) {
    int fn = fncode(w[1]); Obj* T = target(w[2]); if (fn < 0 || !T) return -1;
    return by_rank(T->rank, 3, [&](auto Rc) {
      constexpr int R = decltype(Rc)::value;
      Obj* A = geta(w[3], R); Obj* B = geta(w[4], R); if (!A || !B) return -1;
      c.pre({T, A, B});
      auto& t = as<R, true>(*T);
      return with<R>(A, [&](auto& a) { return with<R>(B, [&](auto& b) {
        switch (fn) { case 0: t = adept::max(a, b); break; case 1: t = adept::min(a, b); break;
                      case 2: t = adept::fmax(a, b); break; default: t = adept::fmin(a, b); }
        return true; }); }) ? 1 : -1;
    });
  }
  if ((k == "mmsl" || k == "mmsr") && w.size() == 5) {
    int fn = fncode(w[1]); Obj* T = target(w[2]); if (fn < 0 || !T) return -1;
    bool left = k == "mmsl";
    double cv = atof(w[left ? 3 : 4].c_str());
    return by_rank(T->rank, 3, [&](auto Rc) {
      constexpr int R = decltype(Rc)::value;
      Obj* A = getat(w[left ? 4 : 3], R); if (!A) return -1;
      c.pre({T, A});
      auto& t = as<R, true>(*T); auto& a = as<R, true>(*A);
      if (left) switch (fn) { case 0: t = adept::max(cv, a); break; case 1: t = adept::min(cv, a); break;
                              case 2: t = adept::fmax(cv, a); break; default: t = adept::fmin(cv, a); }
      else switch (fn) { case 0: t = adept::max(a, cv); break; case 1: t = adept::min(a, cv); break;
                         case 2: t = adept::fmax(a, cv); break; default: t = adept::fmin(a, cv); }
      return 1;
    });
  }
  if ((k == "mmal" || k == "mmar") && w.size() == 5) {
    int fn = fncode(w[1]); Obj* T = target(w[2]); if (fn < 0 || !T) return -1;
    bool left = k == "mmal";
    Obj* S = getk(w[left ? 3 : 4], K_SCAL); if (!S) return -1;
    return by_rank(T->rank, 3, [&](auto Rc) {
      constexpr int R = decltype(Rc)::value;
      Obj* A = geta(w[left ? 4 : 3], R); if (!A) return -1;
      c.pre({T, S, A});
      auto& t = as<R, true>(*T); const adouble& s = asS(*S);
      return with<R>(A, [&](auto& a) {
        if (left) switch (fn) { case 0: t = adept::max(s, a); break; case 1: t = adept::min(s, a); break;
                                case 2: t = adept::fmax(s, a); break; default: t = adept::fmin(s, a); }
        else switch (fn) { case 0: t = adept::max(a, s); break; case 1: t = adept::min(a, s); break;
                           case 2: t = adept::fmax(a, s); break; default: t = adept::fmin(a, s); }
        return true; }) ? 1 : -1;
    });
  }
  if ((k == "mmn1" || k == "mmn2") && w.size() == 6) {
    int fn = fncode(w[1]); Obj* T = target(w[2]); if (fn < 0 || !T) return -1;
    bool one = k == "mmn1";
    return by_rank(T->rank, 2, [&](auto Rc) {
      constexpr int R = decltype(Rc)::value;
      if constexpr (R <= 2) {
        Obj* A = getat(w[3], R); Obj* B = geta(w[4], R); Obj* C = geta(w[5], R); if (!A || !B || !C) return -1;
        c.pre({T, A, B, C});
        auto& t = as<R, true>(*T); auto& a = as<R, true>(*A);
        return with<R>(B, [&](auto& b) { return with<R>(C, [&](auto& cc) {
          if (one) { if (fn & 1) t = cc * adept::fmin(a - b, cc); else t = cc * adept::fmax(a - b, cc); }
          else { if (fn & 1) t = adept::fmax(adept::fmin(a, b), cc); else t = adept::fmin(adept::fmax(a, b), cc); }
          return true; }); }) ? 1 : -1;
      }
      return -1;
    });
  }
  if (k == "mmred" && w.size() == 5) {
    int fn = fncode(w[1]); Obj* S = getk(w[2], K_SCAL); Obj* A0 = get(w[3]);
    if (fn < 0 || !S || !A0 || A0->kind != K_ARR || !A0->active) return -1;
    return by_rank(A0->rank, 2, [&](auto Rc) {
      constexpr int R = decltype(Rc)::value;
      if constexpr (R <= 2) {
        Obj* A = getat(w[3], R); Obj* B = geta(w[4], R); if (!A || !B) return -1;
        c.pre({S, A, B});
        auto& a = as<R, true>(*A);
        return with<R>(B, [&](auto& b) {
          if (fn & 1) asS(*S) = sum(adept::fmin(a, b)); else asS(*S) = sum(adept::fmax(a, b));
          return true; }) ? 1 : -1;
      }
      return -1;
    });
  }
  if (k == "ab" && w.size() == 4) {
    bool f = w[1] == "fabs"; Obj* T = target(w[2]); if ((!f && w[1] != "abs") || !T) return -1;
    return by_rank(T->rank, 3, [&](auto Rc) {
      constexpr int R = decltype(Rc)::value;
      Obj* A = getat(w[3], R); if (!A) return -1;
      c.pre({T, A});
      if (f) as<R, true>(*T) = fabs(as<R, true>(*A)); else as<R, true>(*T) = abs(as<R, true>(*A));
      return 1;
    });
  }
  if (k == "abn" && w.size() == 5) {
    bool f = w[1] == "fabs"; Obj* T = target(w[2]); if ((!f && w[1] != "abs") || !T) return -1;
    return by_rank(T->rank, 3, [&](auto Rc) {
      constexpr int R = decltype(Rc)::value;
      Obj* A = getat(w[3], R); Obj* B = geta(w[4], R); if (!A || !B) return -1;
      c.pre({T, A, B});
      auto& t = as<R, true>(*T); auto& a = as<R, true>(*A);
      return with<R>(B, [&](auto& b) { if (f) t = b * fabs(a - b); else t = b * abs(a - b); return true; }) ? 1 : -1;
    });
  }
  return 0;
}

} // namespace aad
