// arrayad driver, statement menu part 3: conditional assignment and integer-vector indexing (ranks 1 and 2).
//   whr T A B C      T.where(A > B) = C            whrs T A B c   T.where(A > B) = c (passive scalar)
//   (T.where(mask) = <adouble> does not compile with the pinned library: assign_conditional asks a rank-0 expression for
//    rank-R dimensions; it is therefore not on the menu)
//   wheo T P c A B   T.where(P > c) = either_or(A, B)          wheos T P c A d   T.where(P > c) = either_or(A, d)
//   ixt T i A        T(i) = A          ixe T i A B    T(i) = A*B        ixts T i s   T(i) = s (adouble)    ixtc T i c   T(i) = c
//   ixs T A i        T = A(i)          ixss T A i B   T = A(i)*B        ixtt T i A j T(i) = A(j)
//   ixcmp <op> T i A T(i) op= A
//   ixt2 T i j A     T(i,j) = A        ixe2 T i j A B T(i,j) = A*B      ixs2 T A i j T = A(i,j)       ixts2 T i j s  T(i,j) = s
#include "drv_arrayad.h"
#include <type_traits>
using namespace adept;
namespace aad {

template <class F> static int by_rank12(Obj* t, F&& f) {
  switch (t->rank) {
    case 1: return f(std::integral_constant<int, 1>());
    case 2: return f(std::integral_constant<int, 2>());
  }
  return -1;
}
static int opcode(const std::string& s) { return s == "add" ? 0 : s == "sub" ? 1 : s == "mul" ? 2 : s == "div" ? 3 : -1; }
static Obj* target(const std::string& w) { Obj* T = get(w); return (T && T->kind == K_ARR && T->active) ? T : 0; }

int exec_s3(const Words& w, Ctx& c) {
  const std::string& k = w[0];
  if (k == "whr" && w.size() == 5) {
    Obj* T = target(w[1]); if (!T) return -1;
    return by_rank12(T, [&](auto Rc) {
      constexpr int R = decltype(Rc)::value;
      Obj* A = geta(w[2], R); Obj* B = geta(w[3], R); Obj* C = geta(w[4], R); if (!A || !B || !C) return -1;
      c.pre({T, A, B, C});
      auto& t = as<R, true>(*T);
      return with<R>(A, [&](auto& a) { return with<R>(B, [&](auto& b) { return with<R>(C, [&](auto& cc) {
        t.where(a > b) = cc; return true; }); }); }) ? 1 : -1;
    });
  }
  if (k == "whrs" && w.size() == 5) {
    Obj* T = target(w[1]); if (!T) return -1;
    double cv = atof(w[4].c_str());
    return by_rank12(T, [&](auto Rc) {
      constexpr int R = decltype(Rc)::value;
      Obj* A = geta(w[2], R); Obj* B = geta(w[3], R); if (!A || !B) return -1;
      c.pre({T, A, B});
      auto& t = as<R, true>(*T);
      return with<R>(A, [&](auto& a) { return with<R>(B, [&](auto& b) { t.where(a > b) = cv; return true; }); }) ? 1 : -1;
    });
  }
  if (k == "wheo" && w.size() == 6) {
    Obj* T = target(w[1]); if (!T) return -1;
    double cv = atof(w[3].c_str());
    return by_rank12(T, [&](auto Rc) {
      constexpr int R = decltype(Rc)::value;
      Obj* P = geta(w[2], R); Obj* A = geta(w[4], R); Obj* B = geta(w[5], R); if (!P || !A || !B) return -1;
      c.pre({T, P, A, B});
      auto& t = as<R, true>(*T);
      return with<R>(P, [&](auto& p) { return with<R>(A, [&](auto& a) { return with<R>(B, [&](auto& b) {
        t.where(p > cv) = either_or(a, b); return true; }); }); }) ? 1 : -1;
    });
  }
  if (k == "wheos" && w.size() == 6) {
    Obj* T = target(w[1]); if (!T) return -1;
    double cv = atof(w[3].c_str()), dv = atof(w[5].c_str());
    return by_rank12(T, [&](auto Rc) {
      constexpr int R = decltype(Rc)::value;
      Obj* P = geta(w[2], R); Obj* A = geta(w[4], R); if (!P || !A) return -1;
      c.pre({T, P, A});
      auto& t = as<R, true>(*T);
      return with<R>(P, [&](auto& p) { return with<R>(A, [&](auto& a) {
        t.where(p > cv) = either_or(a, dv); return true; }); }) ? 1 : -1;
    });
  }
  // ---- integer-vector indexing, rank 1
  if (k == "ixt" && w.size() == 4) {
    Obj* T = getat(w[1], 1); Obj* I = getk(w[2], K_IVEC); Obj* A = geta(w[3], 1); if (!T || !I || !A) return -1;
    c.pre({T, I, A});
    return with<1>(A, [&](auto& a) { as<1, true>(*T)(asI(*I)) = a; return true; }) ? 1 : -1;
  }
  if (k == "ixe" && w.size() == 5) {
    Obj* T = getat(w[1], 1); Obj* I = getk(w[2], K_IVEC); Obj* A = geta(w[3], 1); Obj* B = geta(w[4], 1); if (!T || !I || !A || !B) return -1;
    c.pre({T, I, A, B});
    return with<1>(A, [&](auto& a) { return with<1>(B, [&](auto& b) { as<1, true>(*T)(asI(*I)) = a * b; return true; }); }) ? 1 : -1;
  }
  if (k == "ixts" && w.size() == 4) {
    Obj* T = getat(w[1], 1); Obj* I = getk(w[2], K_IVEC); Obj* S = getk(w[3], K_SCAL); if (!T || !I || !S) return -1;
    c.pre({T, I, S});
    as<1, true>(*T)(asI(*I)) = asS(*S); return 1;
  }
  if (k == "ixtc" && w.size() == 4) {
    Obj* T = getat(w[1], 1); Obj* I = getk(w[2], K_IVEC); if (!T || !I) return -1;
    c.pre({T, I});
    as<1, true>(*T)(asI(*I)) = atof(w[3].c_str()); return 1;
  }
  if (k == "ixs" && w.size() == 4) {
    Obj* T = getat(w[1], 1); Obj* A = geta(w[2], 1); Obj* I = getk(w[3], K_IVEC); if (!T || !I || !A) return -1;
    c.pre({T, A, I});
    return with<1>(A, [&](auto& a) { as<1, true>(*T) = a(asI(*I)); return true; }) ? 1 : -1;
  }
  if (k == "ixss" && w.size() == 5) {
    Obj* T = getat(w[1], 1); Obj* A = geta(w[2], 1); Obj* I = getk(w[3], K_IVEC); Obj* B = geta(w[4], 1); if (!T || !I || !A || !B) return -1;
    c.pre({T, A, I, B});
    return with<1>(A, [&](auto& a) { return with<1>(B, [&](auto& b) { as<1, true>(*T) = a(asI(*I)) * b; return true; }); }) ? 1 : -1;
  }
  if (k == "ixtt" && w.size() == 5) {
    Obj* T = getat(w[1], 1); Obj* I = getk(w[2], K_IVEC); Obj* A = geta(w[3], 1); Obj* J = getk(w[4], K_IVEC); if (!T || !I || !A || !J) return -1;
    c.pre({T, I, A, J});
    return with<1>(A, [&](auto& a) { as<1, true>(*T)(asI(*I)) = a(asI(*J)); return true; }) ? 1 : -1;
  }
  if (k == "ixcmp" && w.size() == 5) {
    int op = opcode(w[1]);
    Obj* T = getat(w[2], 1); Obj* I = getk(w[3], K_IVEC); Obj* A = geta(w[4], 1); if (op < 0 || !T || !I || !A) return -1;
    c.pre({T, I, A});
    return with<1>(A, [&](auto& a) {
      auto& t = as<1, true>(*T); intVector& i = asI(*I);
      switch (op) { case 0: t(i) += a; break; case 1: t(i) -= a; break; case 2: t(i) *= a; break; default: t(i) /= a; }
      return true; }) ? 1 : -1;
  }
  // ---- rank 2
  if (k == "ixt2" && w.size() == 5) {
    Obj* T = getat(w[1], 2); Obj* I = getk(w[2], K_IVEC); Obj* J = getk(w[3], K_IVEC); Obj* A = geta(w[4], 2); if (!T || !I || !J || !A) return -1;
    c.pre({T, I, J, A});
    return with<2>(A, [&](auto& a) { as<2, true>(*T)(asI(*I), asI(*J)) = a; return true; }) ? 1 : -1;
  }
  if (k == "ixe2" && w.size() == 6) {
    Obj* T = getat(w[1], 2); Obj* I = getk(w[2], K_IVEC); Obj* J = getk(w[3], K_IVEC); Obj* A = geta(w[4], 2); Obj* B = geta(w[5], 2);
    if (!T || !I || !J || !A || !B) return -1;
    c.pre({T, I, J, A, B});
    return with<2>(A, [&](auto& a) { return with<2>(B, [&](auto& b) { as<2, true>(*T)(asI(*I), asI(*J)) = a * b; return true; }); }) ? 1 : -1;
  }
  if (k == "ixs2" && w.size() == 5) {
    Obj* T = getat(w[1], 2); Obj* A = geta(w[2], 2); Obj* I = getk(w[3], K_IVEC); Obj* J = getk(w[4], K_IVEC); if (!T || !I || !J || !A) return -1;
    c.pre({T, A, I, J});
    return with<2>(A, [&](auto& a) { as<2, true>(*T) = a(asI(*I), asI(*J)); return true; }) ? 1 : -1;
  }
  if (k == "ixts2" && w.size() == 5) {
    Obj* T = getat(w[1], 2); Obj* I = getk(w[2], K_IVEC); Obj* J = getk(w[3], K_IVEC); Obj* S = getk(w[4], K_SCAL); if (!T || !I || !J || !S) return -1;
    c.pre({T, I, J, S});
    as<2, true>(*T)(asI(*I), asI(*J)) = asS(*S); return 1;
  }
  return 0;
}

} // namespace aad
