// integer-vector indexing of rank-1 views, and the entry point for rank 2 (see drv_views_idx.h); the rank-2 patterns are
// compiled in four translation units by their first letter (drv_views_idx2*.cpp)
#include "drv_views_idx.h"
std::string ix_op(Array<1,int>& a, const std::vector<std::string>& w) { return ix_go<1>(a, ix_parse<1>(w)); }
std::string ix_op(Array<2,int>& a, const std::vector<std::string>& w) {
  std::vector<ISel> t = ix_parse<2>(w);
  int l = t[0].letter;
  if (l <= L_R) return ix_op2_a(a, t);
  if (l <= L_V) return ix_op2_b(a, t);
  if (l <= L_W) return ix_op2_c(a, t);
  return ix_op2_d(a, t);
}
