// integer-vector indexing of rank-1 and rank-2 views (see drv_views_idx.h)
#include "drv_views_idx.h"
std::string ix_op(Array<1,int>& a, const std::vector<std::string>& w) { return ix_go<1>(a, ix_parse<1>(w)); }
std::string ix_op(Array<2,int>& a, const std::vector<std::string>& w) { return ix_go<2>(a, ix_parse<2>(w)); }
