// rank-5 part of the views driver (see drv_views.cpp): the view class; operator() is in drv_views_r5i.cpp / _r5e.cpp
#include "drv_views.h"
VIEWS_DEFINE_RANK(5)
