// integer-vector indexing of rank-3 views, patterns starting with an index vector or a vector expression (see drv_views_idx.h)
#define IX_FIRST_MASK 0xf20
#include "drv_views_idx.h"
std::string ix_op3_vec_first(Array<3,int>& a, const std::vector<ISel>& t) { return ix_go<3>(a, t); }
