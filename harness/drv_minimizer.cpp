// Driver for the minimizer family (properties C18, C19).
// usage: drv_minimizer < cases          one result line ("R ...") per case line
//
// case line:  run key=value ...      (doubles as C hex floats or decimals, vectors comma separated)
//   algo=L-BFGS|Conjugate-Gradient|Conjugate-Gradient-FR|Levenberg|Levenberg-Marquardt
//   bounded=0|1  n=<dim>  x0=v,..  lo=v,..  up=v,..   (lo/up: "max"/"-max" = +-numeric_limits<Real>::max())
//   f=quadd  h=v,.. c=v,..            f = 1/2 sum h_i (x_i-c_i)^2            (h_i<0: non-convex)
//   f=quadm  H=v,..(n*n row major) c=v,..   f = 1/2 (x-c)^T H (x-c)
//   f=rosen                            f = sum 100 (x_{i+1}-x_i^2)^2 + (1-x_i)^2   (exact Hessian)
//   f=quartic a=v,.. h=v,.. c=v,..     f = sum a_i (x_i-c_i)^4 + 1/2 h_i (x_i-c_i)^2
//   f=lin    g=v,..                    f = sum g_i x_i          (Hessian 0: first-order algorithms only)
//   bad=none|inf|nan|ginf|gnan  rlo=v,.. rup=v,..   outside the region [rlo,rup] the cost is +inf / NaN
//                                      (ginf/gnan: cost stays finite, every gradient component is +inf / NaN)
//   mss=<max_step_size> maxit=<max_iterations> tol=<converged_gradient_norm> eus=-1|0|1|2
//   mls=<max_line_search_iterations>   maxcb=<callback limit>  alarm=<seconds>  log=0|1 (H4 decision log)
//
// result line:
//   R status=<int|-1> sstr=<status string, '_' for ' '> ret=<returned status int> nit= nsamp= cost=%a gnorm=%a
//     start=%a x=%a,.. fresh=%a g=%a,.. (fresh cost/gradient at the returned x, evaluated after the call)
//     ncb=<callbacks> viol=%a violcb=<index of first offending callback|-1> violkind=<c|g|h|-> violi=<component>
//     violx=%a violscale=%a (largest |x_i| of that component in earlier callbacks) pviol=%a (same for report_progress) nfc=<callbacks that returned non-finite cost>
//     nfg=<... non-finite gradient> lastcb=<kind of last callback> lastx_is_ret=<0|1> first=%a,.. (x of 1st callback)
//     absmax=%a,.. (largest |x_i| per component over all callbacks)
//   R status=NO-TERMINATION ...      callback limit hit (watchdog)      R status=EXC what=...   library threw
//   (wall-clock watchdog: SIGALRM prints "R status=NO-TERMINATION alarm=1" and _exit(0))
#include "spy.h"
#include <adept_optimize.h>
#include <map>
#include <cmath>
#include <limits>
#include <csignal>
#include <unistd.h>
using namespace adept;


static const double RMAX = std::numeric_limits<double>::max();

struct Watchdog {};

static std::vector<double> parse_vec(const std::string& s) {
  std::vector<double> v;
  size_t p = 0;
  while (p <= s.size()) {
    size_t q = s.find(',', p);
    if (q == std::string::npos) q = s.size();
    std::string t = s.substr(p, q - p);
    if (t == "max") v.push_back(RMAX);
    else if (t == "-max") v.push_back(-RMAX);
    else if (t == "inf") v.push_back(std::numeric_limits<double>::infinity());
    else if (t == "-inf") v.push_back(-std::numeric_limits<double>::infinity());
    else if (t == "nan") v.push_back(std::numeric_limits<double>::quiet_NaN());
    else if (!t.empty()) v.push_back(strtod(t.c_str(), 0));
    p = q + 1;
  }
  return v;
}

static std::string hexd(double d) { char b[64]; snprintf(b, sizeof b, "%a", d); return b; }
static std::string hexv(const std::vector<double>& v) {
  std::string s;
  for (size_t i = 0; i < v.size(); ++i) { if (i) s += ","; s += hexd(v[i]); }
  return s.empty() ? "-" : s;
}

struct Problem : public Optimizable {
  std::string fam, bad;
  int n;
  std::vector<double> h, c, H, a, g, rlo, rup, lo, up;
  bool bounded;
  // instrumentation
  long ncb, maxcb, nfc, nfg;
  double viol, pviol, violx, violscale; long violcb; char violkind; int violi;
  std::vector<double> absmax;
  char lastkind; std::vector<double> lastx, firstx;
  bool counting;
  std::vector<std::string> trace; bool want_trace;

  Problem() : n(0), bounded(false), ncb(0), maxcb(200000), nfc(0), nfg(0), viol(0), pviol(0), violx(0), violscale(0), violcb(-1),
              violkind('-'), violi(-1), lastkind('-'), counting(true), want_trace(false) {}

  bool in_region(const std::vector<double>& x) const {
    if (bad == "none" || bad.empty()) return true;
    for (int i = 0; i < n; ++i) {
      if (i < (int)rlo.size() && !(x[i] >= rlo[i])) return false;
      if (i < (int)rup.size() && !(x[i] <= rup[i])) return false;
    }
    return true;
  }

  double value(const std::vector<double>& x) const {
    double f = 0;
    if (fam == "quadd") { for (int i = 0; i < n; ++i) { double d = x[i] - c[i]; f += 0.5 * h[i] * d * d; } }
    else if (fam == "quadm") {
      for (int i = 0; i < n; ++i) { double s = 0; for (int j = 0; j < n; ++j) s += H[i * n + j] * (x[j] - c[j]); f += 0.5 * (x[i] - c[i]) * s; }
    }
    else if (fam == "rosen") {
      for (int i = 0; i + 1 < n; ++i) { double t = x[i + 1] - x[i] * x[i]; double u = 1.0 - x[i]; f += 100.0 * t * t + u * u; }
      if (n == 1) { double u = 1.0 - x[0]; f = u * u; }
    }
    else if (fam == "quartic") { for (int i = 0; i < n; ++i) { double d = x[i] - c[i]; f += a[i] * d * d * d * d + 0.5 * h[i] * d * d; } }
    else if (fam == "lin") { for (int i = 0; i < n; ++i) f += g[i] * x[i]; }
    return f;
  }
  void grad(const std::vector<double>& x, std::vector<double>& gr) const {
    gr.assign(n, 0.0);
    if (fam == "quadd") { for (int i = 0; i < n; ++i) gr[i] = h[i] * (x[i] - c[i]); }
    else if (fam == "quadm") { for (int i = 0; i < n; ++i) { double s = 0; for (int j = 0; j < n; ++j) s += H[i * n + j] * (x[j] - c[j]); gr[i] = s; } }
    else if (fam == "rosen") {
      if (n == 1) { gr[0] = -2.0 * (1.0 - x[0]); }
      for (int i = 0; i + 1 < n; ++i) {
        double t = x[i + 1] - x[i] * x[i];
        gr[i] += -400.0 * x[i] * t - 2.0 * (1.0 - x[i]);
        gr[i + 1] += 200.0 * t;
      }
    }
    else if (fam == "quartic") { for (int i = 0; i < n; ++i) { double d = x[i] - c[i]; gr[i] = 4.0 * a[i] * d * d * d + h[i] * d; } }
    else if (fam == "lin") { for (int i = 0; i < n; ++i) gr[i] = g[i]; }
  }
  void hess(const std::vector<double>& x, std::vector<double>& Hm) const {
    Hm.assign(n * n, 0.0);
    if (fam == "quadd") { for (int i = 0; i < n; ++i) Hm[i * n + i] = h[i]; }
    else if (fam == "quadm") { Hm = H; }
    else if (fam == "rosen") {
      if (n == 1) Hm[0] = 2.0;
      for (int i = 0; i + 1 < n; ++i) {
        Hm[i * n + i] += 1200.0 * x[i] * x[i] - 400.0 * x[i + 1] + 2.0;
        Hm[i * n + i + 1] += -400.0 * x[i];
        Hm[(i + 1) * n + i] += -400.0 * x[i];
        Hm[(i + 1) * n + i + 1] += 200.0;
      }
    }
    else if (fam == "quartic") { for (int i = 0; i < n; ++i) { double d = x[i] - c[i]; Hm[i * n + i] = 12.0 * a[i] * d * d + h[i]; } }
  }

  // the property's own inequality, evaluated on the doubles exactly as received
  void check_box(const std::vector<double>& x, char kind) {
    if (!bounded) {
      for (int i = 0; i < n; ++i) if (x[i] != x[i]) { note(kind, i, std::numeric_limits<double>::infinity(), x[i]); }
      return;
    }
    for (int i = 0; i < n; ++i) {
      double v = 0;
      if (x[i] != x[i]) v = std::numeric_limits<double>::infinity();
      else if (lo[i] > -RMAX && x[i] < lo[i]) v = lo[i] - x[i];   // +-max is the library's "no bound"
      else if (up[i] < RMAX && x[i] > up[i]) v = x[i] - up[i];
      if (v > 0) note(kind, i, v, x[i]);
    }
  }
  void note(char kind, int i, double v, double xi) {
    if (kind == 'p') { if (v > pviol) pviol = v; return; }
    if (v > viol) { viol = v; violcb = ncb; violkind = kind; violi = i; violx = xi; violscale = i < (int)absmax.size() ? absmax[i] : 0.0; }
  }

  std::vector<double> enter(const Vector& x, char kind) {
    std::vector<double> xv(n);
    for (int i = 0; i < n; ++i) xv[i] = x(i);
    if (!counting) return xv;
    if (kind != 'p') {
      if (ncb == 0) firstx = xv;
      absmax.resize(n, 0.0);
      check_box(xv, kind);   // absmax still holds the magnitudes seen BEFORE this callback
      for (int i = 0; i < n; ++i) if (std::fabs(xv[i]) > absmax[i]) absmax[i] = std::fabs(xv[i]);
      ++ncb;
      lastkind = kind; lastx = xv;
      if (want_trace && trace.size() < 400) trace.push_back(std::string(1, kind) + ":" + hexv(xv));
      if (ncb > maxcb) throw Watchdog();
    } else check_box(xv, kind);
    return xv;
  }

  double cost_of(const std::vector<double>& xv) {
    if (!in_region(xv)) {
      if (bad == "inf") return std::numeric_limits<double>::infinity();
      if (bad == "nan") return std::numeric_limits<double>::quiet_NaN();
    }
    return value(xv);
  }

  virtual Real calc_cost_function(const Vector& x) {
    std::vector<double> xv = enter(x, 'c');
    double f = cost_of(xv);
    if (counting && !std::isfinite(f)) ++nfc;
    return f;
  }
  virtual Real calc_cost_function_gradient(const Vector& x, Vector gradient) {
    std::vector<double> xv = enter(x, 'g');
    double f = cost_of(xv);
    std::vector<double> gr; grad(xv, gr);
    bool gbad = false;
    if (!in_region(xv)) {
      if (bad == "ginf") { gr.assign(n, std::numeric_limits<double>::infinity()); gbad = true; }
      if (bad == "gnan") { gr.assign(n, std::numeric_limits<double>::quiet_NaN()); gbad = true; }
    }
    for (int i = 0; i < n; ++i) { gradient(i) = gr[i]; if (!std::isfinite(gr[i])) gbad = true; }
    if (counting) { if (!std::isfinite(f)) ++nfc; else if (gbad) ++nfg; }
    return f;
  }
  virtual Real calc_cost_function_gradient_hessian(const Vector& x, Vector gradient, SymmMatrix& hessian) {
    std::vector<double> xv = enter(x, 'h');
    double f = cost_of(xv);
    std::vector<double> gr; grad(xv, gr);
    bool gbad = false;
    if (!in_region(xv)) {
      if (bad == "ginf") { gr.assign(n, std::numeric_limits<double>::infinity()); gbad = true; }
      if (bad == "gnan") { gr.assign(n, std::numeric_limits<double>::quiet_NaN()); gbad = true; }
    }
    for (int i = 0; i < n; ++i) { gradient(i) = gr[i]; if (!std::isfinite(gr[i])) gbad = true; }
    std::vector<double> Hm; hess(xv, Hm);
    for (int i = 0; i < n; ++i) for (int j = 0; j <= i; ++j) hessian(i, j) = Hm[i * n + j];
    if (counting) { if (!std::isfinite(f)) ++nfc; else if (gbad) ++nfg; }
    return f;
  }
  virtual void report_progress(int, const Vector& x, Real, Real) { enter(x, 'p'); }
  virtual bool provides_derivative(int order) { return order >= 0 && order <= 2; }
};

static bool algo_of(const std::string& s, MinimizerAlgorithm& a) {
  if (s == "L-BFGS") a = MINIMIZER_ALGORITHM_LIMITED_MEMORY_BFGS;
  else if (s == "Conjugate-Gradient") a = MINIMIZER_ALGORITHM_CONJUGATE_GRADIENT;
  else if (s == "Conjugate-Gradient-FR") a = MINIMIZER_ALGORITHM_CONJUGATE_GRADIENT_FR;
  else if (s == "Levenberg") a = MINIMIZER_ALGORITHM_LEVENBERG;
  else if (s == "Levenberg-Marquardt") a = MINIMIZER_ALGORITHM_LEVENBERG_MARQUARDT;
  else return false;
  return true;
}

static std::vector<std::string>* g_log = 0;
static void hook_sink(const char* s) {
  if (!g_log || g_log->size() >= 20000) return;
  std::string t(s);
  for (size_t i = 0; i < t.size(); ++i) if (t[i] == ' ') t[i] = '/';   // fields '/'-separated, entries ';'-separated
  g_log->push_back(t);
}

static void on_alarm(int) {
  const char msg[] = "R status=NO-TERMINATION alarm=1\n";
  ssize_t r = write(1, msg, sizeof msg - 1); (void)r;
  _exit(0);
}

int main() {
  std::string line;
  signal(SIGALRM, on_alarm);
  while (std::getline(std::cin, line)) {
    std::vector<std::string> w = verif::words(line);
    if (w.empty()) continue;
    if (w[0] != "run") { std::cout << "bad-op" << std::endl; continue; }
    std::map<std::string, std::string> kv;
    bool okline = true;
    for (size_t i = 1; i < w.size(); ++i) {
      size_t e = w[i].find('=');
      if (e == std::string::npos) { okline = false; break; }
      kv[w[i].substr(0, e)] = w[i].substr(e + 1);
    }
    MinimizerAlgorithm algo = MINIMIZER_ALGORITHM_LIMITED_MEMORY_BFGS;
    if (!okline || !kv.count("algo") || !algo_of(kv["algo"], algo) || !kv.count("n") || !kv.count("f") || !kv.count("x0")) {
      std::cout << "bad-op" << std::endl; continue;
    }
    Problem P;
    P.n = atoi(kv["n"].c_str());
    P.fam = kv["f"];
    P.bad = kv.count("bad") ? kv["bad"] : "none";
    P.h = parse_vec(kv["h"]); P.c = parse_vec(kv["c"]); P.H = parse_vec(kv["H"]); P.a = parse_vec(kv["a"]);
    P.g = parse_vec(kv["g"]); P.rlo = parse_vec(kv["rlo"]); P.rup = parse_vec(kv["rup"]);
    P.lo = parse_vec(kv["lo"]); P.up = parse_vec(kv["up"]);
    P.bounded = kv.count("bounded") && kv["bounded"] == "1";
    std::vector<double> x0 = parse_vec(kv["x0"]);
    int n = P.n;
    bool shape_ok = n >= 1 && (int)x0.size() == n;
    if (P.fam == "quadd") shape_ok = shape_ok && (int)P.h.size() == n && (int)P.c.size() == n;
    else if (P.fam == "quadm") shape_ok = shape_ok && (int)P.H.size() == n * n && (int)P.c.size() == n;
    else if (P.fam == "rosen") shape_ok = shape_ok && true;
    else if (P.fam == "quartic") shape_ok = shape_ok && (int)P.a.size() == n && (int)P.h.size() == n && (int)P.c.size() == n;
    else if (P.fam == "lin") shape_ok = shape_ok && (int)P.g.size() == n;
    else shape_ok = false;
    if (P.bad != "none" && P.bad != "inf" && P.bad != "nan" && P.bad != "ginf" && P.bad != "gnan") shape_ok = false;
    if (P.bad != "none" && ((int)P.rlo.size() != n || (int)P.rup.size() != n)) shape_ok = false;
    // bounds of the wrong length are a legitimate test input (documented status: invalid bounds); only their presence is required
    if (P.bounded && (P.lo.empty() || P.up.empty())) shape_ok = false;
    if (!shape_ok) { std::cout << "bad-op" << std::endl; continue; }
    if (kv.count("maxcb")) P.maxcb = atol(kv["maxcb"].c_str());
    P.want_trace = kv.count("trace") && kv["trace"] == "1";
    bool box_len_ok = !P.bounded || ((int)P.lo.size() == n && (int)P.up.size() == n);
    if (!box_len_ok) P.bounded = false;   // callbacks (there should be none) are not box-checked against ill-shaped bounds

    std::vector<std::string> hooklog;
    g_log = &hooklog;
#if defined(RJHOGAN_ADEPT_2_VERIF) && defined(ADEPT_VERIF_HAVE_H4)
    adept::internal::verif_minimizer_hook = (kv.count("log") && kv["log"] == "1") ? hook_sink : 0;
#endif
    (void)hook_sink;

    Minimizer m(algo);
    if (kv.count("mss")) m.set_max_step_size(strtod(kv["mss"].c_str(), 0));
    if (kv.count("maxit")) m.set_max_iterations(atoi(kv["maxit"].c_str()));
    if (kv.count("tol")) m.set_converged_gradient_norm(strtod(kv["tol"].c_str(), 0));
    if (kv.count("eus")) m.ensure_updated_state(atoi(kv["eus"].c_str()));
    if (kv.count("mls")) m.set_max_line_search_iterations(atoi(kv["mls"].c_str()));
    if (kv.count("dstart")) m.set_levenberg_damping_start(strtod(kv["dstart"].c_str(), 0));

    Vector x(n);
    for (int i = 0; i < n; ++i) x(i) = x0[i];
    std::string outcome;
    int ret = -1;
    unsigned secs = kv.count("alarm") ? (unsigned)atoi(kv["alarm"].c_str()) : 60u;
    alarm(secs);
    try {
      if (kv.count("bounded") && kv["bounded"] == "1") {
        Vector lo((int)P.lo.size()), up((int)P.up.size());
        for (int i = 0; i < (int)P.lo.size(); ++i) lo(i) = P.lo[i];
        for (int i = 0; i < (int)P.up.size(); ++i) up(i) = P.up[i];
        ret = (int)m.minimize(P, x, lo, up);
      } else {
        ret = (int)m.minimize(P, x);
      }
      outcome = "ok";
    } catch (const Watchdog&) {
      outcome = "NO-TERMINATION";
    } catch (const adept::exception& e) {
      outcome = std::string("EXC what=") + e.what();
    } catch (const std::exception& e) {
      outcome = std::string("EXC what=") + e.what();
    }
    alarm(0);
#if defined(RJHOGAN_ADEPT_2_VERIF) && defined(ADEPT_VERIF_HAVE_H4)
    adept::internal::verif_minimizer_hook = 0;
#endif
    P.counting = false;
    std::ostringstream os;
    if (outcome == "ok") {
      std::string ss = minimizer_status_string((MinimizerStatus)ret);
      for (size_t i = 0; i < ss.size(); ++i) if (ss[i] == ' ') ss[i] = '_';
      bool early = (ret == (int)MINIMIZER_STATUS_INVALID_BOUNDS);   // returns before any member is initialised
      os << "R status=" << ret << " sstr=" << ss;
      if (early) os << " nit=0 nsamp=0 cost=nan gnorm=nan start=nan";
      else os << " nit=" << m.n_iterations() << " nsamp=" << m.n_samples() << " cost=" << hexd(m.cost_function())
              << " gnorm=" << hexd(m.gradient_norm()) << " start=" << hexd(P.ncb > 0 ? m.start_cost_function() : std::numeric_limits<double>::quiet_NaN())
              << " mstatus=" << (int)m.status();
    } else {
      for (size_t i = 0; i < outcome.size(); ++i) if (outcome[i] == ' ' && outcome.compare(0, 3, "EXC") != 0) outcome[i] = '_';
      if (outcome.compare(0, 3, "EXC") == 0) {
        std::string t = outcome.substr(9);
        for (size_t i = 0; i < t.size(); ++i) if (t[i] == ' ') t[i] = '_';
        os << "R status=EXC what=" << t;
      } else os << "R status=" << outcome;
    }
    std::vector<double> xr(n), gfresh;
    for (int i = 0; i < n; ++i) xr[i] = x(i);
    double fresh = P.cost_of(xr);
    P.grad(xr, gfresh);
    if (!P.in_region(xr)) {
      if (P.bad == "ginf") gfresh.assign(n, std::numeric_limits<double>::infinity());
      if (P.bad == "gnan") gfresh.assign(n, std::numeric_limits<double>::quiet_NaN());
    }
    bool lastsame = P.lastx.size() == xr.size();
    for (int i = 0; lastsame && i < n; ++i) if (!(P.lastx[i] == xr[i])) lastsame = false;
    os << " x=" << hexv(xr) << " fresh=" << hexd(fresh) << " g=" << hexv(gfresh)
       << " ncb=" << P.ncb << " viol=" << hexd(P.viol) << " violcb=" << P.violcb << " violkind=" << P.violkind
       << " violi=" << P.violi << " violx=" << hexd(P.violx) << " violscale=" << hexd(P.violscale) << " pviol=" << hexd(P.pviol)
       << " nfc=" << P.nfc << " nfg=" << P.nfg << " lastcb=" << P.lastkind << " lastx_is_ret=" << (lastsame ? 1 : 0)
       << " first=" << hexv(P.firstx) << " absmax=" << hexv(P.absmax);
    if (P.want_trace) { os << " trace="; for (size_t i = 0; i < P.trace.size(); ++i) { if (i) os << ";"; os << P.trace[i]; } if (P.trace.empty()) os << "-"; }
    if (!hooklog.empty()) { os << " log="; for (size_t i = 0; i < hooklog.size(); ++i) { if (i) os << ";"; os << hooklog[i]; } }
    std::cout << os.str() << std::endl;
    g_log = 0;
  }
  return 0;
}
