#define VR 1
#define VT int
#include "drv_assign_impl.h"
