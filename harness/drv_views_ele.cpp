// ACTIVE FixedArray<double,true,..> objects of rank 1..4 driven through their element accessors (op `afparent`; see
// drv_views_el.h): operator()(i0,..) const / non-const returning ActiveConstReference / ActiveReference, rank 1 also operator[]
#include "drv_views_el.h"
VIEWS_DEFINE_RICH_ELEM(AFix1)
VIEWS_DEFINE_RICH_ELEM(AFix2)
VIEWS_DEFINE_RICH_ELEM(AFix3)
VIEWS_DEFINE_RICH_ELEM(AFix4)
static bool same(const std::vector<int>& d, int n, const int* e) {
  if ((int)d.size() != n) return false;
  for (int k = 0; k < n; ++k) if (d[k] != e[k]) return false;
  return true;
}
VBase* make_afixed(const std::vector<int>& d) {
  static const int e1[] = {4}, e2[] = {3, 4}, e3[] = {2, 3, 4}, e4[] = {3, 2, 5, 4};
  if (same(d, 1, e1)) return make_elem_only<AFix1>();
  if (same(d, 2, e2)) return make_elem_only<AFix2>();
  if (same(d, 3, e3)) return make_elem_only<AFix3>();
  if (same(d, 4, e4)) return make_elem_only<AFix4>();
  return 0;
}
