#define VR 3
#define VT int
#include "drv_assign_impl.h"
