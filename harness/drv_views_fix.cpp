// FixedArray parents (see drv_views.cpp): FixedArray.h has its own operator(), operator[], subset, T, permute,
// diag_vector, submatrix_on_diagonal; every result is an Array<r,int> and continues as an ordinary view
#include "drv_views.h"
template <class FA> static VBase* make_one(FA*& keep) {
  keep = new FA;
  int* p = keep->data();
  set_base(p);
  g_vol = 1;
  for (int k = 0; k < ArT<FA>::rank; ++k) g_vol *= keep->dimension(k);
  for (long c = 0; c < g_vol; ++c) p[c] = (int)c;
  return new VF<FA>(keep);
}
VBase* make_fixed(const std::vector<int>& d, Fix1*& f1, Fix2*& f2, Fix2s*& f2s, Fix3*& f3) {
  if (d.size() == 1 && d[0] == 4) return make_one(f1);
  if (d.size() == 2 && d[0] == 3 && d[1] == 4) return make_one(f2);
  if (d.size() == 2 && d[0] == 3 && d[1] == 3) return make_one(f2s);
  if (d.size() == 3 && d[0] == 2 && d[1] == 3 && d[2] == 4) return make_one(f3);
  return 0;
}
