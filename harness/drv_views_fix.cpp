// FixedArray parents (see drv_views.cpp): FixedArray.h has its own operator(), operator[], subset, T, permute,
// diag_vector, submatrix_on_diagonal; every result is an Array<r,int> and continues as an ordinary view
#include "drv_views.h"
template <class FA> static VBase* make_one(FA*& keep) { return make_fixed_one(keep); }
VBase* make_fixed(const std::vector<int>& d, Fix1*& f1, Fix2*& f2, Fix2s*& f2s, Fix3*& f3, Fix4*& f4) {
  if (d.size() == 4 && d[0] == 2 && d[1] == 3 && d[2] == 4 && d[3] == 5) return make_fixed4(f4);
  if (d.size() == 1 && d[0] == 4) return make_one(f1);
  if (d.size() == 2 && d[0] == 3 && d[1] == 4) return make_one(f2);
  if (d.size() == 2 && d[0] == 3 && d[1] == 3) return make_one(f2s);
  if (d.size() == 3 && d[0] == 2 && d[1] == 3 && d[2] == 4) return make_one(f3);
  return 0;
}
