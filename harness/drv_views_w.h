// Whole-view operations of the views driver (see drv_views.cpp): after every view-forming operation that returns an
// Array, the view is ALSO exercised through the library's own loops over "all its elements" (the element-by-element
// part of the answer, describe_arr, uses the harness's loops and never enters them):
//   f=  V = -5                       the cells of the parent allocation that changed (cell:value;...), then restored
//   a=  V += 1000                    the same
//   b=  B = V   (B empty)            B takes the extents of the view: `d0,d1,..|v0,v1,..` (B read by the harness's own loop)
//   x=  V = B * 2 + 3                a same-shape expression assigned through the view; changed cells
//   v=  V2 = <temporary Array>       V2 a copy of the view object (a link: the same view), the right-hand side an rvalue Array
//                                    owning B*3+1 (move assignment: a view must copy the values INTO the cells it denotes,
//                                    never adopt the temporary's buffer); changed cells
//   m=  sum(V),maxval(V)             (0,0 for a view without elements: reduce.h, "Return zero if any of these functions
//                                     applied to an empty array")
//   h=  V.where(V > t) = -9          t = volume/2 of the parent; changed cells
//   n=  count(V > t)|find(V > t)     rank 1 only (`-` otherwise): the number and the positions of the elements above t
// The parent holds its own cell numbers before each of them (dump_changes() lists EVERY cell of the parent allocation that
// differs and restores it), so a store to a cell the view does not denote is seen wherever it lands inside the allocation;
// outside it the AddressSanitizer red zones (widened by the check: ASAN_OPTIONS redzone) stop the process.
// An exception raised by one of the statements is printed as `!class/` followed by the changes made so far.
#ifndef VERIF_DRV_VIEWS_W_H
#define VERIF_DRV_VIEWS_W_H
#include "drv_views.h"

inline long wv_val(int x) { return x; }
inline long wv_val(double x) { return (long)x; }
inline long wv_val(const Active<double>& x) { return (long)x.value(); }

template <class F> inline std::string wv_run(F f) {
  const char* cls = 0;
  try { return f(); }
  catch (index_out_of_bounds&) { cls = "index_out_of_bounds"; }
  catch (invalid_operation&) { cls = "invalid_operation"; }
  catch (invalid_dimension&) { cls = "invalid_dimension"; }
  catch (empty_array&) { cls = "empty_array"; }
  catch (size_mismatch&) { cls = "size_mismatch"; }
  catch (adept::exception&) { cls = "adept_exception"; }
  catch (std::exception&) { cls = "std_exception"; }
  return std::string("!") + cls + "/" + dump_changes();
}

// extents and elements (index order, harness loop over the const element access) of an array the harness owns
template <class AR> inline std::string wv_dims_values(const AR& b) {
  enum { R = ArT<AR>::rank };
  std::ostringstream os;
  bool none = false;
  for (int k = 0; k < R; ++k) { os << (k ? "," : "") << b.dimension(k); if (b.dimension(k) <= 0) none = true; }
  os << "|";
  if (!none) {
    int ix[R];
    for (int k = 0; k < R; ++k) ix[k] = 0;
    long j = 0;
    for (;;) {
      os << (j ? "," : "") << elval(El<R>::cc(b, ix));
      ++j;
      int k = R - 1;
      while (k >= 0 && ++ix[k] == b.dimension(k)) { ix[k] = 0; --k; }
      if (k < 0) break;
    }
  }
  return os.str();
}

template <bool Rank1> struct WvFind {
  template <class AR, class T> static std::string go(AR&, T) { return "-"; }
};
template <> struct WvFind<true> {
  template <class AR, class T> static std::string go(AR& a, T t) {
    return wv_run([&]() -> std::string {
      std::ostringstream os;
      os << (long)count(a > t) << "|";
      IntVector pos = find(a > t);
      for (Index j = 0; j < pos.dimension(0); ++j) os << (j ? "," : "") << pos(j);
      return os.str();
    });
  }
};

// an Array that owns its data outright, returned by value: the right-hand side of a move assignment
template <class AR> inline AR wv_temporary(const AR& b) {
  typedef typename ArT<AR>::elem T;
  AR t;
  t = b * (T)3 + (T)1;
  return t;
}

template <class AR> inline std::string whole_view_ops_t(AR& view) {
  // the statements act on a copy of the view object (the copy constructor links: the same view of the same data), so
  // that the object the next operation of the composition is applied to keeps its state whatever they do (an
  // assignment to an EMPTY array legitimately resizes / clears it)
  AR a(view);
  enum { R = ArT<AR>::rank };
  typedef typename ArT<AR>::elem T;
  const T t = (T)(g_vol / 2);
  std::ostringstream os;
  os << " f=" << wv_run([&]() -> std::string { a = (T)(-5); return dump_changes(); });
  os << " a=" << wv_run([&]() -> std::string { a += (T)1000; return dump_changes(); });
  AR B;
  os << " b=" << wv_run([&]() -> std::string { B = a; return wv_dims_values(B); });
  os << " x=" << wv_run([&]() -> std::string { a = B * (T)2 + (T)3; return dump_changes(); });
  os << " v=" << wv_run([&]() -> std::string { AR a2(a); a2 = wv_temporary(B); return dump_changes(); });
  os << " m=" << wv_run([&]() -> std::string {
    std::ostringstream o;
    o << wv_val(sum(a)) << "," << wv_val(maxval(a));
    return o.str();
  });
  os << " h=" << wv_run([&]() -> std::string { a.where(a > t) = (T)(-9); return dump_changes(); });
  os << " n=" << WvFind<R == 1>::go(a, t);
  return os.str();
}
#define VIEWS_DEFINE_WHOLE(R) std::string whole_view_ops(Array<R,int>& a) { return whole_view_ops_t(a); }
#define VIEWS_DEFINE_WHOLE_ACTIVE(R) std::string whole_view_ops(Array<R,double,true>& a) { return whole_view_ops_t(a); }
#endif
