// Correspondence driver for views of adept::Array (model M5 / AdeptModel/Views.lean, property C06).
// usage: drv_views < ops            (same line protocol as lean/Driver/Views.lean)
//   mode checked|unchecked          must name the build (ADEPT_BOUNDS_CHECKING defined or not)
//   parent rm|cm d0 d1 ...          fresh Array<r,int>, r = 1..6, filled with its own cell numbers
//   aparent rm|cm d0 d1 ...         fresh ACTIVE Array<r,double,true>, r = 1..3 (its views stay active)
//   fparent d0 ...                  FixedArray<int,false,d0,...>: 4 | 3 4 | 3 3 | 2 3 4 | 2 3 4 5; the first successful
//                                   operation is FixedArray's own member and returns an Array<r,int>
//   efparent d0 ...                 FixedArray<int,false,..> 3 2 5 4 | 2 3 1 4 5 | 3 1 4 2 6 5 driven through its ELEMENT accessors only
//   afparent d0 ...                 ACTIVE FixedArray<double,true,..> 4 | 3 4 | 2 3 4 | 3 2 5 4, element accessors only
//   slice A0 A1 ...                 A = i:E | r:E,E | s:E,E,E | _
//                                   E = k | eK (`end - K`) | end | (E+E) (E-E) (E*E) (E/E) (E>E: max) (E<E: min)
//                                   (only scalar arguments: ELEMENT access, every argument passed as written, int or end-k,
//                                   ONE of them may be a rich expression: drv_views_el.h)
//   subset E E ...  | idx E | T | permute p.. | diag k | subdiag b e | reshape d.. | softlink
//   permuteE p.. (permute(const ExpressionSize<Rank>&)) | permuteV p.. (permute(i0,i1,...), ranks 2..6)
//   cslice, csubset, cidx, cT, csoftlink, cix: the same member called through a const reference (const overload)
//   contig                          is_contiguous()
//   ix S0 S1 ...                    integer-vector indexing of the current view (state unchanged): drv_views_idx.h
// Answer to a view-forming op: rank, extents, offset(i), data()-parent.data(), all elements in index
// order (read through the const operator()(int...)), then -(j+1) is written through element j (non-const
// operator()(int...)) and every cell of the parent allocation that no longer holds its own number is listed
// (and restored).  Active views: also gradient_index() - parent.gradient_index() must equal the data offset
// (`o=<data>!g<gradient>` otherwise); an active element (rank 0) is located through its gradient index.
// A view of rank >= 1 held by an Array is then exercised through the library's whole-view operations (fields f= a= b= x=
// v= m= h= n=, see drv_views_w.h).
//
// Views of different rank are different C++ types: a small class hierarchy V<AR> holds them and the
// argument types of operator() are chosen by a recursive template (SliceDisp).  To bound the number
// of instantiations, passive ranks 1-2 mix all seven plain argument types per position (int, end-k, the four
// RangeIndex<B,E,int> with B,E in {int, end-k}, AllIndex); ranks 3-6, active arrays and FixedArray use per
// call either the int family or the end-k family (an int k is then passed as end-(len-1-k)); rank 6 has
// `__` in the last position only.  Rich index expressions (k-end, end/2, (end-1)/2, ...: the menu XSHAPES of
// drv_views.h) are compiled for passive ranks 1-6 (all shapes for rank 1, 8 for rank 2, 4 for ranks 3-6), in one
// argument per call (drv_views_x*.cpp).
// Compile time: the work is split over many translation units, built in parallel by vbuild.
#include "drv_views.h"

int* g_pdata = 0;
double* g_adata = 0;
Index g_gbase = 0;
long g_vol = 0;

VIEWS_DEFINE_RANK(1)
VIEWS_DEFINE_RANK(2)
VIEWS_DEFINE_RANK(3)

struct Parents {
  Array<1,int>* p1; Array<2,int>* p2; Array<3,int>* p3; Array<4,int>* p4; Array<5,int>* p5; Array<6,int>* p6;
  Array<1,double,true>* a1; Array<2,double,true>* a2; Array<3,double,true>* a3;
  Fix1* f1; Fix2* f2; Fix2s* f2s; Fix3* f3; Fix4* f4;
  Parents() : p1(0), p2(0), p3(0), p4(0), p5(0), p6(0), a1(0), a2(0), a3(0), f1(0), f2(0), f2s(0), f3(0), f4(0) {}
  void clear() {
    delete p1; delete p2; delete p3; delete p4; delete p5; delete p6; delete a1; delete a2; delete a3;
    delete f1; delete f2; delete f2s; delete f3; delete f4;
    p1 = 0; p2 = 0; p3 = 0; p4 = 0; p5 = 0; p6 = 0; a1 = 0; a2 = 0; a3 = 0; f1 = 0; f2 = 0; f2s = 0; f3 = 0; f4 = 0;
    g_pdata = 0; g_adata = 0; g_vol = 0;
  }
};

int main() {
#ifdef ADEPT_BOUNDS_CHECKING
  const bool checked = true;
#else
  const bool checked = false;
#endif
  adept::Stack stack;          // active parents register their gradients here; element writes are recorded
  Parents par;
  VBase* cur = 0;
  std::string line;
  while (std::getline(std::cin, line)) {
    std::vector<std::string> w = verif::words(line);
    if (w.empty()) continue;
    if (w[0] == "mode" && w.size() == 2 && (w[1] == "checked" || w[1] == "unchecked")) {
      if ((w[1] == "checked") == checked) std::cout << "mode " << w[1] << "\n";
      else std::cout << "mode-mismatch\n";
      continue;
    }
    if (w[0] == "parent" || w[0] == "aparent") {
      bool act = (w[0] == "aparent");
      std::vector<int> d(w.size() >= 2 ? w.size() - 2 : 0);
      bool ok = w.size() >= 3 && w.size() <= (act ? 5u : 8u) && (w[1] == "rm" || w[1] == "cm");
      for (size_t k = 0; ok && k < d.size(); ++k) ok = parse_int(w[k + 2], d[k]) && d[k] >= 1;
      if (!ok) { std::cout << "bad-op\n"; continue; }
      delete cur; cur = 0;
      par.clear();
      stack.new_recording();
      set_array_row_major_order(w[1] == "rm");
      if (act)
        switch (d.size()) {
          case 1: cur = make_aparent_1(d, par.a1); break;
          case 2: cur = make_aparent_2(d, par.a2); break;
          default: cur = make_aparent_3(d, par.a3); break;
        }
      else
        switch (d.size()) {
          case 1: cur = make_parent_1(d, par.p1); break;
          case 2: cur = make_parent_2(d, par.p2); break;
          case 3: cur = make_parent_3(d, par.p3); break;
          case 4: cur = make_parent_4(d, par.p4); break;
          case 5: cur = make_parent_5(d, par.p5); break;
          default: cur = make_parent_6(d, par.p6); break;
        }
      set_array_row_major_order(true);
      std::cout << cur->describe() << "\n";
      continue;
    }
    if (w[0] == "fparent") {
      std::vector<int> d(w.size() - 1);
      bool ok = w.size() >= 2 && w.size() <= 5;
      for (size_t k = 0; ok && k < d.size(); ++k) ok = parse_int(w[k + 1], d[k]);
      VBase* nv = 0;
      if (ok) {
        delete cur; cur = 0;
        par.clear();
        nv = make_fixed(d, par.f1, par.f2, par.f2s, par.f3, par.f4);
      }
      if (!nv) { std::cout << "bad-op\n"; continue; }
      cur = nv;
      std::cout << cur->describe() << "\n";
      continue;
    }
    if (w[0] == "efparent" || w[0] == "afparent") {
      // FixedArrays (passive rank 4..6 / ACTIVE rank 1..4) driven through their element accessors only (drv_views_el.h)
      std::vector<int> d(w.size() - 1);
      bool ok = w.size() >= 2 && w.size() <= 7;
      for (size_t k = 0; ok && k < d.size(); ++k) ok = parse_int(w[k + 1], d[k]);
      VBase* nv = 0;
      if (ok) {
        delete cur; cur = 0;
        par.clear();
        if (w[0] == "afparent") { stack.new_recording(); nv = make_afixed(d); }
        else nv = make_efixed(d);
      }
      if (!nv) { std::cout << "bad-op\n"; continue; }
      cur = nv;
      std::cout << cur->describe() << "\n";
      continue;
    }
    if (!cur) { std::cout << "bad-op\n"; continue; }
    try {
      if (w[0] == "contig" && w.size() == 1) {
        int c = cur->contig();
        std::cout << "contig=" << c << "\n";
        continue;
      }
      if (w[0] == "ix" || w[0] == "cix") {
        std::cout << cur->indexed(w) << "\n";
        continue;
      }
      VBase* nv = cur->apply(w);
      delete cur;
      cur = nv;
      if (!cur) std::cout << "ok null\n";
      else std::cout << cur->describe() << "\n";
    }
    catch (BadOp&) { std::cout << "bad-op\n"; }
    catch (index_out_of_bounds&) { std::cout << "err index_out_of_bounds\n"; }
    catch (invalid_operation&) { std::cout << "err invalid_operation\n"; }
    catch (invalid_dimension&) { std::cout << "err invalid_dimension\n"; }
    catch (empty_array&) { std::cout << "err empty_array\n"; }
    catch (size_mismatch&) { std::cout << "err size_mismatch\n"; }
    catch (adept::exception&) { std::cout << "err adept_exception\n"; }
    catch (std::exception&) { std::cout << "err std_exception\n"; }
  }
  delete cur;
  par.clear();
  return 0;
}
