// Correspondence driver for views of adept::Array (model M5 / AdeptModel/Views.lean, property C06).
// usage: drv_views < ops            (same line protocol as lean/Driver/Views.lean)
//   mode checked|unchecked          must name the build (ADEPT_BOUNDS_CHECKING defined or not)
//   parent rm|cm d0 d1 ...          fresh Array<r,int>, r = 1..5, filled with its own cell numbers
//   slice A0 A1 ...                 A = i:E | r:E,E | s:E,E,S | _     E = k | eK  (eK is `end - K`)
//   subset E E ...  | idx E | T | permute p.. | diag k | subdiag b e | reshape d.. | softlink
//   contig                          is_contiguous()
//   ix S0 S1 ...                    integer-vector indexing of the current view (state unchanged): drv_views_idx.h
// Answer to a view-forming op: rank, extents, offset(i), data()-parent.data(), all elements in index
// order (read through operator()(int...)), then -(j+1) is written through element j and every cell of
// the parent allocation that no longer holds its own number is listed (and restored).
//
// Views of different rank are different C++ types: a small class hierarchy V<R> holds them and the
// argument types of operator() are chosen by a recursive template (SliceDisp).  To bound the number
// of instantiations, ranks 1-2 mix all seven argument types per position (int, end-k, the four
// RangeIndex<B,E,int> with B,E in {int, end-k}, AllIndex); ranks 3-5 use per call either the int
// family or the end-k family (an int k is then passed as end-(len-1-k)).
// Compile time: the work is split over drv_views.cpp (main, ranks 0-3), drv_views_r4.cpp,
// drv_views_r5.cpp, drv_views_r5i.cpp, drv_views_r5e.cpp, drv_views_idx*.cpp (IndexedArray), built in parallel by vbuild.
#include "drv_views.h"

int* g_pdata = 0;
long g_vol = 0;

// rank 0: the reference returned by operator() with only scalar arguments
struct V0 : VBase {
  int* p;
  explicit V0(int& r) : p(&r) {}
  int rank() const { return 0; }
  std::string describe() {
    std::ostringstream os;
    os << "ok r=0 d= s= o=" << (p - g_pdata) << " e=" << *p;
    *p = -1;
    os << " w=" << dump_changes();
    return os.str();
  }
  VBase* apply(const std::vector<std::string>&) { throw BadOp(); }
  int contig() { throw BadOp(); }
  std::string indexed(const std::vector<std::string>&) { throw BadOp(); }
};

VBase* wrap(int& r) { return new V0(r); }
VIEWS_DEFINE_RANK(1)
VIEWS_DEFINE_RANK(2)
VIEWS_DEFINE_RANK(3)

struct Parents {
  Array<1,int>* p1; Array<2,int>* p2; Array<3,int>* p3; Array<4,int>* p4; Array<5,int>* p5;
  Parents() : p1(0), p2(0), p3(0), p4(0), p5(0) {}
  void clear() { delete p1; delete p2; delete p3; delete p4; delete p5; p1 = 0; p2 = 0; p3 = 0; p4 = 0; p5 = 0; g_pdata = 0; g_vol = 0; }
};

int main() {
#ifdef ADEPT_BOUNDS_CHECKING
  const bool checked = true;
#else
  const bool checked = false;
#endif
  Parents par;
  VBase* cur = 0;
  std::string line;
  while (std::getline(std::cin, line)) {
    std::vector<std::string> w = verif::words(line);
    if (w.empty()) continue;
    if (w[0] == "mode" && w.size() == 2 && (w[1] == "checked" || w[1] == "unchecked")) {
      if ((w[1] == "checked") == checked) std::cout << "mode " << w[1] << "\n";
      else std::cout << "mode-mismatch\n";
      continue;
    }
    if (w[0] == "parent") {
      std::vector<int> d(w.size() >= 2 ? w.size() - 2 : 0);
      bool ok = w.size() >= 3 && w.size() <= 7 && (w[1] == "rm" || w[1] == "cm");
      for (size_t k = 0; ok && k < d.size(); ++k) ok = parse_int(w[k + 2], d[k]) && d[k] >= 1;
      if (!ok) { std::cout << "bad-op\n"; continue; }
      delete cur; cur = 0;
      par.clear();
      set_array_row_major_order(w[1] == "rm");
      switch (d.size()) {
        case 1: cur = make_parent_1(d, par.p1); break;
        case 2: cur = make_parent_2(d, par.p2); break;
        case 3: cur = make_parent_3(d, par.p3); break;
        case 4: cur = make_parent_4(d, par.p4); break;
        default: cur = make_parent_5(d, par.p5); break;
      }
      set_array_row_major_order(true);
      std::cout << cur->describe() << "\n";
      continue;
    }
    if (!cur) { std::cout << "bad-op\n"; continue; }
    try {
      if (w[0] == "contig" && w.size() == 1) {
        int c = cur->contig();
        std::cout << "contig=" << c << "\n";
        continue;
      }
      if (w[0] == "ix") {
        std::cout << cur->indexed(w) << "\n";
        continue;
      }
      VBase* nv = cur->apply(w);
      delete cur;
      cur = nv;
      if (!cur) std::cout << "ok null\n";
      else std::cout << cur->describe() << "\n";
    }
    catch (BadOp&) { std::cout << "bad-op\n"; }
    catch (index_out_of_bounds&) { std::cout << "err index_out_of_bounds\n"; }
    catch (invalid_operation&) { std::cout << "err invalid_operation\n"; }
    catch (invalid_dimension&) { std::cout << "err invalid_dimension\n"; }
    catch (empty_array&) { std::cout << "err empty_array\n"; }
    catch (size_mismatch&) { std::cout << "err size_mismatch\n"; }
    catch (adept::exception&) { std::cout << "err adept_exception\n"; }
    catch (std::exception&) { std::cout << "err std_exception\n"; }
  }
  delete cur;
  par.clear();
  return 0;
}
