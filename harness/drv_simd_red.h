// Whole-array reductions (C05 driver); instantiated per element type in drv_simd_red_{f,d}.cpp.
#ifndef VERIF_DRV_SIMD_RED_H
#define VERIF_DRV_SIMD_RED_H
#include "drv_simd_logic.h"
// ---- reductions
static int func_id(const std::string& f) {
  const char* names[6] = {"sum", "product", "maxval", "minval", "mean", "norm2"};
  for (int i = 0; i < 6; ++i) if (f == names[i]) return i;
  return -1;
}
template <typename T, class E> static T do_reduce(int func, const E& e) {
  switch (func) {
  case 0: return sum(e);
  case 1: return product(e);
  case 2: return maxval(e);
  case 3: return minval(e);
  case 4: return mean(e);
  default: return norm2(e);
  }
}
// scalar reference, in index order
template <typename T> struct RefAcc {
  int func; T tot; long cnt;
  explicit RefAcc(int f) : func(f), cnt(0) {
    tot = (f == 1) ? T(1) : (f == 2) ? -std::numeric_limits<T>::infinity() : (f == 3) ? std::numeric_limits<T>::infinity() : T(0);
  }
  void add(T x) {
    ++cnt;
    if (func == 0 || func == 4) tot += x; else if (func == 1) tot *= x;
    else if (func == 2) tot = tot < x ? x : tot; else if (func == 3) tot = x < tot ? x : tot; else tot += x * x;
  }
  T result() const { if (cnt == 0) return T(0); if (func == 4) return tot / T(cnt); if (func == 5) return std::sqrt(tot); return tot; }
};
// element values for reductions: products use powers of two
template <typename T> static T rv(int func, int which, long q) { return func == 1 ? vp<T>(q + which) : (which == 0 ? va<T>(q) : vb<T>(q)); }
template <typename T> static T rshape(int shape, T x, T y) { return shape == 0 ? x : shape == 1 ? x + y : x * T(2); }

template <typename T> static std::string red1(const Words& w) {
  if (w.size() != 7) return "bad-op";
  int func = func_id(w[2]), shape = atoi(w[3].c_str()); long n = atol(w[4].c_str()), k1, s1, k2, s2;
  if (func < 0 || shape < 0 || shape > 2 || n < 0 || !two(w[5], k1, s1) || !two(w[6], k2, s2) || s1 < 1 || s2 < 1) return "bad-op";
  if (k1 + s1 * n >= L1 || k2 + s2 * n >= L1) return "bad-op";
  Bufs<T>& B = Bufs<T>::get();
  // private operand buffers so that products can use their own data
  static Array<1, T>* pa = 0; static Array<1, T>* pb = 0;
  if (!pa) { pa = new Array<1, T>(L1); pb = new Array<1, T>(L1); }
  (void)B;
  for (int i = 0; i < L1; ++i) { pa->data()[i] = rv<T>(func, 0, i); pb->data()[i] = rv<T>(func, 1, i); }
  Array<1, T> a = view1(*pa, k1, s1, n), b = view1(*pb, k2, s2, n);
  std::ostringstream g;
  g << "G red " << internal::Packet<T>::size << " -:" << n << " "
    << (shape == 0 ? leaf_token(a) : shape == 1 ? "B " + leaf_token(a) + " " + leaf_token(b) : "U " + leaf_token(a));
  std::string status; T got = T(0);
  hook_reset();
  if (shape == 0) GUARDED(got = do_reduce<T>(func, a), status);
  else if (shape == 1) GUARDED(got = do_reduce<T>(func, a + b), status);
  else GUARDED(got = do_reduce<T>(func, a * T(2)), status);
  std::string h = hook_line();
  if (status.empty()) {
    RefAcc<T> r(func);
    for (long j = 0; j < n; ++j) r.add(rshape<T>(shape, rv<T>(func, 0, k1 + s1 * j), rv<T>(func, 1, k2 + s2 * j)));
    if (bits_of(got) == bits_of(r.result())) status = "R ok";
    else status = "R bad got=" + hex(got) + " exp=" + hex(r.result());
  }
  return g.str() + " | H " + h + " | " + status;
}

template <typename T> static std::string red2(const Words& w) {
  if (w.size() != 8) return "bad-op";
  int func = func_id(w[2]), shape = atoi(w[3].c_str()); long m = atol(w[4].c_str()), n = atol(w[5].c_str()), k1, P1, k2, P2;
  if (func < 0 || shape < 0 || shape > 2 || m < 1 || n < 1 || m > 8 || n > 200 || !two(w[6], k1, P1) || !two(w[7], k2, P2)) return "bad-op";
  if ((P1 && k1 + n > P1) || (P2 && k2 + n > P2)) return "bad-op";
  Mat<T> a(m, n, k1, P1, -1), b(m, n, k2, P2, -1);
  for (long i = 0; i < m; ++i) for (long j = 0; j < n; ++j) { a.v(i, j) = rv<T>(func, 0, i * 31 + j); b.v(i, j) = rv<T>(func, 1, i * 31 + j); }
  std::ostringstream g;
  g << "G red " << internal::Packet<T>::size << " " << m << ":" << n << " "
    << (shape == 0 ? leaf_token(a.v) : shape == 1 ? "B " + leaf_token(a.v) + " " + leaf_token(b.v) : "U " + leaf_token(a.v));
  std::string status; T got = T(0);
  hook_reset();
  if (shape == 0) GUARDED(got = do_reduce<T>(func, a.v), status);
  else if (shape == 1) GUARDED(got = do_reduce<T>(func, a.v + b.v), status);
  else GUARDED(got = do_reduce<T>(func, a.v * T(2)), status);
  std::string h = hook_line();
  if (status.empty()) {
    RefAcc<T> r(func);
    for (long i = 0; i < m; ++i) for (long j = 0; j < n; ++j)
      r.add(rshape<T>(shape, rv<T>(func, 0, i * 31 + j), rv<T>(func, 1, i * 31 + j)));
    if (bits_of(got) == bits_of(r.result())) status = "R ok";
    else status = "R bad got=" + hex(got) + " exp=" + hex(r.result());
  }
  return g.str() + " | H " + h + " | " + status;
}

template <typename T, int N> static std::string redf_n(int func, long kf) {
  typedef FixedArray<T, false, N> FA;
  Placed<T, FA> pf(kf);
  FA& f = *pf.f;
  RefAcc<T> r(func);
  for (int i = 0; i < N; ++i) { f(i) = rv<T>(func, 0, i); r.add(rv<T>(func, 0, i)); }
  std::ostringstream g;
  g << "G red " << internal::Packet<T>::size << " -:" << N << " " << fixed_token<T>(f, std::vector<long>(1, N));
  std::string status; T got = T(0);
  hook_reset();
  GUARDED(got = do_reduce<T>(func, f), status);
  std::string h = hook_line();
  if (status.empty()) status = bits_of(got) == bits_of(r.result()) ? "R ok" : "R bad got=" + hex(got) + " exp=" + hex(r.result());
  return g.str() + " | H " + h + " | " + status;
}
template <typename T> static std::string redf(const Words& w) {
  if (w.size() != 5) return "bad-op";
  int func = func_id(w[2]); long N = atol(w[3].c_str()), kf = atol(w[4].c_str());
  if (func < 0 || kf < 0 || kf > 64) return "bad-op";
  if (N == 8) return redf_n<T, 8>(func, kf);
  if (N == 19) return redf_n<T, 19>(func, kf);
  if (N == 35) return redf_n<T, 35>(func, kf);
  if (N == 67) return redf_n<T, 67>(func, kf);
  return "bad-op";
}
template <typename T, int M, int N> static std::string redf2_mn(int func, long kf) {
  typedef FixedArray<T, false, M, N> FA;
  Placed<T, FA> pf(kf);
  FA& f = *pf.f;
  RefAcc<T> r(func);
  for (int i = 0; i < M; ++i) for (int j = 0; j < N; ++j) { f(i, j) = rv<T>(func, 0, i * 31 + j); r.add(rv<T>(func, 0, i * 31 + j)); }
  std::vector<long> dims; dims.push_back(M); dims.push_back(N);
  std::ostringstream g;
  g << "G red " << internal::Packet<T>::size << " " << M << ":" << N << " " << fixed_token<T>(f, dims);
  std::string status; T got = T(0);
  hook_reset();
  GUARDED(got = do_reduce<T>(func, f), status);
  std::string h = hook_line();
  if (status.empty()) status = bits_of(got) == bits_of(r.result()) ? "R ok" : "R bad got=" + hex(got) + " exp=" + hex(r.result());
  return g.str() + " | H " + h + " | " + status;
}
template <typename T> static std::string redf2(const Words& w) {
  if (w.size() != 5) return "bad-op";
  int func = func_id(w[2]); long kf = atol(w[4].c_str());
  if (func < 0 || kf < 0 || kf > 64) return "bad-op";
  if (w[3] == "3x5") return redf2_mn<T, 3, 5>(func, kf);
  if (w[3] == "3x8") return redf2_mn<T, 3, 8>(func, kf);
  if (w[3] == "2x19") return redf2_mn<T, 2, 19>(func, kf);
  if (w[3] == "2x32") return redf2_mn<T, 2, 32>(func, kf);
  if (w[3] == "2x35") return redf2_mn<T, 2, 35>(func, kf);
  return "bad-op";
}


template <typename T> static std::string dispatch_red(const Words& w) {
  const std::string& op = w[0];
  if (op == "red1") return red1<T>(w);
  if (op == "red2") return red2<T>(w);
  if (op == "redf") return redf<T>(w);
  if (op == "redf2") return redf2<T>(w);
  return "bad-op";
}
#endif
