// element access with a rich index expression in one position: Array<1..3,int>, Array<1..3,double,true> (see drv_views_el.h)
#include "drv_views_el.h"
typedef Array<1,int> P1; typedef Array<2,int> P2; typedef Array<3,int> P3;
typedef Array<1,double,true> A1; typedef Array<2,double,true> A2; typedef Array<3,double,true> A3;
VIEWS_DEFINE_RICH_ELEM(P1)
VIEWS_DEFINE_RICH_ELEM(P2)
VIEWS_DEFINE_RICH_ELEM(P3)
VIEWS_DEFINE_RICH_ELEM(A1)
VIEWS_DEFINE_RICH_ELEM(A2)
VIEWS_DEFINE_RICH_ELEM(A3)
