// rank-4 part of the views driver (see drv_views.cpp): the view class; operator() is in drv_views_r4i.cpp / _r4e.cpp
#include "drv_views.h"
VIEWS_DEFINE_RANK(4)
