// rank-4 part of the views driver (see drv_views.cpp)
#include "drv_views.h"
VIEWS_DEFINE_RANK(4)
