// drv_matmul: square special matrices (see drv_matmul.h)
#include "drv_matmul.h"
namespace mm {
#define S_CASE(TAG, ENG) if (h[2] == TAG) { if (act) build_S1<ENG, true>(s, v); else build_S1<ENG, false>(s, v); return true; }
bool build_group_sq(const Spec& s, XVisitor& v) {
  const Words& h = s.head;
  if (h[0] != "S") return false;
  if (h.size() < 4 || (h[1] != "a" && h[1] != "p")) throw BadOp();
  bool act = h[1] == "a";
  S_CASE("sq", SquareEngine<ROW_MAJOR>) S_CASE("sqc", SquareEngine<COL_MAJOR>)
  return false;
}
}
