// drv_matmul: square special matrices (see drv_matmul.h)
#include "drv_matmul.h"
namespace mm {
bool build_group_s1(const Spec& s, XVisitor& v) {
  S_GROUP_HEAD
  S_PA("sq", SquareEngine<ROW_MAJOR>, 3, 3) S_PA("sqc", SquareEngine<COL_MAJOR>, 0, 0)
  return false;
}
}
