// engine pair 2 of the special-matrix correspondence driver (see drv_special.cpp, drv_special_ops.h)
#define VERIF_GROUP 2
#include "drv_special_ops.h"
