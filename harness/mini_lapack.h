// C API of the harness' own LAPACK (harness/mini_lapack.cpp): every call is recorded.
// The symbols are declared weak so that a driver linked against the system LAPACK instead
// (second opinion, thorough tier) still links; it then sees no call log.
#ifndef VERIF_MINI_LAPACK_H
#define VERIF_MINI_LAPACK_H
extern "C" {
struct MiniLapackCall {
  const char* name;   // "dgesv", "ssysv", ...
  int n, nrhs, lda, ldb;
  char uplo;          // 'U' / 'L' as received, '-' for the general routines
  char read;          // which part of A was actually read: 'G' both strict triangles, 'U', 'L', 'D' diagonal only
  int info;
  int query;          // 1: workspace query (lwork = -1), nothing referenced
  const void* a;      // pointers as received (alias analysis by the driver)
  const void* b;
  long a_bytes, b_bytes;  // extent the routine may touch
};
int mini_lapack_ncalls() __attribute__((weak));
const MiniLapackCall* mini_lapack_get(int i) __attribute__((weak));
void mini_lapack_clear() __attribute__((weak));
}
#endif
