// drv_matmul: column-major band matrices (see drv_matmul.h)
#include "drv_matmul.h"
namespace mm {
bool build_group_s6(const Spec& s, XVisitor& v) {
  S_GROUP_HEAD
  S_P("cb00", BandEngine<COL_MAJOR MM_COMMA 0 MM_COMMA 0>, 0) S_P("cb11", BandEngine<COL_MAJOR MM_COMMA 1 MM_COMMA 1>, 0)
  S_P("cb22", BandEngine<COL_MAJOR MM_COMMA 2 MM_COMMA 2>, 0) S_P("cb20", BandEngine<COL_MAJOR MM_COMMA 2 MM_COMMA 0>, 0)
  S_P("cb02", BandEngine<COL_MAJOR MM_COMMA 0 MM_COMMA 2>, 0) S_P("cb12", BandEngine<COL_MAJOR MM_COMMA 1 MM_COMMA 2>, 1)
  return false;
}
}
