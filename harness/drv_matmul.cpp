// Correspondence driver for matrix multiplication (property C15): main program, dense and fixed-size operands.
// Protocol and output format: see drv_matmul.h.  Special-matrix operand kinds live in drv_matmul_s*.cpp.
#include "drv_matmul.h"
namespace mm {
verif::SpyStack* g_stack = 0;

bool build_group_dense(const Spec& s, XVisitor& v) {
  if (s.head[0] != "M" && s.head[0] != "V") return false;
  build_dense(s, v);
  return true;
}

#define FM_CASE(R, C) if (r == R && c == C) { if (act) build_FM1<true, R, C>(s, v); else build_FM1<false, R, C>(s, v); return true; }
#define FV_CASE(N) if (n == N) { if (act) build_FV1<true, N>(s, v); else build_FV1<false, N>(s, v); return true; }
bool build_group_fixed(const Spec& s, XVisitor& v) {
  const Words& h = s.head;
  if (h[0] != "FM" && h[0] != "FV") return false;
  if (h.size() < 3 || (h[1] != "a" && h[1] != "p")) throw BadOp();
  bool act = h[1] == "a";
  if (h[0] == "FM") {
    long r, c; if (h.size() != 4 || !to_long(h[2], r) || !to_long(h[3], c)) throw BadOp();
    FM_CASE(1, 1) FM_CASE(1, 3) FM_CASE(3, 1) FM_CASE(2, 2) FM_CASE(2, 3) FM_CASE(3, 2) FM_CASE(3, 3)
    FM_CASE(2, 5) FM_CASE(5, 3) FM_CASE(5, 5) FM_CASE(5, 8) FM_CASE(8, 5) FM_CASE(8, 8) FM_CASE(1, 8) FM_CASE(8, 1)
    throw BadOp();
  } else {
    long n; if (h.size() != 3 || !to_long(h[2], n)) throw BadOp();
    FV_CASE(1) FV_CASE(2) FV_CASE(3) FV_CASE(5) FV_CASE(8)
    throw BadOp();
  }
}
} // namespace mm

int main() {
  using namespace mm;
  g_stack = new verif::SpyStack();
  std::string line;
  while (std::getline(std::cin, line)) {
    Words w = verif::words(line);
    if (w.empty()) continue;
    if (w[0] == "cfg" && w.size() == 2) {
      long pw = adept::internal::Packet<double>::size, want;
      if (to_long(w[1], want) && want == pw) std::cout << "cfg " << pw << " ok\n";
      else std::cout << "cfg " << pw << " MISMATCH\n";
      continue;
    }
    if ((w[0] != "P" && w[0] != "Q") || w.size() < 4) { std::cout << "bad-op\n"; continue; }
    size_t bar = 0;
    for (size_t i = 1; i < w.size(); ++i) if (w[i] == "|") { bar = i; break; }
    if (!bar) { std::cout << "bad-op\n"; continue; }
    Spec ls = parse_spec(w, 1, bar), rs = parse_spec(w, bar + 1, w.size());
    if (!ls.ok || !rs.ok) { std::cout << "bad-op\n"; continue; }
    Out out;
    try {
      bool x_left;
      if (is_plain_dense(rs)) x_left = true;
      else if (is_plain_dense(ls)) x_left = false;
      else throw BadOp();
      XVisitor vis(w[0] == "P", x_left, x_left ? rs : ls, out);
      const Spec& xs = x_left ? ls : rs;
      bool done = build_group_dense(xs, vis) || build_group_fixed(xs, vis) || build_group_sq(xs, vis)
               || build_group_symtri(xs, vis) || build_group_band_r(xs, vis) || build_group_band_c(xs, vis);
      if (!done) throw BadOp();
      std::cout << out.text << "\n";
    } catch (const BadOp&) {
      std::cout << "bad-op\n";
    } catch (const std::exception& e) {
      std::cout << "EXC-build " << exc_name(e) << "\n";
    }
    verif::blas_log.clear();
  }
  delete g_stack;
  return 0;
}
