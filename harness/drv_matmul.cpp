// Correspondence driver for matrix multiplication (property C15): main program and dense operands.
// Protocol and output format: see drv_matmul.h.  Fixed-size operands: drv_matmul_f*.cpp; special matrices: drv_matmul_s*.cpp.
#include "drv_matmul.h"
#ifdef MM_NO_SPY
// built against a real BLAS (second opinion of the thorough tier): nothing is logged
namespace verif { std::vector<BlasCall> blas_log; }
#endif
namespace mm {
MMStack* g_stack = 0;

bool build_group_dense(const Spec& s, XVisitor& v) {
  if ((s.head[0] != "M" && s.head[0] != "V") || s.flt) return false;
  build_dense<double>(s, v);
  return true;
}

} // namespace mm

int main() {
  using namespace mm;
  g_stack = new MMStack();
  std::string line;
  while (std::getline(std::cin, line)) {
    Words w = verif::words(line);
    if (w.empty()) continue;
    if (w[0] == "cfg" && w.size() == 2) {
      long pw = adept::internal::Packet<double>::size, want;
      if (to_long(w[1], want) && want == pw) std::cout << "cfg " << pw << " ok\n";
      else std::cout << "cfg " << pw << " MISMATCH\n";
      continue;
    }
    if (w[0] == "cfg" && w.size() == 3) {
      long pw = adept::internal::Packet<double>::size, pwf = adept::internal::Packet<float>::size, want, wantf;
      if (to_long(w[1], want) && want == pw && to_long(w[2], wantf) && wantf == pwf) std::cout << "cfg " << pw << " " << pwf << " ok\n";
      else std::cout << "cfg " << pw << " " << pwf << " MISMATCH\n";
      continue;
    }
    bool flt = w[0] == "Pf" || w[0] == "Qf";
    if ((w[0] != "P" && w[0] != "Q" && !flt) || w.size() < 4) { std::cout << "bad-op\n"; continue; }
    size_t bar = 0;
    for (size_t i = 1; i < w.size(); ++i) if (w[i] == "|") { bar = i; break; }
    if (!bar) { std::cout << "bad-op\n"; continue; }
    Spec ls = parse_spec(w, 1, bar), rs = parse_spec(w, bar + 1, w.size());
    if (!ls.ok || !rs.ok) { std::cout << "bad-op\n"; continue; }
    ls.flt = rs.flt = flt;
    Out out;
    try {
      bool x_left;
      if (is_plain_dense(rs)) x_left = true;
      else if (is_plain_dense(ls)) x_left = false;
      else throw BadOp();
      XVisitor vis(w[0][0] == 'P', x_left, x_left ? rs : ls, out);
      const Spec& xs = x_left ? ls : rs;
      bool done = build_group_dense(xs, vis) || build_group_fixed_p(xs, vis) || build_group_fixed_a(xs, vis)
               || build_group_s1(xs, vis) || build_group_s2(xs, vis) || build_group_s3(xs, vis)
               || build_group_s4(xs, vis) || build_group_s5(xs, vis) || build_group_s6(xs, vis)
               || build_group_flt_dense(xs, vis) || build_group_flt_fixed(xs, vis) || build_group_flt_s1(xs, vis) || build_group_flt_s2(xs, vis);
      if (!done) throw BadOp();
      std::cout << out.text << "\n";
    } catch (const BadOp&) {
      std::cout << "bad-op\n";
    } catch (const std::exception& e) {
      std::cout << "EXC-build " << exc_name(e) << "\n";
    }
    verif::blas_log.clear();
  }
  delete g_stack;
  return 0;
}
