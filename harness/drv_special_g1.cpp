// engine pair 1 of the special-matrix correspondence driver (see drv_special.cpp, drv_special_ops.h)
#define VERIF_GROUP 1
#include "drv_special_ops.h"
