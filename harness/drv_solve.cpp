// Correspondence driver for solve()/inv() (model M9 marshalling, property C16).
// usage: drv_solve < cases          (linked with harness/mini_lapack.cpp, or with the system LAPACK)
//
// one case per line, integer entries, matrices row by row; <p> is d|f (double / float)
//   gsv  <p> <LA> <Lb> n      A(n*n) b(n)        x = solve(A,b)      general, vector right-hand side
//   gsm  <p> <LA> <LB> n m    A(n*n) B(n*m)      X = solve(A,B)      general, matrix right-hand side
//   ssv  <p> <O> <LS> <Lb> n  S(n*n) b(n)        x = solve(S,b)      S a SymmMatrix of orientation O = rl|ru
//   ssm  <p> <O> <LS> <LB> n m S(n*n) B(n*m)     X = solve(S,B)
//   sss  <p> <O> <O2> n       S(n*n) B(n*n)      X = solve(S,B)      both SymmMatrix objects (solve.h converts B)
//   ginv <p> <LA> r c         A(r*c)             R = inv(A)
//   sinv <p> <O> <LS> n       S(n*n)             R = inv(S)
// dense layouts  rm row-major object | cm column-major object | tr .T() of the stored transpose |
//                st strided view of a larger array | sb sub-block of a larger array | ex the expression 2*H (H = A/2)
// vector layouts ct contiguous | st strided view | sb sub-range | col column of a row-major matrix | ex 2*h
// symm layouts   pl plain object | sb submatrix_on_diagonal of a larger SymmMatrix | ex the expression 2*H
//                (the unused triangle of the storage is poisoned with 1e30 before the call)
// output, one line per case:
//   calls=<name,n,nrhs,lda,ldb,uplo,read,info,alias;...> q=<#workspace queries> | <ok shape | exc class> | args=<same|modified:..> # values(%.17g)
//   info is printed as 0 / + / -;  alias=1 if a pointer handed to LAPACK lies inside an operand's storage.
#include "spy.h"
#include <cmath>
#include "mini_lapack.h"
#include <cstdlib>
using namespace adept;

namespace {

struct Bad {};

// every entry of every operand is multiplied by 2^g_scale (exact): a well-conditioned system stays well conditioned at any
// scale; the precision word of a case is `d`, `f` or `d@<k>`, `f@<k>`
static int g_scale = 0;
// `!` at the end of the precision word: operands that are not expressions are passed as RVALUE views of the same data
// (A(__,__), b(__), S.submatrix_on_diagonal(0,n-1)): a temporary that does not own its data must be treated like any argument
static bool g_rvalue = false;
template <typename T> static T scale_factor() { return (T)std::ldexp(1.0, g_scale); }

template <typename T> struct Snap {   // raw image of an operand's whole backing store
  const T* p; long n; std::vector<unsigned char> img;
  Snap() : p(0), n(0) {}
  void take(const T* q, long cnt) { p = q; n = cnt; img.assign((const unsigned char*)q, (const unsigned char*)q + cnt * sizeof(T)); }
  bool same() const { return n == 0 || memcmp(p, &img[0], img.size()) == 0; }
  bool overlaps(const void* a, long bytes) const {
    if (!a || bytes <= 0 || n == 0) return false;
    const char* lo = (const char*)p; const char* hi = lo + n * sizeof(T);
    const char* x = (const char*)a;
    return x < hi && x + bytes > lo;
  }
};

template <typename T> struct Dense {
  Array<2, T, false> store, view;
  bool expr; Snap<T> snap;
  // E: r*c row-major logical entries
  void build(const std::string& lay, int r, int c, const std::vector<long>& E) {
    expr = false;
    if (lay == "rm") { store.resize_row_major(ExpressionSize<2>(r, c)); view >>= store; }
    else if (lay == "cm") { store.resize_column_major(ExpressionSize<2>(r, c)); view >>= store; }
    else if (lay == "tr") { store.resize_row_major(ExpressionSize<2>(c, r)); view >>= store.T(); }
    else if (lay == "st") { store.resize_row_major(ExpressionSize<2>(2 * r, 3 * c)); store = T(-99);
                            view >>= store(stride(0, 2 * r - 2, 2), stride(1, 3 * c - 2, 3)); }
    else if (lay == "sb") { store.resize_row_major(ExpressionSize<2>(r + 3, c + 2)); store = T(-99);
                            view >>= store(range(1, r), range(2, c + 1)); }
    else if (lay == "ex") { store.resize_row_major(ExpressionSize<2>(r, c)); view >>= store; expr = true; }
    else throw Bad();
    if (view.dimension(0) != r || view.dimension(1) != c) throw Bad();
    for (int i = 0; i < r; ++i) for (int j = 0; j < c; ++j) view(i, j) = (expr ? T(E[i * c + j]) * T(0.5) : T(E[i * c + j])) * scale_factor<T>();
    snap.take(store.storage()->data(), store.storage()->n_allocated());
  }
};

template <typename T> struct Vec {
  Array<2, T, false> store2; Array<1, T, false> store, view;
  bool expr; Snap<T> snap;
  void build(const std::string& lay, int n, const std::vector<long>& E) {
    expr = false;
    if (lay == "ct") { store.resize(n); view >>= store; }
    else if (lay == "st") { store.resize(2 * n + 1); store = T(-99); view >>= store(stride(1, 2 * n - 1, 2)); }
    else if (lay == "sb") { store.resize(n + 3); store = T(-99); view >>= store(range(2, n + 1)); }
    else if (lay == "col") { store2.resize_row_major(ExpressionSize<2>(n, 3)); store2 = T(-99); view >>= store2(__, 1); }
    else if (lay == "ex") { store.resize(n); view >>= store; expr = true; }
    else throw Bad();
    if (view.dimension(0) != n) throw Bad();
    for (int i = 0; i < n; ++i) view(i) = (expr ? T(E[i]) * T(0.5) : T(E[i])) * scale_factor<T>();
    if (lay == "col") snap.take(store2.storage()->data(), store2.storage()->n_allocated());
    else snap.take(store.storage()->data(), store.storage()->n_allocated());
  }
};

template <typename T, SymmMatrixOrientation O> struct Symm {
  typedef SpecialMatrix<T, internal::SymmEngine<O>, false> SM;
  SM store, view;
  bool expr; Snap<T> snap;
  void build(const std::string& lay, int n, const std::vector<long>& E) {
    expr = false;
    int big = n;
    if (lay == "pl") { store.resize(n); }
    else if (lay == "sb") { big = n + 3; store.resize(big); }
    else if (lay == "ex") { store.resize(n); expr = true; }
    else throw Bad();
    T* d = store.data();
    for (long k = 0; k < (long)big * big; ++k) d[k] = T(1e30);          // poison: the unused triangle must never matter
    if (lay == "sb") { for (int i = 0; i < big; ++i) for (int j = 0; j <= i; ++j) store(i, j) = T(-99); view >>= store.submatrix_on_diagonal(2, n + 1); }
    else view >>= store;
    if (view.dimension(0) != n) throw Bad();
    for (int i = 0; i < n; ++i) for (int j = 0; j <= i; ++j) {
      if (E[i * n + j] != E[j * n + i]) throw Bad();
      view(i, j) = (expr ? T(E[i * n + j]) * T(0.5) : T(E[i * n + j])) * scale_factor<T>();
    }
    snap.take(d, (long)big * big);
  }
};

std::string g_vals;
template <typename T> void val(T x) { char buf[64]; snprintf(buf, sizeof buf, " %.17g", (double)x); g_vals += buf; }

template <typename T> std::string show(const Array<1, T, false>& x) {
  for (int i = 0; i < x.dimension(0); ++i) val(x(i));
  std::ostringstream os; os << "ok v " << x.dimension(0); return os.str();
}
template <typename T> std::string show(const Array<2, T, false>& x) {
  for (int i = 0; i < x.dimension(0); ++i) for (int j = 0; j < x.dimension(1); ++j) val(x(i, j));
  std::ostringstream os; os << "ok m " << x.dimension(0) << " " << x.dimension(1); return os.str();
}
template <typename T, SymmMatrixOrientation O> std::string show(const SpecialMatrix<T, internal::SymmEngine<O>, false>& x) {
  for (int i = 0; i < x.dimension(0); ++i) for (int j = 0; j < x.dimension(1); ++j) val(x(i, j));
  std::ostringstream os; os << "ok s " << x.dimension(0) << " " << (O == ROW_LOWER_COL_UPPER ? "rl" : "ru"); return os.str();
}

// run f(), classify the outcome
#define GUARD(EXPR)                                                                     \
  try { outcome = show(EXPR); }                                                         \
  catch (const matrix_ill_conditioned&) { outcome = "exc matrix_ill_conditioned"; }     \
  catch (const invalid_operation&) { outcome = "exc invalid_operation"; }               \
  catch (const size_mismatch&) { outcome = "exc size_mismatch"; }                       \
  catch (const feature_not_available&) { outcome = "exc feature_not_available"; }       \
  catch (const adept::exception& e) { outcome = std::string("exc adept::exception"); }  \
  catch (const std::exception& e) { outcome = std::string("exc std::exception"); }

template <typename T> struct Snaps {
  std::vector<const Snap<T>*> s; std::vector<std::string> names;
  void add(const char* nm, const Snap<T>& x) { s.push_back(&x); names.push_back(nm); }
  std::string args() const {
    std::string r;
    for (size_t i = 0; i < s.size(); ++i) if (!s[i]->same()) r += (r.empty() ? "" : ",") + names[i];
    return r.empty() ? "args=same" : "args=modified:" + r;
  }
  bool alias(const MiniLapackCall* c) const {
    for (size_t i = 0; i < s.size(); ++i) if (s[i]->overlaps(c->a, c->a_bytes) || s[i]->overlaps(c->b, c->b_bytes)) return true;
    return false;
  }
};

template <typename T> std::string calls_text(const Snaps<T>& sn) {
  if (!mini_lapack_ncalls) return "calls=? q=?";
  std::ostringstream os; os << "calls=";
  int q = 0; bool first = true;
  for (int i = 0; i < mini_lapack_ncalls(); ++i) {
    const MiniLapackCall* c = mini_lapack_get(i);
    if (c->query) { ++q; continue; }
    if (!first) os << ";";
    first = false;
    os << c->name << "," << c->n << "," << c->nrhs << "," << c->lda << "," << c->ldb << "," << c->uplo << "," << c->read << ","
       << (c->info == 0 ? "0" : c->info > 0 ? "+" : "-") << "," << (sn.alias(c) ? 1 : 0);
  }
  os << " q=" << q;
  return os.str();
}

std::vector<long> take(const std::vector<std::string>& w, size_t& pos, long cnt) {
  if (cnt < 0 || pos + cnt > w.size()) throw Bad();
  std::vector<long> v(cnt);
  for (long i = 0; i < cnt; ++i) {
    char* e; v[i] = strtol(w[pos + i].c_str(), &e, 10);
    if (*e || w[pos + i].empty()) throw Bad();
  }
  pos += cnt;
  return v;
}
int geti(const std::vector<std::string>& w, size_t& pos) {
  std::vector<long> v = take(w, pos, 1);
  if (v[0] < 0 || v[0] > 64) throw Bad();
  return (int)v[0];
}

template <typename T, SymmMatrixOrientation O>
void run_symm(const std::vector<std::string>& w, std::string& outcome, Snaps<T>& sn,
              Symm<T, O>& S, Dense<T>& B, Vec<T>& b) {
  const std::string& op = w[0];
  size_t pos = 3;
  if (op == "ssv") {
    if (w.size() < 6) throw Bad();
    std::string LS = w[3], Lb = w[4]; pos = 5; int n = geti(w, pos);
    if (n < 1) throw Bad();
    std::vector<long> EA = take(w, pos, (long)n * n), Eb = take(w, pos, n);
    if (pos != w.size()) throw Bad();
    S.build(LS, n, EA); b.build(Lb, n, Eb); sn.add("A", S.snap); sn.add("b", b.snap);
    if (mini_lapack_clear) mini_lapack_clear();
    if (S.expr && b.expr) { GUARD(solve(T(2) * S.view, T(2) * b.view)) }
    else if (S.expr) { GUARD(solve(T(2) * S.view, b.view)) }
    else if (b.expr) { GUARD(solve(S.view, T(2) * b.view)) }
    else if (g_rvalue) { GUARD(solve(S.view.submatrix_on_diagonal(0, n - 1), b.view(__))) }
    else { GUARD(solve(S.view, b.view)) }
  } else if (op == "ssm") {
    if (w.size() < 7) throw Bad();
    std::string LS = w[3], LB = w[4]; pos = 5; int n = geti(w, pos), m = geti(w, pos);
    if (n < 1 || m < 1) throw Bad();
    std::vector<long> EA = take(w, pos, (long)n * n), EB = take(w, pos, (long)n * m);
    if (pos != w.size()) throw Bad();
    S.build(LS, n, EA); B.build(LB, n, m, EB); sn.add("A", S.snap); sn.add("B", B.snap);
    if (mini_lapack_clear) mini_lapack_clear();
    if (S.expr && B.expr) { GUARD(solve(T(2) * S.view, T(2) * B.view)) }
    else if (S.expr) { GUARD(solve(T(2) * S.view, B.view)) }
    else if (B.expr) { GUARD(solve(S.view, T(2) * B.view)) }
    else if (g_rvalue) { GUARD(solve(S.view.submatrix_on_diagonal(0, n - 1), B.view(__, __))) }
    else { GUARD(solve(S.view, B.view)) }
  } else if (op == "sinv") {
    if (w.size() < 5) throw Bad();
    std::string LS = w[3]; pos = 4; int n = geti(w, pos);
    if (n < 1) throw Bad();
    std::vector<long> EA = take(w, pos, (long)n * n);
    if (pos != w.size()) throw Bad();
    S.build(LS, n, EA); sn.add("A", S.snap);
    if (mini_lapack_clear) mini_lapack_clear();
    if (S.expr) { GUARD(inv(T(2) * S.view)) } else if (g_rvalue) { GUARD(inv(S.view.submatrix_on_diagonal(0, n - 1))) } else { GUARD(inv(S.view)) }
  } else throw Bad();
}

template <typename T, SymmMatrixOrientation O, SymmMatrixOrientation O2>
void run_sss(const std::vector<std::string>& w, std::string& outcome, Snaps<T>& sn, Symm<T, O>& S, Symm<T, O2>& S2) {
  size_t pos = 4; int n = geti(w, pos);
  if (n < 1) throw Bad();
  std::vector<long> EA = take(w, pos, (long)n * n), EB = take(w, pos, (long)n * n);
  if (pos != w.size()) throw Bad();
  S.build("pl", n, EA); S2.build("pl", n, EB); sn.add("A", S.snap); sn.add("B", S2.snap);
  if (mini_lapack_clear) mini_lapack_clear();
  GUARD(solve(S.view, S2.view))
}

template <typename T> std::string run_case(const std::vector<std::string>& w) {
  std::string outcome;
  Snaps<T> sn;
  Dense<T> A, B; Vec<T> b;
  Symm<T, ROW_LOWER_COL_UPPER> Sl, Sl2; Symm<T, ROW_UPPER_COL_LOWER> Su, Su2;
  const std::string& op = w[0];
  g_vals.clear();
  if (op == "gsv") {
    if (w.size() < 5) throw Bad();
    std::string LA = w[2], Lb = w[3]; size_t pos = 4; int n = geti(w, pos);
    if (n < 1) throw Bad();
    std::vector<long> EA = take(w, pos, (long)n * n), Eb = take(w, pos, n);
    if (pos != w.size()) throw Bad();
    A.build(LA, n, n, EA); b.build(Lb, n, Eb); sn.add("A", A.snap); sn.add("b", b.snap);
    if (mini_lapack_clear) mini_lapack_clear();
    if (A.expr && b.expr) { GUARD(solve(T(2) * A.view, T(2) * b.view)) }
    else if (A.expr) { GUARD(solve(T(2) * A.view, b.view)) }
    else if (b.expr) { GUARD(solve(A.view, T(2) * b.view)) }
    else if (g_rvalue) { GUARD(solve(A.view(__, __), b.view(__))) }
    else { GUARD(solve(A.view, b.view)) }
  } else if (op == "gsm") {
    if (w.size() < 6) throw Bad();
    std::string LA = w[2], LB = w[3]; size_t pos = 4; int n = geti(w, pos), m = geti(w, pos);
    if (n < 1 || m < 1) throw Bad();
    std::vector<long> EA = take(w, pos, (long)n * n), EB = take(w, pos, (long)n * m);
    if (pos != w.size()) throw Bad();
    A.build(LA, n, n, EA); B.build(LB, n, m, EB); sn.add("A", A.snap); sn.add("B", B.snap);
    if (mini_lapack_clear) mini_lapack_clear();
    if (A.expr && B.expr) { GUARD(solve(T(2) * A.view, T(2) * B.view)) }
    else if (A.expr) { GUARD(solve(T(2) * A.view, B.view)) }
    else if (B.expr) { GUARD(solve(A.view, T(2) * B.view)) }
    else if (g_rvalue) { GUARD(solve(A.view(__, __), B.view(__, __))) }
    else { GUARD(solve(A.view, B.view)) }
  } else if (op == "ginv") {
    if (w.size() < 5) throw Bad();
    std::string LA = w[2]; size_t pos = 3; int r = geti(w, pos), c = geti(w, pos);
    if (r < 1 || c < 1) throw Bad();
    std::vector<long> EA = take(w, pos, (long)r * c);
    if (pos != w.size()) throw Bad();
    A.build(LA, r, c, EA); sn.add("A", A.snap);
    if (mini_lapack_clear) mini_lapack_clear();
    if (A.expr) { GUARD(inv(T(2) * A.view)) } else if (g_rvalue) { GUARD(inv(A.view(__, __))) } else { GUARD(inv(A.view)) }
  } else if (op == "ssv" || op == "ssm" || op == "sinv") {
    if (w.size() < 3) throw Bad();
    if (w[2] == "rl") run_symm<T, ROW_LOWER_COL_UPPER>(w, outcome, sn, Sl, B, b);
    else if (w[2] == "ru") run_symm<T, ROW_UPPER_COL_LOWER>(w, outcome, sn, Su, B, b);
    else throw Bad();
  } else if (op == "sss") {
    if (w.size() < 5) throw Bad();
    if (w[2] == "rl" && w[3] == "rl") run_sss(w, outcome, sn, Sl, Sl2);
    else if (w[2] == "rl" && w[3] == "ru") run_sss(w, outcome, sn, Sl, Su2);
    else if (w[2] == "ru" && w[3] == "rl") run_sss(w, outcome, sn, Su, Sl2);
    else if (w[2] == "ru" && w[3] == "ru") run_sss(w, outcome, sn, Su, Su2);
    else throw Bad();
  } else throw Bad();
  return calls_text(sn) + " | " + outcome + " | " + sn.args() + " #" + g_vals;
}

} // namespace

int main() {
  std::string line;
  while (std::getline(std::cin, line)) {
    std::vector<std::string> w = verif::words(line);
    if (w.empty()) continue;
    std::string out;
    try {
      if (w.size() < 2) throw Bad();
      std::string prec = w[1]; g_scale = 0; g_rvalue = false;
      if (!prec.empty() && prec[prec.size() - 1] == '!') { g_rvalue = true; prec = prec.substr(0, prec.size() - 1); }
      size_t at = prec.find('@');
      if (at != std::string::npos) {
        char* e; long k = strtol(prec.c_str() + at + 1, &e, 10);
        if (*e || at + 1 >= prec.size() || k < -200 || k > 200) throw Bad();
        g_scale = (int)k; prec = prec.substr(0, at);
      }
      if (prec == "d") out = run_case<double>(w);
      else if (prec == "f") out = run_case<float>(w);
      else throw Bad();
    } catch (const Bad&) { out = "bad-op"; }
    std::cout << out << std::endl;
  }
  if (mini_lapack_clear) mini_lapack_clear();
  return 0;
}
