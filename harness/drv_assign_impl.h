// Statement interpreter of drv_assign for one (rank, type): included by drv_assign_r<R><t>.cpp with VR and VT defined.
// Expression *types* are chosen at run time from a fixed menu of shapes (with_expr / with_mask / with_indexed call a
// continuation with the expression object), the statement is then executed by the real Adept operators.
#include "drv_assign.h"

namespace c04 {

// ---------------------------------------------------------------- expression menu
template <int R, class T> bool leaf_ok(World<T>& W, int id) { return W.views.count(id) && W.views[id].rank == R; }

// which statement families a shape is offered to (keeps the number of template instantiations, i.e. the
// compile time, bounded): every family sees only its own sub-menu
enum { M_ASG = 1, M_CMP = 2, M_DIV = 4, M_WHR = 8, M_RED = 16, M_IDX = 32, M_FIX = 64, M_EO = 128, M_RED2 = 256,
       M_DOT1 = 512, M_DOT2 = 1024, M_ICMP = 2048, M_WC = 4096, M_FW = 8192 };

template <int R, class T, class K>
bool with_indexed(World<T>& W, int wid, K&& k);      // k(IndexedArray) for an indexed view whose result rank is R

#define SHAPE(BITS, STR, COND, EXPR) if constexpr ((MENU & (BITS)) != 0) { if (s == STR && (COND)) return k(EXPR); }
template <int MENU, int R, class T, class K>
bool with_expr(World<T>& W, const Shape& sh, K&& k) {
  const std::string& s = sh.s;
  for (size_t i = 0; i < sh.L.size(); ++i) if (!leaf_ok<R>(W, sh.L[i])) return false;
  T c0 = sh.C.size() > 0 ? (T)sh.C[0] : (T)0;
#define LF(i) (Get<R, T>::f(W.views[sh.L[i]]))
  size_t nL = sh.L.size(), nC = sh.C.size();
  if (sh.Wl.empty() && sh.Sl.empty() && sh.Ol.empty()) {
    SHAPE(M_ASG | M_CMP | M_DIV | M_WHR | M_RED | M_RED2 | M_IDX | M_FIX | M_EO | M_DOT1 | M_DOT2 | M_ICMP | M_WC | M_FW, "L", nL == 1, LF(0))
    SHAPE(M_ASG | M_CMP | M_FIX | M_WC, "add L L", nL == 2, LF(0) + LF(1))
    SHAPE(M_ASG, "sub L L", nL == 2, LF(0) - LF(1))
    SHAPE(M_ASG | M_WHR | M_RED2 | M_IDX | M_FIX, "mul L L", nL == 2, LF(0) * LF(1))
    SHAPE(M_ASG | M_RED2 | M_IDX | M_FIX | M_EO | M_DOT1 | M_ICMP | M_WC | M_FW, "add L c", nL == 1 && nC == 1, LF(0) + c0)
    SHAPE(M_ASG | M_CMP, "sub c L", nL == 1 && nC == 1, c0 - LF(0))
    SHAPE(M_ASG | M_DOT2, "mul c L", nL == 1 && nC == 1, c0 * LF(0))
    SHAPE(M_ASG | M_CMP, "mul L c", nL == 1 && nC == 1, LF(0) * c0)
    SHAPE(M_ASG | M_CMP, "add mul L L L", nL == 3, LF(0) * LF(1) + LF(2))
    SHAPE(M_ASG, "sub L mul c L", nL == 2 && nC == 1, LF(0) - c0 * LF(1))
    SHAPE(M_ASG, "na L", nL == 1, noalias(LF(0)))
    SHAPE(M_ASG | M_WHR | M_IDX | M_FIX, "add na L L", nL == 2, noalias(LF(0)) + LF(1))
    SHAPE(M_ASG, "na add L L", nL == 2, noalias(LF(0) + LF(1)))
    SHAPE(M_ASG | M_CMP, "add L na L", nL == 2, LF(0) + noalias(LF(1)))
    SHAPE(M_ASG, "mul add L L sub L c", nL == 3 && nC == 1, (LF(0) + LF(1)) * (LF(2) - c0))
    SHAPE(M_ASG, "div L c", nL == 1 && nC == 1, LF(0) / c0)
    SHAPE(M_ASG, "div L L", nL == 2, LF(0) / LF(1))
    SHAPE(M_CMP | M_DIV, "c", nL == 0 && nC == 1, c0)
    return false;
  }
  if constexpr ((MENU & (M_ASG | M_RED2 | M_IDX | M_WHR | M_CMP | M_EO)) != 0) {
    if (sh.Wl.size() == 1 && sh.Sl.empty() && sh.Ol.empty()) {
      if (s == "W") return with_indexed<R>(W, sh.Wl[0], [&](const auto& iw) { return k(iw); });
      if constexpr ((MENU & (M_ASG | M_WHR)) != 0) {
        if (s == "add W L" && nL == 1) return with_indexed<R>(W, sh.Wl[0], [&](const auto& iw) { return k(iw + LF(0)); });
      }
      return false;
    }
  }
  if constexpr (R >= 2 && (MENU & (M_ASG | M_RED2)) != 0) {
    if (sh.Sl.size() == 1 && sh.Wl.empty() && sh.Ol.empty()) {
      if (!leaf_ok<R - 1>(W, sh.Sl[0])) return false;
      Array<R - 1, T>& a = Get<R - 1, T>::f(W.views[sh.Sl[0]]);
      Index n = sh.sn;
      if (s == "S0") return k(spread<0>(a, n));
      if (s == "S1") return k(spread<1>(a, n));
      if constexpr ((MENU & M_ASG) != 0) {
        if (s == "add S0 L" && nL == 1) return k(spread<0>(a, n) + LF(0));
        if (s == "add S1 L" && nL == 1) return k(spread<1>(a, n) + LF(0));
      }
      if constexpr (R >= 3) {
        if (s == "S2") return k(spread<2>(a, n));
      }
      return false;
    }
  }
  if constexpr (R == 2 && (MENU & (M_ASG | M_RED2 | M_CMP)) != 0) {
    if (sh.Ol.size() == 2 && sh.Wl.empty() && sh.Sl.empty()) {
      if (!leaf_ok<1>(W, sh.Ol[0]) || !leaf_ok<1>(W, sh.Ol[1])) return false;
      Array<1, T>& a = W.views[sh.Ol[0]].a1; Array<1, T>& b = W.views[sh.Ol[1]].a1;
      if (s == "O") return k(outer_product(a, b));
      if constexpr ((MENU & M_ASG) != 0) {
        if (s == "sub O L" && nL == 1) return k(outer_product(a, b) - LF(0));
      }
      return false;
    }
  }
  return false;
}

// the FixedArray object of an allocation
template <int R, class T, class F>
bool with_fixed(Alloc<T>& al, F&& f) {
  if constexpr (R == 1) { if (al.fkind == 4) return f(*static_cast<FixedArray<T, false, 4>*>(al.fixed.get())); }
  if constexpr (R == 2) {
    if (al.fkind == 23) return f(*static_cast<FixedArray<T, false, 2, 3>*>(al.fixed.get()));
    if (al.fkind == 33) return f(*static_cast<FixedArray<T, false, 3, 3>*>(al.fixed.get()));
  }
  if constexpr (R == 3) { if (al.fkind == 234) return f(*static_cast<FixedArray<T, false, 2, 3, 4>*>(al.fixed.get())); }
  return false;
}

template <int MENU, int R, class T, class K>
bool with_mask(World<T>& W, const Shape& sh, K&& k) {
  const std::string& s = sh.s;
  T c0 = sh.C.size() > 0 ? (T)sh.C[0] : (T)0;
  T c1 = sh.C.size() > 1 ? (T)sh.C[1] : (T)0;
  if (s == "B" && sh.L.size() == 1) {
    int id = -1 - sh.L[0];
    if (!W.bools.count(id) || W.bools[id].rank != R) return false;
    return k(GetB<R>::f(W.bools[id]));
  }
  for (size_t i = 0; i < sh.L.size(); ++i) if (!leaf_ok<R>(W, sh.L[i])) return false;
  size_t nL = sh.L.size(), nC = sh.C.size();
  if (s == "gt L c" && nL == 1 && nC == 1) return k(LF(0) > c0);
  if (s == "lt L L" && nL == 2) return k(LF(0) < LF(1));
  if constexpr (MENU == 0) {
    if (s == "ne L c" && nL == 1 && nC == 1) return k(LF(0) != c0);
    if (s == "not gt L c" && nL == 1 && nC == 1) return k(!(LF(0) > c0));
    if (s == "and gt L c lt L c" && nL == 2 && nC == 2) return k((LF(0) > c0) && (LF(1) < c1));
    if (s == "ge add L L c" && nL == 2 && nC == 1) return k((LF(0) + LF(1)) >= c0);
  }
  (void)c1;
  return false;
}

// IndexedArray kinds: which dimensions of the wrapped view are indexed by an intVector (i), `__` (a) or a scalar (n)
template <int R, class T, class K>
bool with_indexed(World<T>& W, int wid, K&& k) {
  if (!W.iviews.count(wid)) return false;
  IV& iv = W.iviews[wid];
  if (!W.views.count(iv.view)) return false;
  VW<T>& pv = W.views[iv.view];
  if (pv.rank != (int)iv.sel.size()) return false;
  std::string kind;
  for (size_t j = 0; j < iv.sel.size(); ++j) kind += iv.sel[j].kind == 0 ? 'i' : iv.sel[j].kind == 1 ? 'a' : 'n';
  for (size_t j = 0; j < iv.sel.size(); ++j) if (iv.sel[j].kind == 0 && !W.idx.count(iv.sel[j].id)) return false;
#define IX(j) (W.idx[iv.sel[j].id])
#define NN(j) ((Index)iv.sel[j].n)
  if constexpr (R == 1) {
    if (kind == "i") return k(pv.a1(IX(0)));
    if (kind == "ni") return k(pv.a2(NN(0), IX(1)));
    if (kind == "in") return k(pv.a2(IX(0), NN(1)));
  }
  if constexpr (R == 2) {
    if (kind == "ii") return k(pv.a2(IX(0), IX(1)));
    if (kind == "ia") return k(pv.a2(IX(0), __));
    if (kind == "ai") return k(pv.a2(__, IX(1)));
    if (kind == "nia") return k(pv.a3(NN(0), IX(1), __));
  }
  if constexpr (R == 3) {
    if (kind == "iii") return k(pv.a3(IX(0), IX(1), IX(2)));
    if (kind == "aia") return k(pv.a3(__, IX(1), __));
  }
  return false;
#undef IX
#undef NN
}

// ---------------------------------------------------------------- oracle helpers
template <int R> struct Coords {
  int d[3]; int c[3]; long n;
  bool first() { n = 1; for (int k = 0; k < R; ++k) { c[k] = 0; n *= d[k]; } return n > 0; }
  bool next() { for (int k = R - 1; k >= 0; --k) { if (++c[k] < d[k]) return true; c[k] = 0; } return false; }
};

template <class T> std::string image_diff(World<T>& W, const std::vector<T>& exp, const std::vector<T>& got) {
  std::ostringstream os;
  size_t k = 0;
  for (typename std::map<int, Alloc<T> >::iterator it = W.allocs.begin(); it != W.allocs.end(); ++it) {
    bool differs = false;
    for (Index i = 0; i < it->second.n; ++i) if (exp[k + i] != got[k + i]) differs = true;
    if (differs) {
      os << " exp a" << it->first << ":";
      for (Index i = 0; i < it->second.n; ++i) os << " " << num((double)exp[k + i]);
    }
    k += it->second.n;
  }
  return os.str();
}

// "evaluate the whole right-hand side (and the mask) through operator() into temporaries, then store through
// operator()": performed on the real memory, the result is recorded and the memory restored.
// kind: 0 plain, 1..4 compound (+ - * /), 5 where, 6 either_or, 7 scalar broadcast, 11..14 where-compound (+ - * /):
// selected elements become old OP rhs (mask, old and rhs all read before anything is stored), the others are not stored
// returns 0 ok, 1 hazard
template <int R, class T, class WR>
int oracle_expected(World<T>& W, int kind, const int* d, WR&& write_lhs, const std::function<T(const int*)>& read_lhs,
                    const Shape* mask, const Shape* rhs, long rhs_scalar, const Shape* rhs2, long rhs2_scalar,
                    std::vector<T>& expected) {
  Coords<R> cs; for (int k = 0; k < R; ++k) cs.d[k] = d[k];
  std::vector<long long> tmp; std::vector<char> mk;
  bool hz = false;
  if (cs.first()) do {
    bool m = true;
    if (mask) { Tok t; t.w = mask->toks; t.p = 0; m = evalB(W, t, cs.c, R, hz); }
    long long v;
    const Shape* src = (kind == 6 && !m) ? rhs2 : rhs;
    long sc = (kind == 6 && !m) ? rhs2_scalar : rhs_scalar;
    if (src) { Tok t; t.w = src->toks; t.p = 0; v = evalE(W, t, cs.c, R, hz); } else v = sc;
    const int ck = (kind >= 11 && kind <= 14) ? kind - 10 : kind;
    if (ck >= 1 && ck <= 4) {   // at every position: the temporary-copy path evaluates the whole right-hand side
      long long a = (long long)read_lhs(cs.c);
      if (ck == 1) v = a + v; else if (ck == 2) v = a - v; else if (ck == 3) v = a * v;
      else { if (v == 0 || (!std::is_integral<T>::value && a % v != 0)) hz = true; else v = a / v; }
      long long lim = std::is_integral<T>::value ? (1LL << 30) : (1LL << 50);
      if (v > lim || v < -lim) hz = true;
    }
    tmp.push_back(v); mk.push_back(kind == 6 ? 1 : (m ? 1 : 0));
  } while (cs.next());
  if (hz) return 1;
  std::vector<T> snap = snapshot(W);
  size_t k = 0;
  if (cs.first()) do { if (mk[k]) write_lhs(cs.c, (T)tmp[k]); ++k; } while (cs.next());
  expected = snapshot(W);
  restore(W, snap);
  return 0;
}

template <class T> std::string verdict(World<T>& W, const std::vector<T>& expected) {
  std::vector<T> got = snapshot(W);
  if (got == expected) return " o=ok";
  return " o=bad" + image_diff(W, expected, got);
}

template <class E> std::string elems_str(const std::vector<E>& v) {
  std::ostringstream os; for (size_t i = 0; i < v.size(); ++i) os << " " << num((double)v[i]); return os.str();
}

// ---------------------------------------------------------------- statements
template <class E, class T>
typename std::enable_if<std::is_arithmetic<E>::value, int>::type aliased(const E&, const T*, const T*) { return 0; }
template <class E, class T>
typename std::enable_if<!std::is_arithmetic<E>::value, int>::type aliased(const E& e, const T* b, const T* x) { return e.is_aliased(b, x); }

template <class LHS, class E> void do_op(int kind, LHS& l, const E& e) {
  switch (kind) {
    case 0: l = e; break;
    case 1: l += e; break;
    case 2: l -= e; break;
    case 3: l *= e; break;
    default: l /= e; break;
  }
}

// `A.where(mask) OP= e`.  On the pinned tree the four operators do not compile (where.h ADEPT_WHERE_OPERATOR writes
// noalias(*this) with *this the Where proxy: finding where-compound-does-not-compile; checks/c04.py probes this on every
// run).  Without -DVERIF_WHERE_COMPOUND_NATIVE the statement is executed through the macro body with the operand repaired,
// `A.assign_conditional(mask, noalias(A) OP e)`, so that Array/FixedArray::assign_conditional is exercised with exactly the
// right-hand side the operator would build.
template <class A, class M, class E> void do_wop(int ck, A& a, const M& mk, const E& e) {
#ifdef VERIF_WHERE_COMPOUND_NATIVE
  switch (ck) {
    case 1: a.where(mk) += e; break;
    case 2: a.where(mk) -= e; break;
    case 3: a.where(mk) *= e; break;
    default: a.where(mk) /= e; break;
  }
#else
  switch (ck) {
    case 1: a.assign_conditional(mk, noalias(a) + e); break;
    case 2: a.assign_conditional(mk, noalias(a) - e); break;
    case 3: a.assign_conditional(mk, noalias(a) * e); break;
    default: a.assign_conditional(mk, noalias(a) / e); break;
  }
#endif
}

// a std::initializer_list of run-time length (0..MAXN): the pack is expanded into a NAMED list, whose backing array lives for the
// block, and handed to the continuation
template <int MAXN, class T, class F, class... Xs>
void with_ilist(const std::vector<T>& x, size_t k, F&& f, Xs... xs) {
  if (k == x.size()) { std::initializer_list<T> il = {xs...}; f(il); return; }
  if constexpr ((int)sizeof...(Xs) < MAXN) with_ilist<MAXN>(x, k + 1, f, xs..., x[k]);
}
// target = {x...} (rank 1) or target = {{...}, {...}, ...} (rank 2, 1..3 rows, each of its own length 0..4)
template <int R, class T, class TGT> void assign_ilist(TGT& target, const std::vector<std::vector<T> >& rows) {
  typedef std::initializer_list<T> IL;
  if constexpr (R == 1) with_ilist<5>(rows[0], 0, [&](IL a) { target = a; });
  else {
    const size_t nr = rows.size();
    with_ilist<4>(rows[0], 0, [&](IL a) {
      if (nr == 1) { target = {a}; return; }
      with_ilist<4>(rows[1], 0, [&](IL b) {
        if (nr == 2) { target = {a, b}; return; }
        with_ilist<4>(rows[2], 0, [&](IL c) { target = {a, b, c}; });
      });
    });
  }
}

template <int R, class T> bool arg_dims(World<T>& W, const Shape& sh, int* d) {
  d[0] = d[1] = d[2] = 0;
  if (sh.first_view >= 0 && W.views.count(sh.first_view)) {
    VW<T>& fv = W.views[sh.first_view];
    if (!sh.Ol.empty() && sh.rank_adj) { int a[3], b[3]; dims_of(W.views[sh.Ol[0]], a); dims_of(W.views[sh.Ol[1]], b); d[0] = a[0]; d[1] = b[0]; }
    else if (!sh.Sl.empty() && sh.rank_adj) {
      int a[3]; dims_of(fv, a); int sd = sh.s[sh.s.find('S') + 1] - '0'; int k = 0;
      for (int j = 0; j < R; ++j) d[j] = (j == sd) ? sh.sn : a[k++];
    } else dims_of(fv, d);
    return true;
  }
  if (sh.L.size() == 1 && sh.L[0] < 0 && W.bools.count(-1 - sh.L[0])) {
    BW& b = W.bools[-1 - sh.L[0]];
    for (int k = 0; k < R; ++k) d[k] = b.rank == 1 ? b.a1.dimension(k) : b.rank == 2 ? b.a2.dimension(k) : b.a3.dimension(k);
    return true;
  }
  if (!sh.Wl.empty() && W.iviews.count(sh.Wl[0])) { iv_dims(W, W.iviews[sh.Wl[0]], d); return true; }
  return false;
}

template <int R, class T, class A> void print_result(std::ostringstream& os, A& r) {
  VW<T> vw; vw.rank = R; Get<R, T>::f(vw) >>= r;
  Coords<R> rc; for (int k = 0; k < R; ++k) rc.d[k] = r.dimension(k);
  os << "R"; if (rc.first()) do { os << " " << num((double)rd(vw, rc.c)); } while (rc.next());
}
template <int R, class A> void print_result_b(std::ostringstream& os, A& r) {
  BW bw; bw.rank = R; GetB<R>::f(bw) >>= r;
  Coords<R> rc; for (int k = 0; k < R; ++k) rc.d[k] = r.dimension(k);
  os << "R"; if (rc.first()) do { os << " " << (int)rdb(bw, rc.c); } while (rc.next());
}

template <int R, class T>
bool exec_ranked(World<T>& W, std::vector<std::string>& w, std::string& out) {
  const std::string& op = w[0];
  std::ostringstream os;
  // ---------------- statements on an Array target
  if (op == "asg" || op == "asge" || op == "asgi" || op == "cadd" || op == "csub" || op == "cmul" || op == "cdiv" || op == "sca" || op == "whr" || op == "weo" ||
      op == "wcadd" || op == "wcsub" || op == "wcmul" || op == "wcdiv") {
    int lid = idof(w[1]);
    if (!leaf_ok<R>(W, lid)) return false;
    VW<T>& lv = W.views[lid];
    Array<R, T>& Lh = Get<R, T>::f(lv);
    int d[3]; dims_of(lv, d);
    const T* pb; const T* pe; Lh.data_range(pb, pe);
    auto wl = [&](const int* c, T x) { wr(lv, c, x); };
    std::function<T(const int*)> rl = [&](const int* c) { return rd(lv, c); };
    Tok t; t.w = w; t.p = 2;
    std::vector<T> expected;
    if (op == "sca") {
      if (w.size() != 3) return false;
      long x = atol(w[2].c_str());
      if (oracle_expected<R, T>(W, 7, d, wl, rl, 0, 0, x, 0, 0, expected)) { out = "hazard"; return true; }
      Lh = (T)x;
      out = "ok" + verdict(W, expected); return true;
    }
    const int wck = op == "wcadd" ? 1 : op == "wcsub" ? 2 : op == "wcmul" ? 3 : op == "wcdiv" ? 4 : 0;
    if (wck) {
      Shape msh; if (!parse_shape(t, msh, true)) return false;
      if (!t.more() || t.next() != ";") return false;
      Shape r1; long s1 = 0; bool sc1 = false;
      if (t.more() && t.peek()[0] == 's') { sc1 = true; s1 = atol(t.next().c_str() + 1); } else if (!parse_shape(t, r1, false)) return false;
      if (t.more()) return false;
      if (oracle_expected<R, T>(W, 10 + wck, d, wl, rl, &msh, sc1 ? 0 : &r1, s1, 0, 0, expected)) { out = "hazard"; return true; }
      int aflag = 0;
      bool done = with_mask<1, R>(W, msh, [&](const auto& mk) {
        if (sc1) { do_wop(wck, Lh, mk, (T)s1); return true; }
        return with_expr<M_WC, R>(W, r1, [&](const auto& e) { aflag = aliased(e, pb, pe); do_wop(wck, Lh, mk, e); return true; });
      });
      if (!done) return false;
      os << "ok a=" << aflag;
      out = os.str() + verdict(W, expected); return true;
    }
    if (op == "whr" || op == "weo") {
      Shape msh; if (!parse_shape(t, msh, true)) return false;
      if (!t.more() || t.next() != ";") return false;
      Shape r1, r2; long s1 = 0, s2 = 0; bool sc1 = false, sc2 = false;
      if (t.more() && t.peek()[0] == 's') { sc1 = true; s1 = atol(t.next().c_str() + 1); } else if (!parse_shape(t, r1, false)) return false;
      if (op == "weo") {
        if (!t.more() || t.next() != ";") return false;
        if (t.more() && t.peek()[0] == 's') { sc2 = true; s2 = atol(t.next().c_str() + 1); } else if (!parse_shape(t, r2, false)) return false;
      }
      if (t.more()) return false;
      if (oracle_expected<R, T>(W, op == "whr" ? 5 : 6, d, wl, rl, &msh, sc1 ? 0 : &r1, s1, sc2 ? 0 : &r2, s2, expected)) { out = "hazard"; return true; }
      int aflag = 0; bool done = false;
      if (op == "whr") {
        done = with_mask<0, R>(W, msh, [&](const auto& mk) {
          if (sc1) { Lh.where(mk) = (T)s1; return true; }
          return with_expr<M_WHR, R>(W, r1, [&](const auto& e) { aflag = aliased(e, pb, pe); Lh.where(mk) = e; return true; });
        });
      } else {
        done = with_mask<1, R>(W, msh, [&](const auto& mk) {
          auto second = [&](const auto& e1) {
            if (sc2) { Lh.where(mk) = either_or(e1, (T)s2); return true; }
            if (r2.s != "L") return false;
            return with_expr<M_RED, R>(W, r2, [&](const auto& e2) { Lh.where(mk) = either_or(e1, e2); return true; });
          };
          if (sc1) return second((T)s1);
          return with_expr<M_EO, R>(W, r1, [&](const auto& e1) { return second(e1); });
        });
      }
      if (!done) return false;
      if (op == "whr") os << "ok a=" << aflag; else os << "ok";
      out = os.str() + verdict(W, expected); return true;
    }
    Shape sh; if (!parse_shape(t, sh, false) || t.more()) return false;
    int kind = (op == "asg" || op == "asge" || op == "asgi") ? 0 : op == "cadd" ? 1 : op == "csub" ? 2 : op == "cmul" ? 3 : 4;
    if (oracle_expected<R, T>(W, kind, d, wl, rl, 0, &sh, 0, 0, 0, expected)) { out = "hazard"; return true; }
    int aflag = 0; bool done;
    // asge: the right-hand side is an rvalue Array (eval(e) returns a temporary that owns its data): move assignment,
    // which may steal the temporary's data only if the target owns unshared storage — a view or a storage-less target
    // must be stored into in place
    if (op == "asge") done = with_expr<M_ASG, R>(W, sh, [&](const auto& e) { aflag = aliased(e, pb, pe); Lh = eval(e); return true; });
    // asgi: the public Array::assign_inactive(expr) ("activeness of the right-hand side ignored"; also behind operator<< of an
    // expression): for a passive array the same alias test + temporary as operator=, through its own code path
    else if (op == "asgi") done = with_expr<M_FIX, R>(W, sh, [&](const auto& e) { aflag = aliased(e, pb, pe); Lh.assign_inactive(e); return true; });
    else if (kind == 0) done = with_expr<M_ASG, R>(W, sh, [&](const auto& e) { aflag = aliased(e, pb, pe); Lh = e; return true; });
    else if (kind == 4) done = with_expr<M_DIV, R>(W, sh, [&](const auto& e) { aflag = aliased(e, pb, pe); Lh /= e; return true; });
    else done = with_expr<M_CMP, R>(W, sh, [&](const auto& e) { aflag = aliased(e, pb, pe); do_op(kind, Lh, e); return true; });
    if (!done) return false;
    os << "ok a=" << aflag;
    out = os.str() + verdict(W, expected); return true;
  }
  // ---------------- FixedArray target (the object itself, not an Array view of it)
  if (op == "fasg" || op == "fcadd" || op == "fcmul") {
    int aid = idof(w[1]);
    if (!W.allocs.count(aid) || !W.allocs[aid].fkind) return false;
    Tok t; t.w = w; t.p = 2;
    Shape sh; if (!parse_shape(t, sh, false) || t.more()) return false;
    int kind = op == "fasg" ? 0 : op == "fcadd" ? 1 : 3;
    int aflag = 0; bool hazard = false;
    bool done = with_fixed<R>(W.allocs[aid], [&](auto& fa) {
      int d[3] = {0, 0, 0}; for (int k = 0; k < R; ++k) d[k] = fa.dimension(k);
      auto wl = [&](const int* c, T x) { if constexpr (R == 1) fa(c[0]) = x; else if constexpr (R == 2) fa(c[0], c[1]) = x; else fa(c[0], c[1], c[2]) = x; };
      std::function<T(const int*)> rl = [&](const int* c) { if constexpr (R == 1) return (T)fa(c[0]); else if constexpr (R == 2) return (T)fa(c[0], c[1]); else return (T)fa(c[0], c[1], c[2]); };
      std::vector<T> expected;
      if (oracle_expected<R, T>(W, kind, d, wl, rl, 0, &sh, 0, 0, 0, expected)) { hazard = true; return true; }
      const T* pb; const T* pe; fa.data_range(pb, pe);
      bool ok2;
      if (kind == 0) ok2 = with_expr<M_FIX, R>(W, sh, [&](const auto& e) { aflag = aliased(e, pb, pe); fa = e; return true; });
      else ok2 = with_expr<M_EO, R>(W, sh, [&](const auto& e) { aflag = aliased(e, pb, pe); if (kind == 1) fa += e; else fa *= e; return true; });
      if (ok2) { os << "ok a=" << aflag; out = os.str() + verdict(W, expected); }
      return ok2;
    });
    if (hazard) { out = "hazard"; return true; }
    return done;
  }
  // ---------------- FixedArray.where(mask) = / += / *= rhs, = either_or(c, d)
  if (op == "fwhr" || op == "fwcadd" || op == "fwcmul" || op == "fweo") {
    int aid = idof(w[1]);
    if (!W.allocs.count(aid) || !W.allocs[aid].fkind) return false;
    Tok t; t.w = w; t.p = 2;
    Shape msh; if (!parse_shape(t, msh, true)) return false;
    if (!t.more() || t.next() != ";") return false;
    Shape r1, r2; long s1 = 0, s2 = 0; bool sc1 = false, sc2 = false;
    if (t.more() && t.peek()[0] == 's') { sc1 = true; s1 = atol(t.next().c_str() + 1); } else if (!parse_shape(t, r1, false)) return false;
    if (op == "fweo") {
      if (!t.more() || t.next() != ";") return false;
      if (t.more() && t.peek()[0] == 's') { sc2 = true; s2 = atol(t.next().c_str() + 1); } else if (!parse_shape(t, r2, false)) return false;
    }
    if (t.more()) return false;
    int kind = op == "fwhr" ? 5 : op == "fweo" ? 6 : op == "fwcadd" ? 11 : 13;
    int aflag = 0; bool hazard = false;
    bool done = with_fixed<R>(W.allocs[aid], [&](auto& fa) {
      int d[3] = {0, 0, 0}; for (int k = 0; k < R; ++k) d[k] = fa.dimension(k);
      auto wl = [&](const int* c, T x) { if constexpr (R == 1) fa(c[0]) = x; else if constexpr (R == 2) fa(c[0], c[1]) = x; else fa(c[0], c[1], c[2]) = x; };
      std::function<T(const int*)> rl = [&](const int* c) { if constexpr (R == 1) return (T)fa(c[0]); else if constexpr (R == 2) return (T)fa(c[0], c[1]); else return (T)fa(c[0], c[1], c[2]); };
      std::vector<T> expected;
      if (oracle_expected<R, T>(W, kind, d, wl, rl, &msh, sc1 ? 0 : &r1, s1, sc2 ? 0 : &r2, s2, expected)) { hazard = true; return true; }
      const T* pb; const T* pe; fa.data_range(pb, pe);
      bool ok2 = with_mask<1, R>(W, msh, [&](const auto& mk) {
        if (kind == 6) {
          auto second = [&](const auto& e1) {
            if (sc2) { fa.where(mk) = either_or(e1, (T)s2); return true; }
            if (r2.s != "L") return false;
            return with_expr<M_RED, R>(W, r2, [&](const auto& e2) { fa.where(mk) = either_or(e1, e2); return true; });
          };
          if (sc1) return second((T)s1);
          if (r1.s != "L") return false;
          return with_expr<M_RED, R>(W, r1, [&](const auto& e1) { return second(e1); });
        }
        if (sc1) { if (kind == 5) fa.where(mk) = (T)s1; else do_wop(kind - 10, fa, mk, (T)s1); return true; }
        return with_expr<M_FW, R>(W, r1, [&](const auto& e) {
          aflag = aliased(e, pb, pe);
          if (kind == 5) fa.where(mk) = e; else do_wop(kind - 10, fa, mk, e);
          return true; });
      });
      if (ok2) { if (kind == 6) os << "ok"; else os << "ok a=" << aflag; out = os.str() + verdict(W, expected); }
      return ok2;
    });
    if (hazard) { out = "hazard"; return true; }
    return done;
  }
  // ---------------- initializer lists as statements: v = {..} / M = {{..},{..}} on Array, FixedArray, IndexedArray targets
  // ilst v<id> | filst f<aid> | iilst w<id>   <nrows> <n0> x.. <n1> x.. ...
  // oracle = the documented meaning: the listed elements are stored, every other element of the target becomes zero
  if (op == "ilst" || op == "filst" || op == "iilst") {
    if constexpr (R <= 2) {
      size_t p = 2;
      if (w.size() < 4) return false;
      int nrows = atoi(w[p++].c_str());
      if (nrows < 1 || nrows > 3 || (R == 1 && nrows != 1)) return false;
      std::vector<std::vector<T> > rows(nrows);
      for (int i = 0; i < nrows; ++i) {
        if (p >= w.size()) return false;
        int n = atoi(w[p++].c_str());
        if (n < 0 || n > (R == 1 ? 5 : 4) || p + n > w.size()) return false;
        for (int j = 0; j < n; ++j) rows[i].push_back((T)atol(w[p++].c_str()));
      }
      if (p != w.size()) return false;
      auto val = [&](const int* c) -> T {
        if constexpr (R == 1) return c[0] < (int)rows[0].size() ? rows[0][c[0]] : (T)0;
        else return (c[0] < nrows && c[1] < (int)rows[c[0]].size()) ? rows[c[0]][c[1]] : (T)0;
      };
      auto fits = [&](const int* d, bool exact) {
        if (nrows > d[0] && R == 2) return false;
        for (int i = 0; i < nrows; ++i) if ((int)rows[i].size() > d[R - 1]) return false;
        if (exact) { if (R == 2 && nrows != d[0]) return false; for (int i = 0; i < nrows; ++i) if ((int)rows[i].size() != d[R - 1]) return false; }
        return true;
      };
      auto expect = [&](const int* d, auto&& wl, std::vector<T>& expected) {
        std::vector<T> snap = snapshot(W);
        Coords<R> cs; for (int k = 0; k < R; ++k) cs.d[k] = d[k];
        if (cs.first()) do { wl(cs.c, val(cs.c)); } while (cs.next());
        expected = snapshot(W);
        restore(W, snap);
      };
      std::vector<T> expected;
      if (op == "ilst") {
        int lid = idof(w[1]);
        if (!leaf_ok<R>(W, lid)) return false;
        VW<T>& lv = W.views[lid];
        int d[3]; dims_of(lv, d);
        if (!fits(d, false)) { out = "hazard"; return true; }
        expect(d, [&](const int* c, T x) { wr(lv, c, x); }, expected);
        assign_ilist<R, T>(Get<R, T>::f(lv), rows);
        out = "ok" + verdict(W, expected); return true;
      }
      if (op == "filst") {
        int aid = idof(w[1]);
        if (!W.allocs.count(aid) || !W.allocs[aid].fkind) return false;
        bool hazard = false;
        bool done = with_fixed<R>(W.allocs[aid], [&](auto& fa) {
          int d[3] = {0, 0, 0}; for (int k = 0; k < R; ++k) d[k] = fa.dimension(k);
          if (!fits(d, false)) { hazard = true; return true; }
          expect(d, [&](const int* c, T x) { if constexpr (R == 1) fa(c[0]) = x; else fa(c[0], c[1]) = x; }, expected);
          assign_ilist<R, T>(fa, rows);
          out = "ok" + verdict(W, expected);
          return true;
        });
        if (hazard) { out = "hazard"; return true; }
        return done;
      }
      if constexpr (R == 1) {
        int wid = idof(w[1]);
        if (!W.iviews.count(wid)) return false;
        IV& iv = W.iviews[wid];
        if (iv.krank != 1 || !W.views.count(iv.view)) return false;
        VW<T>& pv = W.views[iv.view];
        int d[3]; iv_dims(W, iv, d);
        if (!fits(d, true)) { out = "hazard"; return true; }    // IndexedArray = list goes through a temporary Array: extents must agree
        { int c[3] = {0, 0, 0}, pc[3]; for (c[0] = 0; c[0] < d[0]; ++c[0]) if (!iv_coords(W, iv, c, pc)) { out = "hazard"; return true; } }
        expect(d, [&](const int* c, T x) { int pc[3]; iv_coords(W, iv, c, pc); wr(pv, pc, x); }, expected);
        if (!with_indexed<1>(W, wid, [&](auto iw) { assign_ilist<1, T>(iw, rows); return true; })) return false;
        out = "ok" + verdict(W, expected); return true;
      }
    }
    return false;
  }
  // ---------------- IndexedArray target
  if (op == "iasg" || op == "icadd" || op == "icsub" || op == "icmul" || op == "isca") {
    int wid = idof(w[1]);
    if (!W.iviews.count(wid)) return false;
    IV& iv = W.iviews[wid];
    if (iv.krank != R || !W.views.count(iv.view)) return false;
    VW<T>& pv = W.views[iv.view];
    int d[3]; iv_dims(W, iv, d);
    // the selections must be in range (the oracle refuses otherwise: misuse, not a C04 case)
    { Coords<R> cs; for (int k = 0; k < R; ++k) cs.d[k] = d[k]; int pc[3];
      if (cs.first()) do { if (!iv_coords(W, iv, cs.c, pc)) { out = "hazard"; return true; } } while (cs.next()); }
    auto wl = [&](const int* c, T x) { int pc[3]; iv_coords(W, iv, c, pc); wr(pv, pc, x); };
    std::function<T(const int*)> rl = [&](const int* c) { int pc[3]; iv_coords(W, iv, c, pc); return rd(pv, pc); };
    const T* pb = 0; const T* pe = 0;
    if (pv.rank == 1) pv.a1.data_range(pb, pe); else if (pv.rank == 2) pv.a2.data_range(pb, pe); else pv.a3.data_range(pb, pe);
    std::vector<T> expected;
    if (op == "isca") {
      if (w.size() != 3) return false;
      long x = atol(w[2].c_str());
      if (oracle_expected<R, T>(W, 7, d, wl, rl, 0, 0, x, 0, 0, expected)) { out = "hazard"; return true; }
      if (!with_indexed<R>(W, wid, [&](auto iw) { iw = (T)x; return true; })) return false;
      out = "ok" + verdict(W, expected); return true;
    }
    Tok t; t.w = w; t.p = 2;
    Shape sh; if (!parse_shape(t, sh, false) || t.more()) return false;
    int kind = op == "iasg" ? 0 : op == "icadd" ? 1 : op == "icsub" ? 2 : 3;
    if (oracle_expected<R, T>(W, kind, d, wl, rl, 0, &sh, 0, 0, 0, expected)) { out = "hazard"; return true; }
    int aflag = 0;
    bool done = with_indexed<R>(W, wid, [&](auto iw) {
      if (kind == 0) return with_expr<M_IDX, R>(W, sh, [&](const auto& e) { aflag = aliased(e, pb, pe); iw = e; return true; });
      return with_expr<M_ICMP, R>(W, sh, [&](const auto& e) { aflag = aliased(e, pb, pe); if (kind == 1) iw += e; else if (kind == 2) iw -= e; else iw *= e; return true; });
    });
    if (!done) return false;
    os << "ok a=" << aflag;
    out = os.str() + verdict(W, expected); return true;
  }
  // ---------------- reductions (argument of rank R)
  if (op == "red" || op == "redd" || op == "redb" || op == "reddb" || op == "find" || op == "minloc" || op == "maxloc" || op == "dot") {
    Tok t; t.w = w; t.p = 1;
    std::string fn; int dim = -1;
    if (op == "red" || op == "redb") fn = t.next();
    if (op == "redd" || op == "reddb") { fn = t.next(); dim = atoi(t.next().c_str()); if (dim < 0 || dim >= R) return false; }
    bool isB = (op == "redb" || op == "reddb" || op == "find");
    Shape sh; if (!parse_shape(t, sh, isB)) return false;
    Shape sh2;
    if (op == "dot") { if (!parse_shape(t, sh2, false)) return false; }
    if (t.more()) return false;
    int d[3]; if (!arg_dims<R>(W, sh, d)) return false;
    // elements through operator()
    Coords<R> cs; for (int k = 0; k < R; ++k) cs.d[k] = d[k];
    std::vector<long long> el; bool hz = false;
    if (cs.first()) do {
      Tok u; u.w = sh.toks; u.p = 0;
      long long v = isB ? (long long)evalB(W, u, cs.c, R, hz) : evalE(W, u, cs.c, R, hz);
      if (op == "dot") { Tok u2; u2.w = sh2.toks; u2.p = 0; v = v * evalE(W, u2, cs.c, R, hz); }
      el.push_back(v);
    } while (cs.next());
    if (!isB) {
      // keep the accumulations themselves inside the exact range (bounds valid for every strip as well)
      long double lim = std::is_integral<T>::value ? 1073741824.0L : 1125899906842624.0L;
      long double sabs = 0, ssq = 0, pabs = 1;
      for (size_t q = 0; q < el.size(); ++q) {
        long double a = el[q] < 0 ? -(long double)el[q] : (long double)el[q];
        sabs += a; ssq += a * a; pabs *= (a > 1 ? a : 1);
      }
      if (sabs > lim || ((fn == "norm2") && ssq > lim) || ((fn == "product") && pabs > lim)) hz = true;
    }
    if (hz) { out = "hazard"; return true; }
    std::ostringstream es; es << " | E " << R; for (int k = 0; k < R; ++k) es << " " << d[k]; es << " :" << elems_str(el);
    bool done = false;
    if (isB) {
      done = with_mask<0, R>(W, sh, [&](const auto& mk) {
        if (op == "redb") {
          if (fn == "all") os << "R " << (int)all(mk); else if (fn == "any") os << "R " << (int)any(mk); else if (fn == "count") os << "R " << count(mk); else return false;
          return true;
        }
        if (op == "reddb") {
          if constexpr (R >= 2) {
            if (fn == "all") { Array<R - 1, bool> r = all(mk, dim); print_result_b<R - 1>(os, r); }
            else if (fn == "any") { Array<R - 1, bool> r = any(mk, dim); print_result_b<R - 1>(os, r); }
            else if (fn == "count") { Array<R - 1, Index> r = count(mk, dim); print_result<R - 1, Index>(os, r); }
            else return false;
            return true;
          }
          return false;
        }
        if constexpr (R == 1) {
          if (op == "find") { IntVector r = find(mk); os << "R"; for (Index i = 0; i < r.dimension(0); ++i) os << " " << r(i); return true; }
        }
        return false;
      });
    } else if (op == "dot") {
      if constexpr (R == 1) {
        done = with_expr<M_DOT1, R>(W, sh, [&](const auto& e1) { return with_expr<M_DOT2, R>(W, sh2, [&](const auto& e2) { os << "R " << num((double)dot_product(e1, e2)); return true; }); });
      }
    } else if (sh.s == "L") {
      // the full list of functions on a plain array argument
      done = with_expr<M_RED, R>(W, sh, [&](const auto& e) {
        if (op == "red") {
          os << "R ";
          if (fn == "sum") os << num((double)sum(e)); else if (fn == "mean") os << num((double)mean(e));
          else if (fn == "product") os << num((double)product(e)); else if (fn == "minval") os << num((double)minval(e));
          else if (fn == "maxval") os << num((double)maxval(e)); else if (fn == "norm2") os << num((double)norm2(e));
          else return false;
          return true;
        }
        if (op == "redd") {
          if constexpr (R >= 2) {
            Array<R - 1, T> r;
            if (fn == "sum") r >>= sum(e, dim); else if (fn == "mean") r >>= mean(e, dim); else if (fn == "product") r >>= product(e, dim);
            else if (fn == "minval") r >>= minval(e, dim); else if (fn == "maxval") r >>= maxval(e, dim); else if (fn == "norm2") r >>= norm2(e, dim);
            else return false;
            print_result<R - 1, T>(os, r);
            return true;
          }
          return false;
        }
        if constexpr (R == 1) {
          if (op == "minloc") { os << "R " << minloc(e); return true; }
          if (op == "maxloc") { os << "R " << maxloc(e); return true; }
        }
        return false;
      });
    } else {
      // expression arguments: sum / maxval (whole and along a dimension), minloc
      done = with_expr<M_RED2, R>(W, sh, [&](const auto& e) {
        if (op == "red") {
          os << "R ";
          if (fn == "sum") os << num((double)sum(e)); else if (fn == "maxval") os << num((double)maxval(e)); else return false;
          return true;
        }
        if (op == "redd") {
          if constexpr (R >= 2) {
            Array<R - 1, T> r;
            if (fn == "sum") r >>= sum(e, dim); else if (fn == "maxval") r >>= maxval(e, dim); else return false;
            print_result<R - 1, T>(os, r);
            return true;
          }
          return false;
        }
        if constexpr (R == 1) {
          if (op == "minloc") { os << "R " << minloc(e); return true; }
        }
        return false;
      });
    }
    if (!done) return false;
    out = os.str() + es.str(); return true;
  }
  return false;
}
#undef LF
#undef SHAPE

template bool exec_ranked<VR, VT>(World<VT>&, std::vector<std::string>&, std::string&);

} // namespace c04
