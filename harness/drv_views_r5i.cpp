// rank-5 operator() with int-family arguments (see drv_views.cpp)
#include "drv_views.h"
VBase* slice5_int(Array<5,int>& a, const std::vector<Arg>& t) { return SliceDisp<5, 0, FAM_INT>::go(a, t); }
