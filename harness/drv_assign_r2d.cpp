#define VR 2
#define VT double
#include "drv_assign_impl.h"
