// C05 driver: non-element-wise expression nodes, double
#include "drv_simd_asg.h"
#include "drv_simd_node.h"
namespace simd { std::string nod_d(const Words& w) { return dispatch_nod<double>(w); } }
