// Correspondence driver for matrix multiplication (model M9, property C15): shared part.
//
// usage: drv_matmul < cases        one output line per input line
//   cfg <pw>            -> "cfg <pw> ok" if Packet<double>::size == pw, else "cfg <actual> MISMATCH"   ("cfg ?" just reports)
//   cfg <pw> <pwf>      -> "cfg <pw> <pwf> ok" if also Packet<float>::size == pwf, else "cfg <actual> <actual> MISMATCH"
//   P <Lspec> | <Rspec> -> product with the ** pseudo-operator
//   Q <Lspec> | <Rspec> -> product with matmul(,)
//   Pf / Qf             -> the same with element type float for BOTH operands (s-prefix BLAS); which operand kinds are instantiated
//                          for float is fixed in drv_matmul_flt*.cpp (others: bad-op)
// operand specs (words):
//   M <a|p> <r|c> <PR> <PC> <op>* : <cell values>   dense matrix view of a PR x PC parent (r: Array(PR,PC), c: resize_column_major)
//        op = T | r:b:e:s (rows stride(b,e,s)) | c:b:e:s (columns) | x2 (last; operand is the expression 2.0*view)
//             | xs (last; operand is the expression view + view)
//   V <a|p> <PN> <op>* : <cell values>              dense vector view;  op = s:b:e:s | x2 | xs
//   FM <a|p> <R> <C> : <cell values>                FixedArray<double,act,R,C>      (sizes of the instantiated list)
//   FV <a|p> <N> : <cell values>                    FixedArray<double,act,N>
//   S <a|p> <type> <n> <op>* : <cell values>        SpecialMatrix; type in sq sqc symL symU lo loc up upc b00 b11 b22 b20 b02 b12
//        cb00 cb11 cb22 cb20 cb02 cb12;  op = d:i0:i1 (submatrix_on_diagonal)*, then optionally T (.T()) or x2 (2.0*S);
//        which (type, a|p, T|x2) combinations are instantiated is fixed in drv_matmul_s*.cpp (others: bad-op)
//   FM / FV / S operands and M / V operands ending in x2 / xs need a plain dense partner (M or V without x2 / xs).
//   cell values: one integer per storage cell of the parent, in memory order (padding cells included)
//
// output:  L <desc> ; R <desc> ; <outcome>
//   desc    = <rank> d=.. o=.. b=<offset of element 0 in the parent> a=<0|1> v=[logical values through operator()] c=[storage cell of
//             each logical element, -1 for structural zeros]     (for special matrices d=n,n and o=<offset()>)
//   outcome = EXC <class>   |   calls <call>* ; res <rank> d=.. o=.. v=[..] [; tape <stmt>*] [; J <i>,<j>:L[..]R[..] ...]
//   stmt    = <lhs>:<mult>*<gidx>,...   the statements recorded by an active product (see tape_report)
//   call    = routine[flags;ints;ptrs;touched;x=<xerbla>;in=<ok|OUT>]   ptrs as L+off / R+off / C+off / T (other memory)
//             touched = min..max#distinct per array argument, relative to the pointer passed
#ifndef VERIF_DRV_MATMUL_H
#define VERIF_DRV_MATMUL_H
#include "spy.h"
#include "spy_blas.h"
#include <algorithm>
#include <set>
#include <cstdlib>

namespace mm {
using namespace adept;
using adept::internal::SquareEngine;
using adept::internal::SymmEngine;
using adept::internal::LowerEngine;
using adept::internal::UpperEngine;
using adept::internal::BandEngine;

typedef std::vector<std::string> Words;

struct Desc {
  int rank;
  long d[2], o[2];
  long base;                 // offset of logical element 0 from parent cell 0
  bool active;
  std::vector<double> v;     // logical values, row-major over (i,j)
  std::vector<long> c;       // storage cell per logical element (relative to parent cell 0), -1 = none
  const char* pbase;         // address of parent cell 0
  int elsize;                // sizeof(element type)
  long ncells;               // number of parent cells
  long gbase;                // gradient index of parent cell 0 (active only)
  bool plain;                // BLAS is expected to read this operand in place
  long margin;               // band matrices: max(LDiags,UDiags), else 0
  Desc() : rank(0), base(0), active(false), pbase(0), elsize(8), ncells(0), gbase(-1), plain(true), margin(0) { d[0] = d[1] = o[0] = o[1] = 0; }
  template <class T> void set_parent(const T* p, long n, long g) { pbase = reinterpret_cast<const char*>(p); elsize = (int)sizeof(T); ncells = n; gbase = g; }
  std::string str() const {
    std::ostringstream os;
    os << rank << " d=" << d[0]; if (rank == 2) os << "," << d[1];
    os << " o=" << o[0]; if (rank == 2) os << "," << o[1];
    os << " b=" << base << " a=" << (active ? 1 : 0) << " v=[";
    for (size_t i = 0; i < v.size(); ++i) { if (i) os << ","; os << (long long)v[i]; }
    os << "] c=[";
    for (size_t i = 0; i < c.size(); ++i) { if (i) os << ","; os << c[i]; }
    os << "]";
    return os.str();
  }
};

inline double val(double x) { return x; }
inline double val(float x) { return x; }
template <class T> inline double val(const T& x) { return x.value(); }

inline bool to_long(const std::string& s, long& out) {
  if (s.empty()) return false;
  char* e = 0; out = strtol(s.c_str(), &e, 10);
  return *e == 0;
}
inline bool split3(const std::string& w, char tag, long& a, long& b, long& c) {
  // "<tag>:a:b:c"
  if (w.size() < 3 || w[0] != tag || w[1] != ':') return false;
  std::vector<std::string> p; std::string cur;
  for (size_t i = 2; i <= w.size(); ++i) { if (i == w.size() || w[i] == ':') { p.push_back(cur); cur.clear(); } else cur += w[i]; }
  return p.size() == 3 && to_long(p[0], a) && to_long(p[1], b) && to_long(p[2], c);
}
inline bool split2(const std::string& w, char tag, long& a, long& b) {
  if (w.size() < 3 || w[0] != tag || w[1] != ':') return false;
  std::vector<std::string> p; std::string cur;
  for (size_t i = 2; i <= w.size(); ++i) { if (i == w.size() || w[i] == ':') { p.push_back(cur); cur.clear(); } else cur += w[i]; }
  return p.size() == 2 && to_long(p[0], a) && to_long(p[1], b);
}

struct Spec {
  Words head;                 // words before ':'
  std::vector<double> vals;   // cell values
  bool ok;
  bool flt;                   // element type float (Pf / Qf lines)
};
inline Spec parse_spec(const Words& w, size_t b, size_t e) {
  Spec s; s.ok = false; s.flt = false;
  size_t i = b;
  for (; i < e && w[i] != ":"; ++i) s.head.push_back(w[i]);
  if (i == e) return s;
  for (++i; i < e; ++i) { long x; if (!to_long(w[i], x)) return s; s.vals.push_back((double)x); }
  s.ok = !s.head.empty();
  return s;
}
inline bool is_plain_dense(const Spec& s) {
  return s.ok && (s.head[0] == "M" || s.head[0] == "V") && s.head.back() != "x2" && s.head.back() != "xs";
}

struct BadOp { };

// ------------------------------------------------------------------ describing typed operands
template <class T, bool A> void describe(Array<2, T, A>& view, const T* pbase, long ncells, long gbase, Desc& D) {
  D.rank = 2; D.active = A;
  D.d[0] = view.dimension(0); D.d[1] = view.dimension(1); D.o[0] = view.offset(0); D.o[1] = view.offset(1);
  D.set_parent(pbase, ncells, gbase);
  D.base = view.empty() ? 0 : view.const_data() - pbase;
  for (Index i = 0; i < view.dimension(0); ++i)
    for (Index j = 0; j < view.dimension(1); ++j) {
      D.v.push_back(val(view(i, j)));
      D.c.push_back((view.const_data() + i * view.offset(0) + j * view.offset(1)) - pbase);
    }
}
template <class T, bool A> void describe(Array<1, T, A>& view, const T* pbase, long ncells, long gbase, Desc& D) {
  D.rank = 1; D.active = A;
  D.d[0] = view.dimension(0); D.o[0] = view.offset(0);
  D.set_parent(pbase, ncells, gbase);
  D.base = view.empty() ? 0 : view.const_data() - pbase;
  for (Index i = 0; i < view.dimension(0); ++i) {
    D.v.push_back(val(view(i)));
    D.c.push_back((view.const_data() + i * view.offset(0)) - pbase);
  }
}
// storage cell of a special-matrix element.  passive: found by probing through the const operator() only (perturb one
// storage cell at a time and see which logical element changes; a passive column-major band matrix has no usable
// non-const operator(), SpecialMatrix.h:444 does not compile); active: gradient index of the element reference.
template <class T, class E> long cell_of(SpecialMatrix<T, E, false>& S, const T* pbase, long ncells, long, Index i, Index j) {
  const SpecialMatrix<T, E, false>& cS = S;
  T v0 = cS(i, j);
  T* w = const_cast<T*>(pbase);
  for (long k = 0; k < ncells; ++k) {
    T keep = w[k];
    w[k] = keep + T(1048576);
    bool hit = cS(i, j) != v0;
    w[k] = keep;
    if (hit) return k;
  }
  return -1;
}
template <class T, class E> long cell_of(SpecialMatrix<T, E, true>& S, const T*, long, long gbase, Index i, Index j) {
  try { return (long)S(i, j).gradient_index() - gbase; } catch (const index_out_of_bounds&) { return -1; }
}
template <class E> struct BandMargin { static const long value = 0; };
template <MatrixStorageOrder O, Index LD, Index UD> struct BandMargin<BandEngine<O, LD, UD> > { static const long value = LD > UD ? LD : UD; };
template <class T, class E, bool A> void describe(SpecialMatrix<T, E, A>& S, const T* pbase, long ncells, long gbase, Desc& D) {
  D.rank = 2; D.active = A; D.margin = BandMargin<E>::value;
  D.d[0] = D.d[1] = S.dimension(0); D.o[0] = S.offset(); D.o[1] = 0;
  D.set_parent(pbase, ncells, gbase);
  D.base = S.dimension(0) == 0 ? 0 : S.const_data() - pbase;
  const SpecialMatrix<T, E, A>& cS = S;
  for (Index i = 0; i < S.dimension(0); ++i)
    for (Index j = 0; j < S.dimension(0); ++j) {
      D.v.push_back(val(cS(i, j)));
      D.c.push_back(cell_of(S, pbase, ncells, gbase, i, j));
    }
}
template <class X> void scale2(Desc& D) { for (size_t i = 0; i < D.v.size(); ++i) D.v[i] *= 2.0; D.plain = false; }

// ------------------------------------------------------------------ building operands (continuation passing)
// The visitor V has   template <class T> void go(const T& operand, Desc& d);
template <class T, bool A, class V> void build_M(const Spec& s, V& vis) {
  const Words& h = s.head;
  if (h.size() < 5) throw BadOp();
  long PR, PC; if (!to_long(h[3], PR) || !to_long(h[4], PC) || PR < 0 || PC < 0) throw BadOp();
  Array<2, T, A> P;
  long ncells;
  if (h[2] == "r") { P.resize(PR, PC); ncells = P.empty() ? 0 : (long)P.offset(0) * PR; }
  else if (h[2] == "c") { P.resize_column_major(dimensions(PR, PC)); ncells = P.empty() ? 0 : PR * PC; }
  else throw BadOp();
  if ((long)s.vals.size() != ncells) throw BadOp();
  for (long k = 0; k < ncells; ++k) P.data()[k] = (T)s.vals[k];
  const T* pbase = P.const_data();
  long gbase = A ? (long)P.gradient_index() : -1;
  Array<2, T, A> cur(P);
  bool x2 = false, xs = false;
  for (size_t k = 5; k < h.size(); ++k) {
    long a, b, c;
    if (x2 || xs) throw BadOp();
    if (h[k] == "T") { Array<2, T, A> n(cur.T()); cur >>= n; }
    else if (split3(h[k], 'r', a, b, c)) { Array<2, T, A> n(cur(stride(a, b, c), __)); cur >>= n; }
    else if (split3(h[k], 'c', a, b, c)) { Array<2, T, A> n(cur(__, stride(a, b, c))); cur >>= n; }
    else if (h[k] == "x2") x2 = true;
    else if (h[k] == "xs") xs = true;
    else throw BadOp();
  }
  Desc D; describe(cur, pbase, ncells, gbase, D);
  if (x2) { scale2<void>(D); vis.go(static_cast<T>(2) * cur, D); }
  else if (xs) { scale2<void>(D); vis.go(cur + cur, D); }
  else vis.go(cur, D);
}
template <class T, bool A, class V> void build_V(const Spec& s, V& vis) {
  const Words& h = s.head;
  if (h.size() < 3) throw BadOp();
  long PN; if (!to_long(h[2], PN) || PN < 0) throw BadOp();
  Array<1, T, A> P; P.resize(PN);
  long ncells = PN;
  if ((long)s.vals.size() != ncells) throw BadOp();
  for (long k = 0; k < ncells; ++k) P.data()[k] = (T)s.vals[k];
  const T* pbase = P.const_data();
  long gbase = A ? (long)P.gradient_index() : -1;
  Array<1, T, A> cur(P);
  bool x2 = false, xs = false;
  for (size_t k = 3; k < h.size(); ++k) {
    long a, b, c;
    if (x2 || xs) throw BadOp();
    if (split3(h[k], 's', a, b, c)) { Array<1, T, A> n(cur(stride(a, b, c))); cur >>= n; }
    else if (h[k] == "x2") x2 = true;
    else if (h[k] == "xs") xs = true;
    else throw BadOp();
  }
  Desc D; describe(cur, pbase, ncells, gbase, D);
  if (x2) { scale2<void>(D); vis.go(static_cast<T>(2) * cur, D); }
  else if (xs) { scale2<void>(D); vis.go(cur + cur, D); }
  else vis.go(cur, D);
}
template <class T, class V> void build_dense(const Spec& s, V& vis) {
  const Words& h = s.head;
  if (h.size() < 2 || (h[1] != "a" && h[1] != "p")) throw BadOp();
  bool act = h[1] == "a";
  if (h[0] == "M") { if (act) build_M<T, true>(s, vis); else build_M<T, false>(s, vis); }
  else if (h[0] == "V") { if (act) build_V<T, true>(s, vis); else build_V<T, false>(s, vis); }
  else throw BadOp();
}

// fixed arrays
template <class T, bool A, int R, int C, class V> void build_FM1(const Spec& s, V& vis) {
  FixedArray<T, A, R, C> F;
  if ((long)s.vals.size() != R * C) throw BadOp();
  for (long k = 0; k < R * C; ++k) F.data()[k] = (T)s.vals[k];
  Desc D; D.rank = 2; D.active = A; D.d[0] = R; D.d[1] = C; D.o[0] = F.offset(0); D.o[1] = F.offset(1);
  D.set_parent(F.const_data(), R * C, A ? (long)F.gradient_index() : -1); D.base = 0;
  for (int i = 0; i < R; ++i) for (int j = 0; j < C; ++j) { D.v.push_back(val(F(i, j))); D.c.push_back(i * F.offset(0) + j * F.offset(1)); }
  vis.go(F, D);
}
template <class T, bool A, int N, class V> void build_FV1(const Spec& s, V& vis) {
  FixedArray<T, A, N> F;
  if ((long)s.vals.size() != N) throw BadOp();
  for (long k = 0; k < N; ++k) F.data()[k] = (T)s.vals[k];
  Desc D; D.rank = 1; D.active = A; D.d[0] = N; D.o[0] = F.offset(0);
  D.set_parent(F.const_data(), N, A ? (long)F.gradient_index() : -1); D.base = 0;
  for (int i = 0; i < N; ++i) { D.v.push_back(val(F(i))); D.c.push_back(i * F.offset(0)); }
  vis.go(F, D);
}

// special matrices.  VAR selects which operand variants are instantiated for an engine (compile time is dominated by
// the number of distinct operand types): bit 0 = ".T()" allowed, bit 1 = "x2" (expression 2.0*S) allowed.
template <bool On> struct SVariantT {
  template <class SM, class T, class V> static void run(SM& cur, const T* pbase, long ncells, long gbase, V& vis) {
    typename SM::transpose_type t(cur.T());
    Desc D; describe(t, pbase, ncells, gbase, D); vis.go(t, D);
  }
};
template <> struct SVariantT<false> { template <class SM, class T, class V> static void run(SM&, const T*, long, long, V&) { throw BadOp(); } };
template <bool On> struct SVariantX2 {
  template <class SM, class T, class V> static void run(SM& cur, const T* pbase, long ncells, long gbase, V& vis) {
    Desc D; describe(cur, pbase, ncells, gbase, D); scale2<void>(D); vis.go(static_cast<T>(2) * cur, D);
  }
};
template <> struct SVariantX2<false> { template <class SM, class T, class V> static void run(SM&, const T*, long, long, V&) { throw BadOp(); } };

template <class T, class E, bool A> struct SMat : public SpecialMatrix<T, E, A> {
  typedef SpecialMatrix<T, E, A> base;
  typedef SpecialMatrix<T, typename E::transpose_engine, A> transpose_type;
};

template <class T, class E, bool A, int VAR, class V> void build_S1(const Spec& s, V& vis) {
  const Words& h = s.head;
  long n; if (h.size() < 4 || !to_long(h[3], n) || n < 0) throw BadOp();
  SpecialMatrix<T, E, A> P(n);
  E eng;
  long ncells = n == 0 ? 0 : eng.data_size(n, P.offset());
  if ((long)s.vals.size() != ncells) throw BadOp();
  for (long k = 0; k < ncells; ++k) P.data()[k] = (T)s.vals[k];
  const T* pbase = P.const_data();
  long gbase = A ? (long)P.gradient_index() : -1;
  // views are chained by copy construction (SpecialMatrix::link / operator>>= loses the gradient index of an active
  // matrix: SpecialMatrix.h:1365 lacks the GradientIndex::set that Array::link has)
  struct Chain {
    std::vector<SpecialMatrix<T, E, A>*> v;
    ~Chain() { for (size_t i = v.size(); i > 0; --i) delete v[i - 1]; }
  } chain;
  chain.v.push_back(new SpecialMatrix<T, E, A>(P));
  size_t k = 4;
  long a, b;
  for (; k < h.size() && split2(h[k], 'd', a, b); ++k)
    chain.v.push_back(new SpecialMatrix<T, E, A>(chain.v.back()->submatrix_on_diagonal(a, b)));
  SpecialMatrix<T, E, A>& cur = *chain.v.back();
  bool tr = false, x2 = false;
  if (k < h.size() && h[k] == "T") { tr = true; ++k; }
  else if (k < h.size() && h[k] == "x2") { x2 = true; ++k; }
  if (k != h.size()) throw BadOp();
  if (tr) SVariantT<(VAR & 1) != 0>::run(static_cast<SMat<T, E, A>&>(cur), pbase, ncells, gbase, vis);
  else if (x2) SVariantX2<(VAR & 2) != 0>::run(cur, pbase, ncells, gbase, vis);
  else { Desc D; describe(cur, pbase, ncells, gbase, D); vis.go(cur, D); }
}
// dispatch helpers for the group files: S_P = passive only, S_PA = passive and active
#define MM_COMMA ,
#define S_P(TAG, ENG, VAR) if (h[2] == TAG) { if (act) throw BadOp(); build_S1<MM_ELT, ENG, false, VAR>(s, v); return true; }
#define S_PA(TAG, ENG, VAR, VARA) if (h[2] == TAG) { if (act) build_S1<MM_ELT, ENG, true, VARA>(s, v); else build_S1<MM_ELT, ENG, false, VAR>(s, v); return true; }
#ifndef MM_ELT
#define MM_ELT double        // element type of the group file (drv_matmul_flt*.cpp define it as float before including this header)
#define MM_ELT_IS_FLOAT false
#endif
#define S_GROUP_HEAD \
  const Words& h = s.head; \
  if (h[0] != "S" || s.flt != MM_ELT_IS_FLOAT) return false; \
  if (h.size() < 4 || (h[1] != "a" && h[1] != "p")) throw BadOp(); \
  bool act = h[1] == "a";

// ------------------------------------------------------------------ the product and its report
struct Out { std::string text; };

inline std::string range_str(std::vector<long> t) {
  if (t.empty()) return "-";
  std::sort(t.begin(), t.end());
  t.erase(std::unique(t.begin(), t.end()), t.end());
  std::ostringstream os; os << t.front() << ".." << t.back() << "#" << t.size();
  return os.str();
}

template <class T, bool A> void res_desc(Array<2, T, A>& r, Desc& D) { describe(r, r.const_data(), 0, -1, D); }
template <class T, bool A> void res_desc(Array<1, T, A>& r, Desc& D) { describe(r, r.const_data(), 0, -1, D); }

struct IdxList {
  std::vector<uIndex> v;
  void push_gradient_indices(std::vector<uIndex>& o) const { o.insert(o.end(), v.begin(), v.end()); }
};

inline const char* exc_name(const std::exception& e) {
  if (dynamic_cast<const empty_array*>(&e)) return "empty_array";
  if (dynamic_cast<const inner_dimension_mismatch*>(&e)) return "inner_dimension_mismatch";
  if (dynamic_cast<const invalid_operation*>(&e)) return "invalid_operation";
  if (dynamic_cast<const size_mismatch*>(&e)) return "size_mismatch";
  if (dynamic_cast<const index_out_of_bounds*>(&e)) return "index_out_of_bounds";
  if (dynamic_cast<const invalid_dimension*>(&e)) return "invalid_dimension";
  if (dynamic_cast<const feature_not_available*>(&e)) return "feature_not_available";
  if (dynamic_cast<const adept::exception*>(&e)) return "adept_exception";
  return "std_exception";
}

// the recording stack of the driver: sees the gradient allocator (the temporaries a product creates are allocated upwards
// from next_gradient() when the gap list is empty) besides the tape accessors of SpyStack
struct MMStack : public verif::SpyStack {
  long next_gradient() const { return (long)i_gradient_; }
  bool no_gaps() const { return gap_list_.empty(); }
};
extern MMStack* g_stack;

// all pointer arithmetic in bytes / element size: the operands of a case may be double or float
inline std::string classify_ptr(const void* p, const Desc& L, const Desc& R, const void* cbase_, long clen_hint, int elsize) {
  const char* q = static_cast<const char*>(p);
  const char* cbase = static_cast<const char*>(cbase_);
  std::ostringstream os;
  if (L.pbase && L.plain && q >= L.pbase && q < L.pbase + L.ncells * L.elsize) { os << "L+" << (q - L.pbase) / L.elsize; return os.str(); }
  if (R.pbase && R.plain && q >= R.pbase && q < R.pbase + R.ncells * R.elsize) { os << "R+" << (q - R.pbase) / R.elsize; return os.str(); }
  if (cbase && q >= cbase && q < cbase + clen_hint * elsize) { os << "C+" << (q - cbase) / elsize; return os.str(); }
  // the start pointer handed to ?gbmv for a band matrix lies up to max(LDiags,UDiags) cells before its storage
  if (L.pbase && L.plain && L.margin && q >= L.pbase - L.margin * L.elsize && q < L.pbase) { os << "L-" << (L.pbase - q) / L.elsize; return os.str(); }
  if (R.pbase && R.plain && R.margin && q >= R.pbase - R.margin * R.elsize && q < R.pbase) { os << "R-" << (R.pbase - q) / R.elsize; return os.str(); }
  return "T";
}

template <class RES>
void report(RES& res, const Desc& L, const Desc& R, Out& out) {
  std::ostringstream os;
  Desc RD; res_desc(res, RD);
  long clen = 1;
  if (RD.rank == 2) clen = std::max(labs(RD.o[0]) * RD.d[0], labs(RD.o[1]) * RD.d[1]) + 1; else clen = RD.d[0] * labs(RD.o[0]) + 1;
  const int es = RD.elsize;
  const char* resb = reinterpret_cast<const char*>(res.const_data());
  std::set<const char*> cset;
  for (size_t k = 0; k < RD.c.size(); ++k) cset.insert(resb + (RD.c[k] - RD.base) * es);
  bool any_xerbla = false;
  os << "calls";
  for (size_t n = 0; n < verif::blas_log.size(); ++n) {
    const verif::BlasCall& c = verif::blas_log[n];
    os << " " << c.routine << "[" << c.flags << ";";
    for (size_t k = 0; k < c.iv.size(); ++k) { if (k) os << ","; os << c.iv[k]; }
    os << ";";
    bool inside = true;
    std::string names[3];
    for (int k = 0; k < 3; ++k) {
      names[k] = classify_ptr(c.p[k], L, R, res.const_data(), clen, es);
      if (k) os << ",";
      os << names[k];
      // containment of the touched elements in the operand's element set
      const Desc* D = names[k][0] == 'L' ? &L : names[k][0] == 'R' ? &R : 0;
      if (D) {
        std::set<const char*> el;
        for (size_t e = 0; e < D->c.size(); ++e) if (D->c[e] >= 0) el.insert(D->pbase + D->c[e] * D->elsize);
        for (size_t t = 0; t < c.touched[k].size(); ++t)
          if (!el.count(static_cast<const char*>(c.p[k]) + c.touched[k][t] * c.elsize)) inside = false;
        if (c.elsize != D->elsize) inside = false;
        if (k == 2) inside = false;       // an operand must never be written
      } else if (names[k][0] == 'C') {
        for (size_t t = 0; t < c.touched[k].size(); ++t)
          if (!cset.count(static_cast<const char*>(c.p[k]) + c.touched[k][t] * c.elsize)) inside = false;
        if (k != 2 || c.elsize != es) inside = false;       // the fresh result must never be read
      }
    }
    os << ";";
    for (int k = 0; k < 3; ++k) { if (k) os << ","; os << range_str(c.touched[k]); }
    os << ";x=" << c.xerbla << ";in=" << (inside ? "ok" : "OUT");
    if (c.alpha != 1.0 || c.beta != 0.0) os << ";alpha=" << c.alpha << ";beta=" << c.beta;
    os << "]";
    if (c.xerbla) any_xerbla = true;
  }
  os << " ; res " << RD.rank << " d=" << RD.d[0]; if (RD.rank == 2) os << "," << RD.d[1];
  os << " o=" << RD.o[0]; if (RD.rank == 2) os << "," << RD.o[1];
  os << " v=[";
  for (size_t i = 0; i < RD.v.size(); ++i) { if (i) os << ","; if (any_xerbla) os << "?"; else os << (long long)RD.v[i]; }
  os << "]";
  out.text += os.str();
}

// The statements the product recorded (conversions by promote_array, copies of doubly strided operands, and one statement per
// result element), each as  <lhs>:<multiplier>*<gradient index>,...  with gradient indices given symbolically:
//   L+k / R+k  cell k of the left / right parent,  C+k  cell k of the result's storage,
//   T+k        the k-th gradient index allocated after the operands were built (temporaries created inside matmul),
//   ?g         anything else (raw index)
struct TapeMark { long first_stmt, tbase; bool gaps; };
inline TapeMark tape_mark() {
  TapeMark m; m.first_stmt = (long)g_stack->n_statements(); m.tbase = g_stack->next_gradient(); m.gaps = !g_stack->no_gaps();
  return m;
}
inline std::string gref(long g, const Desc& L, const Desc& R, long cbase, long clen, long tbase) {
  std::ostringstream os;
  if (L.active && L.gbase >= 0 && g >= L.gbase && g < L.gbase + L.ncells) os << "L+" << (g - L.gbase);
  else if (R.active && R.gbase >= 0 && g >= R.gbase && g < R.gbase + R.ncells) os << "R+" << (g - R.gbase);
  else if (cbase >= 0 && g >= cbase && g < cbase + clen) os << "C+" << (g - cbase);
  else if (g >= tbase) os << "T+" << (g - tbase);
  else os << "?" << g;
  return os.str();
}
inline std::string mult_str(double m) {
  std::ostringstream os;
  if (m == (double)(long long)m && m > -1e15 && m < 1e15) os << (long long)m;
  else { char b[40]; snprintf(b, sizeof b, "%.17g", m); os << b; }
  return os.str();
}
template <class T, bool A, int Rank>
void tape_report(Array<Rank, T, A>& res, const Desc& L, const Desc& R, const TapeMark& mk, Out& out) {
  if (!A) return;
  Desc RD; res_desc(res, RD);
  long clen = 0;
  for (size_t k = 0; k < RD.c.size(); ++k) clen = std::max(clen, RD.c[k] - RD.base + 1);
  long cbase = (long)res.gradient_index();
  std::ostringstream os;
  os << " ; tape";
  if (mk.gaps) os << " GAPS";
  for (long i = mk.first_stmt; i < (long)g_stack->n_statements(); ++i) {
    os << " " << gref((long)g_stack->st_index(i), L, R, cbase, clen, mk.tbase) << ":";
    for (long j = (long)g_stack->st_end(i - 1); j < (long)g_stack->st_end(i); ++j) {
      if (j > (long)g_stack->st_end(i - 1)) os << ",";
      os << mult_str(g_stack->op_mult(j)) << "*" << gref((long)g_stack->op_index(j), L, R, cbase, clen, mk.tbase);
    }
  }
  out.text += os.str();
}

// Jacobian of up to three result elements w.r.t. every storage cell of the active operands' parents
template <class T, bool A, int Rank>
void jac_report(Array<Rank, T, A>& res, const Desc& L, const Desc& R, Out& out) {
  if (!A) return;
  Desc RD; res_desc(res, RD);
  size_t n = RD.v.size();
  if (n == 0) return;
  std::vector<size_t> pick;
  pick.push_back(0); if (n > 1) pick.push_back(n - 1); if (n > 2) pick.push_back(n / 2);
  IdxList dep, indep;
  for (size_t k = 0; k < pick.size(); ++k) dep.v.push_back((uIndex)(res.gradient_index() + (RD.c[pick[k]] - RD.base)));
  long nl = L.active ? L.ncells : 0, nr = R.active ? R.ncells : 0;
  for (long k = 0; k < nl; ++k) indep.v.push_back((uIndex)(L.gbase + k));
  for (long k = 0; k < nr; ++k) indep.v.push_back((uIndex)(R.gbase + k));
  if (indep.v.empty()) return;
  g_stack->clear_independents(); g_stack->clear_dependents();
  g_stack->independent(indep); g_stack->dependent(dep);
  Matrix J = g_stack->jacobian();
  std::ostringstream os;
  os << " ; J";
  long nc = RD.rank == 2 ? RD.d[1] : 1;
  for (size_t k = 0; k < pick.size(); ++k) {
    os << " " << (long)(pick[k] / nc) << "," << (long)(pick[k] % nc) << ":L[";
    for (long q = 0; q < nl; ++q) { if (q) os << ","; os << (long long)J(k, q); }
    os << "]R[";
    for (long q = 0; q < nr; ++q) { if (q) os << ","; os << (long long)J(k, nl + q); }
    os << "]";
  }
  g_stack->clear_independents(); g_stack->clear_dependents();
  out.text += os.str();
}

template <bool OK> struct Product {
  template <class LT, class RT>
  static void run(bool use_op, const LT& l, const Desc& LD, const RT& r, const Desc& RD, Out& out) {
    out.text = "L " + LD.str() + " ; R " + RD.str() + " ; ";
    verif::blas_log.clear();
    try {
      TapeMark mk = tape_mark();
      if (use_op) { auto res = l ** r; report(res, LD, RD, out); tape_report(res, LD, RD, mk, out); jac_report(res, LD, RD, out); }
      else { auto res = matmul(l, r); report(res, LD, RD, out); tape_report(res, LD, RD, mk, out); jac_report(res, LD, RD, out); }
    } catch (const std::exception& e) {
      out.text += std::string("EXC ") + exc_name(e);
    }
    verif::blas_log.clear();
  }
};
// vector ** vector is rejected at compile time by the interface: not a case
template <> struct Product<false> {
  template <class LT, class RT>
  static void run(bool, const LT&, const Desc&, const RT&, const Desc&, Out&) { throw BadOp(); }
};
template <class LT, class RT>
void product(bool use_op, const LT& l, const Desc& LD, const RT& r, const Desc& RD, Out& out) {
  Product<(LT::rank + RT::rank > 2)>::run(use_op, l, LD, r, RD, out);
}

// second-level visitors: the partner operand is a plain dense one (4 types)
template <class XT> struct PartnerRight {   // X on the left, dense on the right
  bool use_op; const XT& x; const Desc& XD; Out& out;
  PartnerRight(bool u, const XT& x_, const Desc& d, Out& o) : use_op(u), x(x_), XD(d), out(o) {}
  template <class T> void go(const T& dense, Desc& D) { product(use_op, x, XD, dense, D, out); }
};
template <class XT> struct PartnerLeft {    // dense on the left, X on the right
  bool use_op; const XT& x; const Desc& XD; Out& out;
  PartnerLeft(bool u, const XT& x_, const Desc& d, Out& o) : use_op(u), x(x_), XD(d), out(o) {}
  template <class T> void go(const T& dense, Desc& D) { product(use_op, dense, D, x, XD, out); }
};
// first-level visitor: X is any operand kind, the other spec is plain dense
struct XVisitor {
  bool use_op, x_is_left; const Spec& other; Out& out;
  XVisitor(bool u, bool xl, const Spec& o, Out& ot) : use_op(u), x_is_left(xl), other(o), out(ot) {}
  template <class T> void go(const T& x, Desc& D) {
    g_stack->new_recording();   // values are set; operands of this case are registered; start a clean recording
    // the partner has the element type of X (Pf / Qf lines: float)
    if (x_is_left) { PartnerRight<T> p(use_op, x, D, out); build_dense<typename T::type>(other, p); }
    else { PartnerLeft<T> p(use_op, x, D, out); build_dense<typename T::type>(other, p); }
  }
};

// one function per translation unit group; returns false if the spec kind is not handled by this group
bool build_group_dense(const Spec& s, XVisitor& v);
bool build_group_fixed_p(const Spec& s, XVisitor& v);
bool build_group_fixed_a(const Spec& s, XVisitor& v);
bool build_group_s1(const Spec& s, XVisitor& v);
bool build_group_s2(const Spec& s, XVisitor& v);
bool build_group_s3(const Spec& s, XVisitor& v);
bool build_group_s4(const Spec& s, XVisitor& v);
bool build_group_s5(const Spec& s, XVisitor& v);
bool build_group_s6(const Spec& s, XVisitor& v);
bool build_group_flt_dense(const Spec& s, XVisitor& v);
bool build_group_flt_fixed(const Spec& s, XVisitor& v);
bool build_group_flt_s1(const Spec& s, XVisitor& v);
bool build_group_flt_s2(const Spec& s, XVisitor& v);

} // namespace mm
#endif
