// Correspondence driver for the gradient-slot allocator and the objects that call it (model M3 + object layer, property C08).
// usage: drv_galloc api|obj < ops
//   api mode: the public Stack::register_gradient(s)/unregister_gradient(s) API (allocator only; the first block of ops)
//   obj mode: real objects (adouble, aVector/aMatrix/aArray3D, special matrices, FixedArray, std::vector<adouble>, adouble[])
//
// allocator-level ops (both modes)
//   reset            fresh stack
//   a1 k             handle k := one scalar    (api: register_gradient();  obj: new adouble)
//   av k n           handle k := block of n    (api: register_gradients(n); obj: new aVector(n))
//   af k n           handle k := block of n    (api: register_gradients(n); obj: new active FixedArray<n>), n in 1..4
//   d k              release handle k          (api: unregister_gradient / unregister_gradients; obj: delete)
//   nr               new_recording()
//   rs k n           handle k (a block made by `av`) := block of n, the old block released first
//                    (api: unregister_gradients then register_gradients(n); obj: aVector::resize(n))
//   avx k n          an attempt to make a block of n whose DATA allocation fails with std::bad_alloc (fault injected below):
//                    nothing is registered and handle k does not come to exist (api: nothing; obj: new aVector(n) throws)
//   rsx k n          resize of handle k to n whose data allocation fails: the old block is released, nothing is registered,
//                    the emptied object is destroyed (api: unregister_gradients; obj: resize(n) throws, delete)
//   pause / cont     pause_recording / continue_recording (no-ops unless ADEPT_RECORDING_PAUSABLE)
// object-level ops (obj mode only)
//   pk               prints "pk <Packet<Real>::size>" (not sent to the model)
//   cfg P V          P must be Packet<Real>::size; V=1: every later observation line carries the dump of all live objects
//   ap k             new adouble(2.0)                         ac k s     new adouble(*s)   (copy constructor)
//   ae k a b         new adouble((*a)*(*b)+(*a))              at k a b   new adouble(ident((*a)*(*b)+(*a))), ident takes and returns adouble by value
//   sw a b           std::swap(*a, *b) of two adoubles
//   vn k             new std::vector<adouble>                 vp k       emplace_back()     vo k   pop_back()    ve k i   erase(begin()+i)
//   bn k n           new adouble[n]   (d k: delete[])
//   am k kind d..    new active array: kind 1,2,3 aVector/aMatrix/aArray3D (dims), 10 aSquareMatrix, 11 aSymmMatrix, 14 aTridiagMatrix,
//                    15 aDiagMatrix (one dimension); a zero dimension gives an empty array
//   amx k kind d..   the same with the data allocation failing (no object comes to exist)
//   cp k s           new A(*s)  (copy constructor: shares the storage)
//   sl k s spec..    new Array((*s)(spec..)), one spec per dimension of s: f<i> (integer) or r<lo>:<hi>:<st> (stride(lo,hi,st))
//   ln k s           *k >>= *s  (link)                       cl k       k->clear()
//   rz k d..         k->resize(d..)                           rzx k d..  resize whose data allocation fails (object stays, empty)
//   as k s           *k = *s    (array assignment; allocates when k is empty, a temporary copy when they overlap in memory)
//   sa a b           swap(*a, *b) of two arrays of the same rank
//   il k cls r v    new object of rank r (1..6; rank 7 does not compile in the pinned tree) CONSTRUCTED FROM A NESTED std::initializer_list of the shape LIST_SHAPES[r] (v=1: later rows
//                    shorter than the first — ragged); cls 0 active Array<r>, 1 inactive Array<r>, 2 active FixedArray<shape>, 3 inactive
//                    FixedArray<shape>.  An inactive Array is also copied, linked and (rank 1) an EMPTY view of it is taken and dropped.
//   al k v           *k = {list of rank(k)} (assignment from an initializer list): arrays of rank 1..6 that are empty() or have exactly the
//                    list's shape, and objects made by `il`
//   lt k s spec..    *k >>= (*s)(spec..)  (Array::operator>>=(Array&&): link to a TEMPORARY view); k must have the rank of the view
//   spec r<lo>:<hi>:<st> with hi < lo < dim and lo < hi + 2*st is an EMPTY selection (stride(lo,hi,st).size() == 0)
// one observation line per op: "<ret> ig= mg= nr= gaps=[..] cur=" (same text as Adept.GradAlloc.observe), with V=1 followed by
// " | " and, by handle: k=S[idx] adouble, k=F[idx+n] FixedArray, k=V[idx,..]c<capacity> vector, k=B[idx,..] adouble[],
// k=A<kind>[<gradient_index>+<slots spanned>@<storage gradient_index>/<n_allocated>/<n_links>~<data_ - storage data>] or
// k=A<kind>[e] (no storage); an empty view (all extents zero) reports 0 slots spanned; k=I[] inactive object made by `il`
#include "spy.h"
#include <map>
#include <malloc.h>
#include <cerrno>
#include <new>
#include <utility>

// ---- fault injection: the two allocation functions internal::alloc_aligned may call are interposed; only the next data
// allocation made while g_fail_next is set (one library operation) fails.
static bool g_fail_next = false;
static long g_fired = 0;
static bool fault_now(size_t bytes) {
  if (!g_fail_next || bytes > 8192) return false;
  g_fail_next = false; ++g_fired;
  return true;
}
void* operator new[](std::size_t sz) {
  if (fault_now(sz)) throw std::bad_alloc();
  void* p = std::malloc(sz ? sz : 1);
  if (!p) throw std::bad_alloc();
  return p;
}
void operator delete[](void* p) noexcept { std::free(p); }
void operator delete[](void* p, std::size_t) noexcept { std::free(p); }
extern "C" int posix_memalign(void** out, size_t alignment, size_t size) {
  if (fault_now(size)) return ENOMEM;
  void* p = memalign(alignment, size ? size : 1);
  if (!p) return ENOMEM;
  *out = p;
  return 0;
}
using namespace adept;
using verif::SpyStack;

static adouble ident(adouble x) { return x; }

struct Spec { bool fix; int i, lo, hi, st; };

// ---- live objects
struct Base {
  int kind;   // 100 adouble, 101 FixedArray, 102 std::vector<adouble>, 103 adouble[]; arrays: 1,2,3,10,11,14,15
  Base(int k) : kind(k) {}
  virtual ~Base() {}
  virtual std::string str() = 0;
  // arrays only
  virtual Base* copy() { return 0; }
  virtual bool link(Base*) { return false; }
  virtual bool resize(const std::vector<int>&) { return false; }
  virtual bool clear() { return false; }
  virtual bool assign(Base*) { return false; }
  virtual bool swapWith(Base*) { return false; }
  virtual Base* slice(const std::vector<Spec>&) { return 0; }
  virtual long gidx() { return -1; }
  virtual int assignList(int) { return -1; }          // -1 not applicable, 0 done
  virtual bool linkSlice(Base*, const std::vector<Spec>&) { return false; }
  virtual int dimAt(int) { return -1; }
};

struct ScalarH : Base {
  adouble* p;
  ScalarH(adouble* q) : Base(100), p(q) {}
  ~ScalarH() { delete p; }
  std::string str() { std::ostringstream os; os << "S[" << p->gradient_index() << "]"; return os.str(); }
  long gidx() { return p->gradient_index(); }
};
template <int N> struct FixedH : Base {
  FixedArray<double, true, N>* p;
  FixedH() : Base(101), p(new FixedArray<double, true, N>()) {}
  ~FixedH() { delete p; }
  std::string str() { std::ostringstream os; os << "F[" << p->gradient_index() << "+" << N << "]"; return os.str(); }
  long gidx() { return p->gradient_index(); }
};
struct VecH : Base {
  std::vector<adouble>* p;
  VecH() : Base(102), p(new std::vector<adouble>()) {}
  ~VecH() { delete p; }
  std::string str() {
    std::ostringstream os; os << "V[";
    for (size_t i = 0; i < p->size(); ++i) os << (i ? "," : "") << (*p)[i].gradient_index();
    os << "]c" << p->capacity();
    return os.str();
  }
};
struct BlkH : Base {
  adouble* p; int n;
  BlkH(int m) : Base(103), p(new adouble[m]), n(m) {}
  ~BlkH() { delete[] p; }
  std::string str() {
    std::ostringstream os; os << "B[";
    for (int i = 0; i < n; ++i) os << (i ? "," : "") << p[i].gradient_index();
    os << "]";
    return os.str();
  }
};

template <class A> struct Traits;
template <> struct Traits<aVector>  { enum { kind = 1 };
  static aVector* mk(const std::vector<int>& d) { return new aVector(d[0]); }
  static void rz(aVector* p, const std::vector<int>& d) { p->resize(d[0]); } };
template <> struct Traits<aMatrix>  { enum { kind = 2 };
  static aMatrix* mk(const std::vector<int>& d) { return new aMatrix(d[0], d[1]); }
  static void rz(aMatrix* p, const std::vector<int>& d) { p->resize(d[0], d[1]); } };
template <> struct Traits<aArray3D> { enum { kind = 3 };
  static aArray3D* mk(const std::vector<int>& d) { return new aArray3D(d[0], d[1], d[2]); }
  static void rz(aArray3D* p, const std::vector<int>& d) { p->resize(d[0], d[1], d[2]); } };
template <> struct Traits<aArray4D> { enum { kind = 4 };
  static aArray4D* mk(const std::vector<int>& d) { return new aArray4D(d[0], d[1], d[2], d[3]); }
  static void rz(aArray4D* p, const std::vector<int>& d) { p->resize(d[0], d[1], d[2], d[3]); } };
template <> struct Traits<aArray5D> { enum { kind = 5 };
  static aArray5D* mk(const std::vector<int>& d) { return new aArray5D(d[0], d[1], d[2], d[3], d[4]); }
  static void rz(aArray5D* p, const std::vector<int>& d) { p->resize(d[0], d[1], d[2], d[3], d[4]); } };
template <> struct Traits<aArray6D> { enum { kind = 6 };
  static aArray6D* mk(const std::vector<int>& d) { return new aArray6D(d[0], d[1], d[2], d[3], d[4], d[5]); }
  static void rz(aArray6D* p, const std::vector<int>& d) { p->resize(d[0], d[1], d[2], d[3], d[4], d[5]); } };
// rank 7: Array<7,…> and every 7-dimensional FixedArray cannot be instantiated in the pinned tree (`permute(Index…)` is a NON-template member
// whose return type is enable_if<(Rank < 7), Array>::type: a hard error when the class is instantiated), so ranks 1..6 are driven
#define SPECIAL_TRAITS(T, K) template <> struct Traits<T> { enum { kind = K }; \
  static T* mk(const std::vector<int>& d) { return new T(d[0]); } \
  static void rz(T* p, const std::vector<int>& d) { p->resize(d[0]); } };
SPECIAL_TRAITS(aSquareMatrix, 10)
SPECIAL_TRAITS(aSymmMatrix, 11)
SPECIAL_TRAITS(aTridiagMatrix, 14)
SPECIAL_TRAITS(aDiagMatrix, 15)

template <int R> static long span_of(Array<R, Real, true>& a) {
  if (a.dimension(0) == 0) return 0;          // an empty view: no element
  long s = 1;
  for (int i = 0; i < R; ++i) {
    long o = a.offset(i); if (o < 0) o = -o;
    s += (long)(a.dimension(i) - 1) * o;
  }
  return s;
}
template <class E> static long span_of(SpecialMatrix<Real, E, true>& a) {
  long d = a.dimension(), o = a.offset();
  if (Traits<SpecialMatrix<Real, E, true> >::kind >= 14) return (d - 1) * (o + 1) + 1;   // band engines
  return (d - 1) * o + d;                                                                 // square-like engines
}

template <class A> struct ArrH;
template <class V> static Base* wrap_view(const V& v);
template <class A> static int dim_of(A&, int) { return -1; }
template <int R> static int dim_of(Array<R, Real, true>& a, int i) { return i < R ? a.dimension(i) : -1; }

// slicing: only Array ranks 1..3 (overloads chosen by the static type)
static Base* do_slice(aVector& a, const std::vector<Spec>& s);
static Base* do_slice(aMatrix& a, const std::vector<Spec>& s);
static Base* do_slice(aArray3D& a, const std::vector<Spec>& s);
template <class A> static Base* do_slice(A&, const std::vector<Spec>&) { return 0; }

template <class A> static bool do_swap(A&, A&) { return false; }
template <int R> static bool do_swap(Array<R, Real, true>& a, Array<R, Real, true>& b) { swap(a, b); return true; }
template <class A> static bool do_assign(A&, A&) { return false; }
template <int R> static bool do_assign(Array<R, Real, true>& a, Array<R, Real, true>& b) { a = b; return true; }

// ---- initializer lists: one shape per rank, v=0 full, v=1 ragged (rows after the first are shorter)
static const int LIST_SHAPES[8][7] = { {0}, {3}, {2, 3}, {2, 1, 2}, {1, 2, 1, 2}, {2, 1, 1, 2, 1}, {1, 1, 2, 1, 1, 2}, {1, 2, 1, 1, 2, 1, 2} };
#define LIT_1_0 {1,2,3}
#define LIT_1_1 {1,2,3}
#define LIT_2_0 {{1,2,3},{4,5,6}}
#define LIT_2_1 {{1,2,3},{4}}
#define LIT_3_0 {{{1,2}},{{3,4}}}
#define LIT_3_1 {{{1,2}},{{3}}}
#define LIT_4_0 {{{{1,2}},{{3,4}}}}
#define LIT_4_1 {{{{1,2}},{{3}}}}
#define LIT_5_0 {{{{{1},{2}}}},{{{{3},{4}}}}}
#define LIT_5_1 {{{{{1},{2}}}},{{{{3}}}}}
#define LIT_6_0 {{{{{{1,2}}},{{{3,4}}}}}}
#define LIT_6_1 {{{{{{1,2}}},{{{3}}}}}}
#define LIT_7_0 {{{{{{{1,2}},{{3,4}}}}},{{{{{5,6}},{{7,8}}}}}}}
#define LIT_7_1 {{{{{{{1,2}},{{3}}}}},{{{{{4}},{{5}}}}}}}
template <int R> struct IL { typedef std::initializer_list<typename IL<R - 1>::type> type; };
template <> struct IL<0> { typedef int type; };
template <bool A, int R> struct FixT;
template <bool A> struct FixT<A, 1> { typedef FixedArray<Real, A, 3> type; };
template <bool A> struct FixT<A, 2> { typedef FixedArray<Real, A, 2, 3> type; };
template <bool A> struct FixT<A, 3> { typedef FixedArray<Real, A, 2, 1, 2> type; };
template <bool A> struct FixT<A, 4> { typedef FixedArray<Real, A, 1, 2, 1, 2> type; };
template <bool A> struct FixT<A, 5> { typedef FixedArray<Real, A, 2, 1, 1, 2, 1> type; };
template <bool A> struct FixT<A, 6> { typedef FixedArray<Real, A, 1, 1, 2, 1, 1, 2> type; };
// *obj = list of rank R (a typed list: nested braces deduce only for ranks 1 and 2)
template <int R> struct AsgList;
#define ASG_LIST(r) template <> struct AsgList<r> { template <class T> static void go(T& t, int v) { \
  if (v) { IL<r>::type l = LIT_##r##_1; t = l; } else { IL<r>::type l = LIT_##r##_0; t = l; } } };
ASG_LIST(1) ASG_LIST(2) ASG_LIST(3) ASG_LIST(4) ASG_LIST(5) ASG_LIST(6)
template <class A> static int do_alist(A&, int) { return -1; }
template <int R> static int do_alist(Array<R, Real, true>& a, int v) {
  if (!a.empty()) for (int i = 0; i < R; ++i) if (a.dimension(i) != LIST_SHAPES[R][i]) return -1;
  AsgList<R>::go(a, v);
  return 0;
}
// inactive objects made from a list: they register nothing
template <class T, int R> struct InactH : Base {
  T* p;
  InactH(T* q) : Base(104), p(q) {}
  ~InactH() { delete p; }
  std::string str() { return "I[]"; }
  int assignList(int v) { AsgList<R>::go(*p, v); return 0; }
};
template <int R> static void touch_inactive(Array<R, Real, false>& a) {
  Array<R, Real, false> c(a); Array<R, Real, false> l; l >>= a; l.clear();
}
static void touch_inactive(Array<1, Real, false>& a) {
  Array<1, Real, false> c(a); Array<1, Real, false> l; l >>= a;
  { Array<1, Real, false> e = a(range(1, 0)); Array<1, Real, false> e2 = a(stride(2, 0, 2)); l >>= a(range(0, 1)); }
}
template <class FA, int R> struct FixLH : Base {
  FA* p; int n;
  FixLH(FA* q) : Base(105), p(q), n(1) { for (int i = 0; i < R; ++i) n *= LIST_SHAPES[R][i]; }
  ~FixLH() { delete p; }
  std::string str() { std::ostringstream os; os << "F[" << p->gradient_index() << "+" << n << "]"; return os.str(); }
  long gidx() { return p->gradient_index(); }
  int assignList(int v) { AsgList<R>::go(*p, v); return 0; }
};
template <class D, class V> struct LinkV { static bool go(D&, V&&) { return false; } };
template <class D> struct LinkV<D, D> { static bool go(D& d, D&& v) { d >>= std::move(v); return true; } };
template <class D> static bool link_slice(D& d, Base* src, const std::vector<Spec>& s);

template <class A> struct ArrH : Base {
  A* p;
  ArrH(A* q) : Base(Traits<A>::kind), p(q) {}
  ~ArrH() { delete p; }
  std::string str() {
    std::ostringstream os; os << "A" << kind << "[";
    long g = p->gradient_index();
    if (!p->storage()) { os << "e"; if (g != -9999) os << "!" << g; }
    else os << g << "+" << span_of(*p) << "@" << p->storage()->gradient_index() << "/" << p->storage()->n_allocated()
            << "/" << p->storage()->n_links() << "~" << (long)(p->data() - p->storage()->data());
    os << "]";
    return os.str();
  }
  long gidx() { return p->gradient_index(); }
  Base* copy() { return new ArrH<A>(new A(*p)); }
  bool link(Base* s) { ArrH<A>* o = dynamic_cast<ArrH<A>*>(s); if (!o) return false; *p >>= *o->p; return true; }
  bool resize(const std::vector<int>& d) { Traits<A>::rz(p, d); return true; }
  bool clear() { p->clear(); return true; }
  bool assign(Base* s) { ArrH<A>* o = dynamic_cast<ArrH<A>*>(s); if (!o || o == this) return false; return do_assign(*p, *o->p); }
  bool swapWith(Base* s) { ArrH<A>* o = dynamic_cast<ArrH<A>*>(s); if (!o || o == this) return false; return do_swap(*p, *o->p); }
  Base* slice(const std::vector<Spec>& s) { return do_slice(*p, s); }
  int assignList(int v) { return do_alist(*p, v); }
  bool linkSlice(Base* src, const std::vector<Spec>& s) { return link_slice(*p, src, s); }
  int dimAt(int i) { return dim_of(*p, i); }
};
template <class V> static Base* wrap_view(const V& v) { return new ArrH<V>(new V(v)); }

#define R(k) stride(s[k].lo, s[k].hi, s[k].st)
#define F(k) s[k].i
static Base* do_slice(aVector& a, const std::vector<Spec>& s) {
  if (s[0].fix) return 0;
  return wrap_view<aVector>(a(R(0)));
}
static Base* do_slice(aMatrix& a, const std::vector<Spec>& s) {
  int m = (s[0].fix ? 0 : 2) + (s[1].fix ? 0 : 1);
  switch (m) {
    case 1: return wrap_view<aVector>(a(F(0), R(1)));
    case 2: return wrap_view<aVector>(a(R(0), F(1)));
    case 3: return wrap_view<aMatrix>(a(R(0), R(1)));
  }
  return 0;
}
static Base* do_slice(aArray3D& a, const std::vector<Spec>& s) {
  int m = (s[0].fix ? 0 : 4) + (s[1].fix ? 0 : 2) + (s[2].fix ? 0 : 1);
  switch (m) {
    case 1: return wrap_view<aVector>(a(F(0), F(1), R(2)));
    case 2: return wrap_view<aVector>(a(F(0), R(1), F(2)));
    case 3: return wrap_view<aMatrix>(a(F(0), R(1), R(2)));
    case 4: return wrap_view<aVector>(a(R(0), F(1), F(2)));
    case 5: return wrap_view<aMatrix>(a(R(0), F(1), R(2)));
    case 6: return wrap_view<aMatrix>(a(R(0), R(1), F(2)));
    case 7: return wrap_view<aArray3D>(a(R(0), R(1), R(2)));
  }
  return 0;
}
template <class D> static bool link_slice(D& d, Base* src, const std::vector<Spec>& s) {
  if (ArrH<aVector>* h = dynamic_cast<ArrH<aVector>*>(src)) {
    aVector& a = *h->p;
    if (s[0].fix) return false;
    return LinkV<D, aVector>::go(d, a(R(0)));
  }
  if (ArrH<aMatrix>* h = dynamic_cast<ArrH<aMatrix>*>(src)) {
    aMatrix& a = *h->p;
    switch ((s[0].fix ? 0 : 2) + (s[1].fix ? 0 : 1)) {
      case 1: return LinkV<D, aVector>::go(d, a(F(0), R(1)));
      case 2: return LinkV<D, aVector>::go(d, a(R(0), F(1)));
      case 3: return LinkV<D, aMatrix>::go(d, a(R(0), R(1)));
    }
    return false;
  }
  if (ArrH<aArray3D>* h = dynamic_cast<ArrH<aArray3D>*>(src)) {
    aArray3D& a = *h->p;
    switch ((s[0].fix ? 0 : 4) + (s[1].fix ? 0 : 2) + (s[2].fix ? 0 : 1)) {
      case 1: return LinkV<D, aVector>::go(d, a(F(0), F(1), R(2)));
      case 2: return LinkV<D, aVector>::go(d, a(F(0), R(1), F(2)));
      case 3: return LinkV<D, aMatrix>::go(d, a(F(0), R(1), R(2)));
      case 4: return LinkV<D, aVector>::go(d, a(R(0), F(1), F(2)));
      case 5: return LinkV<D, aMatrix>::go(d, a(R(0), F(1), R(2)));
      case 6: return LinkV<D, aMatrix>::go(d, a(R(0), R(1), F(2)));
      case 7: return LinkV<D, aArray3D>::go(d, a(R(0), R(1), R(2)));
    }
    return false;
  }
  return false;
}
#undef R
#undef F

// object of rank r constructed from a nested initializer list; cls 0 active Array, 1 inactive Array, 2 active FixedArray, 3 inactive
template <int R> static Base* make_from_list_r(int cls, int v);
#define MK_LIST(r) template <> Base* make_from_list_r<r>(int cls, int v) { \
  if (cls == 0) { typedef Array<r, Real, true> T; return new ArrH<T>(v ? new T LIT_##r##_1 : new T LIT_##r##_0); } \
  if (cls == 1) { typedef Array<r, Real, false> T; T* q = v ? new T LIT_##r##_1 : new T LIT_##r##_0; touch_inactive(*q); \
                  return new InactH<T, r>(q); } \
  if (cls == 2) { typedef FixT<true, r>::type T; return new FixLH<T, r>(v ? new T LIT_##r##_1 : new T LIT_##r##_0); } \
  typedef FixT<false, r>::type T; return new InactH<T, r>(v ? new T LIT_##r##_1 : new T LIT_##r##_0); }
MK_LIST(1) MK_LIST(2) MK_LIST(3) MK_LIST(4) MK_LIST(5) MK_LIST(6)
static Base* make_from_list(int cls, int r, int v) {
  switch (r) {
    case 1: return make_from_list_r<1>(cls, v); case 2: return make_from_list_r<2>(cls, v); case 3: return make_from_list_r<3>(cls, v);
    case 4: return make_from_list_r<4>(cls, v); case 5: return make_from_list_r<5>(cls, v); case 6: return make_from_list_r<6>(cls, v);
  }
  return 0;
}

static int n_args(int kind) { return kind < 10 ? kind : 1; }
static bool known_kind(int kind) { return (kind >= 1 && kind <= 6) || kind == 10 || kind == 11 || kind == 14 || kind == 15; }

// `fault`: the data allocation of the constructor fails; returns 0 and sets threw
static Base* make_array(int kind, const std::vector<int>& d, bool fault, bool& threw) {
  Base* r = 0; threw = false;
  g_fail_next = fault;
  try {
    switch (kind) {
      case 1: r = new ArrH<aVector>(Traits<aVector>::mk(d)); break;
      case 2: r = new ArrH<aMatrix>(Traits<aMatrix>::mk(d)); break;
      case 3: r = new ArrH<aArray3D>(Traits<aArray3D>::mk(d)); break;
      case 4: r = new ArrH<aArray4D>(Traits<aArray4D>::mk(d)); break;
      case 5: r = new ArrH<aArray5D>(Traits<aArray5D>::mk(d)); break;
      case 6: r = new ArrH<aArray6D>(Traits<aArray6D>::mk(d)); break;
      case 10: r = new ArrH<aSquareMatrix>(Traits<aSquareMatrix>::mk(d)); break;
      case 11: r = new ArrH<aSymmMatrix>(Traits<aSymmMatrix>::mk(d)); break;
      case 14: r = new ArrH<aTridiagMatrix>(Traits<aTridiagMatrix>::mk(d)); break;
      case 15: r = new ArrH<aDiagMatrix>(Traits<aDiagMatrix>::mk(d)); break;
    }
  } catch (const std::bad_alloc&) { threw = true; }
  g_fail_next = false;
  return r;
}

static bool parse_spec(const std::string& w, Spec& s) {
  s = Spec();
  if (w.size() < 2) return false;
  if (w[0] == 'f') { s.fix = true; s.i = atoi(w.c_str() + 1); return true; }
  if (w[0] == 'r') { s.fix = false; return sscanf(w.c_str() + 1, "%d:%d:%d", &s.lo, &s.hi, &s.st) == 3; }
  return false;
}

struct ApiObj { int kind; long idx; int n; };   // api mode: 1 scalar, 2 vector, 3 fixed

int main(int argc, char** argv) {
  bool obj = argc > 1 && std::string(argv[1]) == "obj";
  SpyStack* st = new SpyStack();
  std::map<long, ApiObj> tab;      // api mode
  std::map<long, Base*> objs;      // obj mode
  bool verbose = false;
  std::string line;
#define LINE(ret, has) do { std::cout << st->alloc_line(ret, has); \
    if (verbose) { std::cout << " |"; for (std::map<long, Base*>::iterator it_ = objs.begin(); it_ != objs.end(); ++it_) \
      std::cout << " " << it_->first << "=" << it_->second->str(); } \
    std::cout << "\n"; } while (0)
#define BAD do { std::cout << "bad-op\n"; goto next; } while (0)
  while (std::getline(std::cin, line)) {
    std::vector<std::string> w = verif::words(line);
    if (w.empty()) continue;
    try {
    if (w[0] == "reset") {
      for (std::map<long, Base*>::iterator it = objs.begin(); it != objs.end(); ++it) delete it->second;
      objs.clear(); tab.clear(); verbose = false;
      delete st; st = new SpyStack();
      std::cout << "reset\n";
    } else if (w[0] == "pk" && w.size() == 1) {
      std::cout << "pk " << (int)internal::Packet<Real>::size << "\n";
    } else if (w[0] == "cfg" && w.size() == 3) {
      if (atoi(w[1].c_str()) != (int)internal::Packet<Real>::size) { std::cout << "cfg-mismatch\n"; continue; }
      verbose = obj && atoi(w[2].c_str()) != 0;
      std::cout << "cfg\n";
    } else if ((w[0] == "pause" || w[0] == "cont") && w.size() == 1) {
      // registration must not depend on whether recording is paused (pausable builds; no-ops otherwise)
      if (w[0] == "pause") st->pause_recording(); else st->continue_recording();
      LINE(0, false);
    } else if (w[0] == "nr" && w.size() == 1) {
      st->new_recording();
      LINE(0, false);
    } else if (!obj) {
      // ------------------------------------------------------------ api mode
      if (w[0] == "a1" && w.size() == 2) {
        long k = atol(w[1].c_str()); if (tab.count(k)) BAD;
        ApiObj o; o.kind = 1; o.n = 1; o.idx = st->register_gradient();
        tab[k] = o;
        LINE(o.idx, true);
      } else if ((w[0] == "av" || w[0] == "af") && w.size() == 3) {
        long k = atol(w[1].c_str()); if (tab.count(k)) BAD;
        ApiObj o; o.kind = w[0] == "av" ? 2 : 3; o.n = atoi(w[2].c_str());
        if (o.kind == 3 && (o.n < 1 || o.n > 4)) BAD;
        o.idx = st->register_gradients(o.n);
        tab[k] = o;
        LINE(o.idx, true);
      } else if (w[0] == "d" && w.size() == 2) {
        long k = atol(w[1].c_str());
        if (!tab.count(k)) BAD;
        ApiObj o = tab[k]; tab.erase(k);
        if (o.kind == 1) st->unregister_gradient(o.idx); else st->unregister_gradients(o.idx, o.n);
        LINE(0, false);
      } else if (w[0] == "rs" && w.size() == 3) {
        long k = atol(w[1].c_str()); int n = atoi(w[2].c_str());
        if (!tab.count(k) || tab[k].kind != 2 || n < 1) BAD;
        ApiObj& o = tab[k];
        st->unregister_gradients(o.idx, o.n); o.idx = st->register_gradients(n);
        o.n = n;
        LINE(o.idx, true);
      } else if (w[0] == "avx" && w.size() == 3) {
        if (atoi(w[2].c_str()) < 1 || tab.count(atol(w[1].c_str()))) BAD;
        LINE(0, false);
      } else if (w[0] == "rsx" && w.size() == 3) {
        long k = atol(w[1].c_str()); int n = atoi(w[2].c_str());
        if (!tab.count(k) || tab[k].kind != 2 || n < 1) BAD;
        ApiObj o = tab[k]; tab.erase(k);
        st->unregister_gradients(o.idx, o.n);
        LINE(0, false);
      } else BAD;
    } else {
      // ------------------------------------------------------------ obj mode
      long k = w.size() > 1 ? atol(w[1].c_str()) : -1;
      if ((w[0] == "a1" || w[0] == "ap" || w[0] == "vn") && w.size() == 2) {
        if (objs.count(k)) BAD;
        Base* b = 0;
        if (w[0] == "a1") b = new ScalarH(new adouble());
        else if (w[0] == "ap") b = new ScalarH(new adouble(2.0));
        else b = new VecH();
        objs[k] = b;
        if (w[0] == "a1") LINE(b->gidx(), true); else LINE(0, false);
      } else if (w[0] == "ac" && w.size() == 3) {
        long s = atol(w[2].c_str());
        if (objs.count(k) || !objs.count(s) || objs[s]->kind != 100) BAD;
        objs[k] = new ScalarH(new adouble(*static_cast<ScalarH*>(objs[s])->p));
        LINE(0, false);
      } else if ((w[0] == "ae" || w[0] == "at") && w.size() == 4) {
        long a = atol(w[2].c_str()), b = atol(w[3].c_str());
        if (objs.count(k) || !objs.count(a) || objs[a]->kind != 100 || !objs.count(b) || objs[b]->kind != 100) BAD;
        adouble& x = *static_cast<ScalarH*>(objs[a])->p; adouble& y = *static_cast<ScalarH*>(objs[b])->p;
        if (w[0] == "ae") objs[k] = new ScalarH(new adouble(x * y + x));
        else objs[k] = new ScalarH(new adouble(ident(x * y + x)));   // parameter temporary: registered, released after the copy
        LINE(0, false);
      } else if (w[0] == "sw" && w.size() == 3) {
        long b = atol(w[2].c_str());
        if (!objs.count(k) || objs[k]->kind != 100 || !objs.count(b) || objs[b]->kind != 100 || k == b) BAD;
        std::swap(*static_cast<ScalarH*>(objs[k])->p, *static_cast<ScalarH*>(objs[b])->p);
        LINE(0, false);
      } else if (w[0] == "af" && w.size() == 3) {
        int n = atoi(w[2].c_str());
        if (objs.count(k) || n < 1 || n > 4) BAD;
        Base* b = n == 1 ? (Base*)new FixedH<1>() : n == 2 ? (Base*)new FixedH<2>() : n == 3 ? (Base*)new FixedH<3>() : (Base*)new FixedH<4>();
        objs[k] = b;
        LINE(b->gidx(), true);
      } else if ((w[0] == "vp" || w[0] == "vo") && w.size() == 2) {
        if (!objs.count(k) || objs[k]->kind != 102) BAD;
        std::vector<adouble>* v = static_cast<VecH*>(objs[k])->p;
        if (w[0] == "vp") v->emplace_back();
        else { if (v->empty()) BAD; v->pop_back(); }
        LINE(0, false);
      } else if (w[0] == "ve" && w.size() == 3) {
        if (!objs.count(k) || objs[k]->kind != 102) BAD;
        std::vector<adouble>* v = static_cast<VecH*>(objs[k])->p;
        long i = atol(w[2].c_str());
        if (i < 0 || i >= (long)v->size()) BAD;
        v->erase(v->begin() + i);
        LINE(0, false);
      } else if (w[0] == "bn" && w.size() == 3) {
        int n = atoi(w[2].c_str());
        if (objs.count(k) || n < 1) BAD;
        objs[k] = new BlkH(n);
        LINE(0, false);
      } else if (w[0] == "d" && w.size() == 2) {
        if (!objs.count(k)) BAD;
        delete objs[k]; objs.erase(k);
        LINE(0, false);
      } else if ((w[0] == "am" || w[0] == "amx" || w[0] == "av" || w[0] == "avx") && w.size() >= 3) {
        bool old = w[0] == "av" || w[0] == "avx";
        bool fault = w[0] == "amx" || w[0] == "avx";
        int kind = old ? 1 : atoi(w[2].c_str());
        std::vector<int> d;
        for (size_t i = old ? 2 : 3; i < w.size(); ++i) d.push_back(atoi(w[i].c_str()));
        if (objs.count(k) || !known_kind(kind) || (int)d.size() != n_args(kind)) BAD;
        bool zero = false;
        for (size_t i = 0; i < d.size(); ++i) { if (d[i] < 0) BAD; if (d[i] == 0) zero = true; }
        if ((fault || old) && zero) BAD;
        bool threw;
        Base* b = make_array(kind, d, fault, threw);
        if (fault) {
          if (!threw) { delete b; std::cout << "fault-not-delivered\n"; continue; }
          LINE(0, false);
        } else {
          objs[k] = b;
          if (old) LINE(b->gidx(), true); else LINE(0, false);
        }
      } else if (w[0] == "cp" && w.size() == 3) {
        long s = atol(w[2].c_str());
        if (objs.count(k) || !objs.count(s)) BAD;
        Base* b = objs[s]->copy();
        if (!b) BAD;
        objs[k] = b;
        LINE(0, false);
      } else if ((w[0] == "sl" || w[0] == "lt") && w.size() >= 4) {
        bool lt = w[0] == "lt";
        long s = atol(w[2].c_str());
        if ((lt ? !objs.count(k) : objs.count(k) != 0) || !objs.count(s) || k == s) BAD;
        Base* src = objs[s];
        if (src->kind > 3 || (int)w.size() - 3 != src->kind || src->gidx() == -9999) BAD;
        std::vector<Spec> sp(w.size() - 3);
        int nr = 0;
        for (size_t i = 3; i < w.size(); ++i) {
          if (!parse_spec(w[i], sp[i - 3])) BAD;
          Spec& q = sp[i - 3];
          // in-range views only; lo > hi is an EMPTY selection when stride(lo,hi,st).size() == (hi - lo + st)/st == 0
          if (q.fix) { if (q.i < 0) BAD; }
          else { if (q.lo < 0 || q.hi < 0 || q.st < 1) BAD; if (q.lo > q.hi && !(q.lo < q.hi + 2 * q.st)) BAD; ++nr; }
        }
        if (nr == 0) BAD;
        // bounds (the library is built without bounds checking): against the dimensions of the source
        for (size_t i = 0; i < sp.size(); ++i) {
          int top = sp[i].fix ? sp[i].i : (sp[i].lo > sp[i].hi ? sp[i].lo : sp[i].hi);
          if (top >= src->dimAt((int)i)) BAD;
        }
        if (lt) {
          if (objs[k]->kind != nr) BAD;
          if (!objs[k]->linkSlice(src, sp)) BAD;
        } else {
          Base* b = src->slice(sp);
          if (!b) BAD;
          objs[k] = b;
        }
        LINE(0, false);
      } else if (w[0] == "il" && w.size() == 5) {
        int cls = atoi(w[2].c_str()), r = atoi(w[3].c_str()), v = atoi(w[4].c_str());
        if (objs.count(k) || cls < 0 || cls > 3 || r < 1 || r > 6 || v < 0 || v > 1) BAD;
        objs[k] = make_from_list(cls, r, v);
        LINE(0, false);
      } else if (w[0] == "al" && w.size() == 3) {
        int v = atoi(w[2].c_str());
        if (!objs.count(k) || v < 0 || v > 1) BAD;
        if (objs[k]->assignList(v) != 0) BAD;
        LINE(0, false);
      } else if ((w[0] == "ln" || w[0] == "as" || w[0] == "sa") && w.size() == 3) {
        long s = atol(w[2].c_str());
        if (!objs.count(k) || !objs.count(s) || objs[k]->kind >= 100 || objs[k]->kind != objs[s]->kind || k == s) BAD;
        if (w[0] != "ln" && objs[k]->kind >= 10) BAD;
        try {
          if (w[0] == "ln") objs[k]->link(objs[s]);
          else if (w[0] == "as") objs[k]->assign(objs[s]);
          else objs[k]->swapWith(objs[s]);
        } catch (const adept::exception&) { }      // empty_array (link to an empty array), size_mismatch: nothing may have changed
        LINE(0, false);
      } else if (w[0] == "cl" && w.size() == 2) {
        if (!objs.count(k) || objs[k]->kind >= 100) BAD;
        objs[k]->clear();
        LINE(0, false);
      } else if ((w[0] == "rz" || w[0] == "rzx" || w[0] == "rs" || w[0] == "rsx") && w.size() >= 3) {
        bool old = w[0] == "rs" || w[0] == "rsx";
        bool fault = w[0] == "rzx" || w[0] == "rsx";
        if (!objs.count(k) || objs[k]->kind >= 100 || (old && objs[k]->kind != 1)) BAD;
        std::vector<int> d;
        for (size_t i = 2; i < w.size(); ++i) d.push_back(atoi(w[i].c_str()));
        if ((int)d.size() != n_args(objs[k]->kind)) BAD;
        bool zero = false;
        for (size_t i = 0; i < d.size(); ++i) { if (d[i] < 0) BAD; if (d[i] == 0) zero = true; }
        if ((fault || old) && zero) BAD;
        bool threw = false;
        g_fail_next = fault;
        try { objs[k]->resize(d); } catch (const std::bad_alloc&) { threw = true; }
        g_fail_next = false;
        if (w[0] == "rsx") { delete objs[k]; objs.erase(k); }
        if (fault && !threw) { std::cout << "fault-not-delivered\n"; continue; }
        if (w[0] == "rs") LINE(objs[k]->gidx(), true); else LINE(0, false);
      } else BAD;
    }
    } catch (const std::exception& e) {
      std::cout << "exception " << e.what() << "\n";
    }
    next: ;
  }
  for (std::map<long, Base*>::iterator it = objs.begin(); it != objs.end(); ++it) delete it->second;
  delete st;
  return 0;
}
