// Correspondence driver for the gradient-slot allocator (model M3, property C08).
// usage: drv_galloc api|obj < ops
//   reset            fresh stack
//   a1 k             handle k := one scalar    (api: register_gradient();  obj: new adouble)
//   av k n           handle k := block of n    (api: register_gradients(n); obj: new aVector(n))
//   af k n           handle k := block of n    (api: register_gradients(n); obj: new active FixedArray<n>), n in 1..4
//   d k              release handle k          (api: unregister_gradient / unregister_gradients; obj: delete)
//   nr               new_recording()
// one observation line per op (same text as Adept.GradAlloc.observe)
#include "spy.h"
#include <map>
using namespace adept;
using verif::SpyStack;

struct Obj {
  int kind; // 1 scalar, 2 vector, 3 fixed
  long idx; int n;
  adouble* s; aVector* v; void* f;
};

template <int N> static void* mkfixed(long& idx) {
  FixedArray<double, true, N>* p = new FixedArray<double, true, N>();
  idx = p->gradient_index();
  return p;
}
template <int N> static void rmfixed(void* p) { delete static_cast<FixedArray<double, true, N>*>(p); }

int main(int argc, char** argv) {
  bool obj = argc > 1 && std::string(argv[1]) == "obj";
  SpyStack* st = new SpyStack();
  std::map<long, Obj> tab;
  std::string line;
  while (std::getline(std::cin, line)) {
    std::vector<std::string> w = verif::words(line);
    if (w.empty()) continue;
    if (w[0] == "reset") {
      if (obj) {
        for (std::map<long, Obj>::iterator it = tab.begin(); it != tab.end(); ++it) {
          Obj& o = it->second;
          if (o.kind == 1) delete o.s; else if (o.kind == 2) delete o.v;
          else { if (o.n == 1) rmfixed<1>(o.f); else if (o.n == 2) rmfixed<2>(o.f); else if (o.n == 3) rmfixed<3>(o.f); else rmfixed<4>(o.f); }
        }
      }
      tab.clear();
      delete st; st = new SpyStack();
      std::cout << "reset\n";
    } else if (w[0] == "a1" && w.size() == 2) {
      Obj o = Obj(); o.kind = 1; o.n = 1;
      if (obj) { o.s = new adouble(); o.idx = o.s->gradient_index(); }
      else o.idx = st->register_gradient();
      tab[atol(w[1].c_str())] = o;
      std::cout << st->alloc_line(o.idx, true) << "\n";
    } else if (w[0] == "av" && w.size() == 3) {
      Obj o = Obj(); o.kind = 2; o.n = atoi(w[2].c_str());
      if (obj) { o.v = new aVector(o.n); o.idx = o.v->gradient_index(); }
      else o.idx = st->register_gradients(o.n);
      tab[atol(w[1].c_str())] = o;
      std::cout << st->alloc_line(o.idx, true) << "\n";
    } else if (w[0] == "af" && w.size() == 3) {
      Obj o = Obj(); o.kind = 3; o.n = atoi(w[2].c_str());
      if (o.n < 1 || o.n > 4) { std::cout << "bad-op\n"; continue; }
      if (obj) {
        if (o.n == 1) o.f = mkfixed<1>(o.idx); else if (o.n == 2) o.f = mkfixed<2>(o.idx);
        else if (o.n == 3) o.f = mkfixed<3>(o.idx); else o.f = mkfixed<4>(o.idx);
      } else o.idx = st->register_gradients(o.n);
      tab[atol(w[1].c_str())] = o;
      std::cout << st->alloc_line(o.idx, true) << "\n";
    } else if (w[0] == "d" && w.size() == 2) {
      long k = atol(w[1].c_str());
      if (!tab.count(k)) { std::cout << "bad-op\n"; continue; }
      Obj o = tab[k]; tab.erase(k);
      if (obj) {
        if (o.kind == 1) delete o.s; else if (o.kind == 2) delete o.v;
        else { if (o.n == 1) rmfixed<1>(o.f); else if (o.n == 2) rmfixed<2>(o.f); else if (o.n == 3) rmfixed<3>(o.f); else rmfixed<4>(o.f); }
      } else {
        if (o.kind == 1) st->unregister_gradient(o.idx); else st->unregister_gradients(o.idx, o.n);
      }
      std::cout << st->alloc_line(0, false) << "\n";
    } else if ((w[0] == "pause" || w[0] == "cont") && w.size() == 1) {
      // registration must not depend on whether recording is paused (pausable builds; no-ops otherwise)
      if (w[0] == "pause") st->pause_recording(); else st->continue_recording();
      std::cout << st->alloc_line(0, false) << "\n";
    } else if (w[0] == "nr" && w.size() == 1) {
      st->new_recording();
      std::cout << st->alloc_line(0, false) << "\n";
    } else std::cout << "bad-op\n";
  }
  if (obj) {
    for (std::map<long, Obj>::iterator it = tab.begin(); it != tab.end(); ++it) {
      Obj& o = it->second;
      if (o.kind == 1) delete o.s; else if (o.kind == 2) delete o.v;
      else { if (o.n == 1) rmfixed<1>(o.f); else if (o.n == 2) rmfixed<2>(o.f); else if (o.n == 3) rmfixed<3>(o.f); else rmfixed<4>(o.f); }
    }
  }
  delete st;
  return 0;
}
