// Correspondence driver for the gradient-slot allocator (model M3, property C08).
// usage: drv_galloc api|obj < ops
//   reset            fresh stack
//   a1 k             handle k := one scalar    (api: register_gradient();  obj: new adouble)
//   av k n           handle k := block of n    (api: register_gradients(n); obj: new aVector(n))
//   af k n           handle k := block of n    (api: register_gradients(n); obj: new active FixedArray<n>), n in 1..4
//   d k              release handle k          (api: unregister_gradient / unregister_gradients; obj: delete)
//   nr               new_recording()
//   rs k n           handle k (a block made by `av`) := block of n, the old block released first
//                    (api: unregister_gradients then register_gradients(n); obj: aVector::resize(n))
//   avx k n          an attempt to make a block of n whose DATA allocation fails with std::bad_alloc (fault injected below):
//                    nothing is registered and handle k does not come to exist (api: nothing; obj: new aVector(n) throws)
//   rsx k n          resize of handle k to n whose data allocation fails: the old block is released, nothing is registered,
//                    the emptied object is destroyed (api: unregister_gradients; obj: resize(n) throws, delete)
// one observation line per op (same text as Adept.GradAlloc.observe)
#include "spy.h"
#include <map>
#include <malloc.h>
#include <cerrno>
#include <new>

// ---- fault injection: the two allocation functions internal::alloc_aligned may call are interposed; only the next data
// allocation made while g_fail_next is set (one library operation) fails.
static bool g_fail_next = false;
static long g_fired = 0;
static bool fault_now(size_t bytes) {
  if (!g_fail_next || bytes > 8192) return false;
  g_fail_next = false; ++g_fired;
  return true;
}
void* operator new[](std::size_t sz) {
  if (fault_now(sz)) throw std::bad_alloc();
  void* p = std::malloc(sz ? sz : 1);
  if (!p) throw std::bad_alloc();
  return p;
}
void operator delete[](void* p) noexcept { std::free(p); }
void operator delete[](void* p, std::size_t) noexcept { std::free(p); }
extern "C" int posix_memalign(void** out, size_t alignment, size_t size) {
  if (fault_now(size)) return ENOMEM;
  void* p = memalign(alignment, size ? size : 1);
  if (!p) return ENOMEM;
  *out = p;
  return 0;
}
using namespace adept;
using verif::SpyStack;

struct Obj {
  int kind; // 1 scalar, 2 vector, 3 fixed
  long idx; int n;
  adouble* s; aVector* v; void* f;
};

template <int N> static void* mkfixed(long& idx) {
  FixedArray<double, true, N>* p = new FixedArray<double, true, N>();
  idx = p->gradient_index();
  return p;
}
template <int N> static void rmfixed(void* p) { delete static_cast<FixedArray<double, true, N>*>(p); }

int main(int argc, char** argv) {
  bool obj = argc > 1 && std::string(argv[1]) == "obj";
  SpyStack* st = new SpyStack();
  std::map<long, Obj> tab;
  std::string line;
  while (std::getline(std::cin, line)) {
    std::vector<std::string> w = verif::words(line);
    if (w.empty()) continue;
    if (w[0] == "reset") {
      if (obj) {
        for (std::map<long, Obj>::iterator it = tab.begin(); it != tab.end(); ++it) {
          Obj& o = it->second;
          if (o.kind == 1) delete o.s; else if (o.kind == 2) delete o.v;
          else { if (o.n == 1) rmfixed<1>(o.f); else if (o.n == 2) rmfixed<2>(o.f); else if (o.n == 3) rmfixed<3>(o.f); else rmfixed<4>(o.f); }
        }
      }
      tab.clear();
      delete st; st = new SpyStack();
      std::cout << "reset\n";
    } else if (w[0] == "a1" && w.size() == 2) {
      Obj o = Obj(); o.kind = 1; o.n = 1;
      if (obj) { o.s = new adouble(); o.idx = o.s->gradient_index(); }
      else o.idx = st->register_gradient();
      tab[atol(w[1].c_str())] = o;
      std::cout << st->alloc_line(o.idx, true) << "\n";
    } else if (w[0] == "av" && w.size() == 3) {
      Obj o = Obj(); o.kind = 2; o.n = atoi(w[2].c_str());
      if (obj) { o.v = new aVector(o.n); o.idx = o.v->gradient_index(); }
      else o.idx = st->register_gradients(o.n);
      tab[atol(w[1].c_str())] = o;
      std::cout << st->alloc_line(o.idx, true) << "\n";
    } else if (w[0] == "af" && w.size() == 3) {
      Obj o = Obj(); o.kind = 3; o.n = atoi(w[2].c_str());
      if (o.n < 1 || o.n > 4) { std::cout << "bad-op\n"; continue; }
      if (obj) {
        if (o.n == 1) o.f = mkfixed<1>(o.idx); else if (o.n == 2) o.f = mkfixed<2>(o.idx);
        else if (o.n == 3) o.f = mkfixed<3>(o.idx); else o.f = mkfixed<4>(o.idx);
      } else o.idx = st->register_gradients(o.n);
      tab[atol(w[1].c_str())] = o;
      std::cout << st->alloc_line(o.idx, true) << "\n";
    } else if (w[0] == "d" && w.size() == 2) {
      long k = atol(w[1].c_str());
      if (!tab.count(k)) { std::cout << "bad-op\n"; continue; }
      Obj o = tab[k]; tab.erase(k);
      if (obj) {
        if (o.kind == 1) delete o.s; else if (o.kind == 2) delete o.v;
        else { if (o.n == 1) rmfixed<1>(o.f); else if (o.n == 2) rmfixed<2>(o.f); else if (o.n == 3) rmfixed<3>(o.f); else rmfixed<4>(o.f); }
      } else {
        if (o.kind == 1) st->unregister_gradient(o.idx); else st->unregister_gradients(o.idx, o.n);
      }
      std::cout << st->alloc_line(0, false) << "\n";
    } else if ((w[0] == "pause" || w[0] == "cont") && w.size() == 1) {
      // registration must not depend on whether recording is paused (pausable builds; no-ops otherwise)
      if (w[0] == "pause") st->pause_recording(); else st->continue_recording();
      std::cout << st->alloc_line(0, false) << "\n";
    } else if (w[0] == "rs" && w.size() == 3) {
      long k = atol(w[1].c_str()); int n = atoi(w[2].c_str());
      if (!tab.count(k) || tab[k].kind != 2 || n < 1) { std::cout << "bad-op\n"; continue; }
      Obj& o = tab[k];
      if (obj) { o.v->resize(n); o.idx = o.v->gradient_index(); }
      else { st->unregister_gradients(o.idx, o.n); o.idx = st->register_gradients(n); }
      o.n = n;
      std::cout << st->alloc_line(o.idx, true) << "\n";
    } else if (w[0] == "avx" && w.size() == 3) {
      int n = atoi(w[2].c_str());
      if (n < 1) { std::cout << "bad-op\n"; continue; }
      if (obj) {
        aVector* v = 0; bool threw = false;
        g_fail_next = true;
        try { v = new aVector(n); } catch (const std::bad_alloc&) { threw = true; }
        g_fail_next = false;
        if (!threw) { delete v; std::cout << "fault-not-delivered\n"; continue; }
      }
      std::cout << st->alloc_line(0, false) << "\n";
    } else if (w[0] == "rsx" && w.size() == 3) {
      long k = atol(w[1].c_str()); int n = atoi(w[2].c_str());
      if (!tab.count(k) || tab[k].kind != 2 || n < 1) { std::cout << "bad-op\n"; continue; }
      Obj o = tab[k]; tab.erase(k);
      if (obj) {
        bool threw = false;
        g_fail_next = true;
        try { o.v->resize(n); } catch (const std::bad_alloc&) { threw = true; }
        g_fail_next = false;
        delete o.v;
        if (!threw) { std::cout << "fault-not-delivered\n"; continue; }
      } else st->unregister_gradients(o.idx, o.n);
      std::cout << st->alloc_line(0, false) << "\n";
    } else if (w[0] == "nr" && w.size() == 1) {
      st->new_recording();
      std::cout << st->alloc_line(0, false) << "\n";
    } else std::cout << "bad-op\n";
  }
  if (obj) {
    for (std::map<long, Obj>::iterator it = tab.begin(); it != tab.end(); ++it) {
      Obj& o = it->second;
      if (o.kind == 1) delete o.s; else if (o.kind == 2) delete o.v;
      else { if (o.n == 1) rmfixed<1>(o.f); else if (o.n == 2) rmfixed<2>(o.f); else if (o.n == 3) rmfixed<3>(o.f); else rmfixed<4>(o.f); }
    }
  }
  delete st;
  return 0;
}
