// rank-1 views indexed with rich index expressions (menu XSHAPES of drv_views.h, all shapes, every role: scalar,
// begin, end, begin+end, stride), through operator(), subset and operator[], const and non-const
#include "drv_views.h"
typedef Array<1,int> A1;
VBase* rich_slice(A1& a, const Call& c) {
  return rich_slice_t<A1, XMENU1, ROLE_S | ROLE_B | ROLE_E | ROLE_BE | ROLE_ST, FAM_END>(a, c);
}
struct Subset1Cont {
  typedef VBase* result_type;
  A1& a; const std::vector<Tok>& t; bool cf; int pos;
  Subset1Cont(A1& a_, const std::vector<Tok>& t_, bool cf_, int pos_) : a(a_), t(t_), cf(cf_), pos(pos_) {}
  template <class X> VBase* operator()(const X& x) {
    int len = a.dimension(0);
    const A1& ca = a;
    if (pos == 0) { if (cf) return wrapc(ca.subset(x, via_end(t[1], len))); return wrap(a.subset(x, via_end(t[1], len))); }
    if (cf) return wrapc(ca.subset(via_end(t[0], len), x));
    return wrap(a.subset(via_end(t[0], len), x));
  }
};
VBase* rich_subset(A1& a, const std::vector<Tok>& t, bool cf) {
  int pos = -1;
  for (size_t k = 0; k < t.size(); ++k) if (t[k].cls == 2) { if (pos >= 0) throw BadOp(); pos = (int)k; }
  Subset1Cont f(a, t, cf, pos);
  return with_xscalar<XMENU1>(t[pos], f);
}
struct Idx1Cont {
  typedef VBase* result_type;
  A1& a; bool cf;
  Idx1Cont(A1& a_, bool cf_) : a(a_), cf(cf_) {}
  template <class X> VBase* operator()(const X& x) { return IdxC<true>::go(a, x, cf); }
};
VBase* rich_idx(A1& a, const Tok& t, bool cf) { Idx1Cont f(a, cf); return with_xscalar<XMENU1>(t, f); }
