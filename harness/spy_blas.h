// Spy BLAS: the Fortran entry points Adept declares in adept/cppblas.cpp, implemented as naive reference
// loops (semantics transcribed from the Netlib reference BLAS), which log every argument and every
// element index they touch.  See spy_blas.cpp.
#ifndef VERIF_SPY_BLAS_H
#define VERIF_SPY_BLAS_H
#include <vector>
#include <string>

namespace verif {

struct BlasCall {
  std::string routine;            // "dgemm", "sgemv", ...
  std::string flags;              // character arguments in declaration order, e.g. "NT", "LU", "N", "U"
  std::vector<int> iv;            // integer arguments in declaration order (gemm: m n k lda ldb ldc; gemv: m n lda incx incy;
                                  //   symm: m n lda ldb ldc; symv: n lda incx incy; gbmv: m n kl ku lda incx incy)
  double alpha, beta;
  const void* p[3];               // array arguments in declaration order (A,B,C or A,X,Y)
  std::vector<long> touched[3];   // element indices relative to p[k] that were read (k = 0,1) or written (k = 2)
  int xerbla;                     // 0, or the number of the illegal parameter (nothing is touched then)
  int elsize;                     // sizeof element
  BlasCall() : alpha(0), beta(0), xerbla(0), elsize(8) { p[0] = p[1] = p[2] = 0; }
};

extern std::vector<BlasCall> blas_log;

} // namespace verif
#endif
