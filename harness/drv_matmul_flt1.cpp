// drv_matmul: element type float (Pf / Qf lines), dense operands and expressions (see drv_matmul.h)
#include "drv_matmul.h"
namespace mm {
bool build_group_flt_dense(const Spec& s, XVisitor& v) {
  if ((s.head[0] != "M" && s.head[0] != "V") || !s.flt) return false;
  build_dense<float>(s, v);
  return true;
}
}
